(* Lex/RenderArms.v — the arms of `parse_token` on the flat view (forward direction):
   if the text at the reader is the lexeme of a token followed by a `rest` at which the arm stops
   (`follow_kv`), then parse_token returns that token's kind and value and the reader stands at `rest`.
   Proved for: all delimiters (pt_delim), tick (pt_tick), character literals (pt_char), string literals
   (pt_string), extended identifiers (pt_extid), basic identifiers and keywords (pt_ident, with the
   base-specifier lookahead pbs_ident/mbs_ident), decimal integer literals without exponent (pt_int). *)
From Coq Require Import List NArith Arith Bool Lia ZifyBool ZifyN.
Import ListNotations.
From RH Require Import Text.Contents Text.ContentsProofs Text.Reader Text.ReaderProofs Text.ReaderInv
  Lex.LangLexer Lex.LangLexerProofs Lex.LexSpec Lex.Render Lex.RenderStream.
Open Scope N_scope.
#[local] Arguments N.add : simpl never.
#[local] Arguments N.sub : simpl never.
#[local] Arguments N.mul : simpl never.
#[local] Arguments N.eqb : simpl never.
#[local] Arguments N.ltb : simpl never.
#[local] Arguments N.leb : simpl never.

Ltac ev_closed :=
  repeat match goal with
  | |- context [N.eqb ?a ?b] =>
      let v := eval vm_compute in (N.eqb a b) in
      match v with true => idtac | false => idtac end; change (N.eqb a b) with v
  | |- context [N.leb ?a ?b] =>
      let v := eval vm_compute in (N.leb a b) in
      match v with true => idtac | false => idtac end; change (N.leb a b) with v
  | |- context [N.ltb ?a ?b] =>
      let v := eval vm_compute in (N.ltb a b) in
      match v with true => idtac | false => idtac end; change (N.ltb a b) with v
  end.

Lemma opt_is_hd : forall r v, opt_is (hd_error r) v = hd_is r v.
Proof. intros [|c r] v; reflexivity. Qed.
Lemma hd_lat_of_b : forall r, hd_lat_b r = true -> hd_lat r.
Proof. intros [|c r] H; cbn in *; [exact I|lia]. Qed.

Section Arms.
  Variable d : list (list char).
  Hypothesis HD : cdoc d.
  Variable F : nat.
  Local Notation At := (At d).
  Local Notation PT := (parse_token d keywords_2008 F true).

  Definition tokres (k : kind) : res (option tokv) := Ok (Some (k, VNone, None)).

  Lemma two_no : forall c k2 k1 st rest, At st rest -> hd_lat rest -> hd_is rest c = false ->
    exists st', two d c k2 k1 st = (tokres k1, st') /\ At st' rest.
  Proof.
    intros c k2 k1 st rest HA HL H. unfold two, bind. destruct (skip_if_flat d HD c _ _ HA HL) as [st' [E HA']].
    rewrite E, H in *. unfold simple, ret. eexists. split; [reflexivity|exact HA'].
  Qed.
  Lemma two_yes : forall c k2 k1 st rest, At st (c :: rest) -> c < 256 ->
    exists st', two d c k2 k1 st = (tokres k2, st') /\ At st' rest.
  Proof.
    intros c k2 k1 st rest HA HL. unfold two, bind. destruct (skip_if_flat d HD c _ _ HA HL) as [st' [E HA']].
    cbn [hd_is tl] in *. rewrite N.eqb_refl in *. rewrite E. unfold simple, ret. eexists. split; [reflexivity|exact HA'].
  Qed.
  Lemma bind_peek_flat : forall A (k : option N -> M A) st rest, At st rest -> hd_lat rest ->
    bind (peek d) k st = k (hd_error rest) st.
  Proof. intros A k st rest HA HL. unfold bind. rewrite (peek_flat d HD _ _ HA HL). reflexivity. Qed.
  Lemma bind_skip : forall A (k : unit -> M A) st c rest, At st (c :: rest) ->
    bind (skip d) k st = k tt (skip_char st c).
  Proof. intros A k st c rest HA. unfold bind. rewrite (skip_cons d HD _ _ _ HA). reflexivity. Qed.

  Ltac delim_start HA :=
    unfold parse_token; unfold bind at 1; rewrite (peek_cons d HD _ _ _ HA) by lia; cbv beta iota;
    cbv [is_alpha is_lower is_upper is_digit in_range]; ev_closed; cbn [andb orb]; cbv iota;
    rewrite (bind_skip _ _ _ _ _ HA); ev_closed; cbv iota.
  Ltac fin := unfold simple, ret, tokres; eexists; split; [reflexivity|eauto using at_skip].

  Lemma pt_delim : forall k start last st rest,
    delim_kind k = true -> k <> KTick ->
    At st (delim_text k ++ rest) -> hd_lat_b rest = true -> follow_delim last k rest = true ->
    exists st', PT start last st = (tokres k, st') /\ At st' rest.
  Proof.
    intros k start last st rest Hk Hnt HA HL HF. pose proof (hd_lat_of_b _ HL) as HL'.
    pose proof (at_skip d HD) as SK.
    destruct k; try discriminate Hk; try (exfalso; apply Hnt; reflexivity); cbn [delim_text app] in HA; cbn [follow_delim] in HF;
      delim_start HA.
    - (* Colon *) apply two_no; [eapply SK; exact HA|exact HL'|]. destruct (hd_is rest 61); [discriminate|reflexivity].
    - (* ColonEq *) apply two_yes; [eapply SK; exact HA|lia].
    - fin.
    - fin.
    - fin.
    - fin.
    - fin.
    - fin.
    - fin.
    - fin.
    - (* EQ *) apply two_no; [eapply SK; exact HA|exact HL'|]. destruct (hd_is rest 62); [discriminate|reflexivity].
    - apply two_yes; [eapply SK; exact HA|lia].
    - (* LT *) rewrite (bind_peek_flat _ _ _ _ (SK _ _ _ HA) HL'). rewrite !opt_is_hd.
      destruct (hd_is rest 61), (hd_is rest 62), (hd_is rest 60); try discriminate HF. fin.
    - (* LTE *) rewrite (bind_peek_flat _ _ _ _ (SK _ _ _ HA)) by (cbn; lia). cbn [hd_error opt_is]. ev_closed. cbv iota.
      rewrite (bind_skip _ _ _ _ _ (SK _ _ _ HA)). fin.
    - rewrite (bind_peek_flat _ _ _ _ (SK _ _ _ HA)) by (cbn; lia). cbn [hd_error opt_is]. ev_closed. cbv iota.
      rewrite (bind_skip _ _ _ _ _ (SK _ _ _ HA)). fin.
    - rewrite (bind_peek_flat _ _ _ _ (SK _ _ _ HA)) by (cbn; lia). cbn [hd_error opt_is]. ev_closed. cbv iota.
      rewrite (bind_skip _ _ _ _ _ (SK _ _ _ HA)). fin.
    - (* GT *) rewrite (bind_peek_flat _ _ _ _ (SK _ _ _ HA) HL'). rewrite !opt_is_hd.
      destruct (hd_is rest 61), (hd_is rest 62); try discriminate HF. fin.
    - rewrite (bind_peek_flat _ _ _ _ (SK _ _ _ HA)) by (cbn; lia). cbn [hd_error opt_is]. ev_closed. cbv iota.
      rewrite (bind_skip _ _ _ _ _ (SK _ _ _ HA)). fin.
    - rewrite (bind_peek_flat _ _ _ _ (SK _ _ _ HA)) by (cbn; lia). cbn [hd_error opt_is]. ev_closed. cbv iota.
      rewrite (bind_skip _ _ _ _ _ (SK _ _ _ HA)). fin.
    - (* Div *) apply two_no; [eapply SK; exact HA|exact HL'|]. destruct (hd_is rest 61); [discriminate|reflexivity].
    - apply two_yes; [eapply SK; exact HA|lia].
    - (* Times *) apply two_no; [eapply SK; exact HA|exact HL'|]. destruct (hd_is rest 42); [discriminate|reflexivity].
    - apply two_yes; [eapply SK; exact HA|lia].
    - (* Que *) rewrite (bind_peek_flat _ _ _ _ (SK _ _ _ HA) HL'). rewrite !opt_is_hd.
      destruct (hd_is rest 63), (hd_is rest 61), (hd_is rest 47), (hd_is rest 60), (hd_is rest 62); try discriminate HF. fin.
    - (* QueQue *) rewrite (bind_peek_flat _ _ _ _ (SK _ _ _ HA)) by (cbn; lia). cbn [hd_error opt_is]. ev_closed. cbv iota.
      rewrite (bind_skip _ _ _ _ _ (SK _ _ _ HA)). fin.
    - rewrite (bind_peek_flat _ _ _ _ (SK _ _ _ HA)) by (cbn; lia). cbn [hd_error opt_is]. ev_closed. cbv iota.
      rewrite (bind_skip _ _ _ _ _ (SK _ _ _ HA)). fin.
    - (* QueNE ?/= *) rewrite (bind_peek_flat _ _ _ _ (SK _ _ _ HA)) by (cbn; lia). cbn [hd_error opt_is]. ev_closed. cbv iota.
      rewrite (bind_skip _ _ _ _ _ (SK _ _ _ HA)).
      unfold bind. destruct (skip_if_flat d HD 61 _ _ (SK _ _ _ (SK _ _ _ HA))) as [st' [E HA']]; [cbn; lia|].
      cbn [hd_is tl] in *. ev_closed. rewrite E. fin.
    - (* QueLT *) rewrite (bind_peek_flat _ _ _ _ (SK _ _ _ HA)) by (cbn; lia). cbn [hd_error opt_is]. ev_closed. cbv iota.
      rewrite (bind_skip _ _ _ _ _ (SK _ _ _ HA)).
      apply two_no; [eapply SK; eapply SK; exact HA|exact HL'|]. destruct (hd_is rest 61); [discriminate|reflexivity].
    - rewrite (bind_peek_flat _ _ _ _ (SK _ _ _ HA)) by (cbn; lia). cbn [hd_error opt_is]. ev_closed. cbv iota.
      rewrite (bind_skip _ _ _ _ _ (SK _ _ _ HA)).
      apply two_yes; [eapply SK; eapply SK; exact HA|lia].
    - (* QueGT *) rewrite (bind_peek_flat _ _ _ _ (SK _ _ _ HA)) by (cbn; lia). cbn [hd_error opt_is]. ev_closed. cbv iota.
      rewrite (bind_skip _ _ _ _ _ (SK _ _ _ HA)).
      apply two_no; [eapply SK; eapply SK; exact HA|exact HL'|]. destruct (hd_is rest 61); [discriminate|reflexivity].
    - rewrite (bind_peek_flat _ _ _ _ (SK _ _ _ HA)) by (cbn; lia). cbn [hd_error opt_is]. ev_closed. cbv iota.
      rewrite (bind_skip _ _ _ _ _ (SK _ _ _ HA)).
      apply two_yes; [eapply SK; eapply SK; exact HA|lia].
    - fin.
    - fin.
    - fin.
    - fin.
    - fin.
  Qed.


  (* ---------- tick and character literal ---------- *)
  Lemma pt_tick : forall start last st rest, At st (39 :: rest) -> hd_lat_b rest = true ->
    negb (can_be_char last) || snd_not_tick rest = true ->
    exists st', PT start last st = (tokres KTick, st') /\ At st' rest.
  Proof.
    intros start last st rest HA HL HF. pose proof (hd_lat_of_b _ HL) as HL'. pose proof (at_skip d HD) as SK.
    delim_start HA. destruct (can_be_char last); [|fin]. cbn [negb orb] in HF.
    unfold bind at 1. unfold parse_character_literal, char_lookahead. unfold bind at 1.
    destruct rest as [|c1 r2].
    - rewrite (pop_nil d HD _ (SK _ _ _ HA)). unfold ret. fin.
    - cbn [hd_lat_b] in HL. rewrite (pop_cons d HD _ _ _ (SK _ _ _ HA)) by lia. unfold bind.
      assert (HL2 : hd_lat r2 /\ hd_is r2 39 = false).
      { destruct r2 as [|c2 r3]; cbn [snd_not_tick hd_lat hd_is] in *; [split; [exact I|reflexivity]|lia]. }
      destruct HL2 as [HL2 H39].
      destruct (skip_if_flat d HD 39 _ _ (SK _ _ _ (SK _ _ _ HA)) HL2) as [st' [E HA']]. rewrite E, H39. unfold ret. fin.
  Qed.
  Lemma pt_char : forall start last st c rest, At st (39 :: c :: 39 :: rest) -> c < 256 -> can_be_char last = true ->
    exists st', PT start last st = (Ok (Some (KCharacter, VChar c, None)), st') /\ At st' rest.
  Proof.
    intros start last st c rest HA Hc HF. pose proof (at_skip d HD) as SK.
    delim_start HA. rewrite HF. unfold bind at 1. unfold parse_character_literal, char_lookahead. unfold bind at 1.
    rewrite (pop_cons d HD _ _ _ (SK _ _ _ HA)) by lia. unfold bind.
    destruct (skip_if_flat d HD 39 _ _ (SK _ _ _ (SK _ _ _ HA))) as [st' [E HA']]; [cbn; lia|].
    cbn [hd_is tl] in *. ev_closed. rewrite E. unfold ret. cbn [fst snd]. eexists. split; [reflexivity|exact HA'].
  Qed.

  (* ---------- string literal and extended identifier ---------- *)
  Lemma parse_quoted_body : forall q incl v st rest,
    Forall (fun c => c < 256) v -> forallb (fun c => negb (c =? 10)) v = true -> q < 256 -> q <> 10 ->
    hd_lat rest -> hd_is rest q = false ->
    At st (escape q v ++ q :: rest) -> Nat.lt (length (escape q v ++ q :: rest)) F ->
    exists st', parse_quoted d F q incl st = (Ok ((if incl then [q] else []) ++ v ++ (if incl then [q] else [])), st') /\ At st' rest.
  Proof.
    intros q incl v st rest Hv Hnl Hq Hq10 HL Hr HA Hf. unfold parse_quoted. unfold bind at 1. unfold get_pos.
    unfold bind at 1. unfold try.
    destruct (quoted_loop_body d HD v F q (if incl then [q] else []) false st rest Hv Hq HL Hr HA Hf) as [st' [E HA']].
    rewrite E. cbv beta iota.
    assert (Hm : existsb (fun c => c =? 10) v = false).
    { clear -Hnl. induction v as [|x v IH]; [reflexivity|]. cbn [forallb existsb] in *. apply andb_true_iff in Hnl.
      destruct Hnl as [H1 H2]. rewrite (IH H2). destruct (x =? 10); [discriminate|reflexivity]. }
    rewrite Hm. replace (q =? 10) with false by lia. cbn [orb]. unfold bind, get_pos. cbn [negb]. unfold ret.
    eexists. split; [|exact HA']. destruct incl; rewrite <- ?app_assoc, ?app_nil_r; reflexivity.
  Qed.


  Lemma pt_string : forall start last st v rest,
    Forall (fun c => c < 256) v -> forallb (fun c => negb (c =? 10)) v = true ->
    hd_lat rest -> hd_is rest 34 = false ->
    At st (34 :: escape 34 v ++ 34 :: rest) -> Nat.lt (length (34 :: escape 34 v ++ 34 :: rest)) F ->
    exists st', PT start last st = (Ok (Some (KStringLiteral, VString v, None)), st') /\ At st' rest.
  Proof.
    intros start last st v rest Hv Hnl HL Hr HA Hf. delim_start HA. unfold bind.
    assert (Q1 : 34 < 256) by lia. assert (Q2 : 34 <> 10) by lia.
    destruct (parse_quoted_body 34 false v _ rest Hv Hnl Q1 Q2 HL Hr (at_skip d HD _ _ _ HA)) as [st' [E HA']];
      [cbn [length] in Hf; unfold Nat.lt in *; lia|].
    rewrite E. cbn [app]. rewrite app_nil_r. unfold ret. eexists. split; [reflexivity|exact HA'].
  Qed.
  Lemma pt_extid : forall start last st v rest,
    Forall (fun c => c < 256) v -> forallb (fun c => negb (c =? 10)) v = true ->
    hd_lat rest -> hd_is rest 92 = false ->
    At st (92 :: escape 92 v ++ 92 :: rest) -> Nat.lt (length (92 :: escape 92 v ++ 92 :: rest)) F ->
    exists st', PT start last st = (Ok (Some (KIdentifier, VIdent (92 :: v ++ [92]), None)), st') /\ At st' rest.
  Proof.
    intros start last st v rest Hv Hnl HL Hr HA Hf. delim_start HA. unfold bind.
    assert (Q1 : 92 < 256) by lia. assert (Q2 : 92 <> 10) by lia.
    destruct (parse_quoted_body 92 true v _ rest Hv Hnl Q1 Q2 HL Hr (at_skip d HD _ _ _ HA)) as [st' [E HA']];
      [cbn [length] in Hf; unfold Nat.lt in *; lia|].
    rewrite E. cbn [app]. unfold ret. eexists. split; [reflexivity|exact HA'].
  Qed.

  (* ---------- identifiers and keywords ---------- *)
  Lemma idc_lat : forall c, is_idc c = true -> c < 256.
  Proof. intros c H. unfold is_idc, is_alnum, is_alpha, is_lower, is_upper, is_digit, in_range in H. lia. Qed.
  Lemma idc_not34 : forall c, is_idc c = true -> (c =? 34) = false.
  Proof. intros c H. unfold is_idc, is_alnum, is_alpha, is_lower, is_upper, is_digit, in_range in H. lia. Qed.
  Lemma lowercase_small : forall c v, 97 <= v <= 122 -> lowercase c = v -> is_idc c = true.
  Proof.
    intros c v Hv H. unfold lowercase, in_range in H. unfold is_idc, is_alnum, is_alpha, is_lower, is_upper, is_digit, in_range.
    destruct (c =? 215); [lia|].
    destruct ((65 <=? c) && (c <=? 90) || (192 <=? c) && (c <=? 214) || (216 <=? c) && (c <=? 222)) eqn:E; lia.
  Qed.
  Definition bs2b (b : N) : bool := (lowercase b =? 98) || (lowercase b =? 111) || (lowercase b =? 120).
  Lemma bs2b_idc : forall c, bs2b c = true -> is_idc c = true.
  Proof.
    intros c H. unfold bs2b in H. apply orb_true_iff in H. destruct H as [H|H]; [apply orb_true_iff in H; destruct H as [H|H]|];
      apply N.eqb_eq in H; (eapply lowercase_small; [|exact H]); lia.
  Qed.

  Lemma bs_second_none : forall off st r, At st r -> hd_lat r -> hd_sat r is_idc = false ->
    exists st', bs_second d off st = (Ok None, st').
  Proof.
    intros off st r HA HL Hn. unfold bs_second, bind. destruct r as [|c r].
    - rewrite (pop_lowercase_nil d HD _ HA). unfold ret. eexists. reflexivity.
    - cbn [hd_lat hd_sat] in *. rewrite (pop_lowercase_cons d HD _ _ _ HA HL). unfold ret.
      assert (Hb : bs2b c = false) by (destruct (bs2b c) eqn:E; [rewrite (bs2b_idc _ E) in Hn; discriminate|reflexivity]).
      unfold bs2b in Hb. apply orb_false_iff in Hb. destruct Hb as [Hb H3]. apply orb_false_iff in Hb. destruct Hb as [H1 H2].
      rewrite H1, H2, H3. eexists. reflexivity.
  Qed.

  Definition NoneOrErr {A} (r : res (option A)) : Prop := r = Ok None \/ exists e, r = Er e.
  Lemma quote_none : forall (code : N) st1 r1, At st1 r1 -> hd_lat r1 -> hd_is r1 34 = false ->
    exists r st', (oq <- pop d ;; ret (if opt_is oq 34 then Some code else None)) st1 = (r, st') /\ NoneOrErr r.
  Proof.
    intros code st1 r1 H1 L1 N1. unfold bind. destruct r1 as [|c r1].
    - rewrite (pop_nil d HD _ H1). unfold ret. cbn [opt_is]. eexists _, _. split; [reflexivity|left; reflexivity].
    - cbn [hd_lat hd_is] in *. rewrite (pop_cons d HD _ _ _ H1 L1). unfold ret. cbn [opt_is]. rewrite N1.
      eexists _, _. split; [reflexivity|left; reflexivity].
  Qed.
  Lemma idc_app_lat : forall m rest, forallb is_idc m = true -> hd_lat rest -> hd_lat (m ++ rest).
  Proof.
    intros [|x m] rest Hm HL; cbn [app]; [exact HL|]. cbn [forallb] in Hm. apply andb_true_iff in Hm. cbn [hd_lat]. apply idc_lat. apply Hm.
  Qed.
  Lemma idc_app_noq : forall m rest, forallb is_idc m = true -> m <> [] -> hd_is (m ++ rest) 34 = false.
  Proof.
    intros [|x m] rest Hm Hx; [congruence|]. cbn [app hd_is]. cbn [forallb] in Hm. apply andb_true_iff in Hm. apply idc_not34. apply Hm.
  Qed.
  Lemma idc_app_sat : forall m rest, forallb is_idc m = true -> hd_sat rest is_idc = false ->
    hd_sat (m ++ rest) is_idc = match m with [] => false | _ => true end.
  Proof.
    intros [|x m] rest Hm Hr; cbn [app]; [exact Hr|]. cbn [forallb hd_sat] in *. apply andb_true_iff in Hm. apply Hm.
  Qed.

  (* the part of parse_base_specifier after a first letter `u` or `s` *)
  Lemma second_part : forall off n1 rest st1,
    forallb is_idc n1 = true -> hd_lat rest -> hd_sat rest is_idc = false ->
    (forall b, n1 = [b] -> bs2b b = true -> hd_is rest 34 = false) ->
    At st1 (n1 ++ rest) ->
    exists r st', (ocode <- bs_second d off ;;
                   match ocode with
                   | None => ret None
                   | Some code => oq <- pop d ;; ret (if opt_is oq 34 then Some code else None)
                   end) st1 = (r, st') /\ NoneOrErr r.
  Proof.
    intros off n1 rest st1 Hn1 HL Hr Hbs HA1. unfold bind at 1. destruct n1 as [|b n2].
    - cbn [app] in HA1. destruct (bs_second_none off _ _ HA1 HL Hr) as [st2 E]. rewrite E. unfold ret.
      eexists _, _. split; [reflexivity|left; reflexivity].
    - cbn [app] in HA1. cbn [forallb] in Hn1. apply andb_true_iff in Hn1. destruct Hn1 as [Hb Hn2].
      unfold bs_second, bind at 1. rewrite (pop_lowercase_cons d HD _ _ _ HA1 (idc_lat _ Hb)). unfold ret at 1.
      pose proof (at_skip d HD _ _ _ HA1) as HA2.
      assert (Hgo : bs2b b = true -> hd_is (n2 ++ rest) 34 = false).
      { intro Eb. destruct n2 as [|x n3]; [|apply idc_app_noq; [exact Hn2|discriminate]]. cbn [app]. apply (Hbs b eq_refl Eb). }
      unfold bs2b in Hgo.
      destruct (lowercase b =? 98) eqn:E1; [|destruct (lowercase b =? 111) eqn:E2; [|destruct (lowercase b =? 120) eqn:E3]];
        cbv beta iota; cbn [orb] in Hgo.
      + apply (quote_none _ _ _ HA2 (idc_app_lat _ _ Hn2 HL) (Hgo eq_refl)).
      + apply (quote_none _ _ _ HA2 (idc_app_lat _ _ Hn2 HL) (Hgo eq_refl)).
      + apply (quote_none _ _ _ HA2 (idc_app_lat _ _ Hn2 HL) (Hgo eq_refl)).
      + unfold ret. eexists _, _. split; [reflexivity|left; reflexivity].
  Qed.

  (* after the identifier `n` comes `rest`: the base-specifier lookahead fails (result None or an error) *)
  Lemma pbs_ident : forall n st rest,
    n <> [] -> forallb is_idc n = true -> hd_lat rest -> hd_sat rest is_idc = false ->
    is_bs_name n && hd_is rest 34 = false -> At st (n ++ rest) ->
    exists r st', parse_base_specifier d st = (r, st') /\ NoneOrErr r.
  Proof.
    intros n st rest Hne Hn HL Hr Hbs HA. destruct n as [|a n1]; [congruence|]. clear Hne.
    cbn [forallb] in Hn. apply andb_true_iff in Hn. destruct Hn as [Ha Hn1]. cbn [app] in HA.
    unfold parse_base_specifier. unfold bind at 1. rewrite (pop_lowercase_cons d HD _ _ _ HA (idc_lat _ Ha)).
    pose proof (at_skip d HD _ _ _ HA) as HA1. cbv beta iota.
    destruct (lowercase a =? 117) eqn:E117; [|destruct (lowercase a =? 115) eqn:E115].
    - refine (second_part _ n1 rest _ Hn1 HL Hr _ HA1). intros b -> Eb. destruct (hd_is rest 34) eqn:E34; [|reflexivity].
      unfold is_bs_name in Hbs. cbn [map] in Hbs. unfold bs2b in Eb. rewrite E117, Eb in Hbs. discriminate.
    - refine (second_part _ n1 rest _ Hn1 HL Hr _ HA1). intros b -> Eb. destruct (hd_is rest 34) eqn:E34; [|reflexivity].
      unfold is_bs_name in Hbs. cbn [map] in Hbs. unfold bs2b in Eb. rewrite E115, Eb in Hbs. rewrite orb_true_r in Hbs. discriminate.
    - unfold bind at 1. unfold ret at 1.
      assert (Hgo : (lowercase a =? 98) || (lowercase a =? 111) || (lowercase a =? 120) || (lowercase a =? 100) = true ->
                    hd_is (n1 ++ rest) 34 = false).
      { intro Eb. destruct n1 as [|x n3]; [|apply idc_app_noq; [exact Hn1|discriminate]]. cbn [app].
        destruct (hd_is rest 34) eqn:E34; [|reflexivity]. unfold is_bs_name in Hbs. cbn [map] in Hbs. rewrite Eb in Hbs. discriminate. }
      destruct (lowercase a =? 98) eqn:E1; [|destruct (lowercase a =? 111) eqn:E2; [|destruct (lowercase a =? 120) eqn:E3;
        [|destruct (lowercase a =? 100) eqn:E4]]]; cbn [orb] in Hgo.
      + apply (quote_none _ _ _ HA1 (idc_app_lat _ _ Hn1 HL) (Hgo eq_refl)).
      + apply (quote_none _ _ _ HA1 (idc_app_lat _ _ Hn1 HL) (Hgo eq_refl)).
      + apply (quote_none _ _ _ HA1 (idc_app_lat _ _ Hn1 HL) (Hgo eq_refl)).
      + apply (quote_none _ _ _ HA1 (idc_app_lat _ _ Hn1 HL) (Hgo eq_refl)).
      + unfold ret. eexists _, _. split; [reflexivity|left; reflexivity].
  Qed.

  Lemma mbs_ident : forall n st rest,
    n <> [] -> forallb is_idc n = true -> hd_lat rest -> hd_sat rest is_idc = false ->
    is_bs_name n && hd_is rest 34 = false -> At st (n ++ rest) ->
    maybe_base_specifier d true st = (Ok None, st).
  Proof.
    intros n st rest Hne Hn HL Hr Hbs HA. unfold maybe_base_specifier.
    destruct (pbs_ident n st rest Hne Hn HL Hr Hbs HA) as [r [st' [E [->|[e ->]]]]]; rewrite E; reflexivity.
  Qed.

  Lemma pt_ident : forall start last st n rest,
    hd_sat n (fun c => is_alpha c || (c =? 95)) = true -> forallb is_idc n = true ->
    hd_lat rest -> hd_sat rest is_idc = false -> is_bs_name n && hd_is rest 34 = false ->
    At st (n ++ rest) -> Nat.lt (length (n ++ rest)) F ->
    exists st', PT start last st
      = (Ok (Some (fst (insert_or_keyword keywords_2008 n), snd (insert_or_keyword keywords_2008 n), validate_basic_identifier n)), st')
      /\ At st' rest.
  Proof.
    intros start last st n rest Hh Hn HL Hr Hbs HA Hf.
    destruct n as [|a n1]; [discriminate|]. cbn [hd_sat] in Hh.
    assert (Ha : is_idc a = true) by (cbn [forallb] in Hn; apply andb_true_iff in Hn; apply Hn).
    unfold parse_token. unfold bind at 1. cbn [app] in HA. rewrite (peek_cons d HD _ _ _ HA (idc_lat _ Ha)). cbv beta iota.
    rewrite Hh. unfold bind at 1. unfold get_state. unfold bind at 1.
    change (a :: n1 ++ rest) with ((a :: n1) ++ rest) in HA.
    rewrite (mbs_ident (a :: n1) st rest ltac:(discriminate) Hn HL Hr Hbs HA). cbv beta iota.
    unfold parse_basic_identifier_or_keyword, bind.
    assert (SP : span is_idc ((a :: n1) ++ rest) = (a :: n1, rest)).
    { apply span_all_stop; [exact Hn|]. destruct rest as [|c r]; [exact I|exact Hr]. }
    destruct (ident_loop_flat d HD F [] st _ HA Hf) as [st' [E HA']].
    { rewrite SP. exact HL. }
    rewrite SP in E, HA'. cbn [fst snd app] in E, HA'. rewrite E. unfold ret. eexists. split; [reflexivity|exact HA'].
  Qed.


  (* ---------- decimal integer literals without exponent ---------- *)
  Definition is_du (c : N) : bool := is_digit c || (c =? 95).
  Lemma int_loop_digits : forall txt fuel acc0 t0 st rest n,
    forallb is_du txt = true -> dec_value acc0 txt = Some n ->
    hd_lat rest -> hd_sat rest is_idc = false ->
    At st (txt ++ rest) -> Nat.lt (length (txt ++ rest)) fuel ->
    exists st', parse_integer_loop d fuel 10 true (Some acc0) t0 None None st = (Ok (Some n, t0 ++ txt, None, None), st') /\ At st' rest.
  Proof.
    induction txt as [|b txt IH]; intros fuel acc0 t0 st rest n Ht Hv HL Hr HA Hf.
    - cbn [app] in HA, Hf. cbn [dec_value] in Hv. injection Hv as <-. destruct fuel as [|f]; [unfold Nat.lt in Hf; lia|].
      cbn [parse_integer_loop]. rewrite (bind_peek_flat _ _ _ _ HA HL). destruct rest as [|c rest]; cbn [hd_error].
      + unfold ret. rewrite app_nil_r. eexists. split; [reflexivity|exact HA].
      + cbn [hd_sat hd_lat] in *.
        assert (E1 : is_hex c = false /\ (c =? 95) = false /\ is_alpha c = false).
        { unfold is_idc, is_alnum, is_alpha, is_lower, is_upper, is_digit, in_range in Hr.
          unfold is_hex, is_alpha, is_lower, is_upper, is_digit, in_range. lia. }
        destruct E1 as [E1 [E2 E3]]. rewrite E1, E2, E3. destruct (stop_suffix c); cbn [andb]; unfold ret; rewrite app_nil_r;
          eexists; (split; [reflexivity|exact HA]).
    - cbn [forallb] in Ht. apply andb_true_iff in Ht. destruct Ht as [Hb Ht]. cbn [app] in HA, Hf. cbn [length] in Hf.
      destruct fuel as [|f]; [unfold Nat.lt in Hf; lia|]. unfold Nat.lt in *.
      assert (Lb : b < 256) by (unfold is_du, is_digit, in_range in Hb; lia).
      cbn [parse_integer_loop]. unfold bind at 1. rewrite (peek_cons d HD _ _ _ HA Lb). cbv beta iota.
      cbn [dec_value] in Hv. unfold is_du in Hb. destruct (b =? 95) eqn:E95.
      + apply N.eqb_eq in E95. subst b. replace (stop_suffix 95) with false by reflexivity. cbn [andb].
        replace (is_hex 95) with false by reflexivity. ev_closed. cbv iota.
        rewrite (bind_skip _ _ _ _ _ HA).
        destruct (IH f acc0 (t0 ++ [95]) _ rest n Ht Hv HL Hr (at_skip d HD _ _ _ HA)) as [st' [E HA']]; [lia|].
        rewrite E. rewrite <- app_assoc. eexists. split; [reflexivity|exact HA'].
      + rewrite orb_false_r in Hb.
        assert (Es : stop_suffix b = false) by (unfold stop_suffix; unfold is_digit, in_range in Hb; lia).
        assert (Eh : is_hex b = true) by (unfold is_hex; rewrite Hb; reflexivity).
        rewrite Es, Eh. cbn [andb]. unfold bind at 1. unfold get_pos.
        rewrite (bind_skip _ _ _ _ _ HA).
        assert (Ev : hex_val b = b - 48) by (unfold hex_val; rewrite Hb; reflexivity). rewrite Ev.
        replace (10 <=? b - 48) with false by (unfold is_digit, in_range in Hb; lia).
        rewrite Hb in Hv. cbv zeta in Hv. destruct (10 * acc0 + (b - 48) <? TWO64) eqn:Eo; [|discriminate].
        destruct (IH f _ (t0 ++ [b]) _ rest n Ht Hv HL Hr (at_skip d HD _ _ _ HA)) as [st' [E HA']]; [lia|].
        rewrite E. rewrite <- app_assoc. eexists. split; [reflexivity|exact HA'].
  Qed.

  Lemma lowercase_nonidc : forall c v, is_idc c = false -> v <= 122 -> lowercase c = v -> c = v.
  Proof.
    intros c v Hc Hv H. unfold lowercase, in_range in H. unfold is_idc, is_alnum, is_alpha, is_lower, is_upper, is_digit, in_range in Hc.
    destruct (c =? 215); [lia|].
    destruct ((65 <=? c) && (c <=? 90) || (192 <=? c) && (c <=? 214) || (216 <=? c) && (c <=? 222)) eqn:E; lia.
  Qed.

  Lemma pt_int : forall start last st txt n rest,
    hd_sat txt is_digit = true -> forallb is_du txt = true -> dec_value 0 txt = Some n ->
    hd_lat rest -> num_follow txt rest = true ->
    At st (txt ++ rest) -> Nat.lt (length (txt ++ rest)) F ->
    exists st', PT start last st = (Ok (Some (KAbstractLiteral, VAbsInt txt n, None)), st') /\ At st' rest.
  Proof.
    intros start last st txt n rest Hh Ht Hv HL HF HA Hf.
    unfold num_follow in HF. apply andb_true_iff in HF. destruct HF as [HF _]. apply andb_true_iff in HF. destruct HF as [HF H58]. apply andb_true_iff in HF. destruct HF as [HF H35]. apply andb_true_iff in HF. destruct HF as [Hr H46].
    apply negb_true_iff in Hr, H46, H35, H58.
    destruct txt as [|a t1]; [discriminate|]. cbn [hd_sat] in Hh.
    assert (La : a < 256) by (unfold is_digit, in_range in Hh; lia).
    unfold parse_token. unfold bind at 1. cbn [app] in HA. rewrite (peek_cons d HD _ _ _ HA La). cbv beta iota.
    replace (is_alpha a || (a =? 95)) with false by (unfold is_alpha, is_lower, is_upper, is_digit, in_range in *; lia).
    rewrite Hh. unfold lift_kv. unfold bind at 1.
    unfold parse_abstract_literal. unfold bind at 1. unfold get_state. unfold bind at 1. unfold try.
    unfold parse_integer. unfold bind at 1. unfold get_pos at 1. unfold bind at 1.
    change (a :: t1 ++ rest) with ((a :: t1) ++ rest) in HA.
    destruct (int_loop_digits (a :: t1) F 0 [] st rest n Ht Hv HL Hr HA Hf) as [st' [E HA']].
    rewrite E. cbv beta iota. unfold ret at 1. cbn [app].
    unfold bind at 1. unfold get_pos at 1.
    rewrite (bind_peek_flat _ _ _ _ HA' HL) || idtac.
    unfold bind at 1. rewrite (peek_lowercase_flat d HD _ _ HA' HL).
    destruct rest as [|c rest]; cbn [hd_error option_map].
    - unfold abs_plain, bind, of_result, ret, lit_int. cbn [fst snd]. eexists. split; [reflexivity|exact HA'].
    - cbn [hd_sat hd_is] in *.
      assert (N46 : (lowercase c =? 46) = false).
      { destruct (lowercase c =? 46) eqn:E1; [|reflexivity]. apply N.eqb_eq in E1. apply (lowercase_nonidc _ _ Hr) in E1; lia. }
      assert (N35 : (lowercase c =? 35) = false).
      { destruct (lowercase c =? 35) eqn:E1; [|reflexivity]. apply N.eqb_eq in E1. apply (lowercase_nonidc _ _ Hr) in E1; lia. }
      assert (N58 : (lowercase c =? 58) = false).
      { destruct (lowercase c =? 58) eqn:E1; [|reflexivity]. apply N.eqb_eq in E1. apply (lowercase_nonidc _ _ Hr) in E1; lia. }
      assert (NL : forall v, 97 <= v <= 122 -> (lowercase c =? v) = false).
      { intros v Hv'. destruct (lowercase c =? v) eqn:E1; [|reflexivity]. apply N.eqb_eq in E1.
        assert (Hv2 : v <= 122) by lia. pose proof (lowercase_nonidc _ _ Hr Hv2 E1) as E2. subst v.
        unfold is_idc, is_alnum, is_alpha, is_lower, in_range in Hr. lia. }
      rewrite N46, (NL 101), N35, N58 by lia. unfold is_bs_letter. rewrite !NL by lia. cbn [orb].
      unfold abs_plain, bind, of_result, ret, lit_int. cbn [fst snd]. eexists. split; [reflexivity|exact HA'].
  Qed.
End Arms.
