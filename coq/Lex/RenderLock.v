(* Lex/RenderLock.v — "the end of the input behaves like any character that does not continue the lexeme":
   lockstep of two runs of the tokenizer, one on a document d1 that ends with the lexeme, one on a document d2 in
   which the lexeme is followed by a text x.  `L st s u`: both readers have the part u of the lexeme still to
   read (then d1 ends, d2 continues with x).  For every function of the literal arms of parse_token — parse_integer,
   parse_exponent, parse_real_literal, parse_quoted, parse_base_specifier, parse_bit_string, the five arms of
   parse_abstract_literal, parse_abstract_literal and parse_token itself — a successful run on d1 is matched by a
   run on d2 with the same result that stops at the same place, provided x starts with a character of the follow
   set (no identifier character, `.`, `#` behind a number; no sign behind a trailing `e`; no double quote behind a string
   or bit string; no backslash behind an extended identifier).  Together with C11_parse_token_stops_at_eof this gives
   the follow-set version of "the arm stops at the end of its lexeme" (used in Lex/RenderFull.v). *)
From Coq Require Import List NArith Arith Bool Lia ZifyBool ZifyN.
Import ListNotations.
From RH Require Import Text.Contents Text.ContentsProofs Text.Reader Text.ReaderProofs Text.ReaderInv
  Lex.LangLexer Lex.LangLexerProofs Lex.LangLexerNoCrash Lex.LexSpec Lex.Render Lex.RenderStream Lex.RenderArms.
Open Scope N_scope.
#[local] Arguments N.add : simpl never.
#[local] Arguments N.sub : simpl never.
#[local] Arguments N.mul : simpl never.
#[local] Arguments N.eqb : simpl never.
#[local] Arguments N.ltb : simpl never.
#[local] Arguments N.leb : simpl never.
#[local] Arguments N.pow : simpl never.
#[local] Arguments N.modulo : simpl never.

(* results that agree up to the payload of an error *)
Definition osame (a b : option position) : Prop := a = None <-> b = None.
Definition rsame {A} (r r' : res A) : Prop :=
  match r, r' with
  | Ok a, Ok b => a = b
  | Er _, Er _ => True
  | _, _ => False
  end.

Lemma hd_err_sat : forall (r : list char) c f, hd_error r = Some c -> hd_sat r f = f c.
Proof. intros [|a r] c f H; [discriminate|]. injection H as <-. reflexivity. Qed.
Lemma hd_err_is : forall (r : list char) c v, hd_error r = Some c -> hd_is r v = (c =? v).
Proof. intros [|a r] c v H; [discriminate|]. injection H as <-. reflexivity. Qed.
Lemma hd_err_lat : forall (r : list char) c, hd_error r = Some c -> hd_lat r -> c < 256.
Proof. intros [|a r] c H L; [discriminate|]. injection H as <-. exact L. Qed.
Lemma hd_err_none_is : forall (r : list char) v, hd_error r = None -> hd_is r v = false.
Proof. intros [|a r] v H; [reflexivity|discriminate]. Qed.

(* ---------- one document: order of positions, consumed text ---------- *)
Section OneDoc.
  Variable d : list (list char).
  Hypothesis HD : cdoc d.

  Lemma steps_det : forall n o a, steps d n o a -> forall m b, steps d m o b -> (n <= m)%nat -> steps d (m - n) a b.
  Proof.
    induction 1 as [st|n st c st' G H IH]; intros m b H2 Hle.
    - rewrite Nat.sub_0_r. exact H2.
    - inversion H2 as [|m' st0 c' st0' G' H2']; subst; [lia|]. assert (c' = c) by congruence. subst c'.
      cbn [Nat.sub]. apply IH; [exact H2'|lia].
  Qed.
  Lemma steps_len : forall n st st', steps d n st st' -> RInv d st ->
    length (remaining d st) = (n + length (remaining d st'))%nat.
  Proof.
    intros n st st' H HI. destruct (steps_run d _ _ _ H) as [l [R Ll]].
    rewrite (run_remaining d l st st' (cdoc_lf_last d HD) R HI), app_length. lia.
  Qed.
  Lemma ple_not_plt' : forall p q, ple p q = true -> plt q p = false.
  Proof. intros [a b] [c e] H. unfold ple, plt in *. cbn [fst snd] in *. lia. Qed.
  Lemma pos_order : forall o a b ra rb, RInv d o -> adv d o a -> adv d o b -> At d a ra -> At d b rb ->
    plt (r_pos a) (r_pos b) = (length rb <? length ra)%nat.
  Proof.
    intros o a b ra rb HI [na Sa] [nb Sb] [_ Ea] [_ Eb].
    pose proof (steps_len _ _ _ Sa HI) as La. pose proof (steps_len _ _ _ Sb HI) as Lb. rewrite Ea in La. rewrite Eb in Lb.
    destruct (Nat.ltb_spec (length rb) (length ra)) as [Hlt|Hge].
    - assert (Hn : (na <= nb)%nat) by lia. pose proof (steps_det _ _ _ Sa _ _ Sb Hn) as S.
      destruct (nb - na)%nat as [|k] eqn:Ek; [lia|]. apply (sadv_plt d). exists k. exact S.
    - assert (Hn : (nb <= na)%nat) by lia. pose proof (steps_det _ _ _ Sb _ _ Sa Hn) as S.
      apply ple_not_plt'. apply (adv_ple d). exists (na - nb)%nat. exact S.
  Qed.
  Lemma at_run : forall l st r st', At d st (l ++ r) -> At d st' r -> adv d st st' -> run d l st st'.
  Proof.
    intros l st r st' [HI HR] [_ HR'] [n S]. destruct (steps_run d _ _ _ S) as [l' [R _]].
    pose proof (run_remaining d l' st st' (cdoc_lf_last d HD) R HI) as E. rewrite HR, HR' in E.
    apply app_inv_tail in E. subst l'. exact R.
  Qed.
  Lemma at_run_ex : forall st r0 st' r, At d st r0 -> At d st' r -> adv d st st' ->
    exists l, run d l st st' /\ r0 = l ++ r.
  Proof.
    intros st r0 st' r [HI HR] [_ HR'] [n S]. destruct (steps_run d _ _ _ S) as [l [R _]]. exists l. split; [exact R|].
    rewrite <- HR, <- HR'. apply (run_remaining d l st st' (cdoc_lf_last d HD) R HI).
  Qed.
  Lemma value_at_run : forall l o e, RInv d o -> run d l o e -> Forall okch l -> l <> [] ->
    value_at d (fst (r_pos e)) (snd (r_pos o)) (snd (r_pos e)) = Some l.
  Proof.
    intros l o e HI R Hok Hne. apply (value_at_consumed d (cdoc_lf_last d HD) l o e HI R); [|exact Hne|apply okch_latin1; exact Hok].
    symmetry. apply (run_same_line d _ _ _ R). apply okch_no_lf. exact Hok.
  Qed.
  Lemma value_at_lex : forall lx o r e, At d o (lx ++ r) -> At d e r -> adv d o e -> Forall okch lx -> lx <> [] ->
    value_at d (fst (r_pos e)) (snd (r_pos o)) (snd (r_pos e)) = Some lx.
  Proof.
    intros lx o r e Ho He A Hok Hne. pose proof (at_run _ _ _ _ Ho He A) as R.
    apply (value_at_consumed d (cdoc_lf_last d HD) lx o e (proj1 Ho) R); [|exact Hne|apply okch_latin1; exact Hok].
    symmetry. apply (run_same_line d _ _ _ R). apply okch_no_lf. exact Hok.
  Qed.
End OneDoc.

Section Lock.
  Variables d1 d2 : list (list char).
  Hypothesis HD1 : cdoc d1.
  Hypothesis HD2 : cdoc d2.
  Variable x : list char.                 (* what follows the lexeme in d2 *)
  Hypothesis Hx : hd_lat x.

  (* the two readers stand at the same place of the lexeme: u is still to be read in d1 (then the input
     ends), u ++ x in d2 *)
  Variable lx : list char.                (* the whole lexeme *)
  Definition L (st s : rstate) (u : list char) : Prop :=
    At d1 st u /\ At d2 s (u ++ x) /\ Forall okch u /\ exists w, lx = w ++ u.
  Lemma L_same : forall st s u st1 s1, L st s u -> At d1 st1 u -> At d2 s1 (u ++ x) -> L st1 s1 u.
  Proof. intros st s u st1 s1 [_ [_ [H3 H4]]] A1 A2. split; [exact A1|split; [exact A2|split; assumption]]. Qed.

  Lemma L_skip : forall st s b u, L st s (b :: u) -> L (skip_char st b) (skip_char s b) u.
  Proof.
    intros st s b u [H1 [H2 [H3 [w H4]]]]. split; [apply (at_skip d1 HD1 _ _ _ H1)|]. split; [apply (at_skip d2 HD2 _ _ _ H2)|].
    split; [inversion H3; assumption|]. exists (w ++ [b]). rewrite <- app_assoc. exact H4.
  Qed.
  Lemma L_lat : forall st s b u, L st s (b :: u) -> b < 256.
  Proof. intros st s b u [_ [_ [H3 _]]]. inversion H3 as [|? ? [Hc _] ?]. exact Hc. Qed.
  Lemma L_hd2 : forall st s u, L st s u -> hd_lat (u ++ x).
  Proof. intros st s [|b u] H; cbn [app]; [exact Hx|]. cbn [hd_lat]. apply (L_lat _ _ _ _ H). Qed.
  Lemma L_end : forall st s u, L st s u -> At d1 st [] -> u = [].
  Proof. intros st s u [H1 _] H. apply (at_fun d1 _ _ _ H1 H). Qed.

  (* ---------- parse_integer_loop ---------- *)
  Lemma pil_lock : forall f1 base stp acc txt big inv st a t b i st',
    parse_integer_loop d1 f1 base stp acc txt big inv st = (Ok (a, t, b, i), st') ->
    forall s u big2 inv2 f2, L st s u -> osame big big2 -> osame inv inv2 ->
    hd_sat x is_idc = false -> Nat.lt (length (u ++ x)) f2 ->
    exists b2 i2 s' u', parse_integer_loop d2 f2 base stp acc txt big2 inv2 s = (Ok (a, t, b2, i2), s') /\
      L st' s' u' /\ osame b b2 /\ osame i i2.
  Proof.
    induction f1 as [|f1 IH]; intros base stp acc txt big inv st a t b i st' H s u big2 inv2 f2 HL Ob Oi Hn Hf;
      [discriminate|]. destruct f2 as [|f2]; [unfold Nat.lt in Hf; lia|].
    cbn [parse_integer_loop] in *. pose proof HL as HL0. destruct HL as [H1 [H2 [H3 H4]]]. destruct u as [|c u].
    - (* the end of the lexeme *)
      unfold bind at 1 in H. rewrite (peek_nil d1 HD1 _ H1) in H. unfold ret in H. injection H as <- <- <- <- <-.
      cbn [app] in *. rewrite (bind_peek_flat d2 HD2 _ _ _ _ H2 Hx). destruct (hd_error x) as [c|] eqn:Ex.
      + rewrite (hd_err_sat _ _ _ Ex) in Hn.
        assert (E1 : is_hex c = false /\ (c =? 95) = false /\ is_alpha c = false).
        { unfold is_idc, is_alnum, is_alpha, is_lower, is_upper, is_digit, in_range in Hn.
          unfold is_hex, is_alpha, is_lower, is_upper, is_digit, in_range. lia. }
        destruct E1 as [E1 [E2 E3]]. rewrite E1, E2, E3. destruct (stp && stop_suffix c); unfold ret;
          eexists _, _, _, []; (split; [reflexivity|]); (split; [exact HL0|]); split; assumption.
      + unfold ret. eexists _, _, _, []. split; [reflexivity|]. split; [exact HL0|]. split; assumption.
    - assert (Lc : c < 256) by (inversion H3 as [|? ? [Hc' _] ?]; exact Hc'). pose proof (L_skip _ _ _ _ HL0) as HL'.
      unfold bind at 1 in H. rewrite (peek_cons d1 HD1 _ _ _ H1 Lc) in H. cbv beta iota in H.
      cbn [app] in H2, Hf. cbn [length] in Hf. unfold bind at 1. rewrite (peek_cons d2 HD2 _ _ _ H2 Lc). cbv beta iota.
      destruct (stp && stop_suffix c).
      + unfold ret in *. injection H as <- <- <- <- <-. eexists _, _, _, (c :: u). split; [reflexivity|].
        split; [exact HL0|]. split; assumption.
      + destruct (is_hex c).
        * unfold bind at 1 in H. unfold get_pos in H. rewrite (bind_skip d1 HD1 _ _ _ _ _ H1) in H.
          unfold bind at 1. unfold get_pos. rewrite (bind_skip d2 HD2 _ _ _ _ _ H2).
          eapply IH; [exact H|exact HL'| |exact Oi|exact Hn|unfold Nat.lt in *; lia].
          destruct (base <=? hex_val c); [split; intro; discriminate|exact Ob].
        * destruct (c =? 95).
          -- rewrite (bind_skip d1 HD1 _ _ _ _ _ H1) in H. rewrite (bind_skip d2 HD2 _ _ _ _ _ H2).
             eapply IH; [exact H|exact HL'|exact Ob|exact Oi|exact Hn|unfold Nat.lt in *; lia].
          -- destruct (is_alpha c).
             ++ unfold bind at 1 in H. unfold get_pos in H. rewrite (bind_skip d1 HD1 _ _ _ _ _ H1) in H.
                unfold bind at 1. unfold get_pos. rewrite (bind_skip d2 HD2 _ _ _ _ _ H2).
                eapply IH; [exact H|exact HL'|exact Ob| |exact Hn|unfold Nat.lt in *; lia]. split; intro; discriminate.
             ++ unfold ret in *. injection H as <- <- <- <- <-. eexists _, _, _, (c :: u). split; [reflexivity|].
                split; [exact HL0|]. split; assumption.
  Qed.


  (* on d1 (all Latin-1) the loop never returns an error *)
  Lemma pil_res : forall f1 base stp acc txt big inv st r st' s u,
    L st s u -> parse_integer_loop d1 f1 base stp acc txt big inv st = (r, st') -> forall e, r <> Er e.
  Proof.
    induction f1 as [|f1 IH]; intros base stp acc txt big inv st r st' s u HL H e; cbn [parse_integer_loop] in H.
    - unfold stop in H. injection H as <- _. discriminate.
    - pose proof HL as HL0. destruct HL as [H1 [H2 [H3 H4]]]. destruct u as [|c u].
      + unfold bind at 1 in H. rewrite (peek_nil d1 HD1 _ H1) in H. unfold ret in H. injection H as <- _. discriminate.
      + assert (Lc : c < 256) by (inversion H3 as [|? ? [Hc' _] ?]; exact Hc'). pose proof (L_skip _ _ _ _ HL0) as HL'.
        unfold bind at 1 in H. rewrite (peek_cons d1 HD1 _ _ _ H1 Lc) in H. cbv beta iota in H.
        destruct (stp && stop_suffix c); [unfold ret in H; injection H as <- _; discriminate|].
        destruct (is_hex c).
        * unfold bind at 1 in H. unfold get_pos in H. rewrite (bind_skip d1 HD1 _ _ _ _ _ H1) in H. eapply IH; [exact HL'|exact H].
        * destruct (c =? 95); [rewrite (bind_skip d1 HD1 _ _ _ _ _ H1) in H; eapply IH; [exact HL'|exact H]|].
          destruct (is_alpha c).
          -- unfold bind at 1 in H. unfold get_pos in H. rewrite (bind_skip d1 HD1 _ _ _ _ _ H1) in H. eapply IH; [exact HL'|exact H].
          -- unfold ret in H. injection H as <- _. discriminate.
  Qed.

  Variable F1 F2 : nat.
  Hypothesis HF2 : (length (concat d2) < F2)%nat.
  Lemma fuel2 : forall s r, At d2 s r -> Nat.lt (length r) F2.
  Proof. intros s r H. unfold Nat.lt. eapply Nat.le_lt_trans; [exact (at_len d2 _ _ H)|exact HF2]. Qed.

  Lemma osame_none : osame None None.
  Proof. split; intro; reflexivity. Qed.

  Lemma pi_lock : forall base stp st r st' s u,
    parse_integer d1 F1 base stp st = (r, st') -> (forall a, r <> Ab a) -> L st s u -> hd_sat x is_idc = false ->
    exists r2 s' u', parse_integer d2 F2 base stp s = (r2, s') /\ L st' s' u' /\ rsame r r2.
  Proof.
    intros base stp st r st' s u H Hab HL Hn. unfold parse_integer in *. unfold bind at 1 in H. unfold get_pos at 1 in H.
    unfold bind at 1 in H. unfold bind at 1. unfold get_pos at 1. unfold bind at 1.
    destruct (parse_integer_loop d1 F1 base stp (Some 0) [] None None st) as [[[[[a t] b] i]|e|ab] st1] eqn:EL.
    - destruct (pil_lock _ _ _ _ _ _ _ _ _ _ _ _ _ EL s u None None F2 HL osame_none osame_none Hn (fuel2 _ _ (proj1 (proj2 HL))))
        as [b2 [i2 [s1 [u1 [E2 [HL1 [Ob Oi]]]]]]]. rewrite E2.
      destruct i as [p|].
      + destruct i2 as [p2|]; [|destruct Oi as [_ Oi]; discriminate (Oi eq_refl)].
        unfold throw in *. injection H as <- <-. eexists _, _, _. split; [reflexivity|]. split; [exact HL1|exact I].
      + destruct i2 as [p2|]; [destruct Oi as [Oi _]; discriminate (Oi eq_refl)|].
        destruct b as [p|].
        * destruct b2 as [p2|]; [|destruct Ob as [_ Ob]; discriminate (Ob eq_refl)].
          unfold throw in *. injection H as <- <-. eexists _, _, _. split; [reflexivity|]. split; [exact HL1|exact I].
        * destruct b2 as [p2|]; [destruct Ob as [Ob _]; discriminate (Ob eq_refl)|].
          destruct a as [v|].
          -- unfold ret in *. injection H as <- <-. eexists _, _, _. split; [reflexivity|]. split; [exact HL1|reflexivity].
          -- unfold bind, get_pos, throw in *. injection H as <- <-. eexists _, _, _. split; [reflexivity|]. split; [exact HL1|exact I].
    - exfalso. apply (pil_res _ _ _ _ _ _ _ _ _ _ _ _ HL EL e). reflexivity.
    - injection H as <- _. exfalso. apply (Hab ab). reflexivity.
  Qed.


  Lemma pi_lock_ok : forall base stp st v t st' s u,
    parse_integer d1 F1 base stp st = (Ok (v, t), st') -> L st s u -> hd_sat x is_idc = false ->
    exists s' u', parse_integer d2 F2 base stp s = (Ok (v, t), s') /\ L st' s' u'.
  Proof.
    intros base stp st v t st' s u H HL Hn.
    destruct (pi_lock base stp st _ st' s u H ltac:(intros a E; discriminate) HL Hn) as [r2 [s' [u' [E [HL' R]]]]].
    destruct r2 as [[v2 t2]|e|a]; cbn [rsame] in R; try contradiction. injection R as <- <-. exists s', u'. split; assumption.
  Qed.

  (* ---------- parse_exponent ---------- *)
  Lemma pe_lock : forall st neg v t st' s u,
    parse_exponent d1 F1 st = (Ok (neg, v, t), st') -> L st s u -> hd_sat x is_idc = false ->
    (u = [] -> hd_is x 45 = false /\ hd_is x 43 = false) ->
    exists s' u', parse_exponent d2 F2 s = (Ok (neg, v, t), s') /\ L st' s' u'.
  Proof.
    intros st neg v t st' s u H HL Hn Hsign. unfold parse_exponent in *.
    unfold bind at 1 in H. unfold get_pos at 1 in H. unfold bind at 1. unfold get_pos at 1.
    pose proof HL as HL0. destruct HL as [H1 [H2 [H3 H4]]]. pose proof (L_hd2 _ _ _ HL0) as HL2.
    rewrite (bind_peek_flat d2 HD2 _ _ _ _ H2 HL2).
    assert (Hcont : forall (nb : bool * list N) st1 s1 u1, L st1 s1 u1 ->
              ((let '(neg, buf) := nb in
                '(v, t) <- parse_integer d1 F1 10 false ;; e <- get_pos ;;
                if neg then (if v <=? I32MAX + 1 then ret (true, v, buf ++ t) else throw (TErr (r_pos st) e 5))
                else (if v <=? I32MAX then ret (false, v, buf ++ t) else throw (TErr (r_pos st) e 5))) st1 = (Ok (neg, v, t), st')) ->
              exists s' u', (let '(neg, buf) := nb in
                '(v, t) <- parse_integer d2 F2 10 false ;; e <- get_pos ;;
                if neg then (if v <=? I32MAX + 1 then ret (true, v, buf ++ t) else throw (TErr (r_pos s) e 5))
                else (if v <=? I32MAX then ret (false, v, buf ++ t) else throw (TErr (r_pos s) e 5))) s1 = (Ok (neg, v, t), s') /\ L st' s' u').
    { intros [ng buf] st1 s1 u1 HL1 E. unfold bind at 1 in E.
      destruct (parse_integer d1 F1 10 false st1) as [[[v1 t1]|e|a] st2] eqn:EP; try discriminate.
      destruct (pi_lock_ok _ _ _ _ _ _ _ _ EP HL1 Hn) as [s2 [u2 [EP2 HL2']]].
      unfold bind at 1. rewrite EP2. unfold bind, get_pos in *.
      destruct ng; [destruct (v1 <=? I32MAX + 1)|destruct (v1 <=? I32MAX)]; unfold ret, throw in *; try discriminate;
        injection E as <- <- <- <-; exists s2, u2; (split; [reflexivity|exact HL2']). }
    destruct u as [|c u].
    - destruct (Hsign eq_refl) as [N45 N43]. cbn [app] in *.
      unfold bind at 1 in H. rewrite (peek_nil d1 HD1 _ H1) in H. cbn [opt_is] in H.
      rewrite opt_is_hd, N45.
      unfold bind at 1 in H. unfold bind at 1 in H.
      destruct (skip_if_flat d1 HD1 43 _ _ H1 I) as [st1 [E1 HA1]]. cbn [hd_is] in E1, HA1. rewrite E1 in H. unfold ret at 1 in H.
      unfold bind at 1. unfold bind at 1.
      destruct (skip_if_flat d2 HD2 43 _ _ H2 Hx) as [s1 [E2 HA2]]. rewrite N43 in E2, HA2. rewrite E2. unfold ret at 1.
      apply (Hcont (false, []) st1 s1 []); [apply (L_same _ _ _ _ _ HL0 HA1 HA2)|exact H].
    - assert (Lc : c < 256) by (inversion H3 as [|? ? [Hc' _] ?]; exact Hc'). pose proof (L_skip _ _ _ _ HL0) as HL'.
      unfold bind at 1 in H. rewrite (peek_cons d1 HD1 _ _ _ H1 Lc) in H. cbn [opt_is] in H. cbn [app hd_error opt_is].
      destruct (c =? 45).
      + unfold bind at 1 in H. rewrite (bind_skip d1 HD1 _ _ _ _ _ H1) in H. unfold ret at 1 in H.
        unfold bind at 1. cbn [app] in H2. rewrite (bind_skip d2 HD2 _ _ _ _ _ H2). unfold ret at 1.
        apply (Hcont (true, [45]) _ _ u HL' H).
      + unfold bind at 1 in H. unfold bind at 1 in H. cbn [app] in H2.
        destruct (skip_if_flat d1 HD1 43 _ _ H1 Lc) as [st1 [E1 HA1]]. rewrite E1 in H. unfold ret at 1 in H.
        unfold bind at 1. unfold bind at 1.
        destruct (skip_if_flat d2 HD2 43 _ _ H2 Lc) as [s1 [E2 HA2]]. rewrite E2. unfold ret at 1. cbn [hd_is tl] in *.
        destruct (c =? 43).
        * apply (Hcont (false, [43]) st1 s1 u); [apply (L_same _ _ _ _ _ HL' HA1 HA2)|exact H].
        * apply (Hcont (false, []) st1 s1 (c :: u)); [apply (L_same _ _ _ _ _ HL0 HA1 HA2)|exact H].
  Qed.


  (* ---------- real_loop / parse_real_literal ---------- *)
  Definition real_acc (b : N) : bool := is_digit b || in_range 97 100 b || (b =? 102) || (b =? 46).
  Lemma real_loop_lock : forall f1 txt dg st txt' dg' st',
    real_loop d1 f1 txt dg st = (Ok (txt', dg'), st') ->
    forall s u f2, L st s u -> hd_sat x is_idc = false -> hd_is x 46 = false -> Nat.lt (length (u ++ x)) f2 ->
    exists s' u', real_loop d2 f2 txt dg s = (Ok (txt', dg'), s') /\ L st' s' u'.
  Proof.
    induction f1 as [|f1 IH]; intros txt dg st txt' dg' st' H s u f2 HL Hn H46 Hf; [discriminate|].
    destruct f2 as [|f2]; [unfold Nat.lt in Hf; lia|]. cbn [real_loop] in *. pose proof HL as HL0. destruct HL as [H1 [H2 [H3 H4]]].
    pose proof (L_hd2 _ _ _ HL0) as HL2.
    unfold bind at 1. rewrite (peek_lowercase_flat d2 HD2 _ _ H2 HL2).
    destruct u as [|c u].
    - unfold bind at 1 in H. rewrite (peek_lowercase_flat d1 HD1 _ _ H1 I) in H. cbn [hd_error option_map] in H.
      unfold ret in H. injection H as <- <- <-. cbn [app]. destruct (hd_error x) as [c|] eqn:Ex; cbn [option_map].
      + rewrite (hd_err_sat _ _ _ Ex) in Hn. rewrite (hd_err_is _ _ _ Ex) in H46.
        assert (E : forall v, v <= 122 -> (lowercase c =? v) = (c =? v)).
        { intros v Hv. destruct (lowercase c =? v) eqn:E1.
          - apply N.eqb_eq in E1. apply (lowercase_nonidc _ _ Hn Hv) in E1. subst v. symmetry. apply N.eqb_refl.
          - destruct (c =? v) eqn:E2; [|reflexivity]. apply N.eqb_eq in E2. subst v.
            assert (lowercase c = c).
            { unfold lowercase, in_range. unfold is_idc, is_alnum, is_alpha, is_lower, is_upper, is_digit, in_range in Hn.
              destruct (c =? 215); [reflexivity|].
              destruct ((65 <=? c) && (c <=? 90) || (192 <=? c) && (c <=? 214) || (216 <=? c) && (c <=? 222)) eqn:E3; [lia|reflexivity]. }
            rewrite H in E1. rewrite N.eqb_refl in E1. discriminate. }
        assert (Ed : is_digit (lowercase c) = false /\ in_range 97 100 (lowercase c) = false).
        { unfold is_digit, in_range.
          assert (Hlc : lowercase c = c \/ 224 <= lowercase c).
          { unfold lowercase, in_range. destruct (c =? 215); [left; reflexivity|].
            destruct ((65 <=? c) && (c <=? 90) || (192 <=? c) && (c <=? 214) || (216 <=? c) && (c <=? 222)) eqn:E3; [|left; reflexivity].
            unfold is_idc, is_alnum, is_alpha, is_lower, is_upper, is_digit, in_range in Hn. right. lia. }
          unfold is_idc, is_alnum, is_alpha, is_lower, is_upper, is_digit, in_range in Hn. destruct Hlc as [->|Hlc]; lia. }
        destruct Ed as [Ed1 Ed2]. rewrite (E 101), (E 102), (E 46), (E 95), Ed1, Ed2, H46 by lia.
        replace (c =? 102) with false by (unfold is_idc, is_alnum, is_alpha, is_lower, in_range in Hn; lia).
        replace (c =? 95) with false by (unfold is_idc in Hn; lia). cbn [orb].
        destruct (c =? 101); unfold ret; exists s, []; (split; [reflexivity|]); (exact HL0).
      + unfold ret. exists s, []. split; [reflexivity|]. exact HL0.
    - assert (Lc : c < 256) by (inversion H3 as [|? ? [Hc' _] ?]; exact Hc'). pose proof (L_skip _ _ _ _ HL0) as HL'.
      unfold bind at 1 in H. rewrite (peek_lowercase_flat d1 HD1 _ _ H1 Lc) in H. cbn [hd_error option_map app] in *.
      cbn [length] in Hf.
      destruct (lowercase c =? 101).
      + unfold ret in *. injection H as <- <- <-. exists s, (c :: u). split; [reflexivity|]. exact HL0.
      + destruct (is_digit (lowercase c) || in_range 97 100 (lowercase c) || (lowercase c =? 102) || (lowercase c =? 46)).
        * rewrite (bind_skip d1 HD1 _ _ _ _ _ H1) in H. rewrite (bind_skip d2 HD2 _ _ _ _ _ H2).
          eapply IH; [exact H|exact HL'|exact Hn|exact H46|unfold Nat.lt in *; lia].
        * destruct (lowercase c =? 95).
          -- rewrite (bind_skip d1 HD1 _ _ _ _ _ H1) in H. rewrite (bind_skip d2 HD2 _ _ _ _ _ H2).
             eapply IH; [exact H|exact HL'|exact Hn|exact H46|unfold Nat.lt in *; lia].
          -- unfold ret in *. injection H as <- <- <-. exists s, (c :: u). split; [reflexivity|]. exact HL0.
  Qed.
  Lemma prl_lock : forall st txt st' s u,
    parse_real_literal d1 F1 st = (Ok txt, st') -> L st s u -> hd_sat x is_idc = false -> hd_is x 46 = false ->
    exists s' u', parse_real_literal d2 F2 s = (Ok txt, s') /\ L st' s' u'.
  Proof.
    intros st txt st' s u H HL Hn H46. unfold parse_real_literal in *. unfold bind at 1 in H. unfold get_pos at 1 in H.
    unfold bind at 1 in H. unfold bind at 1. unfold get_pos at 1. unfold bind at 1.
    destruct (real_loop d1 F1 [] [] st) as [[[t dg]|e|a] st1] eqn:EL; try discriminate.
    destruct (real_loop_lock _ _ _ _ _ _ _ EL s u F2 HL Hn H46 (fuel2 _ _ (proj1 (proj2 HL)))) as [s1 [u1 [E2 HL1]]].
    rewrite E2. unfold bind, get_pos in *. destruct (f64_ok dg); unfold ret, throw in *; [|discriminate].
    injection H as <- <-. exists s1, u1. split; [reflexivity|exact HL1].
  Qed.


  (* ---------- quoted text (Ok path) ---------- *)
  Lemma quoted_loop_lock : forall f1 q buf multi st buf' multi' st',
    quoted_loop d1 f1 q buf multi st = (Ok (buf', multi', true), st') ->
    forall s u f2, L st s u -> hd_is x q = false -> Nat.lt (length (u ++ x)) f2 ->
    exists s' u', quoted_loop d2 f2 q buf multi s = (Ok (buf', multi', true), s') /\ L st' s' u'.
  Proof.
    induction f1 as [|f1 IH]; intros q buf multi st buf' multi' st' H s u f2 HL Hq Hf; [discriminate|].
    destruct f2 as [|f2]; [unfold Nat.lt in Hf; lia|]. cbn [quoted_loop] in *. pose proof HL as HL0. destruct HL as [H1 [H2 [H3 H4]]].
    destruct u as [|c u].
    - unfold bind at 1 in H. rewrite (pop_nil d1 HD1 _ H1) in H. unfold ret in H. discriminate.
    - assert (Lc : c < 256) by (inversion H3 as [|? ? [Hc' _] ?]; exact Hc'). pose proof (L_skip _ _ _ _ HL0) as HL'.
      cbn [app] in H2, Hf. cbn [length] in Hf.
      unfold bind at 1 in H. rewrite (pop_cons d1 HD1 _ _ _ H1 Lc) in H. cbv beta iota zeta in H.
      unfold bind at 1. rewrite (pop_cons d2 HD2 _ _ _ H2 Lc). cbv beta iota zeta.
      destruct (c =? q).
      + pose proof HL' as HL0'. destruct HL' as [H1' [H2' [H3' H4']]]. pose proof (L_hd2 _ _ _ HL0') as HLh.
        rewrite (bind_peek_flat d2 HD2 _ _ _ _ H2' HLh). destruct u as [|y u].
        * unfold bind at 1 in H. rewrite (peek_nil d1 HD1 _ H1') in H. cbn [opt_is] in H. unfold ret in H.
          injection H as <- <- <-. cbn [app]. rewrite opt_is_hd, Hq. unfold ret. exists (skip_char s c), [].
          split; [reflexivity|]. exact HL0'.
        * assert (Ly : y < 256) by (inversion H3' as [|? ? [Hc' _] ?]; exact Hc').
          unfold bind at 1 in H. rewrite (peek_cons d1 HD1 _ _ _ H1' Ly) in H. cbn [opt_is hd_error app] in *.
          destruct (y =? q).
          -- rewrite (bind_skip d1 HD1 _ _ _ _ _ H1') in H. rewrite (bind_skip d2 HD2 _ _ _ _ _ H2').
             eapply IH; [exact H|apply (L_skip _ _ _ _ HL0')|exact Hq|unfold Nat.lt in *; cbn [length] in Hf; lia].
          -- unfold ret in *. injection H as <- <- <-. exists (skip_char s c), (y :: u).
             split; [reflexivity|]. exact HL0'.
      + eapply IH; [exact H|exact HL'|exact Hq|unfold Nat.lt in *; lia].
  Qed.
  Lemma pq_lock : forall q incl st v st' s u,
    parse_quoted d1 F1 q incl st = (Ok v, st') -> L st s u -> hd_is x q = false ->
    exists s' u', parse_quoted d2 F2 q incl s = (Ok v, s') /\ L st' s' u'.
  Proof.
    intros q incl st v st' s u H HL Hq. unfold parse_quoted in *. unfold bind at 1 in H. unfold get_pos at 1 in H.
    unfold bind at 1 in H. unfold bind at 1. unfold get_pos at 1. unfold bind at 1. unfold try in *.
    destruct (quoted_loop d1 F1 q (if incl then [q] else []) false st) as [[[[b m] fd]|e|a] st1] eqn:EL.
    - destruct fd.
      + destruct (quoted_loop_lock _ _ _ _ _ _ _ _ EL s u F2 HL Hq (fuel2 _ _ (proj1 (proj2 HL)))) as [s1 [u1 [E2 HL1]]].
        rewrite E2. unfold bind, get_pos in *. cbn [negb] in *. destruct m; unfold ret, throw in *; [discriminate|].
        injection H as <- <-. exists s1, u1. split; [reflexivity|exact HL1].
      + unfold bind, get_pos in H. cbn [negb] in H. unfold throw in H. discriminate.
    - unfold bind in H. destruct (quoted_recover d1 F1 q st1) as [[?|?|?] ?]; unfold throw in H; discriminate.
    - discriminate.
  Qed.


  Definition isame (a b : (N * list N) + terr) : Prop :=
    match a, b with inl p, inl q => p = q | inr _, inr _ => True | _, _ => False end.
  (* ---------- base specifier and bit string ---------- *)
  Lemma bs_second_lock : forall off st s u code st',
    bs_second d1 off st = (Ok (Some code), st') -> L st s u ->
    exists s' u', bs_second d2 off s = (Ok (Some code), s') /\ L st' s' u'.
  Proof.
    intros off st s u code st' H HL. unfold bs_second in *. unfold bind in *. destruct u as [|c u].
    - rewrite (pop_lowercase_nil d1 HD1 _ (proj1 HL)) in H. unfold ret in H. discriminate.
    - pose proof (L_lat _ _ _ _ HL) as Lc. rewrite (pop_lowercase_cons d1 HD1 _ _ _ (proj1 HL) Lc) in H.
      pose proof (proj1 (proj2 HL)) as H2. cbn [app] in H2. rewrite (pop_lowercase_cons d2 HD2 _ _ _ H2 Lc).
      unfold ret in *. injection H as H <-. rewrite H. exists (skip_char s c), u. split; [reflexivity|apply (L_skip _ _ _ _ HL)].
  Qed.
  Lemma pbs_lock : forall st s u bs st',
    parse_base_specifier d1 st = (Ok (Some bs), st') -> L st s u ->
    exists s' u', parse_base_specifier d2 s = (Ok (Some bs), s') /\ L st' s' u'.
  Proof.
    intros st s u bs st' H HL. unfold parse_base_specifier in *. unfold bind at 1 in H. unfold bind at 1. destruct u as [|c u].
    - rewrite (pop_lowercase_nil d1 HD1 _ (proj1 HL)) in H. unfold ret in H. discriminate.
    - pose proof (L_lat _ _ _ _ HL) as Lc. rewrite (pop_lowercase_cons d1 HD1 _ _ _ (proj1 HL) Lc) in H.
      pose proof (proj1 (proj2 HL)) as H2. cbn [app] in H2. rewrite (pop_lowercase_cons d2 HD2 _ _ _ H2 Lc). clear H2.
      pose proof (L_skip _ _ _ _ HL) as HLa.
      assert (Hq : forall code stq sq uq, L stq sq uq ->
                (oq <- pop d1 ;; ret (if opt_is oq 34 then Some code else None)) stq = (Ok (Some bs), st') ->
                exists s' u', (oq <- pop d2 ;; ret (if opt_is oq 34 then Some code else None)) sq = (Ok (Some bs), s') /\ L st' s' u').
      { intros code stq sq uq HLq E. unfold bind in *. destruct uq as [|y uq].
        - rewrite (pop_nil d1 HD1 _ (proj1 HLq)) in E. unfold ret in E. discriminate.
        - pose proof (L_lat _ _ _ _ HLq) as Ly. rewrite (pop_cons d1 HD1 _ _ _ (proj1 HLq) Ly) in E.
          pose proof (proj1 (proj2 HLq)) as H2. cbn [app] in H2. rewrite (pop_cons d2 HD2 _ _ _ H2 Ly).
          unfold ret in *. cbn [opt_is] in *. injection E as E <-. rewrite E. exists (skip_char sq y), uq. split; [reflexivity|apply (L_skip _ _ _ _ HLq)]. }
      cbv beta iota in *.
      destruct (lowercase c =? 117); [|destruct (lowercase c =? 115)].
      + unfold bind at 1 in H. destruct (bs_second d1 3 (skip_char st c)) as [[[code|]|e|a] st2] eqn:E2; try discriminate.
        destruct (bs_second_lock _ _ _ _ _ _ E2 HLa) as [s2 [u2 [E2' HL2]]]. unfold bind at 1. rewrite E2'. apply (Hq code _ _ _ HL2 H).
      + unfold bind at 1 in H. destruct (bs_second d1 6 (skip_char st c)) as [[[code|]|e|a] st2] eqn:E2; try discriminate.
        destruct (bs_second_lock _ _ _ _ _ _ E2 HLa) as [s2 [u2 [E2' HL2]]]. unfold bind at 1. rewrite E2'. apply (Hq code _ _ _ HL2 H).
      + unfold bind at 1 in H. unfold ret at 1 in H. unfold bind at 1. unfold ret at 1.
        destruct (if lowercase c =? 98 then Some 0 else if lowercase c =? 111 then Some 1 else if lowercase c =? 120 then Some 2
                  else if lowercase c =? 100 then Some 9 else None) as [code|]; [|unfold ret in H; discriminate].
        apply (Hq code _ _ _ HLa H).
  Qed.


  Lemma pbit_lock : forall base len o1 o2 uo st s u k v st',
    parse_bit_string d1 F1 base len (snd (r_pos o1)) st = (Ok (k, v), st') ->
    L o1 o2 uo -> L st s u -> adv d1 o1 st -> adv d2 o2 s -> (length u < length uo)%nat -> hd_is x 34 = false ->
    exists s' u', parse_bit_string d2 F2 base len (snd (r_pos o2)) s = (Ok (k, v), s') /\ L st' s' u'.
  Proof.
    intros base len o1 o2 uo st s u k v st' H HLo HL A1 A2 Hlen H34. unfold parse_bit_string in *.
    unfold bind at 1 in H. destruct (parse_quoted d1 F1 34 false st) as [[q|e|a] st1] eqn:EQ; try discriminate.
    destruct (pq_lock _ _ _ _ _ _ _ EQ HL H34) as [s1 [u1 [EQ2 HL1]]]. unfold bind at 1. rewrite EQ2.
    unfold bind at 1 in H. unfold get_pos at 1 in H. unfold bind at 1. unfold get_pos at 1.
    assert (B1 : adv d1 o1 st1) by (apply (advO_parse_quoted d1 F1 o1 34 false st _ _ A1 EQ)).
    assert (B2 : adv d2 o2 s1) by (apply (advO_parse_quoted d2 F2 o2 34 false s _ _ A2 EQ2)).
    destruct (at_run_ex d1 HD1 _ _ _ _ (proj1 HLo) (proj1 HL1) B1) as [l1 [R1 E1]].
    destruct (at_run_ex d2 HD2 _ _ _ _ (proj1 (proj2 HLo)) (proj1 (proj2 HL1)) B2) as [l2 [R2 E2]].
    assert (El : l2 = l1). { rewrite E1, <- app_assoc in E2. apply app_inv_tail in E2. symmetry. exact E2. }
    subst l2.
    assert (Hok : Forall okch l1). { pose proof (proj1 (proj2 (proj2 HLo))) as Ho. rewrite E1 in Ho. apply Forall_app in Ho. apply Ho. }
    assert (Hne : l1 <> []).
    { intros ->. cbn [app] in E1. subst uo.
      assert (Hle : (length u1 <= length u)%nat).
      { destruct (advO_parse_quoted d1 F1 st 34 false st _ _ (adv_refl d1 st) EQ) as [n S].
        pose proof (steps_len d1 HD1 _ _ _ S (proj1 (proj1 HL))) as E. rewrite (proj2 (proj1 HL)), (proj2 (proj1 HL1)) in E. lia. }
      lia. }
    rewrite (value_at_run d1 HD1 l1 o1 st1 (proj1 (proj1 HLo)) R1 Hok Hne) in H.
    rewrite (value_at_run d2 HD2 l1 o2 s1 (proj1 (proj1 (proj2 HLo))) R2 Hok Hne).
    unfold ret in *. injection H as <- <- <-. exists s1, u1. split; [reflexivity|exact HL1].
  Qed.

  Lemma abs_bit_string_lock : forall o1 o2 uo initial initial2 st s u k v st',
    abs_bit_string d1 F1 (r_pos o1) initial st = (Ok (k, v), st') -> isame initial initial2 ->
    L o1 o2 uo -> L st s u -> adv d1 o1 st -> adv d2 o2 s -> (length u <= length uo)%nat -> hd_is x 34 = false ->
    exists s' u', abs_bit_string d2 F2 (r_pos o2) initial2 s = (Ok (k, v), s') /\ L st' s' u'.
  Proof.
    intros o1 o2 uo initial initial2 st s u k v st' H HI HLo HL A1 A2 Hlen H34. unfold abs_bit_string in *.
    destruct initial as [[iv it]|e]; destruct initial2 as [[iv2 it2]|e2]; cbn [isame] in HI; try contradiction;
      [|unfold bind at 1 in H; unfold of_result, throw in H; discriminate]. injection HI as <- <-.
    unfold bind at 1 in H. cbn [of_result] in H. unfold ret at 1 in H. unfold bind at 1. cbn [of_result]. unfold ret at 1.
    unfold bind at 1 in H. destruct (parse_base_specifier d1 st) as [[[bs|]|e|a] st1] eqn:EB; try discriminate;
      try (unfold bind, get_pos, throw in H; discriminate).
    destruct (pbs_lock _ _ _ _ _ EB HL) as [s1 [u1 [EB2 HL1]]]. unfold bind at 1. rewrite EB2.
    assert (B1 : adv d1 o1 st1) by (apply (advO_parse_base_specifier d1 o1 st _ _ A1 EB)).
    assert (B2 : adv d2 o2 s1) by (apply (advO_parse_base_specifier d2 o2 s _ _ A2 EB2)).
    assert (Hl1 : (length u1 < length u)%nat).
    { destruct (parse_base_specifier_lrun d1 _ _ _ EB) as [l [[R _] Hne]].
      pose proof (run_remaining d1 l st st1 (cdoc_lf_last d1 HD1) R (proj1 (proj1 HL))) as E.
      rewrite (proj2 (proj1 HL)), (proj2 (proj1 HL1)) in E. rewrite E, app_length. destruct l; [congruence|cbn [length]; lia]. }
    cbn [fst snd].
    apply (pbit_lock _ _ o1 o2 uo _ _ _ _ _ _ H HLo HL1 B1 B2 ltac:(lia) H34).
  Qed.


  Lemma pbit_kind : forall D F base len sc st k v st', parse_bit_string D F base len sc st = (Ok (k, v), st') -> k = KBitString.
  Proof.
    intros D F base len sc st k v st' H. unfold parse_bit_string in H. unfold bind at 1 in H.
    destruct (parse_quoted D F 34 false st) as [[q|e|a] st1]; try discriminate. unfold bind, get_pos in H.
    destruct (value_at D (fst (r_pos st1)) sc (snd (r_pos st1))); unfold ret, stop in H; [|discriminate]. injection H as <- _ _. reflexivity.
  Qed.
  Lemma abs_bit_kind : forall D F p0 initial st k v st', abs_bit_string D F p0 initial st = (Ok (k, v), st') -> k = KBitString.
  Proof.
    intros D F p0 initial st k v st' H. unfold abs_bit_string in H. destruct initial as [[iv it]|e]; [|unfold bind, of_result, throw in H; discriminate].
    unfold bind at 1 in H. cbn [of_result] in H. unfold ret at 1 in H. unfold bind at 1 in H.
    destruct (parse_base_specifier D st) as [[[bs|]|e|a] st1]; try discriminate; try (unfold bind, get_pos, throw in H; discriminate).
    apply (pbit_kind _ _ _ _ _ _ _ _ _ H).
  Qed.
  (* ---------- parse_token: string literal, extended identifier, bit string without length ---------- *)
  Lemma pt_lock_quoted : forall q start last start2 last2 st s u k v w st', (q = 34 \/ q = 92) ->
    parse_token d1 keywords_2008 F1 true start last st = (Ok (Some (k, v, w)), st') -> L st s (q :: u) ->
    hd_is x q = false ->
    exists s' u', parse_token d2 keywords_2008 F2 true start2 last2 s = (Ok (Some (k, v, w)), s') /\ L st' s' u'.
  Proof.
    intros q start last start2 last2 st s u k v w st' Hq H HL Hxq. pose proof (L_lat _ _ _ _ HL) as Lb. unfold parse_token in *.
    unfold bind at 1 in H. rewrite (peek_cons d1 HD1 _ _ _ (proj1 HL) Lb) in H. cbv beta iota in H.
    pose proof (proj1 (proj2 HL)) as H2. cbn [app] in H2. unfold bind at 1. rewrite (peek_cons d2 HD2 _ _ _ H2 Lb). cbv beta iota.
    pose proof (L_skip _ _ _ _ HL) as HLa.
    destruct Hq as [-> | ->]; cbv [is_alpha is_lower is_upper is_digit in_range] in *;
      repeat match goal with
      | H : context [N.eqb ?a ?b] |- _ => let r := eval vm_compute in (N.eqb a b) in
            match r with true => idtac | false => idtac end; change (N.eqb a b) with r in H
      | H : context [N.leb ?a ?b] |- _ => let r := eval vm_compute in (N.leb a b) in
            match r with true => idtac | false => idtac end; change (N.leb a b) with r in H
      end; ev_closed; cbn [andb orb] in *; cbv iota in *;
      rewrite (bind_skip d1 HD1 _ _ _ _ _ (proj1 HL)) in H; rewrite (bind_skip d2 HD2 _ _ _ _ _ H2); cbv iota in *.
    - unfold bind at 1 in H. destruct (parse_quoted d1 F1 34 false (skip_char st 34)) as [[t|e|a] st1] eqn:EQ; try discriminate.
      destruct (pq_lock _ _ _ _ _ _ _ EQ HLa Hxq) as [s1 [u1 [EQ2 HL1]]]. unfold bind at 1. rewrite EQ2.
      unfold ret in *. injection H as <- <- <- <-. exists s1, u1. split; [reflexivity|exact HL1].
    - unfold bind at 1 in H. destruct (parse_quoted d1 F1 92 true (skip_char st 92)) as [[t|e|a] st1] eqn:EQ; try discriminate.
      destruct (pq_lock _ _ _ _ _ _ _ EQ HLa Hxq) as [s1 [u1 [EQ2 HL1]]]. unfold bind at 1. rewrite EQ2.
      unfold ret in *. injection H as <- <- <- <-. exists s1, u1. split; [reflexivity|exact HL1].
  Qed.

  Lemma pt_lock_bits : forall start last start2 last2 st s b u v w st',
    parse_token d1 keywords_2008 F1 true start last st = (Ok (Some (KBitString, v, w)), st') -> L st s (b :: u) ->
    is_alpha b || (b =? 95) = true -> hd_is x 34 = false ->
    exists s' u', parse_token d2 keywords_2008 F2 true start2 last2 s = (Ok (Some (KBitString, v, w)), s') /\ L st' s' u'.
  Proof.
    intros start last start2 last2 st s b u v w st' H HL Ha H34. pose proof (L_lat _ _ _ _ HL) as Lb. unfold parse_token in *.
    unfold bind at 1 in H. rewrite (peek_cons d1 HD1 _ _ _ (proj1 HL) Lb) in H. cbv beta iota in H.
    pose proof (proj1 (proj2 HL)) as H2. cbn [app] in H2. unfold bind at 1. rewrite (peek_cons d2 HD2 _ _ _ H2 Lb). cbv beta iota.
    rewrite Ha in *. unfold bind at 1 in H. unfold get_state at 1 in H. unfold bind at 1. unfold get_state at 1.
    unfold bind at 1 in H. unfold maybe_base_specifier at 1 in H. unfold bind at 1. unfold maybe_base_specifier at 1.
    destruct (parse_base_specifier d1 st) as [[[bs|]|e|a] st1] eqn:EB.
    - destruct (pbs_lock _ _ _ _ _ EB HL) as [s1 [u1 [EB2 HL1]]]. rewrite EB2. unfold lift_kv in *.
      unfold bind at 1 in H. destruct (parse_bit_string d1 F1 bs None (snd (r_pos st)) st1) as [[[k1 v1]|e|a] st2] eqn:EP; try discriminate.
      unfold ret in H. cbn [fst snd] in H. injection H as <- <- <- <-.
      assert (B1 : adv d1 st st1) by (apply (advO_parse_base_specifier d1 st st _ _ (adv_refl d1 st) EB)).
      assert (B2 : adv d2 s s1) by (apply (advO_parse_base_specifier d2 s s _ _ (adv_refl d2 s) EB2)).
      assert (Hl1 : (length u1 < length (b :: u))%nat).
      { destruct (parse_base_specifier_lrun d1 _ _ _ EB) as [l [[R _] Hne]].
        pose proof (run_remaining d1 l st st1 (cdoc_lf_last d1 HD1) R (proj1 (proj1 HL))) as E.
        rewrite (proj2 (proj1 HL)), (proj2 (proj1 HL1)) in E. rewrite E, app_length. destruct l; [congruence|cbn [length]; lia]. }
      destruct (pbit_lock _ _ st s (b :: u) _ _ _ _ _ _ EP HL HL1 B1 B2 Hl1 H34) as [s2 [u2 [EP2 HL2]]].
      unfold bind. rewrite EP2. unfold ret. cbn [fst snd]. exists s2, u2. split; [reflexivity|exact HL2].
    - exfalso. unfold bind at 1 in H. destruct (parse_basic_identifier_or_keyword d1 keywords_2008 F1 st) as [[[[k1 v1] w1]|e|a] st2] eqn:EP; try discriminate.
      unfold ret in H. cbn [fst snd] in H. injection H as Hk _ _ _.
      unfold parse_basic_identifier_or_keyword in EP. unfold bind in EP. destruct (ident_loop d1 F1 [] st) as [[t|e|a] st3]; try discriminate.
      unfold ret in EP. injection EP as EP _ _. unfold insert_or_keyword in EP. destruct (existsb _ _); injection EP as <- _; discriminate.
    - exfalso. unfold bind at 1 in H. destruct (parse_basic_identifier_or_keyword d1 keywords_2008 F1 st) as [[[[k1 v1] w1]|e0|a] st2] eqn:EP; try discriminate.
      unfold ret in H. cbn [fst snd] in H. injection H as Hk _ _ _.
      unfold parse_basic_identifier_or_keyword in EP. unfold bind in EP. destruct (ident_loop d1 F1 [] st) as [[t|e1|a] st3]; try discriminate.
      unfold ret in EP. injection EP as EP _ _. unfold insert_or_keyword in EP. destruct (existsb _ _); injection EP as <- _; discriminate.
    - discriminate.
  Qed.

  (* ---------- the arms of parse_abstract_literal ---------- *)
  Hypothesis Hn : hd_sat x is_idc = false.
  Hypothesis H46 : hd_is x 46 = false.
  Hypothesis H35 : hd_is x 35 = false.
  Hypothesis H58 : hd_is x 58 = false.
  Hypothesis Hsgn : (exists w c, lx = w ++ [c] /\ is_e c = true) -> hd_is x 45 = false /\ hd_is x 43 = false.

  Lemma not_e_x : forall c, hd_error x = Some c -> is_e c = false.
  Proof.
    intros c E. pose proof Hn as H. rewrite (hd_err_sat _ _ _ E) in H. unfold is_e.
    unfold is_idc, is_alnum, is_alpha, is_lower, is_upper, in_range in H. lia.
  Qed.
  (* the optional exponent behind a real or based literal *)
  Lemma sign_at_end : forall st s c, L st s [c] -> is_e c = true -> hd_is x 45 = false /\ hd_is x 43 = false.
  Proof. intros st s c [_ [_ [_ [w E]]]] He. apply Hsgn. exists w, c. split; assumption. Qed.

  Lemma abs_real_lock : forall st0 s0 u0 st1 s1 u1 initial initial2 cur cur2 k v st',
    abs_real d1 F1 st0 (r_pos st1) initial cur = (Ok (k, v), st') ->
    L st0 s0 u0 -> L st1 s1 u1 -> adv d1 st0 st1 -> adv d2 s0 s1 -> isame initial initial2 ->
    exists s' u', abs_real d2 F2 s0 (r_pos s1) initial2 cur2 = (Ok (k, v), s') /\ L st' s' u'.
  Proof.
    intros st0 s0 u0 st1 s1 u1 initial initial2 cur cur2 k v st' H HL0 HL1 A1 A2 HI.
    unfold abs_real, abs_real_gen in *. unfold bind at 1 in H. unfold set_state at 1 in H. unfold bind at 1. unfold set_state at 1.
    unfold bind at 1 in H. destruct (parse_real_literal d1 F1 st0) as [[txt|e|a] str] eqn:ER; try discriminate.
    destruct (prl_lock _ _ _ _ _ ER HL0 Hn H46) as [sr [ur [ER2 HLr]]]. unfold bind at 1. rewrite ER2.
    unfold bind at 1 in H. unfold get_pos at 1 in H. unfold bind at 1. unfold get_pos at 1.
    assert (Ar1 : adv d1 st0 str) by (apply (advO_parse_real_literal d1 F1 st0 st0 _ _ (adv_refl d1 st0) ER)).
    assert (Ar2 : adv d2 s0 sr) by (apply (advO_parse_real_literal d2 F2 s0 s0 _ _ (adv_refl d2 s0) ER2)).
    assert (EP : plt (r_pos str) (r_pos st1) = plt (r_pos sr) (r_pos s1)).
    { rewrite (pos_order d1 HD1 st0 str st1 ur u1 (proj1 (proj1 HL0)) Ar1 A1 (proj1 HLr) (proj1 HL1)).
      rewrite (pos_order d2 HD2 s0 sr s1 (ur ++ x) (u1 ++ x) (proj1 (proj1 (proj2 HL0))) Ar2 A2 (proj1 (proj2 HLr)) (proj1 (proj2 HL1))).
      rewrite !app_length. destruct (Nat.ltb_spec (length u1) (length ur)); destruct (Nat.ltb_spec (length u1 + length x) (length ur + length x)); try reflexivity; lia. }
    rewrite <- EP. cbn [andb] in *.
    assert (Htail : forall kk : unit -> M (kind * value), True -> True). { auto. }
    clear Htail.
    assert (Htl : (op <- peek d1 ;;
                   match op with
                   | Some c => if is_e c then skip d1 ;;; '(_, _, et) <- parse_exponent d1 F1 ;; ret (lit_real (txt ++ [c] ++ et))
                               else ret (lit_real txt)
                   | None => ret (lit_real txt)
                   end) str = (Ok (k, v), st') ->
                  exists s' u', (op <- peek d2 ;;
                   match op with
                   | Some c => if is_e c then skip d2 ;;; '(_, _, et) <- parse_exponent d2 F2 ;; ret (lit_real (txt ++ [c] ++ et))
                               else ret (lit_real txt)
                   | None => ret (lit_real txt)
                   end) sr = (Ok (k, v), s') /\ L st' s' u').
    { intro H'. pose proof HLr as HLr0. destruct HLr as [R1 [R2 [R3 R4]]]. pose proof (L_hd2 _ _ _ HLr0) as HLh.
      rewrite (bind_peek_flat d2 HD2 _ _ _ _ R2 HLh). destruct ur as [|c ur].
      - unfold bind at 1 in H'. rewrite (peek_nil d1 HD1 _ R1) in H'. unfold ret in H'. injection H' as <- <- <-. cbn [app].
        destruct (hd_error x) as [c|] eqn:Ex; [rewrite (not_e_x _ Ex)|]; unfold ret; exists sr, []; (split; [reflexivity|exact HLr0]).
      - assert (Lc : c < 256) by (inversion R3 as [|? ? [Hc' _] ?]; exact Hc').
        unfold bind at 1 in H'. rewrite (peek_cons d1 HD1 _ _ _ R1 Lc) in H'. cbn [app hd_error] in *.
        destruct (is_e c) eqn:Ee.
        + rewrite (bind_skip d1 HD1 _ _ _ _ _ R1) in H'. rewrite (bind_skip d2 HD2 _ _ _ _ _ R2).
          unfold bind at 1 in H'. destruct (parse_exponent d1 F1 (skip_char str c)) as [[[[ng ev] et]|e|a] ste] eqn:EE; try discriminate.
          destruct (pe_lock _ _ _ _ _ _ _ EE (L_skip _ _ _ _ HLr0) Hn) as [se [ue [EE2 HLe]]].
          { intros ->. apply (sign_at_end _ _ c HLr0 Ee). }
          unfold bind at 1. rewrite EE2. unfold ret in *. injection H' as <- <- <-. exists se, ue. split; [reflexivity|exact HLe].
        + unfold ret in *. injection H' as <- <- <-. exists sr, (c :: ur). split; [reflexivity|exact HLr0]. }
    destruct (plt (r_pos str) (r_pos st1)).
    - destruct initial as [p|e]; destruct initial2 as [q|e2]; cbn [isame] in HI; try contradiction.
      + unfold bind at 1 in H. unfold bind at 1 in H. unfold of_result, ret at 1 in H. unfold ret at 1 in H.
        unfold bind at 1. unfold bind at 1. unfold of_result, ret at 1. unfold ret at 1. apply Htl. exact H.
      + unfold bind at 1 in H. unfold bind at 1 in H. unfold of_result, throw in H. discriminate.
    - unfold bind at 1 in H. unfold ret at 1 in H. unfold bind at 1. unfold ret at 1. apply Htl. exact H.
  Qed.


  Lemma abs_int_exp_lock : forall p0 p02 initial initial2 st s u k v st',
    abs_int_exp d1 F1 p0 initial st = (Ok (k, v), st') -> L st s u -> isame initial initial2 ->
    (exists c u0, u = c :: u0 /\ is_e c = true) ->
    exists s' u', abs_int_exp d2 F2 p02 initial2 s = (Ok (k, v), s') /\ L st' s' u'.
  Proof.
    intros p0 p02 initial initial2 st s u k v st' H HL HI [c [u0 [-> Ee]]]. unfold abs_int_exp in *.
    destruct initial as [[iv it]|e]; destruct initial2 as [[iv2 it2]|e2]; cbn [isame] in HI; try contradiction;
      [|unfold bind, of_result, throw in H; discriminate]. injection HI as <- <-.
    unfold bind at 1 in H. unfold of_result, ret at 1 in H. unfold bind at 1. unfold of_result, ret at 1.
    pose proof HL as HL0. destruct HL as [H1 [H2 [H3 H4]]].
    assert (Lc : c < 256) by (inversion H3 as [|? ? [Hc' _] ?]; exact Hc').
    unfold bind at 1 in H. unfold try in H. rewrite (peek_cons d1 HD1 _ _ _ H1 Lc) in H.
    unfold bind at 1. unfold try. cbn [app] in H2. rewrite (peek_cons d2 HD2 _ _ _ H2 Lc).
    rewrite (bind_skip d1 HD1 _ _ _ _ _ H1) in H. rewrite (bind_skip d2 HD2 _ _ _ _ _ H2).
    unfold bind at 1 in H. destruct (parse_exponent d1 F1 (skip_char st c)) as [[[[ng ev] et]|e|a] ste] eqn:EE; try discriminate.
    destruct (pe_lock _ _ _ _ _ _ _ EE (L_skip _ _ _ _ HL0) Hn) as [se [ue [EE2 HLe]]].
    { intros ->. apply (sign_at_end _ _ c HL0 Ee). }
    unfold bind at 1. rewrite EE2. unfold bind, get_pos in *.
    destruct (exp_is_neg ng ev); [unfold throw in H; discriminate|].
    destruct (ev <=? 19); [|unfold throw in H; discriminate].
    destruct ((10 ^ ev <? TWO64) && (10 ^ ev * iv <? TWO64)); unfold ret, throw in *; [|discriminate].
    injection H as <- <- <-. exists se, ue. split; [reflexivity|exact HLe].
  Qed.

  Lemma try_pi_lock : forall base stp st r st' s u,
    try (parse_integer d1 F1 base stp) st = (Ok r, st') -> L st s u ->
    exists r2 s' u', try (parse_integer d2 F2 base stp) s = (Ok r2, s') /\ L st' s' u' /\ isame r r2 /\
      adv d1 st st' /\ adv d2 s s'.
  Proof.
    intros base stp st r st' s u H HL. unfold try in *.
    destruct (parse_integer d1 F1 base stp st) as [[p|e|a] st1] eqn:EP; try discriminate; injection H as <- <-.
    - destruct (pi_lock base stp st _ _ s u EP ltac:(intros a E; discriminate) HL Hn) as [r2 [s1 [u1 [E2 [HL1 R]]]]].
      destruct r2 as [q|e|a]; cbn [rsame] in R; try contradiction. subst q. rewrite E2. exists (inl p), s1, u1.
      split; [reflexivity|]. split; [exact HL1|]. split; [reflexivity|]. split.
      + apply (advO_parse_integer d1 F1 st base stp st _ _ (adv_refl d1 st) EP).
      + apply (advO_parse_integer d2 F2 s base stp s _ _ (adv_refl d2 s) E2).
    - destruct (pi_lock base stp st _ _ s u EP ltac:(intros a E; discriminate) HL Hn) as [r2 [s1 [u1 [E2 [HL1 R]]]]].
      destruct r2 as [q|e2|a]; cbn [rsame] in R; try contradiction. rewrite E2. exists (inr e2), s1, u1.
      split; [reflexivity|]. split; [exact HL1|]. split; [exact I|]. split.
      + apply (advO_parse_integer d1 F1 st base stp st _ _ (adv_refl d1 st) EP).
      + apply (advO_parse_integer d2 F2 s base stp s _ _ (adv_refl d2 s) E2).
  Qed.


  Lemma lk_peek : forall st s u, L st s u ->
    peek d1 st = (Ok (hd_error u), st) /\ peek d2 s = (Ok (hd_error (u ++ x)), s).
  Proof.
    intros st s u HL. pose proof (L_hd2 _ _ _ HL) as Hh. destruct HL as [H1 [H2 [H3 _]]]. split.
    - apply (peek_flat d1 HD1 _ _ H1). destruct u as [|c u]; [exact I|]. inversion H3 as [|? ? [Hc' _] ?]. exact Hc'.
    - apply (peek_flat d2 HD2 _ _ H2 Hh).
  Qed.

  (* abs_based, cut into its three parts *)
  Definition based_frac (D : list (list char)) (F : nat) (base : N) (op : option N) : M (option ((N * list N) + terr)) :=
    if opt_is op 46 then skip D ;;; r <- try (parse_integer D F base false) ;; ret (Some r) else ret None.
  Definition based_tail (D : list (list char)) (F : nat) (delim : N) (p0 pai : position) (base : N) (bt : list N)
             (bres : (N * list N) + terr) (fres : option ((N * list N) + terr)) : M (kind * value) :=
    op2 <- peek D ;;
    if opt_is op2 delim then
      skip D ;;;
      '(iv, it) <- of_result bres ;;
      ftxt <- (match fres with
               | Some r => '(_, ft) <- of_result r ;; ret (Some ft)
               | None => ret None
               end) ;;
      let txt := bt ++ [delim] ++ it ++ (match ftxt with Some ft => [46] ++ ft | None => [] end) ++ [delim] in
      if negb (in_range 2 16 base) then throw (TErr p0 pai 11)
      else
        op3 <- peek D ;;
        oexp <- (match op3 with
                 | Some c => if is_e c then skip D ;;; x <- parse_exponent D F ;; ret (Some (c, x))
                             else ret None
                 | None => ret None
                 end) ;;
        let txt := match oexp with
                   | Some (c, (_, _, et)) => txt ++ [c] ++ et
                   | None => txt
                   end in
        match ftxt with
        | Some _ => ret (lit_real txt)
        | None =>
          match oexp with
          | Some (_, (neg, ev, _)) =>
            e <- get_pos ;;
            if exp_is_neg neg ev then throw (TErr p0 e 10)
            else if ev <=? 64 then
              (if (base ^ ev <? TWO64) && (base ^ ev * iv <? TWO64)
               then ret (lit_int txt (base ^ ev * iv))
               else throw (TErr p0 e 4))
            else throw (TErr p0 e 4)
          | None => ret (lit_int txt iv)
          end
        end
    else e <- get_pos ;; throw (TErr p0 e 12).
  Lemma abs_based_unfold : forall D F delim p0 pai initial,
    abs_based D F delim p0 pai initial =
    ('(base, bt) <- of_result initial ;; skip D ;;; bres <- try (parse_integer D F base false) ;;
     op <- peek D ;; fres <- based_frac D F base op ;; based_tail D F delim p0 pai base bt bres fres).
  Proof. reflexivity. Qed.

  Definition based_ftxt (fres : option ((N * list N) + terr)) : M (option (list N)) :=
    match fres with
    | Some r => '(_, ft) <- of_result r ;; ret (Some ft)
    | None => ret None
    end.
  Definition based_exp (D : list (list char)) (F : nat) (op3 : option N) : M (option (N * (bool * N * list N))) :=
    match op3 with
    | Some c => if is_e c then skip D ;;; x <- parse_exponent D F ;; ret (Some (c, x)) else ret None
    | None => ret None
    end.
  Definition based_tail2 (D : list (list char)) (F : nat) (delim : N) (p0 pai : position) (base : N) (bt : list N)
             (iv : N) (it : list N) (ftxt : option (list N)) : M (kind * value) :=
    let txt := bt ++ [delim] ++ it ++ (match ftxt with Some ft => [46] ++ ft | None => [] end) ++ [delim] in
    if negb (in_range 2 16 base) then throw (TErr p0 pai 11)
    else
      op3 <- peek D ;;
      oexp <- based_exp D F op3 ;;
      let txt := match oexp with
                 | Some (c, (_, _, et)) => txt ++ [c] ++ et
                 | None => txt
                 end in
      match ftxt with
      | Some _ => ret (lit_real txt)
      | None =>
        match oexp with
        | Some (_, (neg, ev, _)) =>
          e <- get_pos ;;
          if exp_is_neg neg ev then throw (TErr p0 e 10)
          else if ev <=? 64 then
            (if (base ^ ev <? TWO64) && (base ^ ev * iv <? TWO64)
             then ret (lit_int txt (base ^ ev * iv))
             else throw (TErr p0 e 4))
          else throw (TErr p0 e 4)
        | None => ret (lit_int txt iv)
        end
      end.
  Lemma based_tail_unfold : forall D F delim p0 pai base bt bres fres,
    based_tail D F delim p0 pai base bt bres fres =
    (op2 <- peek D ;;
     if opt_is op2 delim then
       skip D ;;; '(iv, it) <- of_result bres ;; ftxt <- based_ftxt fres ;; based_tail2 D F delim p0 pai base bt iv it ftxt
     else e <- get_pos ;; throw (TErr p0 e 12)).
  Proof. reflexivity. Qed.

  Definition fsame (a b : option ((N * list N) + terr)) : Prop :=
    match a, b with Some p, Some q => isame p q | None, None => True | _, _ => False end.

  Lemma based_exp_lock : forall st s u oexp ste,
    based_exp d1 F1 (hd_error u) st = (Ok oexp, ste) -> L st s u ->
    exists se ue, based_exp d2 F2 (hd_error (u ++ x)) s = (Ok oexp, se) /\ L ste se ue.
  Proof.
    intros st s u oexp ste E HLa. unfold based_exp in *. destruct u as [|y u]; cbn [app hd_error] in *.
    - unfold ret in E. injection E as <- <-. unfold char in *. destruct (hd_error x) as [y|] eqn:Ex; [rewrite (not_e_x _ Ex)|];
        unfold ret; exists s, []; (split; [reflexivity|exact HLa]).
    - destruct (is_e y) eqn:Ee.
      + rewrite (bind_skip d1 HD1 _ _ _ _ _ (proj1 HLa)) in E. pose proof (proj1 (proj2 HLa)) as H2. cbn [app] in H2.
        rewrite (bind_skip d2 HD2 _ _ _ _ _ H2). unfold bind at 1 in E.
        destruct (parse_exponent d1 F1 (skip_char st y)) as [[[[ng ev] et]|e|a] stx] eqn:EE; try discriminate.
        destruct (pe_lock _ _ _ _ _ _ _ EE (L_skip _ _ _ _ HLa) Hn) as [se [ue [EE2 HLe]]].
        { intros ->. apply (sign_at_end _ _ y HLa Ee). }
        unfold bind at 1. rewrite EE2. unfold ret in *. injection E as <- <-. exists se, ue. split; [reflexivity|exact HLe].
      + unfold ret in *. injection E as <- <-. exists s, (y :: u). split; [reflexivity|exact HLa].
  Qed.
  Lemma based_tail2_lock : forall delim p0 pai p02 pai2 base bt iv it ftxt st s u k v st',
    based_tail2 d1 F1 delim p0 pai base bt iv it ftxt st = (Ok (k, v), st') -> L st s u ->
    exists s' u', based_tail2 d2 F2 delim p02 pai2 base bt iv it ftxt s = (Ok (k, v), s') /\ L st' s' u'.
  Proof.
    intros delim p0 pai p02 pai2 base bt iv it ftxt st s u k v st' H HLa. unfold based_tail2 in *. cbv zeta in *.
    destruct (negb (in_range 2 16 base)); [unfold throw in H; discriminate|].
    destruct (lk_peek _ _ _ HLa) as [P1 P2]. unfold bind at 1 in H. rewrite P1 in H. unfold bind at 1. rewrite P2.
    unfold bind at 1 in H. destruct (based_exp d1 F1 (hd_error u) st) as [[oexp|e|a] ste] eqn:EO; try discriminate.
    destruct (based_exp_lock _ _ _ _ _ EO HLa) as [se [ue [EO2 HLe]]]. unfold bind at 1. unfold char in *. rewrite EO2.
    destruct ftxt as [ft|].
    - unfold ret in *. injection H as <- <- <-. exists se, ue. split; [reflexivity|exact HLe].
    - destruct oexp as [[ce [[ng ev] et]]|].
      + unfold bind, get_pos in *. destruct (exp_is_neg ng ev); [unfold throw in H; discriminate|].
        destruct (ev <=? 64); [|unfold throw in H; discriminate].
        destruct ((base ^ ev <? TWO64) && (base ^ ev * iv <? TWO64)); unfold ret, throw in *; [|discriminate].
        injection H as <- <- <-. exists se, ue. split; [reflexivity|exact HLe].
      + unfold ret in *. injection H as <- <- <-. exists se, ue. split; [reflexivity|exact HLe].
  Qed.
  Lemma based_tail_lock : forall delim p0 pai p02 pai2 base bt bres bres2 fres fres2 st s u k v st',
    based_tail d1 F1 delim p0 pai base bt bres fres st = (Ok (k, v), st') -> L st s u -> isame bres bres2 -> fsame fres fres2 ->
    exists s' u', based_tail d2 F2 delim p02 pai2 base bt bres2 fres2 s = (Ok (k, v), s') /\ L st' s' u'.
  Proof.
    intros delim p0 pai p02 pai2 base bt bres bres2 fres fres2 st s u k v st' H HL IB IF. rewrite based_tail_unfold in *.
    destruct (lk_peek _ _ _ HL) as [P1 P2]. unfold bind at 1 in H. rewrite P1 in H. unfold bind at 1. rewrite P2.
    destruct u as [|c u]; [cbn [hd_error opt_is] in H; unfold bind, get_pos, throw in H; discriminate|]. cbn [app hd_error opt_is] in *.
    destruct (c =? delim); [|unfold bind, get_pos, throw in H; discriminate].
    rewrite (bind_skip d1 HD1 _ _ _ _ _ (proj1 HL)) in H. pose proof (proj1 (proj2 HL)) as H2. cbn [app] in H2.
    rewrite (bind_skip d2 HD2 _ _ _ _ _ H2). clear H2 P1 P2. pose proof (L_skip _ _ _ _ HL) as HLa.
    destruct bres as [[iv it]|e]; destruct bres2 as [[iv2 it2]|e2]; cbn [isame] in IB; try contradiction;
      [|unfold bind at 1 in H; unfold of_result, throw in H; discriminate]. injection IB as <- <-.
    unfold bind at 1 in H. cbn [of_result] in H. unfold ret at 1 in H. unfold bind at 1. cbn [of_result]. unfold ret at 1.
    destruct fres as [[[fv ft]|e]|]; destruct fres2 as [[[fv2 ft2]|e2]|]; cbn [fsame isame] in IF; try contradiction.
    - injection IF as <- <-. unfold bind at 1 in H. unfold based_ftxt at 1 in H. unfold bind at 1 in H. cbn [of_result] in H. unfold ret at 1 2 in H.
      unfold bind at 1. unfold based_ftxt at 1. unfold bind at 1. cbn [of_result]. unfold ret at 1 2.
      apply (based_tail2_lock _ _ _ _ _ _ _ _ _ _ _ _ _ _ _ _ H HLa).
    - unfold bind at 1 in H. unfold based_ftxt at 1 in H. unfold bind at 1 in H. cbn [of_result] in H. unfold throw in H. discriminate.
    - unfold bind at 1 in H. unfold based_ftxt, ret at 1 in H. unfold bind at 1. unfold based_ftxt, ret at 1.
      apply (based_tail2_lock _ _ _ _ _ _ _ _ _ _ _ _ _ _ _ _ H HLa).
  Qed.


  Lemma based_frac_lock : forall base st s u fres stf,
    based_frac d1 F1 base (hd_error u) st = (Ok fres, stf) -> L st s u -> u <> [] ->
    exists fres2 sf uf, based_frac d2 F2 base (hd_error (u ++ x)) s = (Ok fres2, sf) /\ L stf sf uf /\ fsame fres fres2.
  Proof.
    intros base st s u fres stf H HL Hne. destruct u as [|c u]; [congruence|]. unfold based_frac in *. cbn [app hd_error opt_is] in *.
    destruct (c =? 46).
    - rewrite (bind_skip d1 HD1 _ _ _ _ _ (proj1 HL)) in H. pose proof (proj1 (proj2 HL)) as H2. cbn [app] in H2.
      rewrite (bind_skip d2 HD2 _ _ _ _ _ H2). unfold bind at 1 in H.
      destruct (try (parse_integer d1 F1 base false) (skip_char st c)) as [[fr|e|a] st2] eqn:EF; try discriminate.
      destruct (try_pi_lock _ _ _ _ _ _ _ EF (L_skip _ _ _ _ HL)) as [fr2 [sf [uf [EF2 [HLf [IF _]]]]]].
      unfold bind at 1. rewrite EF2. unfold ret in *. injection H as <- <-. exists (Some fr2), sf, uf. split; [reflexivity|]. split; [exact HLf|exact IF].
    - unfold ret in *. injection H as <- <-. exists None, s, (c :: u). split; [reflexivity|]. split; [exact HL|exact I].
  Qed.

  Lemma abs_based_lock : forall delim p0 pai p02 pai2 initial initial2 st s u k v st',
    abs_based d1 F1 delim p0 pai initial st = (Ok (k, v), st') -> L st s u -> isame initial initial2 ->
    (exists c0 u0, u = c0 :: u0) ->
    exists s' u', abs_based d2 F2 delim p02 pai2 initial2 s = (Ok (k, v), s') /\ L st' s' u'.
  Proof.
    intros delim p0 pai p02 pai2 initial initial2 st s u k v st' H HL HI [c0 [u0 ->]]. rewrite abs_based_unfold in *.
    destruct initial as [[base bt]|e]; destruct initial2 as [[base2 bt2]|e2]; cbn [isame] in HI; try contradiction;
      [|unfold bind at 1 in H; unfold of_result, throw in H; discriminate]. injection HI as <- <-.
    unfold bind at 1 in H. cbn [of_result] in H. unfold ret at 1 in H. unfold bind at 1. cbn [of_result]. unfold ret at 1.
    rewrite (bind_skip d1 HD1 _ _ _ _ _ (proj1 HL)) in H. pose proof (proj1 (proj2 HL)) as H2. cbn [app] in H2.
    rewrite (bind_skip d2 HD2 _ _ _ _ _ H2). pose proof (L_skip _ _ _ _ HL) as HLa. clear H2.
    unfold bind at 1 in H. destruct (try (parse_integer d1 F1 base false) (skip_char st c0)) as [[bres|e|a] stb] eqn:EB; try discriminate.
    destruct (try_pi_lock _ _ _ _ _ _ _ EB HLa) as [bres2 [sb [ub [EB2 [HLb [IB _]]]]]]. unfold bind at 1. rewrite EB2.
    destruct (lk_peek _ _ _ HLb) as [P1 P2]. unfold bind at 1 in H. rewrite P1 in H. unfold bind at 1. rewrite P2.
    unfold bind at 1 in H. destruct (based_frac d1 F1 base (hd_error ub) stb) as [[fres|e|a] stf] eqn:EFr; try discriminate.
    destruct ub as [|c ub].
    - (* the lexeme ends behind the digits: no closing `#`, an error *)
      exfalso. unfold based_frac in EFr. cbn [hd_error opt_is] in EFr. unfold ret in EFr. injection EFr as <- <-.
      rewrite based_tail_unfold in H. unfold bind at 1 in H. rewrite (peek_nil d1 HD1 _ (proj1 HLb)) in H. cbn [opt_is] in H.
      unfold bind, get_pos, throw in H. discriminate.
    - destruct (based_frac_lock _ _ _ _ _ _ EFr HLb ltac:(discriminate)) as [fres2 [sf [uf [EFr2 [HLf IF]]]]].
      unfold bind at 1. unfold char in *. rewrite EFr2. apply (based_tail_lock _ _ _ _ _ _ _ _ _ _ _ _ _ _ _ _ _ H HLf IB IF).
  Qed.

  Lemma lowercase_101 : forall c, lowercase c = 101 -> is_e c = true.
  Proof.
    intros c H. unfold is_e. unfold lowercase, in_range in H. destruct (c =? 215); [lia|].
    destruct ((65 <=? c) && (c <=? 90) || (192 <=? c) && (c <=? 214) || (216 <=? c) && (c <=? 222)) eqn:E; lia.
  Qed.
  Lemma lowercase_35 : forall c, lowercase c = 35 -> c = 35.
  Proof.
    intros c H. unfold lowercase, in_range in H. destruct (c =? 215); [lia|].
    destruct ((65 <=? c) && (c <=? 90) || (192 <=? c) && (c <=? 214) || (216 <=? c) && (c <=? 222)) eqn:E; lia.
  Qed.

  Lemma pal_lock : forall st s u k v st',
    parse_abstract_literal d1 F1 st = (Ok (k, v), st') -> L st s u -> (k = KBitString -> hd_is x 34 = false) ->
    exists s' u', parse_abstract_literal d2 F2 s = (Ok (k, v), s') /\ L st' s' u'.
  Proof.
    intros st s u k v st' H HL H34. unfold parse_abstract_literal in *.
    unfold bind at 1 in H. unfold get_state at 1 in H. unfold bind at 1. unfold get_state at 1. cbv zeta in *.
    unfold bind at 1 in H. destruct (try (parse_integer d1 F1 10 true) st) as [[initial|e|a] st1] eqn:EI; try discriminate.
    destruct (try_pi_lock _ _ _ _ _ _ _ EI HL) as [initial2 [s1 [u1 [EI2 [HL1 [II [A1 A2]]]]]]]. unfold bind at 1. rewrite EI2.
    unfold bind at 1 in H. unfold get_pos at 1 in H. unfold bind at 1. unfold get_pos at 1.
    pose proof (L_hd2 _ _ _ HL1) as Hh.
    unfold bind at 1. rewrite (peek_lowercase_flat d2 HD2 _ _ (proj1 (proj2 HL1)) Hh).
    assert (Hplain : abs_plain initial st1 = (Ok (k, v), st') -> abs_plain initial2 s1 = (Ok (k, v), s1) /\ st' = st1).
    { intro E. unfold abs_plain in *. destruct initial as [[iv it]|e]; destruct initial2 as [[iv2 it2]|e2]; cbn [isame] in II; try contradiction;
        [|unfold bind, of_result, throw in E; discriminate]. injection II as <- <-.
      unfold bind, of_result, ret in *. injection E as <- <- <-. split; reflexivity. }
    destruct u1 as [|c u1].
    - unfold bind at 1 in H. rewrite (peek_lowercase_flat d1 HD1 _ _ (proj1 HL1) I) in H. cbn [hd_error option_map app] in *.
      destruct (Hplain H) as [E2 ->]. unfold char in *. destruct (hd_error x) as [c|] eqn:Ex; cbn [option_map].
      + pose proof Hn as Hn'. rewrite (hd_err_sat _ _ _ Ex) in Hn'. pose proof H46 as H46'. rewrite (hd_err_is _ _ _ Ex) in H46'.
        pose proof H35 as H35'. rewrite (hd_err_is _ _ _ Ex) in H35'.
        pose proof H58 as H58'. rewrite (hd_err_is _ _ _ Ex) in H58'.
        assert (NL : forall w, w <= 122 -> w <> c -> (lowercase c =? w) = false).
        { intros w Hw Hne. destruct (lowercase c =? w) eqn:E1; [|reflexivity]. apply N.eqb_eq in E1.
          apply (lowercase_nonidc _ _ Hn' Hw) in E1. congruence. }
        assert (NI : forall w, 97 <= w <= 122 -> w <> c).
        { intros w Hw ->. unfold is_idc, is_alnum, is_alpha, is_lower, in_range in Hn'. lia. }
        rewrite (NL 46), (NL 101), (NL 35), (NL 58) by (try lia; try (apply NI; lia)).
        unfold is_bs_letter. rewrite (NL 115), (NL 117), (NL 98), (NL 111), (NL 120), (NL 100) by (try lia; try (apply NI; lia)).
        cbn [orb]. exists s1, []. split; [exact E2|exact HL1].
      + exists s1, []. split; [exact E2|exact HL1].
    - pose proof (L_lat _ _ _ _ HL1) as Lc.
      unfold bind at 1 in H. rewrite (peek_lowercase_flat d1 HD1 _ _ (proj1 HL1) Lc) in H. cbn [hd_error option_map app] in *.
      destruct (lowercase c =? 46).
      + apply (abs_real_lock _ _ _ _ _ _ _ _ _ _ _ _ _ H HL HL1 A1 A2 II).
      + destruct (lowercase c =? 101) eqn:E101.
        * apply (abs_int_exp_lock _ _ _ _ _ _ _ _ _ _ H HL1 II). exists c, u1. split; [reflexivity|]. apply lowercase_101. apply N.eqb_eq. exact E101.
        * destruct (lowercase c =? 35) eqn:E35.
          -- apply (abs_based_lock _ _ _ _ _ _ _ _ _ _ _ _ _ H HL1 II). exists c, u1. reflexivity.
          -- destruct (lowercase c =? 58) eqn:E58.
             { (* ':' : the one-character lookahead *)
               assert (Hcol : exists b, colon_starts_based_literal d1 st1 = (Ok b, st1) /\ colon_starts_based_literal d2 s1 = (Ok b, s1)).
               { unfold colon_starts_based_literal, colon_lookahead. unfold bind.
                 rewrite (skip_cons d1 HD1 _ _ _ (proj1 HL1)). pose proof (proj1 (proj2 HL1)) as H2. cbn [app] in H2.
                 rewrite (skip_cons d2 HD2 _ _ _ H2). unfold try. pose proof (L_skip _ _ _ _ HL1) as HLs.
                 destruct (lk_peek _ _ _ HLs) as [P1 P2]. rewrite P1, P2. destruct u1 as [|y u1]; cbn [app hd_error].
                 - unfold char in *. destruct (hd_error x) as [y|] eqn:Ex.
                   + exists false. split; [reflexivity|]. pose proof Hn as Hn'. rewrite (hd_err_sat _ _ _ Ex) in Hn'.
                     unfold is_idc in Hn'. apply orb_false_iff in Hn'. destruct Hn' as [-> _]. reflexivity.
                   + exists false. split; reflexivity.
                 - exists (is_alnum y). split; reflexivity. }
               destruct Hcol as [bb [C1 C2]]. unfold bind at 1 in H. rewrite C1 in H. unfold bind at 1. rewrite C2.
               destruct bb.
               - apply (abs_based_lock _ _ _ _ _ _ _ _ _ _ _ _ _ H HL1 II). exists c, u1. reflexivity.
               - destruct (Hplain H) as [E2 ->]. exists s1, (c :: u1). split; [exact E2|exact HL1]. }
             destruct (is_bs_letter (lowercase c)).
             ++ assert (Hlen : (length (c :: u1) <= length u)%nat).
                { destruct A1 as [n S]. pose proof (steps_len d1 HD1 _ _ _ S (proj1 (proj1 HL))) as E.
                  rewrite (proj2 (proj1 HL)), (proj2 (proj1 HL1)) in E. lia. }
                apply (abs_bit_string_lock st s u _ _ _ _ _ _ _ _ H II HL HL1 A1 A2 Hlen (H34 (abs_bit_kind _ _ _ _ _ _ _ _ H))).
             ++ destruct (Hplain H) as [E2 ->]. exists s1, (c :: u1). split; [exact E2|exact HL1].
  Qed.


  (* ---------- parse_token: the digit arm ---------- *)
  Lemma pt_lock_digit : forall start last start2 last2 st s b u k v w st',
    parse_token d1 keywords_2008 F1 true start last st = (Ok (Some (k, v, w)), st') -> L st s (b :: u) -> is_digit b = true ->
    (k = KBitString -> hd_is x 34 = false) ->
    exists s' u', parse_token d2 keywords_2008 F2 true start2 last2 s = (Ok (Some (k, v, w)), s') /\ L st' s' u'.
  Proof.
    intros start last start2 last2 st s b u k v w st' H HL Hd H34. pose proof (L_lat _ _ _ _ HL) as Lb. unfold parse_token in *.
    unfold bind at 1 in H. rewrite (peek_cons d1 HD1 _ _ _ (proj1 HL) Lb) in H. cbv beta iota in H.
    pose proof (proj1 (proj2 HL)) as H2. cbn [app] in H2. unfold bind at 1. rewrite (peek_cons d2 HD2 _ _ _ H2 Lb). cbv beta iota.
    replace (is_alpha b || (b =? 95)) with false in * by (unfold is_alpha, is_lower, is_upper, is_digit, in_range in *; lia).
    rewrite Hd in *. unfold lift_kv in *. unfold bind at 1 in H.
    destruct (parse_abstract_literal d1 F1 st) as [[[k1 v1]|e|a] st1] eqn:EP; try discriminate.
    unfold ret in H. cbn [fst snd] in H. injection H as <- <- <- <-.
    destruct (pal_lock _ _ _ _ _ _ EP HL H34) as [s1 [u1 [EP2 HL1]]]. unfold bind. rewrite EP2. unfold ret. cbn [fst snd].
    exists s1, u1. split; [reflexivity|exact HL1].
  Qed.
End Lock.
