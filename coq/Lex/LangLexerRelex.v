(* Lex/LangLexerRelex.v — (e) relex_partial: re-lexing the slice of a token alone yields the same
   kind and value, proved for delimiter tokens and character literals (finite evaluation of the
   lexer on every such lexeme + token_text_exact).  The general statement is explored by the
   implementation-level oracle (checks/c11.py). *)
From Coq Require Import List NArith Arith Bool Lia.
Import ListNotations.
From RH Require Import Text.Contents Text.Reader Lex.LangLexer Lex.LexSpec Lex.LangLexerText.
Open Scope N_scope.

Definition delim_kinds : list kind :=
  [KColon; KColonEq; KTick; KMinus; KSemiColon; KLeftPar; KRightPar; KPlus; KDot; KConcat; KComma; KEQ;
   KRightArrow; KLT; KLTE; KBOX; KLtLt; KGT; KGTE; KGtGt; KDiv; KNE; KTimes; KPow; KQue; KQueQue; KQueEQ;
   KQueNE; KQueLT; KQueLTE; KQueGT; KQueGTE; KCirc; KCommAt; KBar; KLeftSquare; KRightSquare].

Definition relex_kv (k : kind) (v : value) (sl : list char) : Prop :=
  exists t' ds, lex_all sl = Done [t'] ds /\ t_kind t' = k /\ t_val t' = v.

Lemma relex_delims : Forall (fun k => relex_kv k VNone (delim_text k)) delim_kinds.
Proof.
  unfold delim_kinds.
  repeat (constructor; [eexists; eexists; split; [vm_compute; reflexivity|split; reflexivity]|]).
  constructor.
Qed.

Definition bytes256 : list N := map N.of_nat (seq 0 256).
Definition relex_char_b (c : N) : bool :=
  match lex_all [39; c; 39] with
  | Done [t'] _ => match t_kind t', t_val t' with KCharacter, VChar c' => c' =? c | _, _ => false end
  | _ => false
  end.
Lemma relex_chars_b : forallb (fun c => (c =? 13) || relex_char_b c) bytes256 = true.
Proof. vm_compute. reflexivity. Qed.
Lemma relex_chars : forall c, c < 256 -> c <> 13 -> relex_kv KCharacter (VChar c) [39; c; 39].
Proof.
  intros c Hc Hcr. pose proof relex_chars_b as H. rewrite forallb_forall in H.
  assert (HI : In c bytes256).
  { unfold bytes256. replace c with (N.of_nat (N.to_nat c)) by lia. apply in_map. apply in_seq. lia. }
  specialize (H c HI). replace (c =? 13) with false in H by (symmetry; apply N.eqb_neq; exact Hcr).
  cbn [orb] in H. unfold relex_char_b in H.
  destruct (lex_all [39; c; 39]) as [[|t' [|t'' r]] ds|a] eqn:EL; try discriminate.
  destruct (t_kind t') eqn:K; try discriminate. destruct (t_val t') eqn:V; try discriminate.
  apply N.eqb_eq in H. subst. exists t', ds. auto.
Qed.

Lemma leqb_true : forall x y, leqb x y = true -> x = y.
Proof. intros x y H. unfold leqb in H. destruct (list_eq_dec N.eq_dec x y); [assumption|discriminate]. Qed.

Theorem relex_partial : forall s toks diags, lex_all s = Done toks diags ->
  Forall (fun t =>
    ((t_val t = VNone /\ In (t_kind t) delim_kinds) \/ (t_kind t = KCharacter /\ exists c, t_val t = VChar c /\ c < 256 /\ c <> 13)) ->
    relex_prop t (slice_of_text s (t_s t) (t_e t))) toks.
Proof.
  intros s toks diags H. pose proof (token_text_exact s toks diags H) as HT.
  eapply Forall_impl; [|exact HT]. intros t Hl [[Hv Hk]|[Hk [c [Hv [Hc Hcr]]]]].
  - unfold lexeme_ok in Hl. rewrite Hv in Hl.
    pose proof relex_delims as RD. rewrite Forall_forall in RD. specialize (RD _ Hk).
    assert (E : slice_of_text s (t_s t) (t_e t) = delim_text (t_kind t)).
    { unfold delim_kinds in Hk. cbn [In] in Hk.
      repeat (destruct Hk as [Hk|Hk]; [rewrite <- Hk in *; apply leqb_true; exact Hl|]). destruct Hk. }
    rewrite E. destruct RD as [t' [ds [E1 [E2 E3]]]]. exists t', ds. rewrite Hv. auto.
  - unfold lexeme_ok in Hl. rewrite Hv in Hl. apply leqb_true in Hl. rewrite Hl.
    destruct (relex_chars c Hc Hcr) as [t' [ds [E1 [E2 E3]]]]. exists t', ds. rewrite Hk, Hv. auto.
Qed.
