(* Lex/CaseLayoutCorollaries.v — C13: what the simulation theorem of Lex/CaseLayoutProofs.v means for
   symbols (with Symtab/SymtabCase.v) and for the tokens whose characters were not changed (with
   token_text_exact of the C11 development); bounded re-layout sweep. *)
From Coq Require Import List NArith Arith Bool Lia.
Import ListNotations.
From RH Require Import Text.Contents Text.Reader Lex.LangLexer Lex.LexSpec Lex.LangLexerText
  Lex.CaseLayout Lex.CaseLayoutProofs Symtab.Symtab Symtab.SymtabProofs Symtab.SymtabCase.
Open Scope N_scope.

(* ---------------------------------------------------------------------------------------- *)
(* identifiers and symbols                                                                  *)
(* ---------------------------------------------------------------------------------------- *)
Lemma is_ext_to_name : forall a, is_ext (to_name a) = (hd 0 a =? 92).
Proof.
  intros [|c r]; [reflexivity|]. unfold to_name. cbn [map hd]. rewrite is_ext_cons.
  destruct (N.eqb_spec c 92) as [->|ne]; [reflexivity|]. apply Nat.eqb_neq. lia.
Qed.
Lemma hd_sim : forall a a', lsim a a' -> (hd 0 a =? 92) = (hd 0 a' =? 92).
Proof.
  intros a a' [|c c' r r' H _]; [reflexivity|]. cbn [hd]. symmetry. apply (cs_const _ _ H). cbn. tauto.
Qed.
Lemma lsim_low : forall a a', lsim a a' -> lower_latin1 (to_name a') = lower_latin1 (to_name a).
Proof. intros a a' H. rewrite <- !to_name_lowercase. rewrite (lsim_lowercase _ _ H). reflexivity. Qed.

(* two spellings of a basic identifier that differ only in letter case denote the same symbol in
   every state of the symbol table the implementation can reach *)
Theorem case_variants_same_symbol : forall a a', lsim a a' -> hd 0 a <> 92 ->
  forall t sa sb, reachable t -> find t (to_name a) = Some sa -> find t (to_name a') = Some sb ->
  s_id sa = s_id sb.
Proof.
  intros a a' H NE t sa sb Rt Fa Fb.
  assert (Ea : is_ext (to_name a) = false) by (rewrite is_ext_to_name; apply N.eqb_neq; exact NE).
  assert (Ea' : is_ext (to_name a') = false) by (rewrite is_ext_to_name, <- (hd_sim _ _ H); apply N.eqb_neq; exact NE).
  destruct (symtab_case_insensitive t _ sa _ sb Rt Fa Fb) as [B _].
  apply (B Ea Ea'). symmetry. apply lsim_low. exact H.
Qed.
(* an extended identifier keeps its symbol only if its spelling is unchanged *)
Theorem extended_same_symbol_iff_equal : forall a a', hd 0 a = 92 ->
  forall t sa sb, reachable t -> find t (to_name a) = Some sa -> find t (to_name a') = Some sb ->
  (s_id sa = s_id sb <-> a' = a).
Proof.
  intros a a' E t sa sb Rt Fa Fb.
  assert (Ea : is_ext (to_name a) = true) by (rewrite is_ext_to_name; apply N.eqb_eq; exact E).
  destruct (symtab_case_insensitive t _ sa _ sb Rt Fa Fb) as [_ X]. rewrite (X Ea).
  split; [intros Q; symmetry; apply to_name_inj; exact Q|intros ->; reflexivity].
Qed.

(* the committed keyword table of the lexer model is a duplicate-free list of lower-case basic
   identifiers: the hypothesis of the keyword theorems of Symtab/SymtabCase.v *)
Lemma keywords_2008_ok : kw_table_ok (map to_name keywords_2008).
Proof. apply kw_table_okb_ok. vm_compute. reflexivity. Qed.

(* ---------------------------------------------------------------------------------------- *)
(* tokens whose characters were not changed                                                 *)
(* ---------------------------------------------------------------------------------------- *)
Lemma escape_inj : forall q a b, escape q a = escape q b -> a = b.
Proof.
  intros q. induction a as [|x a IH]; intros [|y b] H; unfold escape in *; cbn [flat_map] in H.
  - reflexivity.
  - destruct (y =? q); discriminate.
  - destruct (x =? q); discriminate.
  - destruct (x =? q) eqn:X, (y =? q) eqn:Y; cbn [app] in H.
    + apply N.eqb_eq in X, Y. subst. injection H as H. f_equal. apply IH. exact H.
    + injection H as E1 H. destruct b as [|z b]; cbn [flat_map app] in H.
      * destruct a; cbn in H; [discriminate|]. destruct (n =? q); discriminate.
      * apply N.eqb_eq in X. apply N.eqb_neq in Y. subst. contradiction.
    + injection H as E1 H. apply N.eqb_neq in X. apply N.eqb_eq in Y. subst. contradiction.
    + injection H as E1 H. subst. f_equal. apply IH. exact H.
Qed.

Definition value_untouched (v v' : value) : Prop :=
  match v with
  | VString _ | VChar _ => v' = v
  | VIdent n => hd 0 n = 92 -> v' = v
  | _ => True
  end.

Lemma leqb_eq : forall x y, leqb x y = true -> x = y.
Proof. intros x y H. unfold leqb in H. destruct (list_eq_dec N.eq_dec x y); [assumption|discriminate]. Qed.

Lemma same_lexeme_same_value : forall t t' sl, tok_sim t t' ->
  lexeme_ok t sl = true -> lexeme_ok t' sl = true -> value_untouched (t_val t) (t_val t').
Proof.
  intros t t' sl [_ [V _]] L L'. unfold lexeme_ok in L, L'. unfold value_untouched.
  destruct (t_val t) as [|n|v|? ? ? ?|? ?|?|c|?]; destruct (t_val t') as [|n'|v'|? ? ? ?|? ?|?|c'|?];
    cbn in V; try contradiction; try exact I.
  - (* identifiers *) intros E. destruct V as [HS HL]. destruct (HL E) as [L1 L2].
    destruct n as [|x r]; [discriminate|]. cbn [hd] in E. subst x.
    destruct n' as [|x' r']; [inversion HS|]. inversion HS as [|? ? ? ? HX HR]; subst.
    assert (x' = 92) by (apply (cs_nonalpha _ _ HX); reflexivity). subst x'.
    rewrite N.eqb_refl in L, L'. apply leqb_eq in L, L'. rewrite L in L'. injection L' as L'.
    apply app_inj_tail in L'. destruct L' as [L' _]. apply escape_inj in L'.
    f_equal. f_equal.
    destruct r as [|y r]; [inversion HR; reflexivity|]. destruct r' as [|y' r']; [inversion HR|].
    rewrite (app_removelast_last 0 (l := y :: r)) by discriminate.
    rewrite (app_removelast_last 0 (l := y' :: r')) by discriminate.
    change (last (92 :: y :: r) 0) with (last (y :: r) 0) in L1.
    change (last (92 :: y' :: r') 0) with (last (y' :: r') 0) in L2.
    rewrite L', L1, L2. reflexivity.
  - (* strings *) apply leqb_eq in L, L'. rewrite L in L'. injection L' as L'.
    apply app_inj_tail in L'. destruct L' as [L' _]. apply escape_inj in L'. congruence.
  - (* character literals *) apply leqb_eq in L, L'. rewrite L in L'. injection L' as L'. congruence.
Qed.

Lemma F2_and : forall (A : Type) (P Q : A -> Prop) (R : A -> A -> Prop) l l',
  Forall P l -> Forall Q l' -> Forall2 R l l' -> Forall2 (fun x y => P x /\ Q y /\ R x y) l l'.
Proof.
  intros A P Q R l l' HP HQ H. induction H as [|x y l l' HR _ IH]; [constructor|].
  inversion HP; inversion HQ; subst. constructor; auto.
Qed.

(* strings, character literals and extended identifiers whose source characters are the same in both
   texts have identical values *)
Theorem untouched_tokens_keep_values : forall s s' toks ds toks' ds',
  lex_all s = Done toks ds -> lex_all s' = Done toks' ds' -> Forall2 tok_sim toks toks' ->
  Forall2 (fun t t' => slice_of_text s' (t_s t') (t_e t') = slice_of_text s (t_s t) (t_e t) ->
                       value_untouched (t_val t) (t_val t')) toks toks'.
Proof.
  intros s s' toks ds toks' ds' L L' H.
  pose proof (token_text_exact s toks ds L) as T. pose proof (token_text_exact s' toks' ds' L') as T'.
  pose proof (F2_and _ _ _ _ _ _ T T' H) as G.
  eapply F2_impl; [|exact G]. cbn beta. intros t t' [A [B C]] E. rewrite E in B.
  eapply same_lexeme_same_value; eassumption.
Qed.

(* ---------------------------------------------------------------------------------------- *)
(* a sufficient condition for `directives_agree` that can be computed: a text without an     *)
(* underscore has no `vhdl_ls ...` comment                                                  *)
(* ---------------------------------------------------------------------------------------- *)
Section NoDirective.
  Variable d : list (list char).

  Lemma char_at_in : forall l i c, char_at l i = GChar c -> In c l.
  Proof.
    induction l as [|x l IH]; intros i c H; cbn [char_at] in H; [discriminate|].
    destruct (i =? 0); [injection H as ->; left; reflexivity|].
    destruct (i <? len8 x); [discriminate|]. right. eapply IH. exact H.
  Qed.
  Lemma get_char_in : forall st c, get_char d st = GChar c -> In c (concat d).
  Proof.
    intros st c H. unfold get_char, get_line in H.
    destruct (nth_error d (N.to_nat (fst (r_pos st)))) as [l|] eqn:E; [|discriminate].
    apply in_concat. exists l. split; [eapply nth_error_In; exact E|eapply char_at_in; exact H].
  Qed.
  Lemma take_to_nl_chars : forall fuel acc st v st', take_to_nl d fuel acc st = (Ok v, st') ->
    forall c, In c v -> In c acc \/ In c (concat d).
  Proof.
    induction fuel as [|f IH]; intros acc st v st' H c Hc; cbn [take_to_nl] in H; [discriminate|].
    unfold bind, peek_char in H. destruct (get_char d st) as [|x|] eqn:G; try discriminate.
    - unfold ret in H. injection H as <- _. left. exact Hc.
    - destruct (x =? LF).
      + unfold ret in H. injection H as <- _. left. exact Hc.
      + unfold skip, bind, pop_char, ret in H. rewrite G in H.
        destruct (IH _ _ _ _ H c Hc) as [I|I]; [|right; exact I].
        apply in_app_or in I. destruct I as [I|[<-|[]]]; [left; exact I|right; eapply get_char_in; exact G].
  Qed.
  Lemma ml_loop_chars : forall fuel acc st v st', ml_loop d fuel acc st = (Ok (Some v), st') ->
    forall c, In c v -> In c acc \/ In c (concat d).
  Proof.
    induction fuel as [|f IH]; intros acc st v st' H c Hc; cbn [ml_loop] in H; [discriminate|].
    unfold bind, pop_char in H. destruct (get_char d st) as [|x|] eqn:G; try discriminate.
    assert (REC : forall st1, ml_loop d f (acc ++ [x]) st1 = (Ok (Some v), st') -> In c acc \/ In c (concat d)).
    { intros st1 H1. destruct (IH _ _ _ _ H1 c Hc) as [I|I]; [|right; exact I].
      apply in_app_or in I. destruct I as [I|[<-|[]]]; [left; exact I|right; eapply get_char_in; exact G]. }
    destruct (x =? 42); [|eapply REC; exact H].
    unfold peek_char in H. destruct (get_char d (skip_char st x)) as [|y|] eqn:G2; try discriminate.
    - cbn [opt_is] in H. eapply REC; exact H.
    - destruct (opt_is (Some y) 47); [|eapply REC; exact H].
      unfold skip, bind, pop_char, ret in H. rewrite G2 in H. injection H as <- _. left. exact Hc.
  Qed.
End NoDirective.

Lemma trim_start_in : forall l c, In c (trim_start l) -> In c l.
Proof.
  induction l as [|x l IH]; intros c H; cbn [trim_start] in H; [exact H|].
  destruct (is_ws x); [right; apply IH; exact H|exact H].
Qed.
Lemma trim_in : forall l c, In c (trim l) -> In c l.
Proof.
  intros l c H. unfold trim in H. apply in_rev in H. apply trim_start_in in H. apply in_rev in H.
  apply trim_start_in in H. exact H.
Qed.
Lemma no_underscore_no_directive : forall v, ~ In 95 v ->
  leqb (trim v) VHDL_LS_OFF = false /\ leqb (trim v) VHDL_LS_ON = false.
Proof.
  intros v N. split; unfold leqb.
  - destruct (list_eq_dec N.eq_dec (trim v) VHDL_LS_OFF) as [E|_]; [|reflexivity].
    exfalso. apply N. apply trim_in. rewrite E. vm_compute. tauto.
  - destruct (list_eq_dec N.eq_dec (trim v) VHDL_LS_ON) as [E|_]; [|reflexivity].
    exfalso. apply N. apply trim_in. rewrite E. vm_compute. tauto.
Qed.

Theorem no_underscore_directives_agree : forall d d' F,
  ~ In 95 (concat d) -> ~ In 95 (concat d') -> directives_agree d d' F.
Proof.
  intros d d' F N N'. split.
  - intros st v v' st1 st2 H H'.
    assert (A : ~ In 95 v) by (intro I; destruct (take_to_nl_chars d _ _ _ _ _ H 95 I) as [[]|J]; exact (N J)).
    assert (A' : ~ In 95 v') by (intro I; destruct (take_to_nl_chars d' _ _ _ _ _ H' 95 I) as [[]|J]; exact (N' J)).
    destruct (no_underscore_no_directive v A) as [E1 E2]. destruct (no_underscore_no_directive v' A') as [E1' E2'].
    split; congruence.
  - intros st v v' st1 st2 H H'.
    assert (A : ~ In 95 v) by (intro I; destruct (ml_loop_chars d _ _ _ _ _ H 95 I) as [[]|J]; exact (N J)).
    assert (A' : ~ In 95 v') by (intro I; destruct (ml_loop_chars d' _ _ _ _ _ H' 95 I) as [[]|J]; exact (N' J)).
    destruct (no_underscore_no_directive v A) as [E1 E2]. destruct (no_underscore_no_directive v' A') as [E1' E2'].
    split; congruence.
Qed.

(* boolean forms for concrete texts *)
Fixpoint tsimb (s s' : list char) : bool :=
  match s, s' with
  | [], [] => true
  | c :: r, c' :: r' => csimb c c' && tsimb r r'
  | _, _ => false
  end.
Lemma tsimb_ok : forall s s', tsimb s s' = true -> tsim s s'.
Proof.
  induction s as [|c r IH]; intros [|c' r'] H; cbn [tsimb] in H; try discriminate; [constructor|].
  apply andb_prop in H. destruct H as [H1 H2]. constructor; [exact H1|apply IH; exact H2].
Qed.
Definition no_underscore_b (s : list char) : bool := negb (existsb (N.eqb 95) (concat (split_lines s))).
Lemma no_underscore_b_ok : forall s, no_underscore_b s = true -> ~ In 95 (concat (split_lines s)).
Proof.
  intros s H I. unfold no_underscore_b in H. apply negb_true_iff in H.
  assert (X : existsb (N.eqb 95) (concat (split_lines s)) = true).
  { apply existsb_exists. exists 95. split; [exact I|apply N.eqb_refl]. }
  congruence.
Qed.
(* case variants without underscores: no side condition is left *)
Corollary lex_all_case_sim_no_underscore : forall s s',
  tsimb s s' = true -> no_underscore_b s = true -> no_underscore_b s' = true ->
  outcome_sim (lex_all s) (lex_all s').
Proof.
  intros s s' H N N'. apply lex_all_case_sim; [apply tsimb_ok; exact H|].
  apply no_underscore_directives_agree; apply no_underscore_b_ok; assumption.
Qed.

(* ---------------------------------------------------------------------------------------- *)
(* re-layout: bounded exhaustive evaluation                                                 *)
(* ---------------------------------------------------------------------------------------- *)
(* separator discipline of this family: every gap is non-empty, and a gap that follows a lexeme
   ending in `-` does not start with `-` (otherwise `-` `--c` reads as the comment `---c`) *)
Definition ends_minus (l : list char) : bool := match rev l with c :: _ => c =? 45 | [] => false end.
Definition starts_minus (l : list char) : bool := match l with c :: _ => c =? 45 | [] => false end.
Definition sep_ok (l : list char) (g : gap) : bool :=
  gap_ok g && negb (match g with [] => true | _ => false end) && negb (ends_minus l && starts_minus (gap_text g)).

Definition sw_lexemes : list (list char) :=
  [ [97; 98]; [73; 115]; [58; 61]; [39; 97; 39]; [34; 115; 45; 34]; [49; 101; 51]; [49; 54; 35; 70; 35];
    [120; 34; 65; 34]; [92; 101; 92]; [45]; [59]; [60; 61] ].
Definition sw_gaps : list gap :=
  [ [GWs 32]; [GWs 10]; [GWs 9; GWs 32]; [GWs 32; GLine [99]]; [GBlock [32; 99; 32]];
    [GWs 10; GWs 10; GWs 32]; [GLine []; GWs 9]; [GBlock [45; 45; 32; 120]; GWs 32] ].
Definition blank : gap := [GWs 32].

Definition all_sep_ok (ls : list (list char * gap)) : bool := forallb (fun lg => sep_ok (fst lg) (snd lg)) ls.
Definition same_kv_b (o o' : outcome) : bool :=
  match o, o' with
  | Done ts ds, Done ts' ds' =>
      (if list_eq_dec N.eq_dec (flat_map (fun t => kind_code (t_kind t) ++ flat_value (t_val t)) ts)
                               (flat_map (fun t => kind_code (t_kind t) ++ flat_value (t_val t)) ts') then true else false)
      && (if list_eq_dec N.eq_dec (map (fun e => match e with TErr _ _ c => c end) ds)
                                  (map (fun e => match e with TErr _ _ c => c end) ds') then true else false)
      && Nat.eqb (length ts) (length ts')
  | _, _ => false
  end.
(* the layout under test against the same lexemes written with single blanks *)
Definition relayout_case (g0 : gap) (ls : list (list char * gap)) : bool :=
  implb (all_sep_ok ls && gap_ok g0)
        (same_kv_b (lex_all (render g0 ls)) (lex_all (render blank (map (fun lg => (fst lg, blank)) ls)))).

(* all triples of lexemes with one of 8 gaps used everywhere, and all pairs with every middle gap and
   2 x 2 outer gaps *)
Definition relayout_sweep_b : bool :=
  forallb (fun a => forallb (fun b => forallb (fun c => forallb (fun g =>
     relayout_case g [(a, g); (b, g); (c, g)]) sw_gaps) sw_lexemes) sw_lexemes) sw_lexemes
  && forallb (fun a => forallb (fun b => forallb (fun g1 => forallb (fun g0 => forallb (fun g2 =>
     relayout_case g0 [(a, g1); (b, g2)]) [blank; [GWs 32; GLine [99]]]) [[]; [GBlock [32; 99; 32]; GWs 10]]) sw_gaps)
     sw_lexemes) sw_lexemes.
Lemma relayout_sweep : relayout_sweep_b = true.
Proof. vm_compute. reflexivity. Qed.

(* without the separator discipline the statement is false: `-` followed by the gap `--c` + line break *)
Lemma relayout_needs_sep_ok :
  same_kv_b (lex_all (render [] [([45], [GLine [99]]); ([97], [])])) (lex_all (render [] [([45], blank); ([97], [])])) = false.
Proof. vm_compute. reflexivity. Qed.
