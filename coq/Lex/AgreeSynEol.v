(* Lex/AgreeSynEol.v — the vhdl_syntax half of C18's step-wise characterisation for inputs that may hold CR:
   the merged token stream of the model of vhdl_syntax's tokenizer spells the lexemes of the reference
   splitter, a line break inside a lexeme read as LF (Agree.norm_eol).  Same proof as Lex/AgreeSyn.v
   (main_step) without the hypothesis `no_cr`. *)
From Coq Require Import List NArith Arith Bool Lia.
Import ListNotations.
From RH Require Import Lex.SynLexer Lex.SynLexerProofs.
From RH Require Lex.LangLexer.
From RH Require Import Lex.LexGrammar Lex.Agree Lex.AgreeSweep Lex.AgreeSyn.
Open Scope N_scope.
#[local] Arguments N.add : simpl never.
#[local] Arguments N.sub : simpl never.
#[local] Arguments N.mul : simpl never.
#[local] Arguments N.eqb : simpl never.
#[local] Arguments N.leb : simpl never.
#[local] Arguments N.ltb : simpl never.

Lemma omap_cons (f : list N -> list N) (t : list N) (x : option (list (list N))) :
  option_map (map f) (match x with Some ts0 => Some (t :: ts0) | None => None end)
  = match option_map (map f) x with Some l => Some (f t :: l) | None => None end.
Proof. destruct x; reflexivity. Qed.

Lemma main_step_eol : forall n f last prev s ts, (f <= n)%nat ->
  lex kw2008 f last s = LexOk ts ->
  syn_clean_of ts = true ->
  no_directive s = true ->
  can_be_char last = can_char prev ->
  forall f', (length s < f')%nat ->
  option_map (map norm_eol) (split_from LangLexer.keywords_2008 f' prev s) = Some (syn_lexemes_of (merge ts)).
Proof.
  induction n as [|n IH]; intros f last prev s ts Lf LX CL ND INV f' Lf'.
  { destruct f; [discriminate LX|lia]. }
  destruct f as [|f0]; [discriminate LX|].
  rewrite lex_S in LX.
  destruct (trivia (S (length s)) s) as [[[tr r] un]|] eqn:T; [|discriminate LX].
  pose proof (trivia_ok _ _ _ _ _ T) as (Tb & Tl & Tu).
  destruct f' as [|f'']; [lia|]. cbn [split_from].
  destruct un.
  { destruct (Tu eq_refl) as [-> _]. inversion LX; subst. discriminate CL. }
  pose proof (gap_trivia _ _ _ _ T (S (length s)) (Nat.lt_succ_diag_r _)) as GT. unfold byte in *. rewrite GT. clear GT.
  rewrite <- Tb in ND. apply no_dir_app in ND as [_ ND].
  destruct r as [|c r0].
  { inversion LX; subst. reflexivity. }
  destruct (token kw2008 last (c :: r0)) as [[[k t] r'] e] eqn:TK.
  pose proof (token_ok _ _ _ _ _ _ _ _ TK) as (Gb & Gne & Gl & Gk). unfold byte in *.
  destruct (combine_diag tr false e) as [d|] eqn:CD; [|discriminate LX].
  destruct (lex kw2008 f0 (Some k) r') as [ts'| |] eqn:LX'; try discriminate LX.
  inversion LX; subst ts; clear LX.
  apply clean_cons in CL as [-> CL'].
  assert (e = None) by (destruct e; [discriminate CD|reflexivity]). subst e. clear CD.
  pose proof ND as ND'. rewrite <- Gb in ND'. apply no_dir_app in ND' as [_ ND'].
  assert (Lr' : (length r' < f'')%nat) by (unfold byte in *; lia).
  assert (EOFK : is_eof k = false) by (destruct k; try reflexivity; contradiction Gk; reflexivity).
  (* the common continuation: the head token is kept as it is *)
  assert (KEEP : forall a, can_be_char (Some k) = can_char a ->
            merge ((mkTok k t tr, None) :: ts') = (mkTok k t tr, None) :: merge ts' ->
            option_map (map norm_eol)
              (match split_from LangLexer.keywords_2008 f'' a r' with Some ts0 => Some (t :: ts0) | None => None end)
            = Some (syn_lexemes_of (merge ((mkTok k t tr, None) :: ts')))).
  { intros a INV' MG. rewrite MG.
    rewrite (lexemes_cons _ _ _ _ _ EOFK). rewrite omap_cons.
    rewrite (IH f0 (Some k) a r' ts' ltac:(lia) LX' CL' ND' INV' f'' Lr'). reflexivity. }
  destruct (letter c) eqn:LC.
  - (* identifier, reserved word, or bit string literal without length *)
    rewrite (token_letter _ _ _ _ LC) in TK. destruct (span ident_char (c :: r0)) as [ti ri] eqn:SP.
    cbn [fst snd] in TK. inversion TK; subst k t r'; clear TK.
    unfold lexeme_step. rewrite LC.
    destruct (base_spec_len (c :: r0)) as [nb|] eqn:BS.
    + apply ident_of_bs_len in BS as (t2 & r2 & E & Ln & IB & SP2). rewrite SP in SP2. inversion SP2; subst ti ri; clear SP2.
      rewrite (bs_ident_kind _ IB) in *.
      destruct (lex_string _ _ _ _ LX' CL') as (f1 & body & rq & ts2 & -> & QR & -> & LX2 & Lq).
      apply clean_cons in CL' as [_ CL2].
      rewrite E. rewrite <- Ln. rewrite skipn_S_app, firstn_S_app, QR.
      pose proof (quoted_rest_app 34 _ r2 (le_n _) _ _ QR) as QA.
      assert (MG : merge ((mkTok KIdentifier t2 tr, None) :: (mkTok KStringLiteral (34 :: body) [], None) :: ts2)
                   = (mkTok KBitStringLiteral (t2 ++ 34 :: body) tr, None) :: merge ts2).
      { rewrite merge_cons. cbn [t_kind t_text t_trivia is_ident is_str no_trivia andb]. rewrite IB. reflexivity. }
      rewrite MG.
      rewrite lexemes_cons by reflexivity.
      rewrite <- QA in ND'. change (34 :: body ++ rq) with ((34 :: body) ++ rq) in ND'.
      apply no_dir_app in ND' as [_ NDq].
      rewrite omap_cons.
      assert (Lrq : (length rq < f'')%nat).
      { apply (f_equal (@length _)) in E. rewrite app_length in E. cbn [length] in *. unfold byte in *. lia. }
      rewrite (IH f1 (Some KStringLiteral) AfterOther rq ts2 ltac:(lia) LX2 CL2 NDq eq_refl f'' Lrq).
      rewrite <- app_assoc. reflexivity.
    + rewrite SP. apply KEEP; [apply ident_after_agree|].
      rewrite merge_cons. cbn [t_kind t_text t_trivia].
      destruct (is_ident (ident_kind kw2008 ti) && is_base_specifier ti) eqn:C1; [|destruct (is_abs (ident_kind kw2008 ti)) eqn:C2; [|reflexivity]].
      * apply andb_true_iff in C1 as [_ IB].
        destruct ts' as [|[s_ ds] rest']; [reflexivity|].
        destruct (is_str (t_kind s_) && no_trivia s_) eqn:C2; [exfalso|reflexivity].
        apply andb_true_iff in C2 as [C2a C2b]. apply no_trivia_nil in C2b.
        destruct (lex_first _ _ _ _ _ _ _ LX' C2b) as [[_ KE]|(c3 & r3 & k3 & t3 & r3' & e3 & f3 & -> & _ & TK3 & -> & _)].
        { rewrite KE in C2a. discriminate C2a. }
        cbn [t_kind] in C2a. pose proof (token_kind_string _ _ _ _ _ _ _ _ TK3 C2a) as ->.
        apply span_app in SP. rewrite <- SP in BS. rewrite (bs_len_of_ident _ _ IB) in BS. discriminate BS.
      * exfalso. unfold ident_kind in C2. destruct (existsb _ _) in C2; discriminate C2.
  - destruct (digit c) eqn:DC.
    + (* abstract literal, or bit string literal with a length *)
      unfold token in TK. rewrite alpha_eq, LC, digit_eq, DC in TK.
      destruct (SynLexer.abstract_literal (c :: r0)) as [[ta ra] ea] eqn:AL.
      destruct ea; [inversion TK|]. inversion TK; subst k ta ra; clear TK.
      pose proof (abstract_literal_eq _ _ _ AL) as AL'.
      unfold lexeme_step. rewrite LC, DC. unfold number. rewrite AL'.
      assert (HD : exists t0, t = c :: t0).
      { destruct t as [|x t0]; [contradiction Gne; reflexivity|]. cbn [app] in Gb. inversion Gb. eauto. }
      destruct HD as [t0 HD].
      (* when vhdl_syntax merges: the shape of the following two tokens *)
      assert (FIRE : forall i_ di s_ ds rest', ts' = (i_, di) :: (s_, ds) :: rest' ->
                forallb is_intc t && is_ident (t_kind i_) && no_trivia i_ && is_base_specifier (t_text i_) && is_str (t_kind s_) && no_trivia s_ = true ->
                exists r3, r' = t_text i_ ++ 34 :: r3 /\ is_base_specifier (t_text i_) = true).
      { intros i_ di s_ ds rest' -> C.
        apply andb_true_iff in C as [C C5]. apply andb_true_iff in C as [C C4]. apply andb_true_iff in C as [C C3].
        apply andb_true_iff in C as [C1 C2]. apply andb_true_iff in C1 as [_ C1]. apply no_trivia_nil in C2, C5.
        destruct (lex_first _ _ _ _ _ _ _ LX' C2) as [[_ KE]|(c2 & r2 & k2 & t2 & r2' & e2 & f2 & -> & -> & TK2 & -> & LX2)].
        { rewrite KE in C1. discriminate C1. }
        cbn [t_kind t_text] in *.
        pose proof (token_ok _ _ _ _ _ _ _ _ TK2) as (Gb2 & Gne2 & _ & _).
        destruct t2 as [|x2 t2']; [contradiction Gne2; reflexivity|]. cbn [app] in Gb2. injection Gb2 as -> Gb2.
        pose proof (is_bs_head _ _ C3) as L2. rewrite (token_letter _ _ _ _ L2) in TK2.
        destruct (lex_first _ _ _ _ _ _ _ LX2 C5) as [[_ KE]|(c3 & r3 & k3 & t3 & r3' & e3 & f3 & -> & _ & TK3 & -> & _)].
        { rewrite KE in C4. discriminate C4. }
        cbn [t_kind] in C4. pose proof (token_kind_string _ _ _ _ _ _ _ _ TK3 C4) as ->.
        exists r3. split; [|exact C3]. rewrite <- Gb2. reflexivity. }
      destruct (forallb int_char t) eqn:FI.
      * destruct (base_spec_len r') as [nb|] eqn:BS.
        -- apply ident_of_bs_len in BS as (t2 & r2 & E & Ln & IB & SP2).
           destruct t2 as [|x2 t2']; [vm_compute in IB; discriminate IB|].
           pose proof (is_bs_head _ _ IB) as L2. cbn [app] in E. subst r'.
           destruct f0 as [|f1]; [discriminate LX'|]. rewrite lex_S in LX'.
           rewrite (trivia_letter _ _ _ L2), (token_letter _ _ _ _ L2) in LX'. cbn [app] in SP2. rewrite SP2 in LX'. cbn [fst snd] in LX'.
           cbn [combine_diag] in LX'.
           destruct (lex kw2008 f1 (Some (ident_kind kw2008 (x2 :: t2'))) (34 :: r2)) as [ts1| |] eqn:LX1; try discriminate LX'.
           inversion LX'; subst ts'; clear LX'. apply clean_cons in CL' as [_ CL1].
           rewrite (bs_ident_kind _ IB) in *.
           destruct (lex_string _ _ _ _ LX1 CL1) as (f2 & body & rq & ts2 & -> & QR & -> & LX2 & Lq).
           apply clean_cons in CL1 as [_ CL2].
           change (x2 :: t2' ++ 34 :: r2) with ((x2 :: t2') ++ 34 :: r2). rewrite <- Ln.
           rewrite skipn_S_app, firstn_S_app, QR.
           pose proof (quoted_rest_app 34 _ r2 (le_n _) _ _ QR) as QA.
           assert (MG : merge ((mkTok KAbstractLiteral t tr, None) :: (mkTok KIdentifier (x2 :: t2') [], None)
                               :: (mkTok KStringLiteral (34 :: body) [], None) :: ts2)
                        = (mkTok KBitStringLiteral (t ++ (x2 :: t2') ++ 34 :: body) tr, None) :: merge ts2).
           { rewrite merge_cons. cbn [t_kind t_text t_trivia is_ident is_abs is_str no_trivia andb].
             change (forallb is_intc t) with (forallb int_char t). rewrite FI, IB. reflexivity. }
           rewrite MG.
           rewrite lexemes_cons by reflexivity.
           change (x2 :: t2' ++ 34 :: r2) with ((x2 :: t2') ++ 34 :: r2) in ND'.
           apply no_dir_app in ND' as [_ ND'].
           rewrite <- QA in ND'. change (34 :: body ++ rq) with ((34 :: body) ++ rq) in ND'.
           apply no_dir_app in ND' as [_ NDq].
           rewrite omap_cons.
           assert (Lrq : (length rq < f'')%nat).
           { cbn [length] in *. rewrite app_length in Lr'. cbn [length] in Lr'. unfold byte in *. lia. }
           rewrite (IH f2 (Some KStringLiteral) AfterOther rq ts2 ltac:(lia) LX2 CL2 NDq eq_refl f'' Lrq).
           rewrite <- !app_assoc. reflexivity.
        -- apply KEEP; [reflexivity|]. rewrite merge_cons. cbn [t_kind t_text t_trivia is_ident is_abs andb].
           destruct ts' as [|[i_ di] [|[s_ ds] rest']]; try reflexivity.
           destruct (forallb is_intc t && is_ident (t_kind i_) && no_trivia i_ && is_base_specifier (t_text i_) && is_str (t_kind s_) && no_trivia s_) eqn:C;
             [exfalso|reflexivity].
           destruct (FIRE _ _ _ _ _ eq_refl C) as (r3 & E & IB). rewrite E, (bs_len_of_ident _ _ IB) in BS. discriminate BS.
      * apply KEEP; [reflexivity|]. rewrite merge_cons. cbn [t_kind t_text t_trivia is_ident is_abs andb].
        destruct ts' as [|[i_ di] [|[s_ ds] rest']]; try reflexivity.
        change (forallb is_intc t) with (forallb int_char t). rewrite FI. reflexivity.
    + (* delimiters, character and string literals, extended identifiers *)
      destruct (token_other _ prev _ _ _ _ _ LC DC (no_dir_head _ _ ND) TK INV) as (a & STEP & INV' & IA & II).
      rewrite STEP. apply KEEP; [exact INV'|].
      rewrite merge_cons. cbn [t_kind t_text t_trivia]. rewrite IA.
      destruct (is_ident k) eqn:IK; [rewrite (II eq_refl)|]; reflexivity.
Qed.


Theorem syn_is_spec_eol : forall s,
  clean_syn s = true -> no_directive s = true ->
  option_map (map norm_eol) (split_spec LangLexer.keywords_2008 s) = lexemes_syn s.
Proof.
  intros s CL ND.
  unfold lexemes_syn, clean_syn, syn_result, token_stream, synlex in *. unfold byte in *.
  destruct (lex kw2008 (S (length s)) None s) as [ts| |] eqn:LX; try discriminate CL.
  cbn [option_map snd]. unfold split_spec.
  apply (main_step_eol (S (length s)) (S (length s)) None AfterOther s ts (le_n _) LX); try assumption.
  - eapply merge_clean; [apply le_n|exact CL].
  - reflexivity.
  - apply Nat.lt_succ_diag_r.
Qed.

(* `x := "a<CR><LF>b" -- c<CR>('<CR>')` : CR inside a string, as line end of a comment, inside a character literal *)
Definition ex_syn_eol : list N :=
  [120; 32; 58; 61; 32; 34; 97; 13; 10; 98; 34; 32; 45; 45; 32; 99; 13; 40; 39; 13; 39; 41].
Lemma ex_syn_eol_ok : clean_syn ex_syn_eol = true /\ no_directive ex_syn_eol = true

  /\ lexemes_syn ex_syn_eol = Some [[120]; [58; 61]; [34; 97; 10; 98; 34]; [40]; [39; 10; 39]; [41]].
Proof. vm_compute. repeat split. Qed.
