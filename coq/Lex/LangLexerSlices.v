(* Lex/LangLexerSlices.v — the reader invariant carried to the tokens: every token's range is
   delimited by two character boundaries of the text, and the text between them (as defined by
   slice16, independently of the reader) is exactly the non-empty sequence of characters the
   reader popped between the token's start and its end. *)
From Coq Require Import List NArith Arith Bool Lia.
Import ListNotations.
From RH Require Import Text.Contents Text.ContentsProofs Text.Reader Text.ReaderProofs Text.ReaderInv
  Lex.LangLexer Lex.LexSpec Lex.LangLexerProofs.
Open Scope N_scope.

Definition tok_slice (s : list char) (tok : token) : Prop :=
  let d := split_lines s in
  exists r1 r2 l, RInv d r1 /\ RInv d r2 /\ run d l r1 r2 /\ l <> [] /\
                  t_s tok = r_pos r1 /\ t_e tok = r_pos r2 /\
                  slice_of_text s (t_s tok) (t_e tok) = l.

Lemma toks_reach_slices : forall s ts lo, RInv (split_lines s) lo -> toks_reach (split_lines s) lo ts ->
  Forall (tok_slice s) ts.
Proof.
  intros s ts. induction ts as [|t r IH]; intros lo HI H; cbn [toks_reach] in H; [constructor|].
  destruct H as [hi [[r1 [r2 [A1 [S12 [A2 [E1 E2]]]]]] R]].
  pose proof (rinv_adv _ _ _ A1 HI) as I1.
  pose proof (rinv_adv _ _ _ (sadv_adv _ _ _ S12) I1) as I2.
  pose proof (rinv_adv _ _ _ A2 I2) as I3.
  constructor; [|eapply IH; [exact I3|exact R]].
  destruct S12 as [n ST]. destruct (steps_run _ _ _ _ ST) as [l [RL LL]].
  exists r1, r2, l. split; [exact I1|]. split; [exact I2|]. split; [exact RL|].
  split; [destruct l; [discriminate|discriminate]|]. split; [exact E1|]. split; [exact E2|].
  rewrite E1, E2. symmetry. apply consumed_is_slice_text; assumption.
Qed.

Theorem token_slices_consumed_gen : forall kws fuel s toks diags,
  (length s < fuel)%nat -> lex_gen kws true fuel s = Done toks diags -> Forall (tok_slice s) toks.
Proof.
  intros kws fuel s toks diags Hl H.
  eapply toks_reach_slices; [apply rinv_start|eapply tokens_reach_gen; eassumption].
Qed.
Theorem token_slices_consumed : forall s toks diags,
  lex_all s = Done toks diags -> Forall (tok_slice s) toks.
Proof. intros s toks diags H. eapply token_slices_consumed_gen; [|exact H]. unfold lex_fuel. lia. Qed.

(* (f) a file decoded as ISO-8859-1: every character is one UTF-16 unit, so on every line the
   column of a character boundary is the number of bytes before it *)
Lemma latin1_len16s : forall l, Forall (fun c => c < 256) l -> len16s l = N.of_nat (length l).
Proof.
  induction 1 as [|c l Hc Hl IH]; [reflexivity|]. cbn [len16s length]. rewrite IH.
  unfold len16. replace (c <? 65536) with true by (symmetry; apply N.ltb_lt; lia). lia.
Qed.
Lemma split_aux_forall : forall (P : char -> Prop) s pc cur, P LF -> Forall P s -> Forall P cur ->
  Forall (Forall P) (split_aux pc cur s).
Proof.
  intros P s. induction s as [|c r IH]; intros pc cur HLF Hs Hc; cbn [split_aux].
  - destruct cur as [|x cur']; [constructor|]. constructor; [|constructor].
    apply Forall_rev. exact Hc.
  - inversion Hs as [|c' r' Hc0 Hr]; subst.
    destruct (c =? LF).
    + destruct pc; [apply IH; assumption|].
      constructor; [apply Forall_rev; constructor; assumption|apply IH; [assumption|assumption|constructor]].
    + destruct (c =? CR).
      * constructor; [apply Forall_rev; constructor; assumption|apply IH; [assumption|assumption|constructor]].
      * apply IH; [assumption|assumption|constructor; assumption].
Qed.
(* decoding is the identity on code points: byte b becomes the scalar U+00b *)
Lemma decode_latin1_id : forall bytes, Forall (fun b => b < 256) bytes -> decode_latin1 bytes = bytes.
Proof.
  unfold decode_latin1. induction 1 as [|b l Hb Hl IH]; [reflexivity|].
  cbn [iso_8859_1_to_utf8 flat_map]. fold (iso_8859_1_to_utf8 l).
  destruct (b <? 128) eqn:E1.
  - cbn [app utf8_scalars12]. rewrite E1. rewrite IH. reflexivity.
  - apply N.ltb_ge in E1. destruct (b <? 192) eqn:E2.
    + apply N.ltb_lt in E2. cbn [app utf8_scalars12].
      replace (194 <? 128) with false by reflexivity. rewrite IH. f_equal. lia.
    + apply N.ltb_ge in E2. cbn [app utf8_scalars12].
      replace (195 <? 128) with false by reflexivity. rewrite IH. f_equal. lia.
Qed.
Theorem latin1_columns : forall (bytes : list N), Forall (fun b => b < 256) bytes ->
  forall line pre suf, In line (split_lines (decode_latin1 bytes)) -> line = pre ++ suf ->
    len16s pre = N.of_nat (length pre).
Proof.
  intros bytes HB line pre suf HI E. rewrite (decode_latin1_id _ HB) in HI. apply latin1_len16s.
  assert (HL : Forall (fun c => c < 256) line).
  { assert (H : Forall (Forall (fun c => c < 256)) (split_aux false [] bytes)).
    { apply split_aux_forall; [unfold LF; lia|exact HB|constructor]. }
    unfold split_lines in HI. rewrite Forall_forall in H. apply H. exact HI. }
  subst line. apply Forall_app in HL. destruct HL as [HL _]. exact HL.
Qed.
(* with the reader invariant: on a Latin-1 file the column of every reader state is its byte
   offset in the line *)
Theorem latin1_reader_columns : forall (bytes : list N) st, Forall (fun b => b < 256) bytes ->
  RInv (split_lines (decode_latin1 bytes)) st ->
  exists pre, snd (r_pos st) = N.of_nat (length pre) /\
    (lnat st = length (split_lines (decode_latin1 bytes)) /\ pre = [] \/
     exists suf, nth_error (split_lines (decode_latin1 bytes)) (lnat st) = Some (pre ++ suf)).
Proof.
  intros bytes st HB [[pre [suf [Hl [Hi [Hc Hn]]]]]|[Hl [Hc Hi]]].
  - exists pre. split; [|right; exists suf; exact Hl].
    rewrite Hc. eapply latin1_columns; [exact HB|eapply nth_error_In; exact Hl|reflexivity].
  - exists []. split; [exact Hc|left; auto].
Qed.
