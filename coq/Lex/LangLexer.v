(* Lex/LangLexer.v — executable model of vhdl_lang's tokenizer
   (vhdl_lang/src/syntax/tokens/tokenizer.rs: parse_integer, parse_exponent, parse_quoted,
   parse_comment, parse_multi_line_comment, parse_real_literal, parse_abstract_literal,
   parse_base_specifier, maybe_base_specifier, parse_bit_string,
   parse_basic_identifier_or_keyword, validate_basic_identifier, parse_character_literal,
   read_until_newline, get_leading_comments, skip_whitespace(_in_line), get_trailing_comment,
   Symbols::insert_or_keyword, Tokenizer::{parse_token, pop_raw, pop, text_until_newline},
   Comment::is_{start,end}_of_ignored_region, Token::{leading,trailing}_is_..._ignored_region)
   and of TokenStream::{new, handle_tool_directive} (tokenstream.rs), over the reader of
   Text/Reader.v.  This is the SHARED lexer model (C02, C11, C12, C13, C18 import it).

   Conventions
   * Every Rust `while`/`loop` is a Fixpoint on fuel whose exhaustion is `Ab OutOfFuel`
     (`Aborted OutOfFuel` at top level); `unwrap`s are `Ab Crash`.  Inner loops are started with
     the constant fuel `F`; theorem `lex_total` (Lex/LangLexerProofs.v) shows that
     `F > number of characters` excludes OutOfFuel everywhere.
   * `fixed = true` is the current code; `fixed = false` is `maybe_base_specifier` before the
     repair of finding F5 (the lookahead error was propagated without consuming anything).
   * Integers are unbounded N with the explicit 2^64 overflow tests of checked_mul/checked_add/
     checked_pow.  The f64 value of a real literal is not modelled: its value is its text.
   * A diagnostic is `TErr start end code`; codes:
       1 invalid latin-1 character     2 invalid integer character    3 illegal digit for base
       4 integer too large (u64)       5 exponent too large (i32)     6 EOF before end quote
       7 multi line string             8 incomplete multi-line comment 9 invalid float literal
      10 negative exponent of integer 11 base not in 2..16           12 based literal without closing delimiter (# or :)
      13 invalid bit string literal   14 illegal token               15 expecting identifier (tool directive)
      16 identifier empty (unreachable) 17 identifier must start with a letter
      18 consecutive underscores      19 invalid character (unreachable) 20 identifier ends with underscore
   * The keyword table `kws` (lower-case names, in the order of `VHDLStandard::keywords()`)
     is a parameter; `keywords_2008` below is the committed copy, compared with the
     implementation's table on every run of the check.
   No proofs in this file. *)
From Coq Require Import List NArith Arith Bool.
Import ListNotations.
From RH Require Import Text.Contents Text.Reader.
Open Scope N_scope.
Open Scope m_scope.

(* ---------- kinds, values, tokens ---------- *)
Inductive kind :=
| KIdentifier | KAbstractLiteral | KStringLiteral | KBitString | KCharacter | KText
| KColon | KColonEq | KTick | KMinus | KSemiColon | KLeftPar | KRightPar | KPlus | KDot
| KConcat | KComma | KEQ | KRightArrow
| KLT | KLTE | KBOX | KLtLt | KGT | KGTE | KGtGt | KDiv | KNE | KTimes | KPow
| KQue | KQueQue | KQueEQ | KQueNE | KQueLT | KQueLTE | KQueGT | KQueGTE
| KCirc | KCommAt | KBar | KLeftSquare | KRightSquare | KGraveAccent
| KKw (name : list N).                 (* a keyword kind, identified by its lower-case name *)

(* base specifier codes: 0 B, 1 O, 2 X, 3 UB, 4 UO, 5 UX, 6 SB, 7 SO, 8 SX, 9 D *)
Inductive value :=
| VNone
| VIdent (t : list N)                                      (* Symbol name, spelling as written *)
| VString (t : list N)
| VBitString (text : list N) (len : option N) (base : N) (v : list N)
| VAbsInt (text : list N) (n : N)
| VAbsReal (text : list N)                                 (* f64 not modelled *)
| VChar (c : N)
| VText (t : list N).

Record comment := { c_val : list char; c_s : position; c_e : position; c_multi : bool }.
Record token := { t_kind : kind; t_val : value; t_s : position; t_e : position;
                  t_lead : list comment; t_trail : option comment }.

(* ---------- character classes ---------- *)
Definition is_digit (c : N) : bool := in_range 48 57 c.
Definition is_lower (c : N) : bool := in_range 97 122 c.
Definition is_upper (c : N) : bool := in_range 65 90 c.
Definition is_alpha (c : N) : bool := is_lower c || is_upper c.
Definition is_alnum (c : N) : bool := is_alpha c || is_digit c.
Definition opt_is (o : option N) (v : N) : bool := match o with Some x => x =? v | None => false end.
Definition leqb (x y : list N) : bool := if list_eq_dec N.eq_dec x y then true else false.

Definition TWO64 : N := 18446744073709551616.
Definition TWO32 : N := 4294967296.
Definition I32MAX : N := 2147483647.

(* s u b o x d e, either case: the letters at which parse_integer stops when stop_on_suffix *)
Definition stop_suffix (b : N) : bool :=
  (b =? 115) || (b =? 117) || (b =? 98) || (b =? 111) || (b =? 120) || (b =? 100) || (b =? 101) ||
  (b =? 83) || (b =? 85) || (b =? 66) || (b =? 79) || (b =? 88) || (b =? 68) || (b =? 69).
Definition is_hex (b : N) : bool := is_digit b || in_range 97 102 b || in_range 65 70 b.
Definition hex_val (b : N) : N :=
  if is_digit b then b - 48 else if in_range 97 102 b then 10 + b - 97 else 10 + b - 65.

(* validate_basic_identifier: Some code = the warning *)
Fixpoint vbi_rest (prev_us : bool) (l : list N) : option N :=
  match l with
  | [] => if prev_us then Some 20 else None
  | b :: t => if b =? 95 then (if prev_us then Some 18 else vbi_rest true t)
              else if is_alnum b then vbi_rest false t
              else Some 19
  end.
Definition validate_basic_identifier (l : list N) : option N :=
  match l with
  | [] => Some 16
  | b :: t => if is_alpha b then vbi_rest false t else Some 17
  end.

(* Rust `str::parse::<f64>` on the buffer of parse_real_literal, whose alphabet is
   0-9 a-d f '.': accepted iff digits with at most one '.', and at least one digit *)
Definition f64_ok (dg : list N) : bool :=
  forallb (fun c => is_digit c || (c =? 46)) dg
  && Nat.leb (length (filter (fun c => c =? 46) dg)) 1
  && existsb is_digit dg.

(* char::is_whitespace (White_Space), used by str::trim *)
Definition is_ws (c : char) : bool :=
  in_range 9 13 c || (c =? 32) || (c =? 133) || (c =? 160) || (c =? 5760) || in_range 8192 8202 c
  || (c =? 8232) || (c =? 8233) || (c =? 8239) || (c =? 8287) || (c =? 12288).
Fixpoint trim_start (l : list char) : list char :=
  match l with c :: t => if is_ws c then trim_start t else l | [] => [] end.
Definition trim (l : list char) : list char := rev (trim_start (rev (trim_start l))).
Definition VHDL_LS_OFF : list char := [118;104;100;108;95;108;115;32;111;102;102].
Definition VHDL_LS_ON : list char := [118;104;100;108;95;108;115;32;111;110].
Definition is_off (c : comment) : bool := leqb (trim (c_val c)) VHDL_LS_OFF.
Definition is_on (c : comment) : bool := leqb (trim (c_val c)) VHDL_LS_ON.
(* Token::leading_is_start_of_ignored_region: the first `vhdl_ls off` comment is not followed
   (in the same comment block) by a `vhdl_ls on` *)
Fixpoint lead_start (l : list comment) : bool :=
  match l with
  | [] => false
  | c :: t => if is_off c then negb (existsb is_on l) else lead_start t
  end.
Definition leading_is_start (t : token) : bool := lead_start (t_lead t).
Definition leading_is_end (t : token) : bool := existsb is_on (t_lead t).
Definition trailing_is_end (t : token) : bool :=
  match t_trail t with Some c => is_on c | None => false end.

Definition KW_ALL : list N := [97; 108; 108].
(* can_be_char (IR1045): no character literal after ] ) all identifier *)
Definition can_be_char (last : option kind) : bool :=
  match last with
  | Some KRightSquare => false
  | Some KRightPar => false
  | Some KIdentifier => false
  | Some (KKw n) => negb (leqb n KW_ALL)
  | _ => true
  end.
Definition is_grave (k : kind) : bool := match k with KGraveAccent => true | _ => false end.
Definition is_identifier (k : kind) : bool := match k with KIdentifier => true | _ => false end.

Section Lexer.
  Variable d : list (list char).      (* the line buffer being tokenised *)
  Variable kws : list (list N).       (* keyword table *)
  Variable F : nat.                   (* fuel given to every inner loop *)
  Variable fixed : bool.              (* true: current code; false: before the repair of F5 *)

  Local Notation rpeek := (peek d).
  Local Notation rpop := (pop d).
  Local Notation rskip := (skip d).
  Local Notation rpeek_char := (peek_char d).
  Local Notation rpop_char := (pop_char d).

  (* ---------- parse_integer ---------- *)
  Fixpoint parse_integer_loop (fuel : nat) (base : N) (stp : bool) (acc : option N) (txt : list N)
           (big inv : option position)
    : M (option N * list N * option position * option position) :=
    match fuel with
    | O => stop OutOfFuel
    | S f =>
      ob <- rpeek ;;
      match ob with
      | None => ret (acc, txt, big, inv)
      | Some b =>
        if stp && stop_suffix b then ret (acc, txt, big, inv)
        else if is_hex b then
          p <- get_pos ;;
          let dg := hex_val b in
          let big' := if base <=? dg then Some p else big in
          let acc' := match acc with
                      | Some x => let y := base * x + dg in if y <? TWO64 then Some y else None
                      | None => None
                      end in
          rskip ;;; parse_integer_loop f base stp acc' (txt ++ [b]) big' inv
        else if b =? 95 then
          rskip ;;; parse_integer_loop f base stp acc (txt ++ [b]) big inv
        else if is_alpha b then       (* g..z, G..Z *)
          p <- get_pos ;;
          rskip ;;; parse_integer_loop f base stp acc (txt ++ [b]) big (Some p)
        else ret (acc, txt, big, inv)
      end
    end.

  Definition parse_integer (base : N) (stp : bool) : M (N * list N) :=
    start <- get_pos ;;
    '(acc, txt, big, inv) <- parse_integer_loop F base stp (Some 0) [] None None ;;
    match inv with
    | Some p => throw (TErr p (next_char p) 2)
    | None =>
      match big with
      | Some p => throw (TErr p (next_char p) 3)
      | None =>
        match acc with
        | Some v => ret (v, txt)
        | None => e <- get_pos ;; throw (TErr start e 4)
        end
      end
    end.

  (* parse_exponent: (negative sign seen, magnitude, text); the i32 value is -magnitude or magnitude *)
  Definition parse_exponent : M (bool * N * list N) :=
    start <- get_pos ;;
    ob <- rpeek ;;
    '(neg, buf) <- (if opt_is ob 45 then rskip ;;; ret (true, [45])
                    else s <- skip_if d 43 ;; ret (false, if s then [43] else [])) ;;
    '(v, t) <- parse_integer 10 false ;;
    e <- get_pos ;;
    if neg then (if v <=? I32MAX + 1 then ret (true, v, buf ++ t) else throw (TErr start e 5))
    else (if v <=? I32MAX then ret (false, v, buf ++ t) else throw (TErr start e 5)).
  Definition exp_is_neg (neg : bool) (mag : N) : bool := neg && negb (mag =? 0).

  (* ---------- parse_quoted (opening quote already consumed) ---------- *)
  Fixpoint quoted_loop (fuel : nat) (q : N) (buf : list N) (multi : bool)
    : M (list N * bool * bool) :=               (* (buffer, is_multiline, found_end) *)
    match fuel with
    | O => stop OutOfFuel
    | S f =>
      oc <- rpop ;;
      match oc with
      | None => ret (buf, multi, false)
      | Some c =>
        let multi' := multi || (c =? 10) in
        if c =? q then
          o2 <- rpeek ;;
          if opt_is o2 q then rskip ;;; quoted_loop f q (buf ++ [c]) multi'
          else ret (buf, multi', true)
        else quoted_loop f q (buf ++ [c]) multi'
      end
    end.
  (* error recovery: consume up to the next closing quote *)
  Fixpoint quoted_recover (fuel : nat) (q : N) : M unit :=
    match fuel with
    | O => stop OutOfFuel
    | S f =>
      oc <- rpop_char ;;
      match oc with
      | None => ret tt
      | Some c =>
        if c =? q then
          o2 <- rpeek_char ;;
          if opt_is o2 q then rskip ;;; quoted_recover f q else ret tt
        else quoted_recover f q
      end
    end.
  Definition parse_quoted (q : N) (incl : bool) : M (list N) :=
    start <- get_pos ;;
    r <- try (quoted_loop F q (if incl then [q] else []) false) ;;
    match r with
    | inr e => quoted_recover F q ;;; throw e
    | inl (buf, multi, found) =>
      let buf := if incl then buf ++ [q] else buf in
      e <- get_pos ;;
      if negb found then throw (TErr (prev_char start) e 6)
      else if multi then throw (TErr (prev_char start) e 7)
      else ret buf
    end.

  (* ---------- comments ---------- *)
  Fixpoint take_to_nl (fuel : nat) (acc : list char) : M (list char) :=
    match fuel with
    | O => stop OutOfFuel
    | S f =>
      oc <- rpeek_char ;;
      match oc with
      | None => ret acc
      | Some c => if c =? LF then ret acc else rskip ;;; take_to_nl f (acc ++ [c])
      end
    end.
  (* `--` already consumed *)
  Definition parse_comment : M comment :=
    p <- get_pos ;;
    v <- take_to_nl F [] ;;
    e <- get_pos ;;
    ret {| c_val := v; c_s := prev_char (prev_char p); c_e := e; c_multi := false |}.
  Fixpoint ml_loop (fuel : nat) (acc : list char) : M (option (list char)) :=
    match fuel with
    | O => stop OutOfFuel
    | S f =>
      oc <- rpop_char ;;
      match oc with
      | None => ret None
      | Some c =>
        if c =? 42 then
          o2 <- rpeek_char ;;
          if opt_is o2 47 then rskip ;;; ret (Some acc) else ml_loop f (acc ++ [c])
        else ml_loop f (acc ++ [c])
      end
    end.
  (* `/*` already consumed *)
  Definition parse_ml_comment : M comment :=
    p <- get_pos ;;
    r <- ml_loop F [] ;;
    e <- get_pos ;;
    match r with
    | Some v => ret {| c_val := v; c_s := prev_char (prev_char p); c_e := e; c_multi := true |}
    | None => throw (TErr (prev_char (prev_char p)) e 8)
    end.

  (* skip_whitespace (nl = true) / skip_whitespace_in_line (nl = false):
     `while let Ok(Some(byte)) = reader.peek()` — a peek error just ends the loop *)
  Fixpoint skip_ws (fuel : nat) (nl : bool) : M unit :=
    match fuel with
    | O => stop OutOfFuel
    | S f =>
      r <- try rpeek ;;
      match r with
      | inl (Some b) =>
          if (b =? 32) || (b =? 9) || (nl && (b =? 10)) then rskip ;;; skip_ws f nl else ret tt
      | _ => ret tt
      end
    end.

  Fixpoint leading_comments (fuel : nat) (acc : list comment) : M (list comment) :=
    match fuel with
    | O => stop OutOfFuel
    | S f =>
      skip_ws F true ;;;
      st <- get_state ;;
      ob <- rpop ;;
      match ob with
      | None => ret acc
      | Some b =>
        if b =? 47 then
          o2 <- rpop ;;
          if opt_is o2 42 then c <- parse_ml_comment ;; leading_comments f (acc ++ [c])
          else set_state st ;;; ret acc
        else if b =? 45 then
          o2 <- rpop ;;
          if opt_is o2 45 then c <- parse_comment ;; leading_comments f (acc ++ [c])
          else set_state st ;;; ret acc
        else set_state st ;;; ret acc
      end
    end.

  Definition trailing_comment : M (option comment) :=
    skip_ws F false ;;;
    st <- get_state ;;
    ob <- rpop ;;
    if opt_is ob 45 then
      o2 <- rpop ;;
      if opt_is o2 45 then c <- parse_comment ;; ret (Some c)
      else set_state st ;;; ret None
    else set_state st ;;; ret None.

  (* ---------- base specifier, bit string ---------- *)
  Definition bs_second (off : N) : M (option N) :=
    oc <- pop_lowercase d ;;
    ret (match oc with
         | Some c => if c =? 98 then Some off else if c =? 111 then Some (off + 1)
                     else if c =? 120 then Some (off + 2) else None
         | None => None
         end).
  Definition parse_base_specifier : M (option N) :=
    oc <- pop_lowercase d ;;
    match oc with
    | None => ret None
    | Some c =>
      ocode <- (if c =? 117 then bs_second 3
                else if c =? 115 then bs_second 6
                else ret (if c =? 98 then Some 0 else if c =? 111 then Some 1
                          else if c =? 120 then Some 2 else if c =? 100 then Some 9 else None)) ;;
      match ocode with
      | None => ret None
      | Some code => oq <- rpop ;; ret (if opt_is oq 34 then Some code else None)
      end
    end.
  (* lookahead on a clone of the reader, committed only on success *)
  Definition maybe_base_specifier : M (option N) :=
    fun st => match parse_base_specifier st with
              | (Ok (Some v), st') => (Ok (Some v), st')
              | (Ok None, _) => (Ok None, st)
              | (Er e, _) => if fixed then (Ok None, st) else (Er e, st)
              | (Ab a, _) => (Ab a, st)
              end.

  (* the literal text is re-read from the line buffer by UTF-16 columns; `.unwrap()` *)
  Definition parse_bit_string (base : N) (len : option N) (start_col : N) : M (kind * value) :=
    v <- parse_quoted 34 false ;;
    p <- get_pos ;;
    match value_at d (fst p) start_col (snd p) with
    | Some t => ret (KBitString, VBitString t len base v)
    | None => stop Crash
    end.

  (* ---------- identifiers ---------- *)
  Fixpoint ident_loop (fuel : nat) (acc : list N) : M (list N) :=
    match fuel with
    | O => stop OutOfFuel
    | S f =>
      ob <- rpeek ;;
      match ob with
      | None => ret acc
      | Some b => if is_alnum b || (b =? 95) then rskip ;;; ident_loop f (acc ++ [b]) else ret acc
      end
    end.
  (* Symbols::insert_or_keyword: keywords are the symbols whose lower-case name is in the table *)
  Definition insert_or_keyword (name : list N) : kind * value :=
    let ln := map lowercase name in
    if existsb (leqb ln) kws then (KKw ln, VNone) else (KIdentifier, VIdent name).
  Definition parse_basic_identifier_or_keyword : M (kind * value * option N) :=
    t <- ident_loop F [] ;;
    ret (insert_or_keyword t, validate_basic_identifier t).

  (* ---------- abstract literals ---------- *)
  Fixpoint real_loop (fuel : nat) (txt dg : list N) : M (list N * list N) :=
    match fuel with
    | O => stop OutOfFuel
    | S f =>
      ob <- peek_lowercase d ;;
      match ob with
      | None => ret (txt, dg)
      | Some b =>
        if b =? 101 then ret (txt, dg)
        else if is_digit b || in_range 97 100 b || (b =? 102) || (b =? 46) then
          rskip ;;; real_loop f (txt ++ [b]) (dg ++ [b])
        else if b =? 95 then rskip ;;; real_loop f (txt ++ [b]) dg
        else ret (txt, dg)
      end
    end.
  Definition parse_real_literal : M (list N) :=
    start <- get_pos ;;
    '(txt, dg) <- real_loop F [] [] ;;
    e <- get_pos ;;
    if f64_ok dg then ret txt else throw (TErr start e 9).

  Definition lit_int (t : list N) (v : N) : kind * value := (KAbstractLiteral, VAbsInt t v).
  Definition lit_real (t : list N) : kind * value := (KAbstractLiteral, VAbsReal t).
  Definition is_e (c : N) : bool := (c =? 101) || (c =? 69).

  (* `fix24 = false` is the code before commit 10bee32 (finding F24): the error of the integer scan
     was dropped, so `1g.5` gave the real literal `1` *)
  Definition abs_real_gen (fix24 : bool) (st0 : rstate) (pos_after_initial : position)
             (initial : (N * list N) + terr) : M (kind * value) :=
    set_state st0 ;;;
    txt <- parse_real_literal ;;
    p <- get_pos ;;
    (* if reader.pos() < pos_after_initial { initial?; }: the real scan ended before the '.', i.e.
       the integer part holds an invalid character *)
    (if fix24 && plt p pos_after_initial then of_result initial ;;; ret tt else ret tt) ;;;
    op <- rpeek ;;
    match op with
    | Some c =>
      if is_e c then
        rskip ;;;
        '(_, _, et) <- parse_exponent ;;
        ret (lit_real (txt ++ [c] ++ et))
      else ret (lit_real txt)
    | None => ret (lit_real txt)
    end.
  Definition abs_real := abs_real_gen true.

  Definition abs_int_exp (p0 : position) (initial : (N * list N) + terr) : M (kind * value) :=
    '(iv, it) <- of_result initial ;;
    r <- try rpeek ;;
    match r with
    | inl (Some c) =>                      (* reader.peek().unwrap().unwrap() *)
      rskip ;;;
      '(neg, ev, et) <- parse_exponent ;;
      e <- get_pos ;;
      if exp_is_neg neg ev then throw (TErr p0 e 10)
      else if ev <=? 19 then
        (if (10 ^ ev <? TWO64) && (10 ^ ev * iv <? TWO64)
         then ret (lit_int (it ++ [c] ++ et) (10 ^ ev * iv))
         else throw (TErr p0 e 4))
      else throw (TErr p0 e 4)
    | _ => stop Crash
    end.

  (* based literal `base # digits [. digits] # [exponent]`; both '#' may be replaced by ':' (LRM 15.10,
     commit bba3236): `delim` is the delimiter seen after the base (35 or 58), the closing one must be
     the same character *)
  Definition abs_based (delim : N) (p0 pos_after_initial : position) (initial : (N * list N) + terr)
    : M (kind * value) :=
    '(base, bt) <- of_result initial ;;
    rskip ;;;
    bres <- try (parse_integer base false) ;;
    op <- rpeek ;;
    fres <- (if opt_is op 46 then rskip ;;; r <- try (parse_integer base false) ;; ret (Some r)
             else ret None) ;;
    op2 <- rpeek ;;
    if opt_is op2 delim then
      rskip ;;;
      '(iv, it) <- of_result bres ;;
      ftxt <- (match fres with
               | Some r => '(_, ft) <- of_result r ;; ret (Some ft)
               | None => ret None
               end) ;;
      let txt := bt ++ [delim] ++ it ++ (match ftxt with Some ft => [46] ++ ft | None => [] end) ++ [delim] in
      if negb (in_range 2 16 base) then throw (TErr p0 pos_after_initial 11)
      else
        op3 <- rpeek ;;
        oexp <- (match op3 with
                 | Some c => if is_e c then rskip ;;; x <- parse_exponent ;; ret (Some (c, x))
                             else ret None
                 | None => ret None
                 end) ;;
        let txt := match oexp with
                   | Some (c, (_, _, et)) => txt ++ [c] ++ et
                   | None => txt
                   end in
        match ftxt with
        | Some _ => ret (lit_real txt)
        | None =>
          match oexp with
          | Some (_, (neg, ev, _)) =>
            e <- get_pos ;;
            if exp_is_neg neg ev then throw (TErr p0 e 10)
            else if ev <=? 64 then
              (if (base ^ ev <? TWO64) && (base ^ ev * iv <? TWO64)
               then ret (lit_int txt (base ^ ev * iv))
               else throw (TErr p0 e 4))
            else throw (TErr p0 e 4)
          | None => ret (lit_int txt iv)
          end
        end
    else e <- get_pos ;; throw (TErr p0 e 12).

  (* colon_starts_based_literal: on a clone of the reader skip the ':' and peek; the ':' starts a based
     literal iff an ASCII letter or digit follows (a peek error counts as "no"); the reader is not moved *)
  Definition colon_lookahead : M (option N + terr) := rskip ;;; try rpeek.
  Definition colon_starts_based_literal : M bool :=
    fun st => match colon_lookahead st with
              | (Ok (inl (Some n)), _) => (Ok (is_alnum n), st)
              | (Ok _, _) => (Ok false, st)
              | (Er _, _) => (Ok false, st)
              | (Ab a, _) => (Ab a, st)
              end.

  Definition abs_bit_string (p0 : position) (initial : (N * list N) + terr) : M (kind * value) :=
    '(iv, _) <- of_result initial ;;
    obs <- parse_base_specifier ;;
    match obs with
    | Some bs => parse_bit_string bs (Some (iv mod TWO32)) (snd p0)
    | None => e <- get_pos ;; throw (TErr p0 e 13)
    end.

  Definition abs_plain (initial : (N * list N) + terr) : M (kind * value) :=
    '(iv, it) <- of_result initial ;; ret (lit_int it iv).

  Definition is_bs_letter (c : N) : bool :=
    (c =? 115) || (c =? 117) || (c =? 98) || (c =? 111) || (c =? 120) || (c =? 100).

  Definition parse_abstract_literal : M (kind * value) :=
    st0 <- get_state ;;
    let p0 := r_pos st0 in
    initial <- try (parse_integer 10 true) ;;
    pos_after_initial <- get_pos ;;
    onx <- peek_lowercase d ;;
    match onx with
    | None => abs_plain initial
    | Some c =>
      if c =? 46 then abs_real st0 pos_after_initial initial
      else if c =? 101 then abs_int_exp p0 initial
      else if c =? 35 then abs_based 35 p0 pos_after_initial initial
      else if c =? 58 then
        (b <- colon_starts_based_literal ;;
         if b then abs_based 58 p0 pos_after_initial initial else abs_plain initial)
      else if is_bs_letter c then abs_bit_string p0 initial
      else abs_plain initial
    end.

  (* parse_abstract_literal before commit 10bee32, kept for the refutation (F24) *)
  Definition parse_abstract_literal_old : M (kind * value) :=
    st0 <- get_state ;;
    let p0 := r_pos st0 in
    initial <- try (parse_integer 10 true) ;;
    pos_after_initial <- get_pos ;;
    onx <- peek_lowercase d ;;
    match onx with
    | None => abs_plain initial
    | Some c =>
      if c =? 46 then abs_real_gen false st0 pos_after_initial initial
      else if c =? 101 then abs_int_exp p0 initial
      else if c =? 35 then abs_based 35 p0 pos_after_initial initial
      else if is_bs_letter c then abs_bit_string p0 initial
      else abs_plain initial
    end.

  (* ---------- character literal (tick already consumed): lookahead on a clone ---------- *)
  Definition char_lookahead : M (option N) :=
    oc <- rpop ;;
    match oc with
    | Some c => s <- skip_if d 39 ;; ret (if s then Some c else None)
    | None => ret None
    end.
  Definition parse_character_literal : M (option (kind * value)) :=
    fun st => match char_lookahead st with
              | (Ok (Some c), st') => (Ok (Some (KCharacter, VChar c)), st')
              | (Ok None, _) => (Ok None, st)
              | (Er e, _) => (Er e, st)
              | (Ab a, _) => (Ab a, st)
              end.

  (* ---------- parse_token ---------- *)
  Definition tokv := (kind * value * option N)%type.      (* + identifier warning code *)
  Definition simple (k : kind) : M (option tokv) := ret (Some (k, VNone, None)).
  Definition two (c : N) (k2 k1 : kind) : M (option tokv) :=
    s <- skip_if d c ;; if s then simple k2 else simple k1.
  Definition illegal (start : position) : M (option tokv) :=
    e <- get_pos ;; throw (TErr start e 14).
  Definition lift_kv (m : M (kind * value)) : M (option tokv) :=
    kv <- m ;; ret (Some (fst kv, snd kv, None)).

  Definition parse_token (start : position) (last : option kind) : M (option tokv) :=
    ob <- rpeek ;;
    match ob with
    | None => ret None
    | Some b =>
      if is_alpha b || (b =? 95) then
        st <- get_state ;;
        obs <- maybe_base_specifier ;;
        match obs with
        | Some bs => lift_kv (parse_bit_string bs None (snd (r_pos st)))
        | None => '(kv, w) <- parse_basic_identifier_or_keyword ;; ret (Some (fst kv, snd kv, w))
        end
      else if is_digit b then lift_kv parse_abstract_literal
      else
        rskip ;;;
        if b =? 58 then two 61 KColonEq KColon
        else if b =? 39 then
          (if can_be_char last then
             oc <- parse_character_literal ;;
             match oc with
             | Some kv => ret (Some (fst kv, snd kv, None))
             | None => simple KTick
             end
           else simple KTick)
        else if b =? 45 then simple KMinus
        else if b =? 34 then v <- parse_quoted 34 false ;; ret (Some (KStringLiteral, VString v, None))
        else if b =? 59 then simple KSemiColon
        else if b =? 40 then simple KLeftPar
        else if b =? 41 then simple KRightPar
        else if b =? 43 then simple KPlus
        else if b =? 46 then simple KDot
        else if b =? 38 then simple KConcat
        else if b =? 44 then simple KComma
        else if b =? 61 then two 62 KRightArrow KEQ
        else if b =? 60 then
          o2 <- rpeek ;;
          (if opt_is o2 61 then rskip ;;; simple KLTE
           else if opt_is o2 62 then rskip ;;; simple KBOX
           else if opt_is o2 60 then rskip ;;; simple KLtLt
           else simple KLT)
        else if b =? 62 then
          o2 <- rpeek ;;
          (if opt_is o2 61 then rskip ;;; simple KGTE
           else if opt_is o2 62 then rskip ;;; simple KGtGt
           else simple KGT)
        else if b =? 47 then two 61 KNE KDiv
        else if b =? 42 then two 42 KPow KTimes
        else if b =? 63 then
          o2 <- rpeek ;;
          (if opt_is o2 63 then rskip ;;; simple KQueQue
           else if opt_is o2 61 then rskip ;;; simple KQueEQ
           else if opt_is o2 47 then
             rskip ;;; s <- skip_if d 61 ;; if s then simple KQueNE else illegal start
           else if opt_is o2 60 then rskip ;;; two 61 KQueLTE KQueLT
           else if opt_is o2 62 then rskip ;;; two 61 KQueGTE KQueGT
           else simple KQue)
        else if b =? 94 then simple KCirc
        else if b =? 64 then simple KCommAt
        else if b =? 124 then simple KBar
        else if b =? 91 then simple KLeftSquare
        else if b =? 93 then simple KRightSquare
        else if b =? 92 then v <- parse_quoted 92 true ;; ret (Some (KIdentifier, VIdent v, None))
        else if b =? 96 then simple KGraveAccent
        else illegal start
    end.

  (* ---------- Tokenizer state above the reader ---------- *)
  Record tkst := { k_rd : rstate; k_last : option kind; k_warn : list terr }.
  Definition tk_start : tkst := {| k_rd := rstart; k_last := None; k_warn := [] |}.
  Definition with_rd (t : tkst) (r : rstate) : tkst :=
    {| k_rd := r; k_last := k_last t; k_warn := k_warn t |}.

  Definition pop_raw (t : tkst) : res (option token) * tkst :=
    match leading_comments F [] (k_rd t) with
    | (Er e, r1) => (Er e, with_rd t r1)
    | (Ab a, r1) => (Ab a, with_rd t r1)
    | (Ok lead, r1) =>
      let start := r_pos r1 in
      match parse_token start (k_last t) r1 with
      | (Er e, r2) => (Er e, with_rd t r2)
      | (Ab a, r2) => (Ab a, with_rd t r2)
      | (Ok None, r2) => (Ok None, with_rd t r2)
      | (Ok (Some (k, v, w)), r2) =>
        let warns := k_warn t ++ match w with
                                 | Some code => [TErr start (r_pos r2) code]
                                 | None => []
                                 end in
        match trailing_comment r2 with
        | (Er e, r3) => (Er e, {| k_rd := r3; k_last := k_last t; k_warn := warns |})
        | (Ab a, r3) => (Ab a, {| k_rd := r3; k_last := k_last t; k_warn := warns |})
        | (Ok tr, r3) =>
          (Ok (Some {| t_kind := k; t_val := v; t_s := start; t_e := r_pos r2;
                       t_lead := lead; t_trail := tr |}),
           {| k_rd := r3; k_last := Some k; k_warn := warns |})
        end
      end
    end.

  (* the `loop` inside Tokenizer::pop that swallows an ignored region *)
  Inductive ign := IgnBreak (t : tkst) | IgnRet (r : option token) (t : tkst) | IgnAb (a : abort) (t : tkst).
  Fixpoint ignored_loop (fuel : nat) (t : tkst) : ign :=
    match fuel with
    | O => IgnAb OutOfFuel t
    | S f =>
      match pop_raw t with
      | (Ok None, t1) => IgnRet None t1
      | (Ok (Some tok), t1) =>
        if trailing_is_end tok then IgnBreak t1
        else if leading_is_end tok then IgnRet (Some tok) t1
        else ignored_loop f t1
      | (Er _, t1) => ignored_loop f t1
      | (Ab a, t1) => IgnAb a t1
      end
    end.

  (* Tokenizer::pop *)
  Fixpoint tk_pop (fuel : nat) (t : tkst) : res (option token) * tkst :=
    match fuel with
    | O => (Ab OutOfFuel, t)
    | S f =>
      match pop_raw t with
      | (Ok None, t1) => (Ok None, t1)
      | (Ok (Some tok), t1) =>
        if leading_is_start tok then
          if negb (trailing_is_end tok) then
            match ignored_loop F t1 with
            | IgnBreak t2 => tk_pop f t2
            | IgnRet r t2 => (Ok r, t2)
            | IgnAb a t2 => (Ab a, t2)
            end
          else tk_pop f t1
        else (Ok (Some tok), t1)
      | (Er e, t1) => (Er e, t1)
      | (Ab a, t1) => (Ab a, t1)
      end
    end.

  (* read_until_newline / Tokenizer::text_until_newline *)
  Fixpoint until_nl (fuel : nat) (acc : list N) : M (list N) :=
    match fuel with
    | O => stop OutOfFuel
    | S f =>
      ob <- rpeek ;;
      match ob with
      | None => ret acc
      | Some b => if b =? 10 then ret acc else rskip ;;; until_nl f (acc ++ [b])
      end
    end.
  Definition text_until_newline (t : tkst) : res token * tkst :=
    let start := r_pos (k_rd t) in
    match until_nl F [] (k_rd t) with
    | (Ok txt, r1) =>
      (Ok {| t_kind := KText; t_val := VText txt; t_s := start; t_e := r_pos r1;
             t_lead := []; t_trail := None |}, with_rd t r1)
    | (Er e, r1) => (Er e, with_rd t r1)
    | (Ab a, r1) => (Ab a, with_rd t r1)
    end.

  (* TokenStream::handle_tool_directive: returns the diagnostics it pushes *)
  Definition finish_directive (ds : list terr) (t : tkst) : res (list terr) * tkst :=
    match text_until_newline t with
    | (Ok _, t2) => (Ok ds, t2)
    | (Er e, t2) => (Ok (ds ++ [e]), t2)
    | (Ab a, t2) => (Ab a, t2)
    end.
  Definition handle_tool_directive (grave : token) (t : tkst) : res (list terr) * tkst :=
    match tk_pop F t with
    | (Ok (Some tok), t1) =>
      if is_identifier (t_kind tok) then finish_directive [] t1
      else match text_until_newline t1 with           (* let _ = ... *)
           | (Ab a, t2) => (Ab a, t2)
           | (_, t2) => (Ok [TErr (t_s tok) (t_e tok) 15], t2)
           end
    | (Er e, t1) => finish_directive [e] t1
    | (Ok None, t1) => (Ok [TErr (t_s grave) (t_e grave) 15], t1)
    | (Ab a, t1) => (Ab a, t1)
    end.

  (* TokenStream::new: the tokens kept and the diagnostics pushed (the identifier warnings of
     Tokenizer::take_diagnostics come last) *)
  Inductive outcome := Done (toks : list token) (diags : list terr) | Aborted (a : abort).
  Definition add_tok (tok : token) (o : outcome) : outcome :=
    match o with Done ts ds => Done (tok :: ts) ds | Aborted a => Aborted a end.
  Definition add_diags (es : list terr) (o : outcome) : outcome :=
    match o with Done ts ds => Done ts (es ++ ds) | Aborted a => Aborted a end.
  Fixpoint lex (fuel : nat) (t : tkst) : outcome :=
    match fuel with
    | O => Aborted OutOfFuel
    | S f =>
      match tk_pop F t with
      | (Ok None, t1) => Done [] (k_warn t1)
      | (Ok (Some tok), t1) =>
        if is_grave (t_kind tok) then
          match handle_tool_directive tok t1 with
          | (Ok ds, t2) => add_diags ds (lex f t2)
          | (Er _, _) => Aborted Crash           (* not reachable: never returns Er *)
          | (Ab a, _) => Aborted a
          end
        else add_tok tok (lex f t1)
      | (Er e, t1) => add_diags [e] (lex f t1)
      | (Ab a, _) => Aborted a
      end
    end.
End Lexer.

(* ---------- the keyword table of VHDLStandard::VHDL2008 (the default standard) ---------- *)
(* generated from `c11 keywords` (VHDLStandard::default().keywords() through kind_str); 115 entries *)
Definition keywords_2008 : list (list N) := [
  [97; 98; 115];  (* abs *)
  [97; 99; 99; 101; 115; 115];  (* access *)
  [97; 102; 116; 101; 114];  (* after *)
  [97; 108; 105; 97; 115];  (* alias *)
  [97; 108; 108];  (* all *)
  [97; 110; 100];  (* and *)
  [97; 114; 99; 104; 105; 116; 101; 99; 116; 117; 114; 101];  (* architecture *)
  [97; 114; 114; 97; 121];  (* array *)
  [97; 115; 115; 101; 114; 116];  (* assert *)
  [97; 115; 115; 117; 109; 101];  (* assume *)
  [97; 115; 115; 117; 109; 101; 95; 103; 117; 97; 114; 97; 110; 116; 101; 101];  (* assume_guarantee *)
  [97; 116; 116; 114; 105; 98; 117; 116; 101];  (* attribute *)
  [98; 101; 103; 105; 110];  (* begin *)
  [98; 108; 111; 99; 107];  (* block *)
  [98; 111; 100; 121];  (* body *)
  [98; 117; 102; 102; 101; 114];  (* buffer *)
  [98; 117; 115];  (* bus *)
  [99; 97; 115; 101];  (* case *)
  [99; 111; 109; 112; 111; 110; 101; 110; 116];  (* component *)
  [99; 111; 110; 102; 105; 103; 117; 114; 97; 116; 105; 111; 110];  (* configuration *)
  [99; 111; 110; 115; 116; 97; 110; 116];  (* constant *)
  [99; 111; 110; 116; 101; 120; 116];  (* context *)
  [99; 111; 118; 101; 114];  (* cover *)
  [100; 101; 102; 97; 117; 108; 116];  (* default *)
  [100; 105; 115; 99; 111; 110; 110; 101; 99; 116];  (* disconnect *)
  [100; 111; 119; 110; 116; 111];  (* downto *)
  [101; 108; 115; 101];  (* else *)
  [101; 108; 115; 105; 102];  (* elsif *)
  [101; 110; 100];  (* end *)
  [101; 110; 116; 105; 116; 121];  (* entity *)
  [101; 120; 105; 116];  (* exit *)
  [102; 97; 105; 114; 110; 101; 115; 115];  (* fairness *)
  [102; 105; 108; 101];  (* file *)
  [102; 111; 114];  (* for *)
  [102; 111; 114; 99; 101];  (* force *)
  [102; 117; 110; 99; 116; 105; 111; 110];  (* function *)
  [103; 101; 110; 101; 114; 97; 116; 101];  (* generate *)
  [103; 101; 110; 101; 114; 105; 99];  (* generic *)
  [103; 114; 111; 117; 112];  (* group *)
  [103; 117; 97; 114; 100; 101; 100];  (* guarded *)
  [105; 102];  (* if *)
  [105; 109; 112; 117; 114; 101];  (* impure *)
  [105; 110];  (* in *)
  [105; 110; 101; 114; 116; 105; 97; 108];  (* inertial *)
  [105; 110; 111; 117; 116];  (* inout *)
  [105; 115];  (* is *)
  [108; 97; 98; 101; 108];  (* label *)
  [108; 105; 98; 114; 97; 114; 121];  (* library *)
  [108; 105; 110; 107; 97; 103; 101];  (* linkage *)
  [108; 105; 116; 101; 114; 97; 108];  (* literal *)
  [108; 111; 111; 112];  (* loop *)
  [109; 97; 112];  (* map *)
  [109; 111; 100];  (* mod *)
  [110; 97; 110; 100];  (* nand *)
  [110; 101; 119];  (* new *)
  [110; 101; 120; 116];  (* next *)
  [110; 111; 114];  (* nor *)
  [110; 111; 116];  (* not *)
  [110; 117; 108; 108];  (* null *)
  [111; 102];  (* of *)
  [111; 110];  (* on *)
  [111; 112; 101; 110];  (* open *)
  [111; 114];  (* or *)
  [111; 116; 104; 101; 114; 115];  (* others *)
  [111; 117; 116];  (* out *)
  [112; 97; 99; 107; 97; 103; 101];  (* package *)
  [112; 97; 114; 97; 109; 101; 116; 101; 114];  (* parameter *)
  [112; 111; 114; 116];  (* port *)
  [112; 111; 115; 116; 112; 111; 110; 101; 100];  (* postponed *)
  [112; 114; 111; 99; 101; 100; 117; 114; 101];  (* procedure *)
  [112; 114; 111; 99; 101; 115; 115];  (* process *)
  [112; 114; 111; 112; 101; 114; 116; 121];  (* property *)
  [112; 114; 111; 116; 101; 99; 116; 101; 100];  (* protected *)
  [112; 117; 114; 101];  (* pure *)
  [114; 97; 110; 103; 101];  (* range *)
  [114; 101; 99; 111; 114; 100];  (* record *)
  [114; 101; 103; 105; 115; 116; 101; 114];  (* register *)
  [114; 101; 106; 101; 99; 116];  (* reject *)
  [114; 101; 108; 101; 97; 115; 101];  (* release *)
  [114; 101; 109];  (* rem *)
  [114; 101; 112; 111; 114; 116];  (* report *)
  [114; 101; 115; 116; 114; 105; 99; 116];  (* restrict *)
  [114; 101; 115; 116; 114; 105; 99; 116; 95; 103; 117; 97; 114; 97; 110; 116; 101; 101];  (* restrict_guarantee *)
  [114; 101; 116; 117; 114; 110];  (* return *)
  [114; 111; 108];  (* rol *)
  [114; 111; 114];  (* ror *)
  [115; 101; 108; 101; 99; 116];  (* select *)
  [115; 101; 113; 117; 101; 110; 99; 101];  (* sequence *)
  [115; 101; 118; 101; 114; 105; 116; 121];  (* severity *)
  [115; 105; 103; 110; 97; 108];  (* signal *)
  [115; 104; 97; 114; 101; 100];  (* shared *)
  [115; 108; 97];  (* sla *)
  [115; 108; 108];  (* sll *)
  [115; 114; 97];  (* sra *)
  [115; 114; 108];  (* srl *)
  [115; 116; 114; 111; 110; 103];  (* strong *)
  [115; 117; 98; 116; 121; 112; 101];  (* subtype *)
  [116; 104; 101; 110];  (* then *)
  [116; 111];  (* to *)
  [116; 114; 97; 110; 115; 112; 111; 114; 116];  (* transport *)
  [116; 121; 112; 101];  (* type *)
  [117; 110; 97; 102; 102; 101; 99; 116; 101; 100];  (* unaffected *)
  [117; 110; 105; 116; 115];  (* units *)
  [117; 110; 116; 105; 108];  (* until *)
  [117; 115; 101];  (* use *)
  [118; 97; 114; 105; 97; 98; 108; 101];  (* variable *)
  [118; 109; 111; 100; 101];  (* vmode *)
  [118; 112; 114; 111; 112];  (* vprop *)
  [118; 117; 110; 105; 116];  (* vunit *)
  [119; 97; 105; 116];  (* wait *)
  [119; 104; 101; 110];  (* when *)
  [119; 104; 105; 108; 101];  (* while *)
  [119; 105; 116; 104];  (* with *)
  [120; 111; 114];  (* xor *)
  [120; 110; 111; 114]  (* xnor *)
].

(* ---------- whole inputs ---------- *)
Definition lex_fuel (s : list char) : nat := (2 * length s + 2)%nat.
Definition lex_gen (kws : list (list N)) (fixed : bool) (fuel : nat) (s : list char) : outcome :=
  lex (split_lines s) kws fuel fixed fuel tk_start.
(* Contents::from_str + Tokenizer::new + TokenStream::new on the text s *)
Definition lex_all (s : list char) : outcome := lex_gen keywords_2008 true (lex_fuel s) s.
(* the tokenizer before the repair of F5 *)
Definition lex_all_old (s : list char) : outcome := lex_gen keywords_2008 false (lex_fuel s) s.

(* Contents::from_latin1_file: Latin1String::from_vec(bytes).to_string() = iso_8859_1_to_utf8
   (data/latin_1.rs), then Contents::from_str on the resulting UTF-8 string.  Bytes are N < 256. *)
Definition iso_8859_1_to_utf8 (bytes : list N) : list N :=
  flat_map (fun b => if b <? 128 then [b] else if b <? 192 then [194; b] else [195; b - 64]) bytes.
(* the scalars of a UTF-8 string made of 1- and 2-byte sequences (all that iso_8859_1_to_utf8 emits) *)
Fixpoint utf8_scalars12 (l : list N) : list char :=
  match l with
  | [] => []
  | b :: r => if b <? 128 then b :: utf8_scalars12 r
              else match r with
                   | b2 :: r2 => ((b - 192) * 64 + (b2 - 128)) :: utf8_scalars12 r2
                   | [] => []
                   end
  end.
Definition decode_latin1 (bytes : list N) : list char := utf8_scalars12 (iso_8859_1_to_utf8 bytes).
Definition lex_latin1_file (bytes : list N) : outcome := lex_all (decode_latin1 bytes).

(* ---------- a flat serialisation of outcomes (used by the check to compare the extracted
   runner with evaluation inside Coq) ---------- *)
Definition flat_list {A} (f : A -> list N) (l : list A) : list N :=
  N.of_nat (length l) :: flat_map f l.
Definition flat_ns (l : list N) : list N := N.of_nat (length l) :: l.
Definition flat_pos (p : position) : list N := [fst p; snd p].
Definition flat_opt {A} (f : A -> list N) (o : option A) : list N :=
  match o with Some a => 1 :: f a | None => [0] end.
Definition kind_code (k : kind) : list N :=
  match k with
  | KIdentifier => [1] | KAbstractLiteral => [2] | KStringLiteral => [3] | KBitString => [4]
  | KCharacter => [5] | KText => [6] | KColon => [7] | KColonEq => [8] | KTick => [9] | KMinus => [10]
  | KSemiColon => [11] | KLeftPar => [12] | KRightPar => [13] | KPlus => [14] | KDot => [15]
  | KConcat => [16] | KComma => [17] | KEQ => [18] | KRightArrow => [19] | KLT => [20] | KLTE => [21]
  | KBOX => [22] | KLtLt => [23] | KGT => [24] | KGTE => [25] | KGtGt => [26] | KDiv => [27] | KNE => [28]
  | KTimes => [29] | KPow => [30] | KQue => [31] | KQueQue => [32] | KQueEQ => [33] | KQueNE => [34]
  | KQueLT => [35] | KQueLTE => [36] | KQueGT => [37] | KQueGTE => [38] | KCirc => [39] | KCommAt => [40]
  | KBar => [41] | KLeftSquare => [42] | KRightSquare => [43] | KGraveAccent => [44]
  | KKw n => 100 :: flat_ns n
  end.
Definition flat_value (v : value) : list N :=
  match v with
  | VNone => [0]
  | VIdent t => 1 :: flat_ns t
  | VString t => 2 :: flat_ns t
  | VBitString t len b x => 3 :: flat_ns t ++ flat_opt (fun n => [n]) len ++ [b] ++ flat_ns x
  | VAbsInt t n => 4 :: flat_ns t ++ [n]
  | VAbsReal t => 5 :: flat_ns t
  | VChar c => [6; c]
  | VText t => 7 :: flat_ns t
  end.
Definition flat_comment (c : comment) : list N :=
  flat_pos (c_s c) ++ flat_pos (c_e c) ++ [if c_multi c then 1 else 0] ++ flat_ns (c_val c).
Definition flat_token (t : token) : list N :=
  kind_code (t_kind t) ++ flat_value (t_val t) ++ flat_pos (t_s t) ++ flat_pos (t_e t)
  ++ flat_list flat_comment (t_lead t) ++ flat_opt flat_comment (t_trail t).
Definition flat_terr (e : terr) : list N :=
  match e with TErr s e c => flat_pos s ++ flat_pos e ++ [c] end.
Definition flat_outcome (o : outcome) : list N :=
  match o with
  | Done ts ds => 1 :: flat_list flat_token ts ++ flat_list flat_terr ds
  | Aborted OutOfFuel => [2]
  | Aborted Crash => [3]
  end.
