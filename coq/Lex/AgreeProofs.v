(* Lex/AgreeProofs.v — lexeme agreement of the two lexer models for unbounded inputs: both realise the
   reference splitter (Lex/AgreeLang.v: lang_is_spec, Lex/AgreeSyn.v: syn_is_spec). *)
From Coq Require Import List NArith Arith Bool.
Import ListNotations.
From RH Require Lex.LangLexer Lex.SynLexer.
From RH Require Import Lex.LexGrammar Lex.Agree Lex.AgreeSweep Lex.AgreeSyn Lex.AgreeSynEol Lex.AgreeLang Lex.AgreeLangEol.
Open Scope N_scope.

Lemma known_difference_split s : known_difference s = false -> has_crlf_char s = false.
Proof. unfold known_difference. trivial. Qed.
Lemma in_quantifier_split s : in_quantifier s = true ->
  latin1 s = true /\ clean_lang s = true /\ clean_syn s = true /\ no_directive s = true /\ no_pragma s = true.
Proof.
  unfold in_quantifier. intros H. apply andb_true_iff in H as [H H5]. apply andb_true_iff in H as [H H4].
  apply andb_true_iff in H as [H H3]. apply andb_true_iff in H as [H1 H2]. repeat split; assumption.
Qed.

Theorem lexemes_agree_no_cr : forall s,
  in_quantifier s = true -> known_difference s = false -> no_cr s = true ->
  lexemes_lang s = lexemes_syn s.
Proof.
  intros s Q K NC. apply in_quantifier_split in Q as (L1 & CL & CS & ND & NP).
  rewrite (lang_is_spec s L1 CL ND NP NC). apply syn_is_spec; assumption.
Qed.

(* a clean input is exactly one that the reference splitter accepts, and the three splits coincide *)
Theorem lexemes_are_spec : forall s,
  in_quantifier s = true -> known_difference s = false -> no_cr s = true ->
  exists l, split_spec LangLexer.keywords_2008 s = Some l /\ lexemes_lang s = Some l /\ lexemes_syn s = Some l.
Proof.
  intros s Q K NC. pose proof (lexemes_agree_no_cr s Q K NC) as E.
  apply in_quantifier_split in Q as (L1 & CL & CS & ND & NP).
  pose proof (lang_is_spec s L1 CL ND NP NC) as EL.
  unfold clean_lang, lexemes_lang in *. destruct (lang_result s) as [[c l]|]; [|discriminate CL].
  cbn [option_map snd] in *. exists l. split; [symmetry; exact EL|]. split; [reflexivity|]. symmetry. exact E.
Qed.

(* an input that exercises every arm and satisfies the hypotheses *)
Definition ex_both : list N :=
  [120; 32; 60; 61; 32; 49; 54; 35; 70; 46; 56; 35; 101; 49; 32; 38; 32; 98; 34; 48; 49; 34; 32; 38; 32; 49; 50; 111; 34;
   55; 34; 32; 38; 32; 39; 49; 39; 32; 59; 32; 45; 45; 32; 99; 10; 47; 42; 32; 121; 32; 42; 47; 32; 122; 39; 97; 40; 49;
   46; 53; 101; 45; 51; 41; 92; 101; 92; 34; 115; 34; 34; 116; 34; 32; 63; 47; 61; 32; 97; 108; 108; 39; 120].
Lemma ex_both_ok : in_quantifier ex_both = true /\ known_difference ex_both = false /\ no_cr ex_both = true
  /\ length (match lexemes_lang ex_both with Some l => l | None => [] end) = 22%nat.
Proof. vm_compute. repeat split. Qed.

(* ---------- every input of the quantifier, line breaks LF, CR or CR LF ---------- *)
Theorem lexemes_agree : forall s,
  in_quantifier s = true -> known_difference s = false -> lexemes_lang s = lexemes_syn s.
Proof.
  intros s Q K. apply in_quantifier_split in Q as (L1 & CL & CS & ND & NP).
  apply known_difference_split in K as K4.
  rewrite (lang_is_spec_eol s L1 CL ND NP K4). apply syn_is_spec_eol; assumption.
Qed.
Theorem lexemes_are_spec_eol : forall s,
  in_quantifier s = true -> known_difference s = false ->
  exists l, split_spec LangLexer.keywords_2008 s = Some l
            /\ lexemes_lang s = Some (map norm_eol l) /\ lexemes_syn s = Some (map norm_eol l).
Proof.
  intros s Q K. pose proof (lexemes_agree s Q K) as E.
  apply in_quantifier_split in Q as (L1 & CL & CS & ND & NP).
  apply known_difference_split in K as K4.
  pose proof (lang_is_spec_eol s L1 CL ND NP K4) as EL.
  destruct (split_spec LangLexer.keywords_2008 s) as [l|] eqn:SP.
  - exists l. cbn [option_map] in EL. split; [reflexivity|]. split; [exact EL|]. rewrite <- E. exact EL.
  - exfalso. cbn [option_map] in EL. unfold clean_lang, lexemes_lang in *.
    destruct (lang_result s) as [[c l]|]; [discriminate EL|discriminate CL].
Qed.

(* a text with all three kinds of line break that satisfies the hypotheses *)
Definition ex_eol : list N :=
  [97; 32; 60; 61; 32; 39; 13; 39; 32; 38; 32; 34; 120; 121; 34; 32; 59; 13; 10; 45; 45; 32; 99; 13; 47; 42; 32; 117; 13;
   10; 118; 32; 42; 47; 32; 98; 39; 40; 39; 10; 39; 41; 32; 45; 45; 32; 100; 13; 10; 49; 54; 35; 70; 35; 13; 120; 34;
   48; 49; 34; 13; 39; 13; 13; 39].
Lemma ex_eol_ok : in_quantifier ex_eol = true /\ known_difference ex_eol = false /\ no_cr ex_eol = false
  /\ length (match lexemes_lang ex_eol with Some l => l | None => [] end) = 15%nat.
Proof. vm_compute. repeat split. Qed.

(* a text with the two repaired differences: `x := 16:FF: & assume_guarantee'a' range 0 to 1:= 1` *)
Definition ex_repaired : list N :=
  [120; 32; 58; 61; 32; 49; 54; 58; 70; 70; 58; 32; 38; 32] ++ ASSUME_G ++
  [39; 97; 39; 32; 114; 97; 110; 103; 101; 32; 48; 32; 116; 111; 32; 49; 58; 61; 32; 49].
Lemma ex_repaired_ok : in_quantifier ex_repaired = true /\ known_difference ex_repaired = false
  /\ lexemes_lang ex_repaired
     = Some [[120]; [58; 61]; [49; 54; 58; 70; 70; 58]; [38]; ASSUME_G; [39; 97; 39]; [114; 97; 110; 103; 101]; [48];
             [116; 111]; [49]; [58; 61]; [49]].
Proof. vm_compute. repeat split. Qed.
