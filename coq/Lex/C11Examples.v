(* Lex/C11Examples.v — concrete evaluations used by Props/C11.v (non-vacuity examples and the
   witness of the open finding). *)
From Coq Require Import List NArith Arith Bool.
Import ListNotations.
From RH Require Import Text.Contents Text.Reader Text.ReaderProofs Lex.LangLexer Lex.LexSpec Lex.LangLexerProofs.
Open Scope N_scope.

(*  a <= "é"<CR><LF>-- 😀 c<CR>12sb"01" 16#F.F#e-1 x"AB"<LF>  *)
Definition example_text : list char :=
  [97;32;60;61;32;34;233;34;13;10;45;45;32;128512;32;99;13;49;50;115;98;34;48;49;34;32;
   49;54;35;70;46;70;35;101;45;49;32;120;34;65;66;34;10].

Definition relex_b (t : token) (sl : list char) : bool :=
  match lex_all sl with
  | Done [t'] _ => leqb (kind_code (t_kind t') ++ flat_value (t_val t')) (kind_code (t_kind t) ++ flat_value (t_val t))
  | _ => false
  end.

Lemma example_lexes :
  exists toks, lex_all example_text = Done toks [] /\ length toks = 6%nat /\
    ranges_sorted (0, 0) toks /\
    Forall (fun t => lexeme_ok t (slice_of_text example_text (t_s t) (t_e t)) = true) toks /\
    Forall (fun t => relex_prop t (slice_of_text example_text (t_s t) (t_e t))) toks.
Proof.
  destruct (lex_all example_text) as [toks ds|a] eqn:E; [|vm_compute in E; discriminate].
  pose proof (token_ranges_ordered _ _ _ E) as R.
  vm_compute in E. injection E as <- <-.
  eexists. split; [reflexivity|]. split; [reflexivity|]. split; [exact R|]. split.
  - repeat constructor.
  - repeat (constructor; [eexists; eexists; split; [vm_compute; reflexivity|split; reflexivity]|]).
    constructor.
Qed.

(* Finding F24 (fixed in /repo by 10bee32): before the fix the real-literal arm dropped the
   "invalid integer character" error, so `1g.5` produced the real-valued literal `1`, whose slice
   re-lexes to an integer.  Function-level witness with the pre-fix arm. *)
Lemma relex_old_refuted :
  let s := [49; 103; 46; 53] in
  exists st', parse_abstract_literal_old (split_lines s) 10 rstart = (Ok (KAbstractLiteral, VAbsReal [49]), st')
    /\ slice_of_text s (0, 0) (r_pos st') = [49]
    /\ exists t ds, lex_all [49] = Done [t] ds /\ t_kind t = KAbstractLiteral /\ t_val t <> VAbsReal [49].
Proof.
  cbv zeta. eexists. split; [vm_compute; reflexivity|]. split; [vm_compute; reflexivity|].
  eexists. eexists. split; [vm_compute; reflexivity|]. split; [reflexivity|]. cbn. discriminate.
Qed.
(* the repaired code reports the error and produces no such token *)
Lemma f24_fixed :
  exists toks, lex_all [49; 103; 46; 53] = Done toks [TErr (0, 1) (0, 2) 2] /\
    map t_kind toks = [KIdentifier; KDot; KAbstractLiteral].
Proof. eexists. split; vm_compute; reflexivity. Qed.

(* the reader on the example: after the 7 characters a, blank, <, =, blank, quote, e-acute (the last
   is 2 UTF-8 bytes and 1 UTF-16 unit) the state is
   line 0, character 7, idx 8; it satisfies the invariant and was reached by popping 7 characters *)
From RH Require Import Text.ReaderInv.
Lemma reader_example :
  let d := split_lines example_text in
  let st := {| r_pos := (0, 7); r_idx := 8 |} in
  RInv d st /\ run d [97; 32; 60; 61; 32; 34; 233] rstart st /\ get_char d st = GChar 34 /\
  slice_of_text example_text (0, 0) (0, 7) = [97; 32; 60; 61; 32; 34; 233].
Proof.
  cbv zeta. split; [|split; [|split]].
  - left. exists [97; 32; 60; 61; 32; 34; 233], [34; 10]. split; [reflexivity|]. split; [reflexivity|].
    split; [reflexivity|]. intro H. cbn in H. repeat (destruct H as [H|H]; [discriminate|]). exact H.
  - repeat (eapply run_cons; [vm_compute; reflexivity|]). apply run_nil.
  - vm_compute. reflexivity.
  - vm_compute. reflexivity.
Qed.
