(* Lex/SynLexerProofs.v — proofs about the executable model Lex/SynLexer.v of the vhdl_syntax
   tokenizer: totality (no fuel exhaustion, no `unreachable!`), losslessness of the token stream
   (printed bytes and byte_len sums), its shape, and merge_bit_string_literals. *)
From Coq Require Import List NArith Arith Bool Lia.
Import ListNotations.
From RH Require Import Lex.SynLexer.
From RH Require Export Lex.SynLexerLen.
Open Scope N_scope.
#[local] Arguments N.add : simpl never.
#[local] Arguments N.sub : simpl never.
#[local] Arguments N.mul : simpl never.
#[local] Arguments N.eqb : simpl never.
#[local] Arguments N.leb : simpl never.
#[local] Arguments N.ltb : simpl never.
Notation printed ts := (concat (map (fun x : ltok => token_bytes (fst x)) ts)).

(* ------------------------------------------------------------------------------------------ *)
(* Scanning helpers                                                                            *)
(* ------------------------------------------------------------------------------------------ *)
Lemma rep_succ n bs : rep (N.to_nat (n + 1)) bs = bs ++ rep (N.to_nat n) bs.
Proof. replace (N.to_nat (n + 1)) with (S (N.to_nat n)) by lia. reflexivity. Qed.

Lemma count_ok c s n r : count c s = (n, r) -> rep (N.to_nat n) [c] ++ r = s.
Proof.
  revert n r; induction s as [|x s IH]; intros n r H; cbn [count] in H.
  - inversion H; reflexivity.
  - destruct (x =? c) eqn:E.
    + destruct (count c s) as [n' r'] eqn:C. inversion H; subst. rewrite rep_succ. cbn [app].
      apply N.eqb_eq in E; subst. f_equal. apply IH; reflexivity.
    + inversion H; subst. reflexivity.
Qed.

Lemma count_crlf_ok_aux (k : nat) :
  forall s n r, (length s <= k)%nat -> count_crlf s = (n, r) -> rep (N.to_nat n) [13; 10] ++ r = s.
Proof.
  induction k as [|k IH]; intros s n r L H.
  - destruct s; [|cbn [length] in L; lia]. cbn [count_crlf] in H. inversion H; reflexivity.
  - destruct s as [|a [|b s]]; try (cbn [count_crlf] in H; inversion H; reflexivity).
    cbn [count_crlf] in H. destruct ((a =? 13) && (b =? 10)) eqn:E.
    + apply andb_true_iff in E as [Ea Eb]. apply N.eqb_eq in Ea, Eb; subst.
      destruct (count_crlf s) as [n' r'] eqn:C. inversion H; subst. rewrite rep_succ. cbn [app].
      do 2 f_equal. apply IH; [cbn [length] in L; lia | assumption].
    + inversion H; reflexivity.
Qed.
Lemma count_crlf_ok s n r : count_crlf s = (n, r) -> rep (N.to_nat n) [13; 10] ++ r = s.
Proof. apply (count_crlf_ok_aux (length s)); lia. Qed.

Lemma take_line_ok s a b : take_line s = (a, b) -> a ++ b = s.
Proof.
  revert a b; induction s as [|x s IH]; intros a b H; cbn [take_line] in H.
  - inversion H; reflexivity.
  - destruct ((x =? 13) || (x =? 10)).
    + inversion H; reflexivity.
    + destruct (take_line s) as [a' b'] eqn:T. inversion H; subst. cbn [app]. f_equal.
      apply IH; reflexivity.
Qed.

Lemma take_block_ok s a b t :
  take_block s = (a, b, t) -> a ++ (if t then [42; 47] else []) ++ b = s.
Proof.
  revert a b t; induction s as [|x s IH]; intros a b t H; cbn [take_block] in H.
  - inversion H; reflexivity.
  - destruct ((x =? 42) && match s with y :: _ => y =? 47 | [] => false end) eqn:E.
    + inversion H; subst. apply andb_true_iff in E as [Ex Ey]. apply N.eqb_eq in Ex; subst.
      destruct s as [|y s]; [discriminate|]. apply N.eqb_eq in Ey; subst. reflexivity.
    + destruct (take_block s) as [[a' b'] t'] eqn:T. inversion H; subst. cbn [app]. f_equal.
      apply IH; reflexivity.
Qed.

Lemma take_block_false s a b : take_block s = (a, b, false) -> b = [].
Proof.
  revert a b; induction s as [|x s IH]; intros a b H; cbn [take_block] in H.
  - inversion H; reflexivity.
  - destruct ((x =? 42) && match s with y :: _ => y =? 47 | [] => false end).
    + inversion H.
    + destruct (take_block s) as [[a' b'] t'] eqn:T. inversion H; subst. eapply IH; reflexivity.
Qed.

Lemma take_while_ok p s a b : take_while p s = (a, b) -> a ++ b = s.
Proof.
  revert a b; induction s as [|x s IH]; intros a b H; cbn [take_while] in H.
  - inversion H; reflexivity.
  - destruct (p x).
    + destruct (take_while p s) as [a' b'] eqn:T. inversion H; subst. cbn [app]. f_equal.
      apply IH; reflexivity.
    + inversion H; reflexivity.
Qed.

Lemma quoted_body_ok_aux q (n : nat) :
  forall s a b t, (length s <= n)%nat -> quoted_body q s = (a, b, t) -> a ++ b = s.
Proof.
  induction n as [|n IH]; intros s a b t L H.
  - destruct s; [|cbn [length] in L; lia]. cbn [quoted_body] in H. inversion H; reflexivity.
  - destruct s as [|x r]; [cbn [quoted_body] in H; inversion H; reflexivity|].
    cbn [quoted_body] in H. destruct (x =? q).
    + destruct r as [|y r2]; [inversion H; reflexivity|]. destruct (y =? q).
      * destruct (quoted_body q r2) as [[a' b'] t'] eqn:Q. inversion H; subst. cbn [app].
        do 2 f_equal. eapply IH; [|exact Q]. cbn [length] in L; lia.
      * inversion H; reflexivity.
    + destruct (quoted_body q r) as [[a' b'] t'] eqn:Q. inversion H; subst. cbn [app]. f_equal.
      eapply IH; [|exact Q]. cbn [length] in L; lia.
Qed.

Lemma quoted_ok c r t r' term : quoted (c :: r) = (t, r', term) -> t ++ r' = c :: r /\ t <> [].
Proof.
  unfold quoted. destruct (quoted_body c r) as [[a b] t0] eqn:Q. intros H; inversion H; subst.
  split; [|discriminate]. cbn [app]. f_equal. eapply (quoted_body_ok_aux _ (length r)); [|exact Q]. lia.
Qed.

(* destruct the scrutinee of a `let '(..) := x in ..` standing at the head of the left-hand side *)
Ltac dlet2 a b E :=
  match goal with |- (match ?x with _ => _ end) = _ -> _ => destruct x as [a b] eqn:E end.
Ltac dlet3 a b c E :=
  match goal with |- (match ?x with _ => _ end) = _ -> _ => destruct x as [[a b] c] eqn:E end.

Ltac norm_app := repeat (rewrite <- app_assoc || rewrite <- app_comm_cons); cbn [app].

Lemma opt_exponent_ok s e r : opt_exponent s = (e, r) -> e ++ r = s.
Proof.
  unfold opt_exponent. destruct s as [|e0 s']; [intros H; inversion H; reflexivity|].
  destruct ((e0 =? 101) || (e0 =? 69)); [|intros H; inversion H; reflexivity].
  dlet2 sg r1 Sg.
  assert (Hs : sg ++ r1 = s').
  { destruct s' as [|x r'']; [inversion Sg; reflexivity|].
    destruct ((x =? 43) || (x =? 45)); inversion Sg; reflexivity. }
  dlet2 d r2 T. apply take_while_ok in T. intros H; inversion H; subst.
  cbn [app]. rewrite <- app_assoc. reflexivity.
Qed.

Lemma based_tail_ok i ch r1 t r' e :
  based_tail i ch r1 = (t, r', e) -> t ++ r' = i ++ ch :: r1 /\ t <> [].
Proof.
  unfold based_tail.
  dlet2 b r2 T1. apply take_while_ok in T1.
  dlet2 fr r3 F.
  assert (Hf : fr ++ r3 = r2).
  { destruct r2 as [|d r2']; [inversion F; reflexivity|]. destruct (d =? 46) eqn:Ed.
    - destruct (take_while is_identc r2') as [b2 r2''] eqn:T2. apply take_while_ok in T2.
      apply N.eqb_eq in Ed. inversion F; subst. reflexivity.
    - inversion F; reflexivity. }
  dlet3 cl r4 err C.
  assert (Hc : cl ++ r4 = r3).
  { destruct r3 as [|x r3']; [inversion C; reflexivity|]. destruct (x =? ch) eqn:Ex.
    - apply N.eqb_eq in Ex. inversion C; subst. reflexivity.
    - inversion C; reflexivity. }
  dlet2 xp r5 Oe. apply opt_exponent_ok in Oe.
  intros H; inversion H; subst. split.
  - norm_app. reflexivity.
  - destruct i; discriminate.
Qed.

Lemma app_nonnil {A} (a b : list A) : a <> [] -> a ++ b <> [].
Proof. destruct a; [contradiction|discriminate]. Qed.

Lemma abstract_literal_ok s t r' e :
  abstract_literal s = (t, r', e) ->
  t ++ r' = s /\ (fst (take_while is_intc s) <> [] -> t <> []).
Proof.
  unfold abstract_literal. destruct (take_while is_intc s) as [i r] eqn:T. cbn [fst].
  apply take_while_ok in T. destruct r as [|ch r1].
  - intros H; inversion H; subst. split; [reflexivity|auto].
  - destruct (ch =? 46) eqn:E46.
    + apply N.eqb_eq in E46. dlet2 f r2 T2. apply take_while_ok in T2.
      dlet2 xp r3 Oe. apply opt_exponent_ok in Oe. intros H; inversion H; subst. split.
      * norm_app. reflexivity.
      * apply app_nonnil.
    + destruct ((ch =? 35) || (ch =? 58) && match r1 with x :: _ => is_alnum x | [] => false end).
      * intros H. apply based_tail_ok in H as [H1 H2]. split; [rewrite H1; exact T | auto].
      * destruct ((ch =? 101) || (ch =? 69)).
        -- dlet2 xp r2 Oe. apply opt_exponent_ok in Oe. intros H; inversion H; subst. split.
           ++ rewrite <- app_assoc. rewrite Oe. reflexivity.
           ++ apply app_nonnil.
        -- intros H; inversion H; subst. split; [reflexivity|auto].
Qed.

(* ------------------------------------------------------------------------------------------ *)
(* Trivia                                                                                      *)
(* ------------------------------------------------------------------------------------------ *)
Lemma is2_true s c : is2 s c = true -> exists a r, s = a :: c :: r.
Proof.
  unfold is2. destruct s as [|a [|b r]]; try discriminate. intros H. apply N.eqb_eq in H; subst. eauto.
Qed.

Lemma count_hd k s n r : count k (k :: s) = (n, r) ->
  rep (N.to_nat n) [k] ++ r = k :: s /\ (length r < length (k :: s))%nat.
Proof.
  intros C. split; [apply count_ok; exact C|]. cbn [count] in C. rewrite N.eqb_refl in C.
  destruct (count k s) as [n0 r0] eqn:C0. inversion C; subst. apply count_ok in C0. rewrite <- C0.
  cbn [length]. rewrite app_length. unfold byte in *. lia.
Qed.

Ltac count_case k :=
  match goal with
  | E : (?c =? k) = true |- _ => apply N.eqb_eq in E; subst c
  end;
  match goal with
  | |- context [count k ?l] =>
      let C := fresh "C" in let H := fresh "H" in
      destruct (count k l) as [n0 r0] eqn:C; intros H; inversion H; subst; clear H;
      cbn [piece_bytes]; apply count_hd in C; destruct C as [C1 C2];
      split; [exact C1 | split; [exact C2 | discriminate]]
  end.

Lemma trivia_piece_ok s p r u :
  trivia_piece s = Some (p, r, u) ->
  piece_bytes p ++ r = s /\ (length r < length s)%nat /\ (u = true -> r = []).
Proof.
  destruct s as [|c s']; [discriminate|]. unfold trivia_piece.
  destruct (c =? 9) eqn:E9; [count_case 9|].
  destruct (c =? 11) eqn:E11; [count_case 11|].
  destruct (c =? 13) eqn:E13.
  { destruct (is2 (c :: s') 10) eqn:E2.
    - destruct (count_crlf (c :: s')) as [n0 r0] eqn:C. intros H; inversion H; subst; clear H.
      cbn [piece_bytes].
      split; [apply count_crlf_ok; exact C|]. split; [|discriminate].
      apply is2_true in E2 as (a & r' & E2). inversion E2; subst. apply N.eqb_eq in E13; subst.
      cbn [count_crlf] in C. rewrite !N.eqb_refl in C. cbn [andb] in C.
      destruct (count_crlf r') as [n1 r1] eqn:C1. inversion C; subst.
      apply count_crlf_ok in C1. rewrite <- C1. cbn [length]. rewrite app_length. unfold byte in *. lia.
    - count_case 13. }
  destruct (c =? 12) eqn:E12; [count_case 12|].
  destruct (c =? 10) eqn:E10; [count_case 10|].
  destruct (c =? 32) eqn:E32; [count_case 32|].
  destruct ((c =? 45) && is2 (c :: s') 45) eqn:E45.
  { apply andb_true_iff in E45 as [E1 E2]. apply N.eqb_eq in E1; subst.
    apply is2_true in E2 as (a & r' & E2). inversion E2; subst.
    cbn [tl]. destruct (take_line r') as [a0 b0] eqn:T. intros H; inversion H; subst; clear H.
    apply take_line_ok in T. rewrite <- T. split; [reflexivity|]. split; [|discriminate].
    cbn [length]. rewrite app_length. unfold byte in *. lia. }
  destruct ((c =? 47) && is2 (c :: s') 42) eqn:E47.
  { apply andb_true_iff in E47 as [E1 E2]. apply N.eqb_eq in E1; subst.
    apply is2_true in E2 as (a & r' & E2). inversion E2; subst.
    cbn [tl]. destruct (take_block r') as [[a0 b0] t0] eqn:T.
    pose proof (take_block_ok _ _ _ _ T) as Tb.
    destruct t0; intros H; inversion H; subst; clear H; cbn [piece_bytes].
    - split; [cbn [app]; repeat rewrite <- app_assoc; reflexivity|]. split; [|discriminate].
      cbn [length app]. rewrite !app_length. cbn [length]. unfold byte in *. lia.
    - apply take_block_false in T. subst. cbn [app] in *. rewrite app_nil_r.
      split; [reflexivity|]. split; [|reflexivity].
      cbn [length]. unfold byte in *. lia. }
  destruct (c =? 160) eqn:E160; [count_case 160|].
  discriminate.
Qed.

Lemma trivia_ok fuel :
  forall s ps r u, trivia fuel s = Some (ps, r, u) ->
    trivia_bytes ps ++ r = s /\ (length r <= length s)%nat /\ (u = true -> r = [] /\ ps <> []).
Proof.
  induction fuel as [|f IH]; intros s ps r u H; cbn [trivia] in H; [discriminate|].
  destruct (trivia_piece s) as [[[p r0] un]|] eqn:TP.
  - apply trivia_piece_ok in TP as (Hb & Hl & Hu). destruct un.
    + inversion H; subst. rewrite trivia_bytes_cons. cbn [trivia_bytes map concat]. rewrite app_nil_r.
      split; [reflexivity|]. split; [lia|]. intros _. split; [apply Hu; reflexivity|discriminate].
    + destruct (trivia f r0) as [[[ps' r'] u']|] eqn:T; [|discriminate]. inversion H; subst.
      apply IH in T as (Hb' & Hl' & Hu'). rewrite trivia_bytes_cons, <- app_assoc, Hb'.
      split; [reflexivity|]. split; [lia|]. intros U. destruct (Hu' U) as [? _].
      split; [assumption|discriminate].
  - inversion H; subst. split; [reflexivity|]. split; [lia|discriminate].
Qed.

Lemma trivia_total fuel : forall s, (length s < fuel)%nat -> trivia fuel s <> None.
Proof.
  induction fuel as [|f IH]; intros s L; [lia|]. cbn [trivia].
  destruct (trivia_piece s) as [[[p r0] un]|] eqn:TP; [|discriminate].
  destruct un; [discriminate|]. apply trivia_piece_ok in TP as (_ & Hl & _).
  specialize (IH r0). destruct (trivia f r0) as [[[ps r'] u]|]; [discriminate|].
  apply IH. lia.
Qed.

(* ------------------------------------------------------------------------------------------ *)
(* One token                                                                                   *)
(* ------------------------------------------------------------------------------------------ *)
Definition tok_good (s : list byte) (res : kind * list byte * list byte * option errkind) : Prop :=
  let '(k, t, r', _) := res in t ++ r' = s /\ t <> [] /\ k <> KEof.

Lemma one_good k n c r : (1 <= n)%nat -> k <> KEof -> tok_good (c :: r) (one k n (c :: r)).
Proof.
  intros Hn Hk. unfold one, tok_good. split; [apply firstn_skipn|]. split; [|assumption].
  destruct n; [lia|]. cbn [firstn]. discriminate.
Qed.

Lemma token_good kws last c r : tok_good (c :: r) (token kws last (c :: r)).
Proof.
  unfold token. cbv beta iota.
  repeat match goal with
         | |- tok_good _ (one _ _ _) => apply one_good; [lia | discriminate]
         | |- tok_good _ (if ?b then _ else _) => destruct b eqn:?
         end.
  - (* identifier or keyword *)
    match goal with H : is_alpha c = true |- _ => rename H into Ha end.
    cbn [take_while]. assert (Hi : is_identc c = true) by (unfold is_identc; rewrite Ha; reflexivity).
    rewrite Hi. destruct (take_while is_identc r) as [a b] eqn:T. apply take_while_ok in T.
    unfold tok_good. split; [cbn [app]; f_equal; exact T|]. split; [discriminate|].
    unfold ident_kind. destruct (existsb _ _); discriminate.
  - (* abstract literal *)
    match goal with H : is_digit c = true |- _ => rename H into Hd end.
    destruct (abstract_literal (c :: r)) as [[t r'] e] eqn:A. unfold tok_good.
    apply abstract_literal_ok in A as [A1 A2]. split; [exact A1|]. split; [|discriminate].
    apply A2. cbn [take_while].
    assert (Hi : is_intc c = true) by (unfold is_intc; rewrite Hd; reflexivity).
    rewrite Hi. destruct (take_while is_intc r); cbn [fst]; discriminate.
  - (* string literal *)
    destruct (quoted (c :: r)) as [[t r'] term] eqn:Q. apply quoted_ok in Q as [Q1 Q2].
    unfold tok_good. split; [exact Q1|]. split; [exact Q2|discriminate].
  - (* extended identifier *)
    destruct (quoted (c :: r)) as [[t r'] term] eqn:Q. apply quoted_ok in Q as [Q1 Q2].
    unfold tok_good. split; [exact Q1|]. split; [exact Q2|discriminate].
  - (* tool directive *)
    match goal with H : (c =? 96) = true |- _ => apply N.eqb_eq in H; subst c end.
    cbn [take_line]. change ((96 =? 13) || (96 =? 10)) with false. cbv beta iota.
    destruct (take_line r) as [a b] eqn:T. apply take_line_ok in T.
    unfold tok_good. split; [cbn [app]; f_equal; exact T|]. split; discriminate.
  - (* unknown byte *)
    unfold tok_good. split; [reflexivity|]. split; discriminate.
Qed.

Lemma token_ok kws last c r k t r' e :
  token kws last (c :: r) = (k, t, r', e) ->
  t ++ r' = c :: r /\ t <> [] /\ (length r' < length (c :: r))%nat /\ k <> KEof.
Proof.
  intros H. pose proof (token_good kws last c r) as G. rewrite H in G. unfold tok_good in G.
  destruct G as (Gb & Gne & Gk). repeat split; try assumption.
  rewrite <- Gb. rewrite app_length. destruct t; [contradiction|]. cbn [length]. unfold byte in *. lia.
Qed.

(* ------------------------------------------------------------------------------------------ *)
(* The token loop                                                                              *)
(* ------------------------------------------------------------------------------------------ *)
Definition shape (ts : list ltok) : Prop :=
  exists front eof e,
    ts = front ++ [(eof, e)] /\ t_kind eof = KEof /\ t_text eof = [] /\
    Forall (fun x : ltok => t_kind (fst x) <> KEof /\ t_text (fst x) <> []) front /\
    forallb err_ok ts = true.

Lemma lex_S kws f last s :
  lex kws (S f) last s =
  match trivia (S (length s)) s with
  | None => OutOfFuel
  | Some (tr, r, unterm) =>
    match r with
    | [] =>
      LexOk [(mkTok KEof [] tr,
              if unterm then Some (EUntermBlockComment, PTrivia (length tr - 1)) else None)]
    | _ :: _ =>
      let '(k, t, r', e) := token kws last r in
      match combine_diag tr unterm e with
      | None => LexCrash
      | Some d =>
        match lex kws f (Some k) r' with
        | LexOk ts => LexOk ((mkTok k t tr, d) :: ts)
        | LexCrash => LexCrash
        | OutOfFuel => OutOfFuel
        end
      end
    end
  end.
Proof. reflexivity. Qed.

Lemma lex_ok kws :
  forall fuel last s, (length s < fuel)%nat ->
    exists ts, lex kws fuel last s = LexOk ts /\ printed ts = s /\ shape ts.
Proof.
  induction fuel as [|f IH]; intros last s L; [lia|].
  rewrite lex_S.
  destruct (trivia (S (length s)) s) as [[[tr r] un]|] eqn:T.
  2: { exfalso. eapply trivia_total; [|exact T]. lia. }
  apply trivia_ok in T as (Tb & Tl & Tu).
  destruct r as [|c r].
  - eexists; split; [reflexivity|]. split.
    + cbn [map concat fst]. unfold token_bytes; cbn [t_trivia t_text]. rewrite !app_nil_r.
      rewrite app_nil_r in Tb. exact Tb.
    + eexists [], (mkTok KEof [] tr), _. cbn [app]. split; [reflexivity|].
      split; [reflexivity|]. split; [reflexivity|]. split; [constructor|].
      cbn [forallb]. rewrite andb_true_r. destruct un; unfold err_ok; cbn [snd fst t_trivia]; [|reflexivity].
      destruct Tu as [_ Hne]; [reflexivity|]. apply Nat.ltb_lt. destruct tr; [contradiction|].
      cbn [length]. lia.
  - destruct un. { destruct Tu as [Hnil _]; [reflexivity | discriminate]. }
    destruct (token kws last (c :: r)) as [[[k t] r'] e] eqn:Tk.
    apply token_ok in Tk as (Gb & Gne & Gl & Gk).
    assert (Hc : combine_diag tr false e =
                 Some (match e with Some ek => Some (ek, PToken) | None => None end))
      by (destruct e; reflexivity).
    rewrite Hc.
    destruct (IH (Some k) r') as (ts & Hl & Hp & front & eof & ee & Hts & Hk & Ht & Hf & He).
    { cbn [length] in *. unfold byte in *. lia. }
    rewrite Hl. eexists; split; [reflexivity|]. split.
    + cbn [map concat fst]. unfold token_bytes at 1; cbn [t_trivia t_text]. rewrite Hp.
      rewrite <- Tb, <- Gb. rewrite app_assoc. reflexivity.
    + eexists (_ :: front), eof, ee. split; [rewrite Hts; reflexivity|].
      split; [exact Hk|]. split; [exact Ht|]. split.
      * constructor; [|exact Hf]. cbn [fst t_kind t_text]. split; assumption.
      * cbn [forallb]. rewrite He, andb_true_r. destruct e; reflexivity.
Qed.

Lemma len_sum ts :
  fold_right (fun x : ltok => fun acc => tok_len (fst x) + acc) 0 ts = N.of_nat (length (printed ts)).
Proof.
  induction ts as [|x ts IH]; [reflexivity|].
  cbn [fold_right map concat]. rewrite IH, tok_len_bytes, app_length. lia.
Qed.

Lemma synlex_ok kws bs : exists ts, synlex kws bs = LexOk ts /\ printed ts = bs /\ shape ts.
Proof. unfold synlex. apply lex_ok. lia. Qed.

Lemma synlex_total : forall kws bs, exists ts, synlex kws bs = LexOk ts.
Proof. intros kws bs. destruct (synlex_ok kws bs) as (ts & H & _). exists ts; exact H. Qed.

Lemma synlex_lossless :
  forall kws bs, exists ts,
    synlex kws bs = LexOk ts /\
    printed ts = bs /\
    fold_right (fun x acc => tok_len (fst x) + acc) 0 ts = N.of_nat (length bs).
Proof.
  intros kws bs. destruct (synlex_ok kws bs) as (ts & H & Hp & _). exists ts.
  split; [exact H|]. split; [exact Hp|]. rewrite len_sum, Hp. reflexivity.
Qed.

Lemma synlex_shape :
  forall kws bs ts, synlex kws bs = LexOk ts ->
    exists front eof e,
      ts = front ++ [(eof, e)] /\ t_kind eof = KEof /\ t_text eof = [] /\
      Forall (fun x : ltok => t_kind (fst x) <> KEof /\ t_text (fst x) <> []) front /\
      forallb err_ok ts = true.
Proof.
  intros kws bs ts H. destruct (synlex_ok kws bs) as (ts' & H' & _ & Hs).
  rewrite H in H'. inversion H'; subst. exact Hs.
Qed.

Lemma synlex_old_refuted :
  exists bs ts, synlex_old kw2008 bs = LexOk ts /\ printed ts <> bs /\
    fold_right (fun x acc => tok_len (fst x) + acc) 0 ts <> N.of_nat (length bs).
Proof.
  exists [47; 42]. eexists. split; [vm_compute; reflexivity|].
  split; intro H; vm_compute in H; discriminate H.
Qed.

(* ------------------------------------------------------------------------------------------ *)
(* merge_bit_string_literals                                                                   *)
(* ------------------------------------------------------------------------------------------ *)
Lemma merge_cons t d rest :
  merge ((t, d) :: rest) =
  if is_ident (t_kind t) && is_base_specifier (t_text t) then
    match rest with
    | (s, ds) :: rest' =>
      if is_str (t_kind s) && no_trivia s then
        (mkTok KBitStringLiteral (t_text t ++ t_text s) (t_trivia t), or_err d ds) :: merge rest'
      else (t, d) :: merge rest
    | [] => (t, d) :: merge rest
    end
  else if is_abs (t_kind t) then
    match rest with
    | (i, di) :: (s, ds) :: rest' =>
      if forallb is_intc (t_text t) && is_ident (t_kind i) && no_trivia i && is_base_specifier (t_text i)
         && is_str (t_kind s) && no_trivia s then
        (mkTok KBitStringLiteral (t_text t ++ t_text i ++ t_text s) (t_trivia t),
         or_err (or_err d di) ds) :: merge rest'
      else (t, d) :: merge rest
    | _ => (t, d) :: merge rest
    end
  else (t, d) :: merge rest.
Proof. reflexivity. Qed.

Definition merge_good (ts : list ltok) : Prop :=
  printed (merge ts) = printed ts /\ (forallb err_ok ts = true -> forallb err_ok (merge ts) = true).

Lemma keep_good t d rest : merge_good rest ->
  printed ((t, d) :: merge rest) = printed ((t, d) :: rest) /\
  (forallb err_ok ((t, d) :: rest) = true -> forallb err_ok ((t, d) :: merge rest) = true).
Proof.
  intros [Hp He]. split.
  - cbn [map concat]. rewrite Hp. reflexivity.
  - cbn [forallb]. intros H. apply andb_true_iff in H as [H1 H2]. rewrite H1, (He H2). reflexivity.
Qed.

Lemma no_trivia_nil s : no_trivia s = true -> t_trivia s = [].
Proof. unfold no_trivia. destruct (t_trivia s); [reflexivity|discriminate]. Qed.

(* the error of a token without trivia is not a trivia error *)
Lemma err_ok_no_trivia s ds : t_trivia s = [] -> err_ok (s, ds) = true ->
  forall t, err_ok (t, ds) = true.
Proof.
  unfold err_ok; cbn [snd fst]. intros Hn H t. destruct ds as [[ek [|i]]|]; try reflexivity.
  rewrite Hn in H. cbn [length] in H. apply Nat.ltb_lt in H. lia.
Qed.

Lemma err_ok_same_trivia t t' d : t_trivia t = t_trivia t' -> err_ok (t, d) = err_ok (t', d).
Proof. unfold err_ok; cbn [snd fst]. intros E. rewrite E. reflexivity. Qed.

Lemma or_err_ok t d ds :
  err_ok (t, d) = true -> err_ok (t, ds) = true -> err_ok (t, or_err d ds) = true.
Proof. destruct d; cbn [or_err]; auto. Qed.

Lemma merge_good_all (n : nat) : forall ts, (length ts <= n)%nat -> merge_good ts.
Proof.
  induction n as [|n IH]; intros ts L.
  - destruct ts; [|cbn [length] in L; lia]. split; [reflexivity|auto].
  - destruct ts as [|[t d] rest]; [split; [reflexivity|auto]|].
    cbn [length] in L. unfold merge_good. rewrite merge_cons.
    assert (Hrest : merge_good rest) by (apply IH; lia).
    destruct (is_ident (t_kind t) && is_base_specifier (t_text t)).
    + destruct rest as [|[s ds] rest']; [apply keep_good; exact Hrest|].
      destruct (is_str (t_kind s) && no_trivia s) eqn:E; [|apply keep_good; exact Hrest].
      apply andb_true_iff in E as [_ En]. apply no_trivia_nil in En.
      destruct (IH rest') as [Hp He]; [cbn [length] in L; lia|]. split.
      * cbn [map concat fst]. rewrite Hp. unfold token_bytes; cbn [t_trivia t_text]. rewrite En.
        cbn [trivia_bytes map concat app]. repeat rewrite <- app_assoc. reflexivity.
      * cbn [forallb]. intros H. apply andb_true_iff in H as [H1 H]. apply andb_true_iff in H as [H2 H3].
        rewrite (He H3), andb_true_r. apply or_err_ok.
        -- rewrite <- H1. apply err_ok_same_trivia. reflexivity.
        -- eapply err_ok_no_trivia; [exact En|exact H2].
    + destruct (is_abs (t_kind t)); [|apply keep_good; exact Hrest].
      destruct rest as [|[i di] [|[s ds] rest']]; try (apply keep_good; exact Hrest).
      destruct (forallb is_intc (t_text t) && is_ident (t_kind i) && no_trivia i && is_base_specifier (t_text i)
                && is_str (t_kind s) && no_trivia s) eqn:E; [|apply keep_good; exact Hrest].
      apply andb_true_iff in E as [E Ens]. apply andb_true_iff in E as [E _].
      apply andb_true_iff in E as [E _]. apply andb_true_iff in E as [_ Eni].
      apply no_trivia_nil in Ens, Eni.
      destruct (IH rest') as [Hp He]; [cbn [length] in L; lia|]. split.
      * cbn [map concat fst]. rewrite Hp. unfold token_bytes; cbn [t_trivia t_text]. rewrite Ens, Eni.
        cbn [trivia_bytes map concat app]. repeat rewrite <- app_assoc. reflexivity.
      * cbn [forallb]. intros H. apply andb_true_iff in H as [H1 H]. apply andb_true_iff in H as [H2 H].
        apply andb_true_iff in H as [H3 H4].
        rewrite (He H4), andb_true_r. apply or_err_ok; [apply or_err_ok|].
        -- rewrite <- H1. apply err_ok_same_trivia. reflexivity.
        -- eapply err_ok_no_trivia; [exact Eni|exact H2].
        -- eapply err_ok_no_trivia; [exact Ens|exact H3].
Qed.

Lemma merge_lossless :
  forall ts, printed (merge ts) = printed ts /\
             (forallb err_ok ts = true -> forallb err_ok (merge ts) = true).
Proof. intros ts. apply (merge_good_all (length ts)). lia. Qed.

Lemma token_stream_lossless :
  forall kws bs, exists ts, token_stream kws bs = Some ts /\ printed ts = bs /\ forallb err_ok ts = true.
Proof.
  intros kws bs. destruct (synlex_ok kws bs) as (ts & H & Hp & (front & eof & e & _ & _ & _ & _ & He)).
  destruct (merge_lossless ts) as [Mp Me].
  exists (merge ts). unfold token_stream. rewrite H. split; [reflexivity|].
  split; [rewrite Mp; exact Hp | exact (Me He)].
Qed.

(* ------------------------------------------------------------------------------------------ *)
(* A concrete input                                                                            *)
(* ------------------------------------------------------------------------------------------ *)
Lemma ex_lex :
  exists ts, token_stream kw2008
      [9; 11; 13; 10; 13; 10; 13; 12; 10; 32; 45; 45; 99; 10; 47; 42; 98; 42; 47; 160; 32; 120; 34; 49; 70;
       34; 32; 49; 48; 117; 98; 34; 48; 34; 32; 116; 39; 40; 39; 97; 39; 41; 32; 49; 58; 61; 50; 32; 36; 32;
       92; 101; 92; 32; 47; 42; 117] = Some ts /\
    printed ts = [9; 11; 13; 10; 13; 10; 13; 12; 10; 32; 45; 45; 99; 10; 47; 42; 98; 42; 47; 160; 32; 120; 34; 49; 70;
       34; 32; 49; 48; 117; 98; 34; 48; 34; 32; 116; 39; 40; 39; 97; 39; 41; 32; 49; 58; 61; 50; 32; 36; 32;
       92; 101; 92; 32; 47; 42; 117] /\
    map (fun x : ltok => t_kind (fst x)) ts =
      [KBitStringLiteral; KBitStringLiteral; KIdentifier; KTick; KLeftPar; KCharacterLiteral; KRightPar;
       KAbstractLiteral; KColonEq; KAbstractLiteral; KUnknown; KIdentifier; KEof] /\
    map snd ts = [None; None; None; None; None; None; None; None; None; None;
                  Some (EIllegal, PToken); None; Some (EUntermBlockComment, PTrivia 1)] /\
    map (fun x : ltok => t_trivia (fst x)) ts =
      [[HTabs 1; VTabs 1; CRLFs 2; CRs 1; FFs 1; LFs 1; Spaces 1; LineC [99]; LFs 1; BlockC [98];
        NBSPs 1; Spaces 1]; [Spaces 1]; [Spaces 1]; []; []; []; []; [Spaces 1]; []; []; [Spaces 1];
       [Spaces 1]; [Spaces 1; UBlockC [117]]].
Proof.
  eexists. split; [vm_compute; reflexivity|].
  split; [vm_compute; reflexivity|]. split; [vm_compute; reflexivity|].
  split; vm_compute; reflexivity.
Qed.
