(* Lex/RenderStream.v — the flat view of the reader used by the C12 round-trip proofs.

   `At d st r` : the reader invariant holds and the text still to be read is exactly `r`.
   Under it peek/pop/skip are head/tail of `r`; every fuelled scanning loop of the tokenizer
   (skip_whitespace, read-to-end-of-line, block comment, identifier, quoted text) is
   characterised on the text (forward direction: given the text, the result).
   No restriction to Latin-1 here: comments may hold any character; `peek`/`pop` (the Latin-1
   checking primitives) need the head to be below 256. *)
From Coq Require Import List NArith Arith Bool Lia ZifyBool ZifyN.
Import ListNotations.
From RH Require Import Text.Contents Text.ContentsProofs Text.Reader Text.ReaderProofs Text.ReaderInv
  Lex.LangLexer Lex.LangLexerProofs Lex.LexSpec Lex.Render.
Open Scope N_scope.

#[local] Arguments N.add : simpl never.
#[local] Arguments N.sub : simpl never.
#[local] Arguments N.mul : simpl never.
#[local] Arguments N.eqb : simpl never.
#[local] Arguments N.ltb : simpl never.
#[local] Arguments N.leb : simpl never.

(* longest prefix satisfying p, and the rest *)
Fixpoint span (p : N -> bool) (l : list N) : list N * list N :=
  match l with
  | [] => ([], [])
  | x :: r => if p x then (x :: fst (span p r), snd (span p r)) else ([], l)
  end.
Lemma span_all_stop : forall p a r,
  forallb p a = true -> match r with [] => True | x :: _ => p x = false end -> span p (a ++ r) = (a, r).
Proof.
  induction a as [|x a IH]; intros r Ha Hr; cbn [app].
  - destruct r as [|y r]; [reflexivity|]. cbn [span]. rewrite Hr. reflexivity.
  - cbn [forallb] in Ha. apply andb_true_iff in Ha. destruct Ha as [Hx Ha]. cbn [span]. rewrite Hx.
    rewrite (IH r Ha Hr). reflexivity.
Qed.

Section Flat.
  Variable d : list (list char).
  Hypothesis HD : cdoc d.

  Definition At (st : rstate) (r : list char) : Prop := RInv d st /\ remaining d st = r.

  Lemma HDl : Forall lf_last d.
  Proof. apply cdoc_lf_last. exact HD. Qed.

  Lemma geof_remaining_nil : forall st, RInv d st -> get_char d st = GEof -> remaining d st = [].
  Proof.
    intros st [[pre [suf [Hl [Hi [Hc Hn]]]]]|[Hl [Hc Hi]]] G.
    - unfold get_char, get_line in G. fold (lnat st) in G. rewrite Hl, Hi, char_at_app in G.
      destruct suf as [|c suf]; [|discriminate].
      unfold remaining, get_line. fold (lnat st). rewrite Hl, Hi, after_idx_app. cbn [app].
      destruct (Nat.lt_ge_cases (S (lnat st)) (length d)) as [Hlt|Hge].
      + exfalso. destruct (cdoc_nonlast d HD _ _ Hlt Hl) as [b Eb]. apply Hn. rewrite app_nil_r in Eb. rewrite Eb.
        apply in_or_app. right. left. reflexivity.
      + rewrite skipn_all2 by lia. reflexivity.
    - unfold remaining, get_line. fold (lnat st). rewrite Hl.
      replace (nth_error d (length d)) with (@None (list char)); [reflexivity|].
      symmetry. apply nth_error_None. lia.
  Qed.

  Lemma at_nil : forall st, At st [] -> get_char d st = GEof.
  Proof.
    intros st [HI HR]. destruct (rinv_get_char d st HI) as [[pre [c [suf [Hl [Hi [Hc [Hn G]]]]]]]|G]; [|exact G].
    exfalso. rewrite (remaining_skip_exact d st c HDl HI G) in HR. discriminate.
  Qed.
  Lemma at_cons : forall st c r, At st (c :: r) -> get_char d st = GChar c /\ At (skip_char st c) r.
  Proof.
    intros st c r [HI HR]. destruct (rinv_get_char d st HI) as [[pre [c' [suf [Hl [Hi [Hc [Hn G]]]]]]]|G].
    - rewrite (remaining_skip_exact d st c' HDl HI G) in HR. injection HR as -> HR.
      split; [exact G|]. split; [apply rinv_skip; assumption|assumption].
    - rewrite (geof_remaining_nil st HI G) in HR. discriminate.
  Qed.
  Lemma at_skip : forall st c r, At st (c :: r) -> At (skip_char st c) r.
  Proof. intros st c r H. apply (at_cons _ _ _ H). Qed.
  Lemma at_fun : forall st r r', At st r -> At st r' -> r = r'.
  Proof. intros st r r' [_ H1] [_ H2]. congruence. Qed.
  Lemma at_len : forall st r, At st r -> (length r <= length (concat d))%nat.
  Proof. intros st r [_ H]. rewrite <- H. apply (mu_total d st). Qed.

  Lemma peek_nil : forall st, At st [] -> peek d st = (Ok None, st).
  Proof. intros st H. unfold peek. rewrite (at_nil _ H). reflexivity. Qed.
  Lemma peek_cons : forall st c r, At st (c :: r) -> c < 256 -> peek d st = (Ok (Some c), st).
  Proof.
    intros st c r H L. destruct (at_cons _ _ _ H) as [G _]. unfold peek, char_to_latin1. rewrite G.
    replace (c <? 256) with true by lia. reflexivity.
  Qed.
  Lemma peek_big : forall st c r, At st (c :: r) -> 256 <= c -> exists e, peek d st = (Er e, st).
  Proof.
    intros st c r H L. destruct (at_cons _ _ _ H) as [G _]. unfold peek, char_to_latin1. rewrite G.
    replace (c <? 256) with false by lia. eexists. reflexivity.
  Qed.
  Lemma pop_nil : forall st, At st [] -> pop d st = (Ok None, st).
  Proof. intros st H. unfold pop. rewrite (at_nil _ H). reflexivity. Qed.
  Lemma pop_cons : forall st c r, At st (c :: r) -> c < 256 -> pop d st = (Ok (Some c), skip_char st c).
  Proof.
    intros st c r H L. destruct (at_cons _ _ _ H) as [G _]. unfold pop, char_to_latin1. rewrite G.
    replace (c <? 256) with true by lia. reflexivity.
  Qed.
  Lemma pop_big : forall st c r, At st (c :: r) -> 256 <= c -> exists e, pop d st = (Er e, skip_char st c).
  Proof.
    intros st c r H L. destruct (at_cons _ _ _ H) as [G _]. unfold pop, char_to_latin1. rewrite G.
    replace (c <? 256) with false by lia. eexists. reflexivity.
  Qed.
  Lemma peek_char_nil : forall st, At st [] -> peek_char d st = (Ok None, st).
  Proof. intros st H. unfold peek_char. rewrite (at_nil _ H). reflexivity. Qed.
  Lemma peek_char_cons : forall st c r, At st (c :: r) -> peek_char d st = (Ok (Some c), st).
  Proof. intros st c r H. destruct (at_cons _ _ _ H) as [G _]. unfold peek_char. rewrite G. reflexivity. Qed.
  Lemma pop_char_nil : forall st, At st [] -> pop_char d st = (Ok None, st).
  Proof. intros st H. unfold pop_char. rewrite (at_nil _ H). reflexivity. Qed.
  Lemma pop_char_cons : forall st c r, At st (c :: r) -> pop_char d st = (Ok (Some c), skip_char st c).
  Proof. intros st c r H. destruct (at_cons _ _ _ H) as [G _]. unfold pop_char. rewrite G. reflexivity. Qed.
  Lemma skip_cons : forall st c r, At st (c :: r) -> skip d st = (Ok tt, skip_char st c).
  Proof. intros st c r H. destruct (at_cons _ _ _ H) as [G _]. apply skip_at. exact G. Qed.

  (* the head of the text, when it is Latin-1 or absent *)
  Definition hd_lat (r : list char) : Prop := match r with [] => True | c :: _ => c < 256 end.


  Lemma peek_flat : forall st r, At st r -> hd_lat r -> peek d st = (Ok (hd_error r), st).
  Proof.
    intros st r H L. destruct r as [|c r]; [apply peek_nil; exact H|]. apply (peek_cons _ _ _ H L).
  Qed.
  Lemma skip_if_flat : forall v st r, At st r -> hd_lat r ->
    exists st', skip_if d v st = (Ok (hd_is r v), st') /\ At st' (if hd_is r v then tl r else r).
  Proof.
    intros v st r H L. unfold skip_if. destruct r as [|c r]; unfold bind.
    - rewrite (peek_nil _ H). cbn [hd_is]. exists st. split; [reflexivity|exact H].
    - rewrite (peek_cons _ _ _ H L). cbn [hd_is tl]. destruct (c =? v).
      + rewrite (skip_cons _ _ _ H). exists (skip_char st c). split; [reflexivity|apply (at_skip _ _ _ H)].
      + exists st. split; [reflexivity|exact H].
  Qed.
  Lemma peek_lowercase_flat : forall st r, At st r -> hd_lat r ->
    peek_lowercase d st = (Ok (option_map lowercase (hd_error r)), st).
  Proof.
    intros st r H L. unfold peek_lowercase, bind, ret. rewrite (peek_flat _ _ H L). reflexivity.
  Qed.
  Lemma pop_lowercase_nil : forall st, At st [] -> pop_lowercase d st = (Ok None, st).
  Proof. intros st H. unfold pop_lowercase, bind, ret. rewrite (pop_nil _ H). reflexivity. Qed.
  Lemma pop_lowercase_cons : forall st c r, At st (c :: r) -> c < 256 ->
    pop_lowercase d st = (Ok (Some (lowercase c)), skip_char st c).
  Proof. intros st c r H L. unfold pop_lowercase, bind, ret. rewrite (pop_cons _ _ _ H L). reflexivity. Qed.
  Lemma pop_lowercase_big : forall st c r, At st (c :: r) -> 256 <= c ->
    exists e, pop_lowercase d st = (Er e, skip_char st c).
  Proof.
    intros st c r H L. unfold pop_lowercase, bind, ret. destruct (pop_big _ _ _ H L) as [e E]. rewrite E. eexists. reflexivity.
  Qed.

  (* ---------- scanning loops ---------- *)
  Definition wsP (nl : bool) (b : N) : bool := (b =? 32) || (b =? 9) || (nl && (b =? 10)).
  Definition notlf (c : N) : bool := negb (c =? 10).
  Notation idc := is_idc.

  Lemma skip_ws_flat : forall fuel nl st r, At st r -> (length r < fuel)%nat ->
    exists st', skip_ws d fuel nl st = (Ok tt, st') /\ At st' (snd (span (wsP nl) r)).
  Proof.
    induction fuel as [|f IH]; intros nl st r HA Hf; [lia|]. cbn [skip_ws]. unfold bind at 1. unfold try.
    destruct r as [|c r].
    - rewrite (peek_nil _ HA). cbv beta iota. exists st. split; [reflexivity|exact HA].
    - destruct (N.lt_ge_cases c 256) as [L|L].
      + rewrite (peek_cons _ _ _ HA L). cbv beta iota. cbn [span].
        change ((c =? 32) || (c =? 9) || nl && (c =? 10)) with (wsP nl c).
        destruct (wsP nl c).
        * unfold bind. rewrite (skip_cons _ _ _ HA). cbv beta iota. cbn [snd].
          apply IH; [apply (at_skip _ _ _ HA)|cbn [length] in Hf; lia].
        * exists st. split; [reflexivity|exact HA].
      + destruct (peek_big _ _ _ HA L) as [e E]. rewrite E. cbv beta iota. cbn [span].
        replace (wsP nl c) with false by (unfold wsP; lia). exists st. split; [reflexivity|exact HA].
  Qed.

  Lemma take_to_nl_flat : forall fuel acc st r, At st r -> (length r < fuel)%nat ->
    exists st', take_to_nl d fuel acc st = (Ok (acc ++ fst (span notlf r)), st') /\ At st' (snd (span notlf r)).
  Proof.
    induction fuel as [|f IH]; intros acc st r HA Hf; [lia|]. cbn [take_to_nl]. unfold bind at 1.
    destruct r as [|c r].
    - rewrite (peek_char_nil _ HA). cbv beta iota. exists st. cbn [span fst snd]. rewrite app_nil_r. split; [reflexivity|exact HA].
    - rewrite (peek_char_cons _ _ _ HA). cbv beta iota. cbn [span]. change LF with 10.
      destruct (c =? 10) eqn:E10;
        [replace (notlf c) with false by (unfold notlf; rewrite E10; reflexivity)
        |replace (notlf c) with true by (unfold notlf; rewrite E10; reflexivity)]; cbn [fst snd].
      + exists st. rewrite app_nil_r. split; [reflexivity|exact HA].
      + unfold bind. rewrite (skip_cons _ _ _ HA). cbv beta iota.
        destruct (IH (acc ++ [c]) _ _ (at_skip _ _ _ HA)) as [st' [E HA']]; [cbn [length] in Hf; lia|].
        exists st'. rewrite <- app_assoc in E. split; [exact E|exact HA'].
  Qed.

  (* a block comment body: no `*/` inside *)
  Notation star_slash := has_star_slash.
  Lemma ml_loop_body : forall body fuel acc st r',
    star_slash body = false -> At st (body ++ 42 :: 47 :: r') -> Nat.lt (length (body ++ 42 :: 47 :: r')) fuel ->
    exists st', ml_loop d fuel acc st = (Ok (Some (acc ++ body)), st') /\ At st' r'.
  Proof.
    induction body as [|c body IH]; intros fuel acc st r' Hs HA Hf.
    - destruct fuel as [|f]; [cbn [length app] in Hf; lia|]. cbn [app] in HA. cbn [ml_loop]. unfold bind at 1.
      rewrite (pop_char_cons _ _ _ HA). cbv beta iota. replace (42 =? 42) with true by reflexivity.
      unfold bind at 1. rewrite (peek_char_cons _ _ _ (at_skip _ _ _ HA)). cbv beta iota. cbn [opt_is].
      replace (47 =? 47) with true by reflexivity. unfold bind, ret. rewrite (skip_cons _ _ _ (at_skip _ _ _ HA)). cbv beta iota.
      eexists. rewrite app_nil_r. split; [reflexivity|]. apply (at_skip _ _ _ (at_skip _ _ _ HA)).
    - destruct fuel as [|f]; [cbn [length app] in Hf; lia|]. cbn [app] in HA, Hf. cbn [length] in Hf. cbn [ml_loop]. unfold bind at 1.
      rewrite (pop_char_cons _ _ _ HA). cbv beta iota. pose proof (at_skip _ _ _ HA) as HA1.
      assert (Hs' : star_slash body = false).
      { destruct body as [|b body]; [reflexivity|]. cbn [star_slash] in Hs. apply orb_false_iff in Hs. apply Hs. }
      assert (Hgo : exists st', ml_loop d f (acc ++ [c]) (skip_char st c) = (Ok (Some (acc ++ c :: body)), st') /\ At st' r').
      { destruct (IH f (acc ++ [c]) _ r' Hs' HA1) as [st' [E HA']]; [lia|]. exists st'. rewrite <- app_assoc in E. split; assumption. }
      destruct (c =? 42) eqn:E42; [|exact Hgo].
      unfold bind at 1.
      assert (Hnext : exists y rr, body ++ 42 :: 47 :: r' = y :: rr /\ (y =? 47) = false).
      { destruct body as [|b body].
        - exists 42, (47 :: r'). split; reflexivity.
        - exists b, (body ++ 42 :: 47 :: r'). split; [reflexivity|]. cbn [star_slash] in Hs. apply orb_false_iff in Hs.
          destruct Hs as [Hs _]. rewrite E42 in Hs. cbn [andb] in Hs. exact Hs. }
      destruct Hnext as [y [rr [Ey Ny]]]. rewrite Ey in HA1. rewrite (peek_char_cons _ _ _ HA1). cbv beta iota. cbn [opt_is].
      rewrite Ny. exact Hgo.
  Qed.

  Lemma ident_loop_flat : forall fuel acc st r, At st r -> (length r < fuel)%nat ->
    hd_lat (snd (span idc r)) ->
    exists st', ident_loop d fuel acc st = (Ok (acc ++ fst (span idc r)), st') /\ At st' (snd (span idc r)).
  Proof.
    induction fuel as [|f IH]; intros acc st r HA Hf HL; [lia|]. cbn [ident_loop]. unfold bind at 1.
    destruct r as [|c r].
    - rewrite (peek_nil _ HA). cbv beta iota. exists st. cbn [span fst snd]. rewrite app_nil_r. split; [reflexivity|exact HA].
    - assert (L : c < 256).
      { cbn [span] in HL. destruct (idc c) eqn:E; [|exact HL]. unfold idc, is_alnum, is_alpha, is_lower, is_upper, is_digit, in_range in E. lia. }
      rewrite (peek_cons _ _ _ HA L). cbv beta iota. cbn [span] in *. change (is_alnum c || (c =? 95)) with (idc c).
      destruct (idc c); cbn [fst snd] in *.
      + unfold bind. rewrite (skip_cons _ _ _ HA). cbv beta iota.
        destruct (IH (acc ++ [c]) _ _ (at_skip _ _ _ HA)) as [st' [E HA']]; [cbn [length] in Hf; lia|exact HL|].
        exists st'. split; [|exact HA']. etransitivity; [exact E|]. rewrite <- app_assoc. reflexivity.
      + exists st. rewrite app_nil_r. split; [reflexivity|exact HA].
  Qed.

  (* quoted text: `escape q v` (every q doubled) followed by the closing q and a rest that does not
     start with q *)
  Lemma quoted_loop_body : forall v fuel q buf multi st rest,
    Forall (fun c => c < 256) v -> q < 256 -> hd_lat rest -> hd_is rest q = false ->
    At st (escape q v ++ q :: rest) -> Nat.lt (length (escape q v ++ q :: rest)) fuel ->
    exists st', quoted_loop d fuel q buf multi st
                = (Ok (buf ++ v, multi || existsb (fun c => c =? 10) v || (q =? 10), true), st') /\ At st' rest.
  Proof.
    induction v as [|c v IH]; intros fuel q buf multi st rest Hv Hq HL Hr HA Hf.
    - destruct fuel as [|f]; [cbn [length app] in Hf; lia|]. cbn [escape flat_map app] in HA. cbn [quoted_loop]. unfold bind at 1.
      rewrite (pop_cons _ _ _ HA Hq). cbv beta iota zeta. rewrite N.eqb_refl. unfold bind at 1.
      pose proof (at_skip _ _ _ HA) as HA1. rewrite (peek_flat _ _ HA1 HL).
      cbv beta iota. replace (opt_is (hd_error rest) q) with false
        by (destruct rest as [|y rest]; [reflexivity|cbn [hd_error opt_is hd_is] in *; symmetry; exact Hr]).
      unfold ret. eexists. rewrite app_nil_r. cbn [existsb]. rewrite orb_false_r. split; [reflexivity|exact HA1].
    - inversion Hv as [|c' v' Hc Hv']; subst c' v'.
      destruct fuel as [|f]; [cbn [length app] in Hf; lia|].
      unfold escape in HA, Hf. cbn [flat_map] in HA, Hf. fold (escape q v) in HA, Hf.
      destruct (c =? q) eqn:Ecq.
      + apply N.eqb_eq in Ecq. subst c. cbn [app] in HA, Hf. cbn [length] in Hf. cbn [quoted_loop]. unfold bind at 1.
        rewrite (pop_cons _ _ _ HA Hq). cbv beta iota zeta. rewrite N.eqb_refl. unfold bind at 1.
        pose proof (at_skip _ _ _ HA) as HA1. rewrite (peek_cons _ _ _ HA1 Hq). cbv beta iota. cbn [opt_is]. rewrite N.eqb_refl.
        unfold bind at 1. rewrite (skip_cons _ _ _ HA1). cbv beta iota.
        destruct (IH f q (buf ++ [q]) (multi || (q =? 10)) _ rest Hv' Hq HL Hr (at_skip _ _ _ HA1)) as [st' [E HA']]; [lia|].
        exists st'. rewrite E. split; [|exact HA']. rewrite <- app_assoc. cbn [app existsb]. f_equal. f_equal. f_equal.
        destruct multi, (q =? 10), (existsb (fun c => c =? 10) v); reflexivity.
      + cbn [app] in HA, Hf. cbn [length] in Hf. cbn [quoted_loop]. unfold bind at 1.
        rewrite (pop_cons _ _ _ HA Hc). cbv beta iota zeta. rewrite Ecq.
        destruct (IH f q (buf ++ [c]) (multi || (c =? 10)) _ rest Hv' Hq HL Hr (at_skip _ _ _ HA)) as [st' [E HA']]; [lia|].
        exists st'. rewrite E. split; [|exact HA']. rewrite <- app_assoc. cbn [app existsb]. f_equal. f_equal. f_equal.
        destruct multi, (c =? 10), (q =? 10), (existsb (fun c => c =? 10) v); reflexivity.
  Qed.
End Flat.
