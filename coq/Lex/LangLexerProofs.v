(* Lex/LangLexerProofs.v — proofs about the tokenizer model of Lex/LangLexer.v.
   Part 1: every function only advances the reader (`adv`) and never runs out of fuel when the
           fuel exceeds the number of characters left (`good`).
   Part 2: progress of pop_raw, totality of the whole lexer (`lex_total`), and the refutation of
           the pre-fix lookahead (`lex_old_refuted`).
   Part 3: token ranges are ordered (`token_ranges_ordered`). *)
From Coq Require Import List NArith Arith Bool Lia.
Import ListNotations.
From RH Require Import Text.Contents Text.Reader Text.ReaderProofs Lex.LangLexer.
Open Scope N_scope.

#[local] Arguments N.add : simpl never.
#[local] Arguments N.sub : simpl never.
#[local] Arguments N.mul : simpl never.
#[local] Arguments N.eqb : simpl never.
#[local] Arguments N.ltb : simpl never.
#[local] Arguments N.leb : simpl never.
#[local] Arguments N.pow : simpl never.
#[local] Arguments N.modulo : simpl never.

Section LP.
  Variable d : list (list char).

  Local Notation adv := (adv d).
  Local Notation sadv := (sadv d).
  Local Notation mu := (mu d).

  (* ------------------------------------------------------------------------------------ *)
  (* reader primitives: inversion lemmas                                                    *)
  (* ------------------------------------------------------------------------------------ *)
  Lemma peek_char_inv : forall st r st', peek_char d st = (r, st') ->
    st' = st /\ ((r = Ok None /\ get_char d st = GEof) \/ (exists c, r = Ok (Some c) /\ get_char d st = GChar c)
                 \/ (r = Ab Crash /\ get_char d st = GBad)).
  Proof.
    intros st r st' H. unfold peek_char in H. destruct (get_char d st) as [|c|]; injection H as <- <-;
      (split; [reflexivity|]); [left|right; left; exists c|right; right]; auto.
  Qed.
  Lemma pop_char_inv : forall st r st', pop_char d st = (r, st') ->
    (st' = st /\ r = Ok None /\ get_char d st = GEof)
    \/ (exists c, r = Ok (Some c) /\ get_char d st = GChar c /\ st' = skip_char st c)
    \/ (st' = st /\ r = Ab Crash /\ get_char d st = GBad).
  Proof.
    intros st r st' H. unfold pop_char in H. destruct (get_char d st) as [|c|]; injection H as <- <-;
      [left|right; left; exists c|right; right]; auto.
  Qed.
  Lemma peek_inv : forall st r st', peek d st = (r, st') ->
    st' = st /\ ((r = Ok None /\ get_char d st = GEof)
                 \/ (exists c, r = Ok (Some c) /\ get_char d st = GChar c)
                 \/ (exists c e, r = Er e /\ get_char d st = GChar c)
                 \/ (r = Ab Crash /\ get_char d st = GBad)).
  Proof.
    intros st r st' H. unfold peek, char_to_latin1 in H. destruct (get_char d st) as [|c|].
    - injection H as <- <-. split; [reflexivity|left; auto].
    - destruct (c <? 256); injection H as <- <-; (split; [reflexivity|]).
      + right; left. exists c; auto.
      + right; right; left. eexists c, _; auto.
    - injection H as <- <-. split; [reflexivity|right; right; right; auto].
  Qed.
  Lemma pop_inv : forall st r st', pop d st = (r, st') ->
    (st' = st /\ r = Ok None /\ get_char d st = GEof)
    \/ (exists c, get_char d st = GChar c /\ st' = skip_char st c /\ (r = Ok (Some c) \/ exists e, r = Er e))
    \/ (st' = st /\ r = Ab Crash /\ get_char d st = GBad).
  Proof.
    intros st r st' H. unfold pop, char_to_latin1 in H. destruct (get_char d st) as [|c|].
    - injection H as <- <-. left; auto.
    - right; left. exists c. destruct (c <? 256); injection H as <- <-; (split; [reflexivity|split; [reflexivity|]]).
      + left; reflexivity.
      + right; eexists; reflexivity.
    - injection H as <- <-. right; right; auto.
  Qed.
  Lemma skip_at : forall st c, get_char d st = GChar c -> skip d st = (Ok tt, skip_char st c).
  Proof. intros st c G. unfold skip, bind, pop_char, ret. rewrite G. reflexivity. Qed.


  (* ------------------------------------------------------------------------------------ *)
  (* A. every function only moves the reader forward, relative to an origin `o`             *)
  (*    (set_state may go back, but only to a state reached from the origin)                *)
  (* ------------------------------------------------------------------------------------ *)
  Definition advO (o : rstate) {A} (m : M A) : Prop :=
    forall st r st', adv o st -> m st = (r, st') -> adv o st'.
  (* the stronger, origin-free form *)
  Definition advs {A} (m : M A) : Prop := forall st r st', m st = (r, st') -> adv st st'.

  Lemma advs_advO : forall A (m : M A), advs m -> forall o, advO o m.
  Proof. intros A m H o st r st' Ho E. eapply adv_trans; [exact Ho|eapply H; exact E]. Qed.
  Lemma advO_advs : forall A (m : M A), (forall o, advO o m) -> advs m.
  Proof. intros A m H st r st' E. eapply (H st); [apply adv_refl|exact E]. Qed.

  Lemma advO_ret : forall o A (a : A), advO o (ret a).
  Proof. intros o A a st r st' Ho H. unfold ret in H. injection H as <- <-. exact Ho. Qed.
  Lemma advO_throw : forall o A e, advO o (@throw A e).
  Proof. intros o A e st r st' Ho H. unfold throw in H. injection H as <- <-. exact Ho. Qed.
  Lemma advO_stop : forall o A a, advO o (@stop A a).
  Proof. intros o A a st r st' Ho H. unfold stop in H. injection H as <- <-. exact Ho. Qed.
  Lemma advO_bind : forall o A B (m : M A) (k : A -> M B),
    advO o m -> (forall a, advO o (k a)) -> advO o (bind m k).
  Proof.
    intros o A B m k Gm Gk st r st' Ho H. unfold bind in H.
    destruct (m st) as [[a|e|a] st1] eqn:Em.
    - eapply Gk; [eapply Gm; eassumption|exact H].
    - injection H as <- <-. eapply Gm; eassumption.
    - injection H as <- <-. eapply Gm; eassumption.
  Qed.
  Lemma advO_try : forall o A (m : M A), advO o m -> advO o (try m).
  Proof.
    intros o A m Gm st r st' Ho H. unfold try in H.
    destruct (m st) as [[a|e|a] st1] eqn:Em; injection H as <- <-; eapply Gm; eassumption.
  Qed.
  Lemma advO_of_result : forall o A (r : A + terr), advO o (of_result r).
  Proof. intros o A [a|e]; [apply advO_ret|apply advO_throw]. Qed.
  Lemma advO_get_pos : forall o, advO o get_pos.
  Proof. intros o st r st' Ho H. unfold get_pos in H. injection H as <- <-. exact Ho. Qed.
  Lemma advO_get_state : forall o, advO o get_state.
  Proof. intros o st r st' Ho H. unfold get_state in H. injection H as <- <-. exact Ho. Qed.
  Lemma advO_get_state_bind : forall o B (k : rstate -> M B),
    (forall s, adv o s -> advO o (k s)) -> advO o (bind get_state k).
  Proof.
    intros o B k Gk st r st' Ho H. unfold bind, get_state in H. eapply (Gk st Ho); eassumption.
  Qed.
  Lemma advO_set_state : forall o s, adv o s -> advO o (set_state s).
  Proof. intros o s Hs st r st' Ho H. unfold set_state in H. injection H as <- <-. exact Hs. Qed.

  Lemma advs_peek_char : advs (peek_char d).
  Proof. intros st r st' H. apply peek_char_inv in H. destruct H as [-> _]. apply adv_refl. Qed.
  Lemma advs_peek : advs (peek d).
  Proof. intros st r st' H. apply peek_inv in H. destruct H as [-> _]. apply adv_refl. Qed.
  Lemma advs_pop_char : advs (pop_char d).
  Proof.
    intros st r st' H. apply pop_char_inv in H.
    destruct H as [[-> _]|[[c [_ [G ->]]]|[-> _]]]; try apply adv_refl.
    apply sadv_adv, adv_skip, G.
  Qed.
  Lemma advs_pop : advs (pop d).
  Proof.
    intros st r st' H. apply pop_inv in H.
    destruct H as [[-> _]|[[c [G [-> _]]]|[-> _]]]; try apply adv_refl.
    apply sadv_adv, adv_skip, G.
  Qed.
  Lemma advO_peek_char : forall o, advO o (peek_char d). Proof. apply advs_advO, advs_peek_char. Qed.
  Lemma advO_peek : forall o, advO o (peek d). Proof. apply advs_advO, advs_peek. Qed.
  Lemma advO_pop_char : forall o, advO o (pop_char d). Proof. apply advs_advO, advs_pop_char. Qed.
  Lemma advO_pop : forall o, advO o (pop d). Proof. apply advs_advO, advs_pop. Qed.
End LP.

#[export] Hint Resolve advO_ret advO_throw advO_stop advO_of_result advO_get_pos advO_get_state advO_peek_char advO_peek
  advO_pop_char advO_pop : adv_db.

(* decompose a goal `advO o <monadic term>` along the structure of the term *)
Ltac advO_step :=
  match goal with
  | |- advO _ _ (bind get_state _) => apply advO_get_state_bind; intros ? ?
  | |- advO _ _ (bind _ _) => apply advO_bind; [|intro]
  | |- advO _ _ (try _) => apply advO_try
  | |- advO _ _ (set_state _) => apply advO_set_state; assumption
  | |- advO _ _ (match ?x with _ => _ end) => destruct x
  | |- advO _ _ _ => solve [eauto with adv_db]
  end.
Ltac advO_tac := repeat advO_step.

Section LexAdv.
  Variable d : list (list char).
  Variable kws : list (list N).
  Variable F : nat.
  Variable fixed : bool.

  Local Notation advO := (advO d).
  Local Notation adv := (adv d).

  Lemma advO_skip : forall o, advO o (skip d).
  Proof. intro o. unfold skip. advO_tac. Qed.
  Hint Resolve advO_skip : adv_db.
  Lemma advO_pop_lowercase : forall o, advO o (pop_lowercase d).
  Proof. intro o. unfold pop_lowercase. advO_tac. Qed.
  Lemma advO_peek_lowercase : forall o, advO o (peek_lowercase d).
  Proof. intro o. unfold peek_lowercase. advO_tac. Qed.
  Lemma advO_skip_if : forall o v, advO o (skip_if d v).
  Proof. intros o v. unfold skip_if. advO_tac. Qed.
  Hint Resolve advO_pop_lowercase advO_peek_lowercase advO_skip_if : adv_db.

  Lemma advO_parse_integer_loop : forall o fuel base stp acc txt big inv,
    advO o (parse_integer_loop d fuel base stp acc txt big inv).
  Proof.
    intros o fuel. induction fuel as [|f IH]; intros; cbn [parse_integer_loop]; advO_tac.
  Qed.
  Hint Resolve advO_parse_integer_loop : adv_db.
  Lemma advO_parse_integer : forall o base stp, advO o (parse_integer d F base stp).
  Proof. intros. unfold parse_integer. advO_tac. Qed.
  Hint Resolve advO_parse_integer : adv_db.
  Lemma advO_parse_exponent : forall o, advO o (parse_exponent d F).
  Proof. intros. unfold parse_exponent. advO_tac. Qed.
  Hint Resolve advO_parse_exponent : adv_db.

  Lemma advO_quoted_loop : forall o fuel q buf multi, advO o (quoted_loop d fuel q buf multi).
  Proof. intros o fuel. induction fuel as [|f IH]; intros; cbn [quoted_loop]; advO_tac. Qed.
  Lemma advO_quoted_recover : forall o fuel q, advO o (quoted_recover d fuel q).
  Proof. intros o fuel. induction fuel as [|f IH]; intros; cbn [quoted_recover]; advO_tac. Qed.
  Hint Resolve advO_quoted_loop advO_quoted_recover : adv_db.
  Lemma advO_parse_quoted : forall o q incl, advO o (parse_quoted d F q incl).
  Proof. intros. unfold parse_quoted. advO_tac. Qed.
  Hint Resolve advO_parse_quoted : adv_db.

  Lemma advO_take_to_nl : forall o fuel acc, advO o (take_to_nl d fuel acc).
  Proof. intros o fuel. induction fuel as [|f IH]; intros; cbn [take_to_nl]; advO_tac. Qed.
  Hint Resolve advO_take_to_nl : adv_db.
  Lemma advO_parse_comment : forall o, advO o (parse_comment d F).
  Proof. intros. unfold parse_comment. advO_tac. Qed.
  Lemma advO_ml_loop : forall o fuel acc, advO o (ml_loop d fuel acc).
  Proof. intros o fuel. induction fuel as [|f IH]; intros; cbn [ml_loop]; advO_tac. Qed.
  Hint Resolve advO_parse_comment advO_ml_loop : adv_db.
  Lemma advO_parse_ml_comment : forall o, advO o (parse_ml_comment d F).
  Proof. intros. unfold parse_ml_comment. advO_tac. Qed.
  Lemma advO_skip_ws : forall o fuel nl, advO o (skip_ws d fuel nl).
  Proof. intros o fuel. induction fuel as [|f IH]; intros; cbn [skip_ws]; advO_tac. Qed.
  Hint Resolve advO_parse_ml_comment advO_skip_ws : adv_db.
  Lemma advO_leading_comments : forall o fuel acc, advO o (leading_comments d F fuel acc).
  Proof. intros o fuel. induction fuel as [|f IH]; intros; cbn [leading_comments]; advO_tac. Qed.
  Lemma advO_trailing_comment : forall o, advO o (trailing_comment d F).
  Proof. intros. unfold trailing_comment. advO_tac. Qed.
  Hint Resolve advO_leading_comments advO_trailing_comment : adv_db.

  Lemma advO_bs_second : forall o off, advO o (bs_second d off).
  Proof. intros. unfold bs_second. advO_tac. Qed.
  Hint Resolve advO_bs_second : adv_db.
  Lemma advO_parse_base_specifier : forall o, advO o (parse_base_specifier d).
  Proof. intros. unfold parse_base_specifier. advO_tac. Qed.
  Hint Resolve advO_parse_base_specifier : adv_db.
  Lemma advO_maybe_base_specifier : forall o, advO o (maybe_base_specifier d fixed).
  Proof.
    intros o st r st' Ho H. unfold maybe_base_specifier in H.
    destruct (parse_base_specifier d st) as [[[v|]|e|a] st1] eqn:E.
    - injection H as <- <-. eapply advO_parse_base_specifier; eassumption.
    - injection H as <- <-. exact Ho.
    - destruct fixed; injection H as <- <-; exact Ho.
    - injection H as <- <-. exact Ho.
  Qed.
  Hint Resolve advO_maybe_base_specifier : adv_db.
  Lemma advO_parse_bit_string : forall o base len sc, advO o (parse_bit_string d F base len sc).
  Proof. intros. unfold parse_bit_string. advO_tac. Qed.
  Hint Resolve advO_parse_bit_string : adv_db.

  Lemma advO_ident_loop : forall o fuel acc, advO o (ident_loop d fuel acc).
  Proof. intros o fuel. induction fuel as [|f IH]; intros; cbn [ident_loop]; advO_tac. Qed.
  Hint Resolve advO_ident_loop : adv_db.
  Lemma advO_parse_basic_identifier_or_keyword : forall o, advO o (parse_basic_identifier_or_keyword d kws F).
  Proof. intros. unfold parse_basic_identifier_or_keyword. advO_tac. Qed.
  Hint Resolve advO_parse_basic_identifier_or_keyword : adv_db.

  Lemma advO_real_loop : forall o fuel txt dg, advO o (real_loop d fuel txt dg).
  Proof. intros o fuel. induction fuel as [|f IH]; intros; cbn [real_loop]; advO_tac. Qed.
  Hint Resolve advO_real_loop : adv_db.
  Lemma advO_parse_real_literal : forall o, advO o (parse_real_literal d F).
  Proof. intros. unfold parse_real_literal. advO_tac. Qed.
  Hint Resolve advO_parse_real_literal : adv_db.
  Lemma advO_abs_real : forall o st0 pai ini, adv o st0 -> advO o (abs_real d F st0 pai ini).
  Proof. intros. unfold abs_real, abs_real_gen. advO_tac. Qed.
  Lemma advO_abs_int_exp : forall o p0 ini, advO o (abs_int_exp d F p0 ini).
  Proof. intros. unfold abs_int_exp. advO_tac. Qed.
  Lemma advO_abs_based : forall o dl p0 p1 ini, advO o (abs_based d F dl p0 p1 ini).
  Proof. intros. unfold abs_based. advO_tac. Qed.
  Lemma advO_colon_starts_based_literal : forall o, advO o (colon_starts_based_literal d).
  Proof.
    intros o st r st' Ho H. unfold colon_starts_based_literal in H.
    destruct (colon_lookahead d st) as [[[[n|]|e]|e|a] st1]; injection H as <- <-; exact Ho.
  Qed.
  Lemma advO_abs_bit_string : forall o p0 ini, advO o (abs_bit_string d F p0 ini).
  Proof. intros. unfold abs_bit_string. advO_tac. Qed.
  Lemma advO_abs_plain : forall o ini, advO o (abs_plain ini).
  Proof. intros. unfold abs_plain. advO_tac. Qed.
  Hint Resolve advO_abs_real advO_abs_int_exp advO_abs_based advO_abs_bit_string advO_abs_plain
    advO_colon_starts_based_literal : adv_db.
  Lemma advO_parse_abstract_literal : forall o, advO o (parse_abstract_literal d F).
  Proof. intros. unfold parse_abstract_literal. advO_tac. Qed.
  Hint Resolve advO_parse_abstract_literal : adv_db.

  Lemma advO_char_lookahead : forall o, advO o (char_lookahead d).
  Proof. intros. unfold char_lookahead. advO_tac. Qed.
  Lemma advO_parse_character_literal : forall o, advO o (parse_character_literal d).
  Proof.
    intros o st r st' Ho H. unfold parse_character_literal in H.
    destruct (char_lookahead d st) as [[[v|]|e|a] st1] eqn:E; injection H as <- <-; try exact Ho.
    eapply advO_char_lookahead; eassumption.
  Qed.
  Hint Resolve advO_parse_character_literal : adv_db.

  Lemma advO_simple : forall o k, advO o (simple k).
  Proof. intros. unfold simple. advO_tac. Qed.
  Hint Resolve advO_simple : adv_db.
  Lemma advO_two : forall o c k2 k1, advO o (two d c k2 k1).
  Proof. intros. unfold two. advO_tac. Qed.
  Lemma advO_illegal : forall o p, advO o (illegal p).
  Proof. intros. unfold illegal. advO_tac. Qed.
  Lemma advO_lift_kv : forall o m, advO o m -> advO o (lift_kv m).
  Proof. intros. unfold lift_kv. advO_tac. Qed.
  Hint Resolve advO_two advO_illegal advO_lift_kv : adv_db.
  Lemma advO_parse_token : forall o start last, advO o (parse_token d kws F fixed start last).
  Proof. intros. unfold parse_token. advO_tac. Qed.

  Lemma advO_until_nl : forall o fuel acc, advO o (until_nl d fuel acc).
  Proof. intros o fuel. induction fuel as [|f IH]; intros; cbn [until_nl]; advO_tac. Qed.
End LexAdv.

#[export] Hint Resolve advO_skip advO_pop_lowercase advO_peek_lowercase advO_skip_if
  advO_parse_integer_loop advO_parse_integer advO_parse_exponent advO_quoted_loop advO_quoted_recover
  advO_parse_quoted advO_take_to_nl advO_parse_comment advO_ml_loop advO_parse_ml_comment advO_skip_ws
  advO_leading_comments advO_trailing_comment advO_bs_second advO_parse_base_specifier
  advO_maybe_base_specifier advO_parse_bit_string advO_ident_loop advO_parse_basic_identifier_or_keyword
  advO_real_loop advO_parse_real_literal advO_abs_real advO_abs_int_exp advO_abs_based advO_abs_bit_string
  advO_abs_plain advO_colon_starts_based_literal advO_parse_abstract_literal advO_char_lookahead advO_parse_character_literal advO_simple
  advO_two advO_illegal advO_lift_kv advO_parse_token advO_until_nl : adv_db.

(* ---------------------------------------------------------------------------------------- *)
(* B. no loop runs out of fuel                                                              *)
(* ---------------------------------------------------------------------------------------- *)
Section NoFuel.
  Variable d : list (list char).
  Local Notation adv := (adv d).
  Local Notation mu := (mu d).

  Definition nofuel {A} (m : M A) : Prop := forall st st', m st <> (Ab OutOfFuel, st').
  Definition nf (n : nat) {A} (m : M A) : Prop :=
    forall st st', (mu st < n)%nat -> m st <> (Ab OutOfFuel, st').
  Definition nfAt (b : char) (n : nat) {A} (m : M A) : Prop :=
    forall st st', get_char d st = GChar b -> (mu st < n)%nat -> m st <> (Ab OutOfFuel, st').

  Lemma nofuel_nf : forall n A (m : M A), nofuel m -> nf n m.
  Proof. intros n A m H st st' _. apply H. Qed.
  Lemma nf_nfAt : forall b n A (m : M A), nf n m -> nfAt b n m.
  Proof. intros b n A m H st st' _ Hm. apply H. exact Hm. Qed.

  Lemma nofuel_ret : forall A (a : A), nofuel (ret a).
  Proof. intros A a st st' H. discriminate. Qed.
  Lemma nofuel_throw : forall A e, nofuel (@throw A e).
  Proof. intros A e st st' H. discriminate. Qed.
  Lemma nofuel_crash : forall A, nofuel (@stop A Crash).
  Proof. intros A st st' H. discriminate. Qed.
  Lemma nofuel_bind : forall A B (m : M A) (k : A -> M B),
    nofuel m -> (forall a, nofuel (k a)) -> nofuel (bind m k).
  Proof.
    intros A B m k Hm Hk st st' H. unfold bind in H.
    destruct (m st) as [[a|e|a] st1] eqn:Em.
    - eapply Hk; exact H.
    - discriminate.
    - injection H as -> <-. eapply Hm; exact Em.
  Qed.
  Lemma nofuel_try : forall A (m : M A), nofuel m -> nofuel (try m).
  Proof.
    intros A m Hm st st' H. unfold try in H.
    destruct (m st) as [[a|e|a] st1] eqn:Em; try discriminate.
    injection H as -> <-. eapply Hm; exact Em.
  Qed.
  Lemma nofuel_of_result : forall A (r : A + terr), nofuel (of_result r).
  Proof. intros A [a|e]; [apply nofuel_ret|apply nofuel_throw]. Qed.
  Lemma nofuel_get_state : nofuel get_state. Proof. intros st st' H. discriminate. Qed.
  Lemma nofuel_get_pos : nofuel get_pos. Proof. intros st st' H. discriminate. Qed.
  Lemma nofuel_set_state : forall s, nofuel (set_state s). Proof. intros s st st' H. discriminate. Qed.
  Lemma nofuel_peek_char : nofuel (peek_char d).
  Proof.
    intros st st' H. apply peek_char_inv in H.
    destruct H as [_ [[E _]|[[c [E _]]|[E _]]]]; discriminate.
  Qed.
  Lemma nofuel_pop_char : nofuel (pop_char d).
  Proof.
    intros st st' H. apply pop_char_inv in H.
    destruct H as [[_ [E _]]|[[c [E _]]|[_ [E _]]]]; discriminate.
  Qed.
  Lemma nofuel_peek : nofuel (peek d).
  Proof.
    intros st st' H. apply peek_inv in H.
    destruct H as [_ [[E _]|[[c [E _]]|[[c [e [E _]]]|[E _]]]]]; discriminate.
  Qed.
  Lemma nofuel_pop : nofuel (pop d).
  Proof.
    intros st st' H. apply pop_inv in H.
    destruct H as [[_ [E _]]|[[c [_ [_ [E|[e E]]]]]|[_ [E _]]]]; discriminate.
  Qed.

  Lemma nf_bind : forall n A B (m : M A) (k : A -> M B),
    nf n m -> advs d m -> (forall a, nf n (k a)) -> nf n (bind m k).
  Proof.
    intros n A B m k Hm Ha Hk st st' Hmu H. unfold bind in H.
    destruct (m st) as [[a|e|a] st1] eqn:Em.
    - eapply Hk; [|exact H]. pose proof (adv_mu _ _ _ (Ha _ _ _ Em)). lia.
    - discriminate.
    - injection H as -> <-. eapply Hm; [exact Hmu|exact Em].
  Qed.
  Lemma nf_peek_bind : forall n B (K : option N -> M B),
    nf n (K None) -> (forall b, nfAt b n (K (Some b))) -> nf n (bind (peek d) K).
  Proof.
    intros n B K H0 H1 st st' Hmu H. unfold bind in H.
    destruct (peek d st) as [r st1] eqn:P. apply peek_inv in P. destruct P as [-> P].
    destruct P as [[-> _]|[[c [-> G]]|[[c [e [-> _]]]|[-> _]]]]; try discriminate.
    - eapply H0; eassumption.
    - eapply H1; eassumption.
  Qed.
  Lemma nf_peek_char_bind : forall n B (K : option char -> M B),
    nf n (K None) -> (forall b, nfAt b n (K (Some b))) -> nf n (bind (peek_char d) K).
  Proof.
    intros n B K H0 H1 st st' Hmu H. unfold bind in H.
    destruct (peek_char d st) as [r st1] eqn:P. apply peek_char_inv in P. destruct P as [-> P].
    destruct P as [[-> _]|[[c [-> G]]|[-> _]]]; try discriminate.
    - eapply H0; eassumption.
    - eapply H1; eassumption.
  Qed.
  Lemma nf_peek_lowercase_bind : forall n B (K : option N -> M B),
    nf n (K None) -> (forall b, nfAt b n (K (Some (lowercase b)))) -> nf n (bind (peek_lowercase d) K).
  Proof.
    intros n B K H0 H1 st st' Hmu H. unfold peek_lowercase, bind, ret in H.
    destruct (peek d st) as [r st1] eqn:P. apply peek_inv in P. destruct P as [-> P].
    destruct P as [[-> _]|[[c [-> G]]|[[c [e [-> _]]]|[-> _]]]]; try discriminate; cbn [option_map] in H.
    - eapply H0; eassumption.
    - eapply H1; eassumption.
  Qed.
  Lemma nf_try_peek_bind : forall n B (K : option N + terr -> M B),
    nf n (K (inl None)) -> (forall b, nfAt b n (K (inl (Some b)))) -> (forall e, nf n (K (inr e))) ->
    nf n (bind (try (peek d)) K).
  Proof.
    intros n B K H0 H1 H2 st st' Hmu H. unfold bind, try in H.
    destruct (peek d st) as [r st1] eqn:P. apply peek_inv in P. destruct P as [-> P].
    destruct P as [[-> _]|[[c [-> G]]|[[c [e [-> _]]]|[-> _]]]]; try discriminate.
    - eapply H0; eassumption.
    - eapply H1; eassumption.
    - eapply H2; eassumption.
  Qed.
  Lemma nf_pop_bind_S : forall n B (K : option N -> M B),
    nf (S n) (K None) -> (forall c, nf n (K (Some c))) -> nf (S n) (bind (pop d) K).
  Proof.
    intros n B K H0 H1 st st' Hmu H. unfold bind in H.
    destruct (pop d st) as [r st1] eqn:P. apply pop_inv in P.
    destruct P as [[-> [-> _]]|[[c [G [-> [->|[e ->]]]]]|[-> [-> _]]]]; try discriminate.
    - eapply H0; eassumption.
    - eapply H1; [|exact H]. pose proof (skip_mu _ _ _ G). unfold ReaderProofs.mu in *. lia.
  Qed.
  Lemma nf_pop_char_bind_S : forall n B (K : option char -> M B),
    nf (S n) (K None) -> (forall c, nf n (K (Some c))) -> nf (S n) (bind (pop_char d) K).
  Proof.
    intros n B K H0 H1 st st' Hmu H. unfold bind in H.
    destruct (pop_char d st) as [r st1] eqn:P. apply pop_char_inv in P.
    destruct P as [[-> [-> _]]|[[c [-> [G ->]]]|[-> [-> _]]]]; try discriminate.
    - eapply H0; eassumption.
    - eapply H1; [|exact H]. pose proof (skip_mu _ _ _ G). unfold ReaderProofs.mu in *. lia.
  Qed.
  Lemma nfAt_skip_bind : forall b n B (k : M B), nf n k -> nfAt b (S n) (bind (skip d) (fun _ => k)).
  Proof.
    intros b n B k Hk st st' G Hmu H. unfold bind in H. rewrite (skip_at _ _ _ G) in H.
    eapply Hk; [|exact H]. pose proof (skip_mu _ _ _ G). unfold ReaderProofs.mu in *. lia.
  Qed.
  Lemma nfAt_get_pos_bind : forall b n B (k : position -> M B),
    (forall p, nfAt b n (k p)) -> nfAt b n (bind get_pos k).
  Proof. intros b n B k Hk st st' G Hmu H. unfold bind, get_pos in H. eapply Hk; eassumption. Qed.
  Lemma nf_fuel0 : forall A, nf 0 (@stop A OutOfFuel).
  Proof. intros A st st' Hmu. lia. Qed.

  Lemma nf_le : forall n n' A (m : M A), nf n m -> (n' <= n)%nat -> nf n' m.
  Proof. intros n n' A m H Hle st st' Hmu. apply H. lia. Qed.
End NoFuel.

#[export] Hint Resolve nofuel_ret nofuel_throw nofuel_crash nofuel_of_result nofuel_get_state nofuel_get_pos
  nofuel_set_state nofuel_peek_char nofuel_pop_char nofuel_peek nofuel_pop : nofuel_db.

Create HintDb nf_db.

Ltac nofuel_step :=
  match goal with
  | |- nofuel (bind _ _) => apply nofuel_bind; [|intro]
  | |- nofuel (try _) => apply nofuel_try
  | |- nofuel (match ?x with _ => _ end) => destruct x
  | |- nofuel _ => solve [eauto with nofuel_db]
  end.
Ltac nofuel_tac := repeat nofuel_step.

Ltac advs_solve := apply advO_advs; intro; solve [eauto with adv_db].

Ltac nf_step :=
  match goal with
  | |- nf _ 0 (stop OutOfFuel) => apply nf_fuel0
  | |- nf _ _ (bind (peek _) _) => apply nf_peek_bind; [|intro]
  | |- nf _ _ (bind (peek_char _) _) => apply nf_peek_char_bind; [|intro]
  | |- nf _ _ (bind (peek_lowercase _) _) => apply nf_peek_lowercase_bind; [|intro]
  | |- nf _ _ (bind (try (peek _)) _) => apply nf_try_peek_bind; [|intro|intro]
  | |- nf _ (S _) (bind (pop _) _) => apply nf_pop_bind_S; [|intro]
  | |- nf _ (S _) (bind (pop_char _) _) => apply nf_pop_char_bind_S; [|intro]
  | |- nf _ _ (bind _ _) => apply nf_bind; [|advs_solve|intro]
  | |- nf _ _ (match ?x with _ => _ end) => destruct x
  | |- nfAt _ _ _ (bind (skip _) _) => apply nfAt_skip_bind
  | |- nfAt _ _ _ (bind get_pos _) => apply nfAt_get_pos_bind; intro
  | |- nfAt _ _ _ (match ?x with _ => _ end) => destruct x
  | |- nfAt _ _ _ _ => apply nf_nfAt
  | |- nf _ _ _ => solve [eauto with nf_db | apply nofuel_nf; solve [nofuel_tac]]
  end.
Ltac nf_tac := repeat nf_step.

Ltac nf_step' :=
  match goal with
  | |- nf _ _ (let _ := _ in _) => cbv zeta
  | |- nfAt _ _ _ (let _ := _ in _) => cbv zeta
  | _ => nf_step
  end.
Ltac nf_tac ::= repeat nf_step'.

Section LexNoFuel.
  Variable d : list (list char).
  Variable kws : list (list N).
  Variable F : nat.
  Variable fixed : bool.
  Hypothesis HF : (length (concat d) < F)%nat.

  Local Notation nf := (nf d).
  Local Notation nfAt := (nfAt d).

  Lemma nf_F_nofuel : forall A (m : M A), nf F m -> nofuel m.
  Proof. intros A m H st st'. apply H. pose proof (mu_total d st). lia. Qed.

  Lemma nofuel_skip : nofuel (skip d).
  Proof. unfold skip. nofuel_tac. Qed.
  Hint Resolve nofuel_skip : nofuel_db.
  Lemma nofuel_pop_lowercase : nofuel (pop_lowercase d).
  Proof. unfold pop_lowercase. nofuel_tac. Qed.
  Lemma nofuel_peek_lowercase : nofuel (peek_lowercase d).
  Proof. unfold peek_lowercase. nofuel_tac. Qed.
  Lemma nofuel_skip_if : forall v, nofuel (skip_if d v).
  Proof. intro v. unfold skip_if. nofuel_tac. Qed.
  Hint Resolve nofuel_pop_lowercase nofuel_peek_lowercase nofuel_skip_if : nofuel_db.

  Lemma nf_parse_integer_loop : forall fuel base stp acc txt big inv,
    nf fuel (parse_integer_loop d fuel base stp acc txt big inv).
  Proof.
    induction fuel as [|f IH]; intros; cbn [parse_integer_loop]; nf_tac; apply IH.
  Qed.
  Lemma nofuel_parse_integer : forall base stp, nofuel (parse_integer d F base stp).
  Proof.
    intros. unfold parse_integer. nofuel_tac. apply nf_F_nofuel, nf_parse_integer_loop.
  Qed.
  Hint Resolve nofuel_parse_integer : nofuel_db.
  Lemma nofuel_parse_exponent : nofuel (parse_exponent d F).
  Proof. unfold parse_exponent. nofuel_tac. Qed.
  Hint Resolve nofuel_parse_exponent : nofuel_db.

  Lemma nf_quoted_loop : forall fuel q buf multi, nf fuel (quoted_loop d fuel q buf multi).
  Proof.
    induction fuel as [|f IH]; intros; cbn [quoted_loop]; nf_tac; apply IH.
  Qed.
  Lemma nf_quoted_recover : forall fuel q, nf fuel (quoted_recover d fuel q).
  Proof.
    induction fuel as [|f IH]; intros; cbn [quoted_recover]; nf_tac; apply IH.
  Qed.
  Lemma nofuel_parse_quoted : forall q incl, nofuel (parse_quoted d F q incl).
  Proof.
    intros. unfold parse_quoted. nofuel_tac.
    - apply nf_F_nofuel, nf_quoted_loop.
    - apply nf_F_nofuel, nf_quoted_recover.
  Qed.
  Hint Resolve nofuel_parse_quoted : nofuel_db.

  Lemma nf_take_to_nl : forall fuel acc, nf fuel (take_to_nl d fuel acc).
  Proof. induction fuel as [|f IH]; intros; cbn [take_to_nl]; nf_tac; apply IH. Qed.
  Lemma nofuel_parse_comment : nofuel (parse_comment d F).
  Proof. unfold parse_comment. nofuel_tac. apply nf_F_nofuel, nf_take_to_nl. Qed.
  Lemma nf_ml_loop : forall fuel acc, nf fuel (ml_loop d fuel acc).
  Proof. induction fuel as [|f IH]; intros; cbn [ml_loop]; nf_tac; apply IH. Qed.
  Lemma nofuel_parse_ml_comment : nofuel (parse_ml_comment d F).
  Proof. unfold parse_ml_comment. nofuel_tac. apply nf_F_nofuel, nf_ml_loop. Qed.
  Lemma nf_skip_ws : forall fuel nl, nf fuel (skip_ws d fuel nl).
  Proof. induction fuel as [|f IH]; intros; cbn [skip_ws]; nf_tac; apply IH. Qed.
  Lemma nofuel_skip_ws : forall nl, nofuel (skip_ws d F nl).
  Proof. intro. apply nf_F_nofuel, nf_skip_ws. Qed.
  Hint Resolve nofuel_parse_comment nofuel_parse_ml_comment nofuel_skip_ws : nofuel_db.

  Lemma nf_leading_comments : forall fuel acc, nf fuel (leading_comments d F fuel acc).
  Proof.
    induction fuel as [|f IH]; intros; cbn [leading_comments]; nf_tac; try apply IH.
  Qed.
  Lemma nofuel_leading_comments : forall acc, nofuel (leading_comments d F F acc).
  Proof. intro. apply nf_F_nofuel, nf_leading_comments. Qed.
  Lemma nofuel_trailing_comment : nofuel (trailing_comment d F).
  Proof. unfold trailing_comment. nofuel_tac. Qed.
  Hint Resolve nofuel_leading_comments nofuel_trailing_comment : nofuel_db.

  Lemma nofuel_bs_second : forall off, nofuel (bs_second d off).
  Proof. intro. unfold bs_second. nofuel_tac. Qed.
  Hint Resolve nofuel_bs_second : nofuel_db.
  Lemma nofuel_parse_base_specifier : nofuel (parse_base_specifier d).
  Proof. unfold parse_base_specifier. nofuel_tac. Qed.
  Hint Resolve nofuel_parse_base_specifier : nofuel_db.
  Lemma nofuel_maybe_base_specifier : nofuel (maybe_base_specifier d fixed).
  Proof.
    intros st st' H. unfold maybe_base_specifier in H.
    destruct (parse_base_specifier d st) as [[[v|]|e|a] st1] eqn:E; try discriminate.
    - destruct fixed; discriminate.
    - injection H as -> <-. eapply nofuel_parse_base_specifier; exact E.
  Qed.
  Hint Resolve nofuel_maybe_base_specifier : nofuel_db.
  Lemma nofuel_parse_bit_string : forall base len sc, nofuel (parse_bit_string d F base len sc).
  Proof. intros. unfold parse_bit_string. nofuel_tac. Qed.
  Hint Resolve nofuel_parse_bit_string : nofuel_db.

  Lemma nf_ident_loop : forall fuel acc, nf fuel (ident_loop d fuel acc).
  Proof. induction fuel as [|f IH]; intros; cbn [ident_loop]; nf_tac; apply IH. Qed.
  Lemma nofuel_parse_basic_identifier_or_keyword : nofuel (parse_basic_identifier_or_keyword d kws F).
  Proof. unfold parse_basic_identifier_or_keyword. nofuel_tac. apply nf_F_nofuel, nf_ident_loop. Qed.
  Hint Resolve nofuel_parse_basic_identifier_or_keyword : nofuel_db.

  Lemma nf_real_loop : forall fuel txt dg, nf fuel (real_loop d fuel txt dg).
  Proof. induction fuel as [|f IH]; intros; cbn [real_loop]; nf_tac; apply IH. Qed.
  Lemma nofuel_parse_real_literal : nofuel (parse_real_literal d F).
  Proof. unfold parse_real_literal. nofuel_tac. apply nf_F_nofuel, nf_real_loop. Qed.
  Hint Resolve nofuel_parse_real_literal : nofuel_db.
  Lemma nofuel_abs_real : forall st0 pai ini, nofuel (abs_real d F st0 pai ini).
  Proof. intros. unfold abs_real, abs_real_gen. nofuel_tac. Qed.
  Lemma nofuel_abs_int_exp : forall p0 ini, nofuel (abs_int_exp d F p0 ini).
  Proof. intros. unfold abs_int_exp. nofuel_tac. Qed.
  Lemma nofuel_abs_based : forall dl p0 p1 ini, nofuel (abs_based d F dl p0 p1 ini).
  Proof. intros. unfold abs_based. nofuel_tac. Qed.
  Lemma nofuel_colon_lookahead : nofuel (colon_lookahead d).
  Proof. unfold colon_lookahead. nofuel_tac. Qed.
  Lemma nofuel_colon_starts_based_literal : nofuel (colon_starts_based_literal d).
  Proof.
    intros st st' H. unfold colon_starts_based_literal in H.
    destruct (colon_lookahead d st) as [[[[n|]|e]|e|a] st1] eqn:E; try discriminate.
    injection H as -> <-. eapply nofuel_colon_lookahead; exact E.
  Qed.
  Lemma nofuel_abs_bit_string : forall p0 ini, nofuel (abs_bit_string d F p0 ini).
  Proof. intros. unfold abs_bit_string. nofuel_tac. Qed.
  Lemma nofuel_abs_plain : forall ini, nofuel (abs_plain ini).
  Proof. intros. unfold abs_plain. nofuel_tac. Qed.
  Hint Resolve nofuel_abs_real nofuel_abs_int_exp nofuel_abs_based nofuel_abs_bit_string nofuel_abs_plain
    nofuel_colon_starts_based_literal : nofuel_db.
  Lemma nofuel_parse_abstract_literal : nofuel (parse_abstract_literal d F).
  Proof. unfold parse_abstract_literal. nofuel_tac. Qed.
  Hint Resolve nofuel_parse_abstract_literal : nofuel_db.

  Lemma nofuel_char_lookahead : nofuel (char_lookahead d).
  Proof. unfold char_lookahead. nofuel_tac. Qed.
  Lemma nofuel_parse_character_literal : nofuel (parse_character_literal d).
  Proof.
    intros st st' H. unfold parse_character_literal in H.
    destruct (char_lookahead d st) as [[[v|]|e|a] st1] eqn:E; try discriminate.
    injection H as -> <-. eapply nofuel_char_lookahead; exact E.
  Qed.
  Hint Resolve nofuel_parse_character_literal : nofuel_db.
  Lemma nofuel_simple : forall k, nofuel (simple k).
  Proof. intro. unfold simple. nofuel_tac. Qed.
  Hint Resolve nofuel_simple : nofuel_db.
  Lemma nofuel_two : forall c k2 k1, nofuel (two d c k2 k1).
  Proof. intros. unfold two. nofuel_tac. Qed.
  Lemma nofuel_illegal : forall p, nofuel (illegal p).
  Proof. intro. unfold illegal. nofuel_tac. Qed.
  Lemma nofuel_lift_kv : forall m, nofuel m -> nofuel (lift_kv m).
  Proof. intros. unfold lift_kv. nofuel_tac. Qed.
  Hint Resolve nofuel_two nofuel_illegal nofuel_lift_kv : nofuel_db.
  Lemma nofuel_parse_token : forall start last, nofuel (parse_token d kws F fixed start last).
  Proof. intros. unfold parse_token. nofuel_tac. Qed.

  Lemma nf_until_nl : forall fuel acc, nf fuel (until_nl d fuel acc).
  Proof. induction fuel as [|f IH]; intros; cbn [until_nl]; nf_tac; apply IH. Qed.
  Lemma nofuel_until_nl : forall acc, nofuel (until_nl d F acc).
  Proof. intro. apply nf_F_nofuel, nf_until_nl. Qed.
End LexNoFuel.

#[export] Hint Resolve nofuel_skip nofuel_pop_lowercase nofuel_peek_lowercase nofuel_skip_if nofuel_parse_integer
  nofuel_parse_exponent nofuel_parse_quoted nofuel_parse_comment nofuel_parse_ml_comment nofuel_skip_ws
  nofuel_leading_comments nofuel_trailing_comment nofuel_bs_second nofuel_parse_base_specifier
  nofuel_maybe_base_specifier nofuel_parse_bit_string nofuel_parse_basic_identifier_or_keyword
  nofuel_parse_real_literal nofuel_abs_real nofuel_abs_int_exp nofuel_abs_based nofuel_abs_bit_string
  nofuel_abs_plain nofuel_colon_starts_based_literal nofuel_parse_abstract_literal nofuel_parse_character_literal nofuel_simple nofuel_two
  nofuel_illegal nofuel_lift_kv nofuel_parse_token nofuel_until_nl : nofuel_db.

(* ---------------------------------------------------------------------------------------- *)
(* C. progress: a function entered at a character b consumes at least one character         *)
(* ---------------------------------------------------------------------------------------- *)
Section Progress.
  Variable d : list (list char).
  Local Notation adv := (adv d).
  Local Notation sadv := (sadv d).

  Definition sadvAt (b : char) {A} (m : M A) : Prop :=
    forall st r st', get_char d st = GChar b -> m st = (r, st') -> (forall a, r <> Ab a) -> sadv st st'.

  Lemma sadvAt_use : forall b A (m : M A) st r st', sadvAt b m -> get_char d st = GChar b ->
    m st = (r, st') -> (forall a, r <> Ab a) -> sadv st st'.
  Proof. intros b A m st r st' H G E Hab. eapply H; eassumption. Qed.
  Lemma peek_at : forall st b, get_char d st = GChar b -> (b <? 256) = true -> peek d st = (Ok (Some b), st).
  Proof. intros st b G L. unfold peek, char_to_latin1. rewrite G, L. reflexivity. Qed.
  Lemma peek_some_inv : forall st b st', peek d st = (Ok (Some b), st') ->
    st' = st /\ get_char d st = GChar b /\ (b <? 256) = true.
  Proof.
    intros st b st' H. unfold peek, char_to_latin1 in H. destruct (get_char d st) as [|c|]; try discriminate.
    destruct (c <? 256) eqn:L; try discriminate. injection H as <- <-. auto.
  Qed.

  Lemma sadvAt_stop : forall b A a, sadvAt b (@stop A a).
  Proof. intros b A a st r st' _ H Hab. unfold stop in H. injection H as <- <-. exfalso. eapply Hab; reflexivity. Qed.
  Lemma sadvAt_skip_bind : forall b B (k : M B), advs d k -> sadvAt b (bind (skip d) (fun _ => k)).
  Proof.
    intros b B k Hk st r st' G H _. unfold bind in H. rewrite (skip_at _ _ _ G) in H.
    eapply sadv_adv_trans; [apply adv_skip; exact G|eapply Hk; exact H].
  Qed.
  Lemma sadvAt_bind : forall b A B (m : M A) (k : A -> M B),
    sadvAt b m -> (forall a, advs d (k a)) -> sadvAt b (bind m k).
  Proof.
    intros b A B m k Hm Hk st r st' G H Hab. unfold bind in H.
    destruct (m st) as [[a|e|a] st1] eqn:Em.
    - eapply sadv_adv_trans; [eapply Hm; [exact G|exact Em|discriminate]|eapply Hk; exact H].
    - injection H as <- <-. eapply Hm; [exact G|exact Em|discriminate].
    - injection H as <- <-. exfalso. eapply Hab; reflexivity.
  Qed.
  Lemma sadvAt_try : forall b A (m : M A), sadvAt b m -> sadvAt b (try m).
  Proof.
    intros b A m Hm st r st' G H Hab. unfold try in H.
    destruct (m st) as [[a|e|a] st1] eqn:Em; injection H as <- <-.
    - eapply Hm; [exact G|exact Em|discriminate].
    - eapply Hm; [exact G|exact Em|discriminate].
    - exfalso. eapply Hab; reflexivity.
  Qed.
  Lemma sadvAt_get_pos_bind : forall b B (k : position -> M B),
    (forall p, sadvAt b (k p)) -> sadvAt b (bind get_pos k).
  Proof. intros b B k Hk st r st' G H Hab. unfold bind, get_pos in H. eapply Hk; eassumption. Qed.
  Lemma sadvAt_get_state_bind : forall b B (k : rstate -> M B),
    (forall p, sadvAt b (k p)) -> sadvAt b (bind get_state k).
  Proof. intros b B k Hk st r st' G H Hab. unfold bind, get_state in H. eapply Hk; eassumption. Qed.
  Lemma sadvAt_peek_bind : forall b B (K : option N -> M B),
    (b <? 256) = true -> sadvAt b (K (Some b)) -> sadvAt b (bind (peek d) K).
  Proof.
    intros b B K L HK st r st' G H Hab. unfold bind in H. rewrite (peek_at _ _ G L) in H.
    eapply HK; eassumption.
  Qed.
  Lemma sadvAt_peek_lowercase_bind : forall b B (K : option N -> M B),
    (b <? 256) = true -> sadvAt b (K (Some (lowercase b))) -> sadvAt b (bind (peek_lowercase d) K).
  Proof.
    intros b B K L HK st r st' G H Hab. unfold peek_lowercase, bind, ret in H.
    rewrite (peek_at _ _ G L) in H. cbn [option_map] in H. eapply HK; eassumption.
  Qed.
  Lemma sadvAt_pop_bind : forall b B (K : option N -> M B),
    (forall ob, advs d (K ob)) -> sadvAt b (bind (pop d) K).
  Proof.
    intros b B K HK st r st' G H Hab. unfold bind in H.
    destruct (pop d st) as [x st1] eqn:P. apply pop_inv in P.
    destruct P as [[_ [_ G']]|[[c [G' [-> Hr]]]|[_ [_ G']]]]; try congruence.
    assert (c = b) by congruence. subst c.
    destruct Hr as [->|[e ->]].
    - eapply sadv_adv_trans; [apply adv_skip; exact G|eapply HK; exact H].
    - injection H as <- <-. apply adv_skip; exact G.
  Qed.
End Progress.

Ltac advs_tac := apply advO_advs; intro; solve [advO_tac].

Section LexProgress.
  Variable d : list (list char).
  Variable kws : list (list N).
  Variable F : nat.

  Local Notation adv := (adv d).
  Local Notation sadv := (sadv d).
  Local Notation sadvAt := (sadvAt d).

  Lemma digit_facts : forall b, is_digit b = true ->
    stop_suffix b = false /\ is_hex b = true /\ lowercase b = b /\ (b =? 101) = false /\ (b <? 256) = true
    /\ is_alpha b = false.
  Proof.
    intros b H. unfold is_digit, in_range in H. apply andb_true_iff in H. destruct H as [H1 H2].
    apply N.leb_le in H1. apply N.leb_le in H2.
    assert (E : forall k, k <> b -> (b =? k) = false) by (intros k Hk; apply N.eqb_neq; lia).
    repeat split.
    - unfold stop_suffix. rewrite !E by lia. reflexivity.
    - unfold is_hex, is_digit, in_range. apply orb_true_iff; left. apply orb_true_iff; left.
      apply andb_true_iff; split; apply N.leb_le; lia.
    - unfold lowercase, in_range. rewrite E by lia.
      replace (b <=? 90) with true by (symmetry; apply N.leb_le; lia).
      replace (65 <=? b) with false by (symmetry; apply N.leb_gt; lia).
      replace (192 <=? b) with false by (symmetry; apply N.leb_gt; lia).
      replace (216 <=? b) with false by (symmetry; apply N.leb_gt; lia).
      reflexivity.
    - apply E. lia.
    - apply N.ltb_lt. lia.
    - unfold is_alpha, is_lower, is_upper, in_range.
      replace (97 <=? b) with false by (symmetry; apply N.leb_gt; lia).
      replace (65 <=? b) with false by (symmetry; apply N.leb_gt; lia).
      reflexivity.
  Qed.

  Lemma sadvAt_ident_loop : forall b, (is_alnum b || (b =? 95)) = true -> (b <? 256) = true ->
    forall fuel acc, sadvAt b (ident_loop d fuel acc).
  Proof.
    intros b Hc L fuel acc. destruct fuel as [|f]; cbn [ident_loop]; [apply sadvAt_stop|].
    apply sadvAt_peek_bind; [exact L|]. rewrite Hc. apply sadvAt_skip_bind. advs_tac.
  Qed.

  Lemma sadvAt_parse_integer_loop : forall b, is_digit b = true ->
    forall fuel base acc txt big inv, sadvAt b (parse_integer_loop d fuel base true acc txt big inv).
  Proof.
    intros b Hd fuel base acc txt big inv. destruct (digit_facts b Hd) as [S1 [S2 [_ [_ [L _]]]]].
    destruct fuel as [|f]; cbn [parse_integer_loop]; [apply sadvAt_stop|].
    apply sadvAt_peek_bind; [exact L|]. rewrite S1, S2. cbn [andb].
    apply sadvAt_get_pos_bind; intro p. cbv zeta. apply sadvAt_skip_bind. advs_tac.
  Qed.
  Lemma sadvAt_parse_integer : forall b, is_digit b = true -> sadvAt b (parse_integer d F 10 true).
  Proof.
    intros b Hd. unfold parse_integer. apply sadvAt_get_pos_bind; intro p.
    apply sadvAt_bind; [apply sadvAt_parse_integer_loop; exact Hd|]. intro a. advs_tac.
  Qed.

  Lemma sadvAt_parse_real_literal : forall b, is_digit b = true -> sadvAt b (parse_real_literal d F).
  Proof.
    intros b Hd. destruct (digit_facts b Hd) as [_ [_ [S3 [S4 [L _]]]]].
    unfold parse_real_literal. apply sadvAt_get_pos_bind; intro p.
    apply sadvAt_bind; [|intro a; advs_tac].
    destruct F as [|f]; cbn [real_loop]; [apply sadvAt_stop|].
    apply sadvAt_peek_lowercase_bind; [exact L|]. rewrite S3, S4, Hd. cbn [orb].
    apply sadvAt_skip_bind. advs_tac.
  Qed.

  Lemma abs_real_sadv : forall b st0, get_char d st0 = GChar b -> is_digit b = true ->
    forall pai ini st r st', abs_real d F st0 pai ini st = (r, st') -> (forall a, r <> Ab a) -> sadv st0 st'.
  Proof.
    intros b st0 G Hd pai ini st r st' H Hab. unfold abs_real, abs_real_gen in H.
    unfold bind at 1 in H. unfold set_state in H.
    eapply sadvAt_use; [|exact G|exact H|exact Hab].
    apply sadvAt_bind; [apply sadvAt_parse_real_literal; exact Hd|]. intro a. advs_tac.
  Qed.

  Lemma peek_lowercase_nomove : forall st r st', peek_lowercase d st = (r, st') -> st' = st.
  Proof.
    intros st r st' H. unfold peek_lowercase, bind, ret in H.
    destruct (peek d st) as [[a|e|a] st1] eqn:P; apply peek_inv in P; destruct P as [-> _]; congruence.
  Qed.

  Lemma sadvAt_parse_abstract_literal : forall b, is_digit b = true -> sadvAt b (parse_abstract_literal d F).
  Proof.
    intros b Hd st r st' G H Hab. unfold parse_abstract_literal in H.
    unfold bind at 1 in H. unfold get_state in H. unfold bind at 1 in H.
    destruct (try (parse_integer d F 10 true) st) as [[ini|e|a] st1] eqn:T.
    - assert (S1 : sadv st st1).
      { eapply sadvAt_use; [apply sadvAt_try, sadvAt_parse_integer; exact Hd|exact G|exact T|discriminate]. }
      unfold bind at 1 in H. unfold get_pos in H. unfold bind at 1 in H.
      destruct (peek_lowercase d st1) as [[onx|e|a] st2] eqn:PL; pose proof (peek_lowercase_nomove _ _ _ PL); subst st2.
      + assert (Hrest : forall m : M (kind * value), advs d m -> m st1 = (r, st') -> sadv st st').
        { intros m Hm E. eapply sadv_adv_trans; [exact S1|eapply Hm; exact E]. }
        destruct onx as [c|].
        * destruct (c =? 46). { eapply abs_real_sadv; eassumption. }
          destruct (c =? 101). { eapply Hrest; [|exact H]. advs_tac. }
          destruct (c =? 35). { eapply Hrest; [|exact H]. advs_tac. }
          destruct (c =? 58). { eapply Hrest; [|exact H]. advs_tac. }
          destruct (is_bs_letter c); (eapply Hrest; [|exact H]); advs_tac.
        * eapply Hrest; [|exact H]. advs_tac.
      + injection H as <- <-. exact S1.
      + injection H as <- <-. exfalso. eapply Hab; reflexivity.
    - unfold try in T. destruct (parse_integer d F 10 true st) as [[x|x|x] y]; discriminate.
    - injection H as <- <-. exfalso. eapply Hab; reflexivity.
  Qed.

  Lemma sadvAt_parse_base_specifier : forall b, sadvAt b (parse_base_specifier d).
  Proof.
    intro b. unfold parse_base_specifier. apply sadvAt_bind; [|intro a; advs_tac].
    unfold pop_lowercase. apply sadvAt_pop_bind. intro ob. advs_tac.
  Qed.

  Lemma alpha_facts : forall b, (is_alpha b || (b =? 95)) = true -> (is_alnum b || (b =? 95)) = true.
  Proof. intros b H. unfold is_alnum. destruct (is_alpha b); cbn [orb] in *; [reflexivity|]. rewrite H. apply orb_true_r. Qed.

  (* parse_token (current code): at a Latin-1 character it consumes at least one character *)
  Lemma parse_token_progress : forall start last st b r st',
    peek d st = (Ok (Some b), st) -> parse_token d kws F true start last st = (r, st') ->
    (forall a, r <> Ab a) -> sadv st st'.
  Proof.
    intros start last st b r st' P H Hab. destruct (peek_some_inv _ _ _ _ P) as [_ [G L]].
    unfold parse_token in H. unfold bind at 1 in H. rewrite P in H.
    destruct (is_alpha b || (b =? 95)) eqn:Ea.
    - unfold bind at 1 in H. unfold get_state in H. unfold bind at 1 in H.
      assert (Hid : forall K : (kind * value * option N) -> M (option tokv), (forall x, advs d (K x)) ->
                bind (parse_basic_identifier_or_keyword d kws F) K st = (r, st') -> sadv st st').
      { intros K HK E. eapply sadvAt_use; [|exact G|exact E|exact Hab].
        apply sadvAt_bind; [|exact HK].
        unfold parse_basic_identifier_or_keyword. apply sadvAt_bind; [|intro; advs_tac].
        apply sadvAt_ident_loop; [apply alpha_facts; exact Ea|exact L]. }
      unfold maybe_base_specifier in H.
      destruct (parse_base_specifier d st) as [[[v|]|e|a] st1] eqn:PB.
      + eapply sadv_adv_trans.
        * eapply sadvAt_use; [apply sadvAt_parse_base_specifier|exact G|exact PB|discriminate].
        * assert (Ha : advs d (lift_kv (parse_bit_string d F v None (snd (r_pos st))))) by advs_tac.
          eapply Ha; exact H.
      + eapply Hid; [|exact H]. intros [kv w]. advs_tac.
      + eapply Hid; [|exact H]. intros [kv w]. advs_tac.
      + injection H as <- <-. exfalso. eapply Hab; reflexivity.
    - destruct (is_digit b) eqn:Ed.
      + eapply sadvAt_use; [|exact G|exact H|exact Hab].
        apply sadvAt_bind; [apply sadvAt_parse_abstract_literal; exact Ed|]. intro a. advs_tac.
      + eapply sadvAt_use; [|exact G|exact H|exact Hab].
        apply sadvAt_skip_bind. advs_tac.
  Qed.

  (* parse_token returns Ok None only at the end of the input *)
  Lemma bind_ok_inv : forall A B (m : M A) (k : A -> M B) st x st',
    bind m k st = (Ok x, st') -> exists a st1, m st = (Ok a, st1) /\ k a st1 = (Ok x, st').
  Proof.
    intros A B m k st x st' H. unfold bind in H. destruct (m st) as [[a|e|a] st1]; try discriminate.
    exists a, st1. auto.
  Qed.
End LexProgress.

Section LeadingComments.
  Variable d : list (list char).
  Variable kws : list (list N).
  Variable F : nat.

  Local Notation adv := (adv d).
  Local Notation sadv := (sadv d).

  Lemma pop_cases : forall st r st', pop d st = (r, st') ->
    (get_char d st = GEof /\ r = Ok None /\ st' = st)
    \/ (exists c, get_char d st = GChar c /\ st' = skip_char st c /\
                  (((c <? 256) = true /\ r = Ok (Some c)) \/ exists e, r = Er e))
    \/ (get_char d st = GBad /\ r = Ab Crash /\ st' = st).
  Proof.
    intros st r st' H. unfold pop, char_to_latin1 in H. destruct (get_char d st) as [|c|].
    - injection H as <- <-. left; auto.
    - right; left. exists c. destruct (c <? 256) eqn:L; injection H as <- <-; (split; [reflexivity|split; [reflexivity|]]).
      + left; auto.
      + right; eexists; reflexivity.
    - injection H as <- <-. right; right; auto.
  Qed.

  Lemma skip_no_er : forall st e st', skip d st <> (Er e, st').
  Proof.
    intros st e st' H. unfold skip, bind, ret in H.
    destruct (pop_char d st) as [[a|x|a] st1] eqn:P; try discriminate.
    apply pop_char_inv in P. destruct P as [[_ [E _]]|[[c [E _]]|[_ [E _]]]]; discriminate.
  Qed.
  Lemma skip_ws_no_er : forall fuel nl st e st', skip_ws d fuel nl st <> (Er e, st').
  Proof.
    induction fuel as [|f IH]; intros nl st e st' H; cbn [skip_ws] in H; [discriminate|].
    unfold bind at 1 in H. unfold try in H.
    destruct (peek d st) as [[ob|x|a] st1] eqn:P; try discriminate.
    destruct ob as [b|]; try discriminate.
    destruct ((b =? 32) || (b =? 9) || nl && (b =? 10)); try discriminate.
    unfold bind in H. destruct (skip d st1) as [[a|x|a] st2] eqn:S; try discriminate.
    - eapply IH; exact H.
    - eapply skip_no_er; exact S.
  Qed.

  (* one iteration of get_leading_comments after the whitespace *)
  Definition lc_body (f : nat) (acc : list comment) : M (list comment) :=
    (st <- get_state ;;
     ob <- pop d ;;
     match ob with
     | None => ret acc
     | Some b =>
       if b =? 47 then
         o2 <- pop d ;;
         if opt_is o2 42 then c <- parse_ml_comment d F ;; leading_comments d F f (acc ++ [c])
         else set_state st ;;; ret acc
       else if b =? 45 then
         o2 <- pop d ;;
         if opt_is o2 45 then c <- parse_comment d F ;; leading_comments d F f (acc ++ [c])
         else set_state st ;;; ret acc
       else set_state st ;;; ret acc
     end)%m.

  Lemma leading_comments_S : forall f acc,
    leading_comments d F (S f) acc = (skip_ws d F true ;;; lc_body f acc)%m.
  Proof. reflexivity. Qed.

  Lemma lc_body_cases : forall f acc st1 r st', lc_body f acc st1 = (r, st') ->
    (r = Ok acc /\ st' = st1 /\ exists ob, peek d st1 = (Ok ob, st1))
    \/ (exists e, r = Er e /\ sadv st1 st')
    \/ (exists a, r = Ab a)
    \/ (exists c st4, sadv st1 st4 /\ leading_comments d F f (acc ++ [c]) st4 = (r, st')).
  Proof.
    intros f acc st1 r st' H. unfold lc_body in H. unfold bind at 1 in H. unfold get_state in H.
    unfold bind at 1 in H. destruct (pop d st1) as [x st2] eqn:P1. apply pop_cases in P1.
    destruct P1 as [[G [-> ->]]|[[c [G [-> [[L ->]|[e ->]]]]]|[G [-> ->]]]].
    - (* EOF *) unfold ret in H. injection H as <- <-. left. split; [reflexivity|split; [reflexivity|]].
      exists None. unfold peek. rewrite G. reflexivity.
    - pose proof (adv_skip d _ _ G) as S12.
      assert (Hstop : (set_state st1 ;;; ret acc)%m (skip_char st1 c) = (r, st') ->
                      r = Ok acc /\ st' = st1 /\ exists ob, peek d st1 = (Ok ob, st1)).
      { intro E. unfold bind, set_state, ret in E. injection E as <- <-.
        split; [reflexivity|split; [reflexivity|]]. exists (Some c). apply peek_at; assumption. }
      assert (Hcomment : forall (pc : M comment) (q : N), advs d pc ->
                (o2 <- pop d ;; if opt_is o2 q then cm <- pc ;; leading_comments d F f (acc ++ [cm])
                                else set_state st1 ;;; ret acc)%m (skip_char st1 c) = (r, st') ->
                (r = Ok acc /\ st' = st1 /\ exists ob, peek d st1 = (Ok ob, st1))
                \/ (exists e, r = Er e /\ sadv st1 st')
                \/ (exists a, r = Ab a)
                \/ (exists cm st4, sadv st1 st4 /\ leading_comments d F f (acc ++ [cm]) st4 = (r, st'))).
      { intros pc q Hpc E. unfold bind at 1 in E.
        destruct (pop d (skip_char st1 c)) as [[o2|e|a] st3] eqn:P2; pose proof (advs_pop d _ _ _ P2) as A23.
        - destruct (opt_is o2 q).
          + unfold bind at 1 in E. destruct (pc st3) as [[cm|e|a] st4] eqn:PC; pose proof (Hpc _ _ _ PC) as A34.
            * right; right; right. exists cm, st4. split; [|exact E].
              eapply sadv_adv_trans; [exact S12|eapply adv_trans; eassumption].
            * injection E as <- <-. right; left. exists e. split; [reflexivity|].
              eapply sadv_adv_trans; [exact S12|eapply adv_trans; eassumption].
            * injection E as <- <-. right; right; left. exists a; reflexivity.
          + left. apply Hstop. exact E.
        - injection E as <- <-. right; left. exists e. split; [reflexivity|].
          eapply sadv_adv_trans; eassumption.
        - injection E as <- <-. right; right; left. exists a; reflexivity. }
      destruct (c =? 47).
      + eapply Hcomment; [|exact H]. advs_tac.
      + destruct (c =? 45).
        * eapply Hcomment; [|exact H]. advs_tac.
        * left. apply Hstop. exact H.
    - (* Er from the first pop *)
      injection H as <- <-. right; left. exists e. split; [reflexivity|]. apply adv_skip; exact G.
    - injection H as <- <-. right; right; left. exists Crash; reflexivity.
  Qed.

  Lemma leading_comments_ok_peek : forall fuel acc st l st',
    leading_comments d F fuel acc st = (Ok l, st') -> exists ob, peek d st' = (Ok ob, st').
  Proof.
    induction fuel as [|f IH]; intros acc st l st' H; [discriminate|].
    rewrite leading_comments_S in H. unfold bind at 1 in H.
    destruct (skip_ws d F true st) as [[[]|e|a] st1] eqn:W; try discriminate.
    apply lc_body_cases in H.
    destruct H as [[_ [-> Hp]]|[[e [E _]]|[[a E]|[c [st4 [_ E]]]]]]; try discriminate.
    - exact Hp.
    - eapply IH; exact E.
  Qed.

  Lemma leading_comments_er_sadv : forall fuel acc st e st',
    leading_comments d F fuel acc st = (Er e, st') -> sadv st st'.
  Proof.
    induction fuel as [|f IH]; intros acc st e st' H; [discriminate|].
    rewrite leading_comments_S in H. unfold bind at 1 in H.
    destruct (skip_ws d F true st) as [[[]|x|a] st1] eqn:W; try discriminate.
    - assert (A1 : adv st st1) by (eapply (advO_advs d); [intro; apply advO_skip_ws|exact W]).
      apply lc_body_cases in H.
      destruct H as [[E _]|[[x [_ S]]|[[a E]|[c [st4 [S E]]]]]]; try discriminate.
      + eapply adv_sadv_trans; eassumption.
      + eapply adv_sadv_trans; [exact A1|]. eapply sadv_adv_trans; [exact S|].
        apply sadv_adv. eapply IH; exact E.
    - exfalso. injection H as -> <-. eapply skip_ws_no_er; exact W.
  Qed.
End LeadingComments.

(* ---------------------------------------------------------------------------------------- *)
(* D. Tokenizer level: pop_raw, ignored regions, pop, tool directives, TokenStream::new      *)
(* ---------------------------------------------------------------------------------------- *)
Definition tok_between (lo : position) (tok : token) (hi : position) : Prop :=
  ple lo (t_s tok) = true /\ plt (t_s tok) (t_e tok) = true /\ ple (t_e tok) hi = true.
(* start <= end, each token starts at or after the end of the previous one *)
Fixpoint ranges_sorted (lo : position) (ts : list token) : Prop :=
  match ts with
  | [] => True
  | t :: r => ple lo (t_s t) = true /\ plt (t_s t) (t_e t) = true /\ ranges_sorted (t_e t) r
  end.

Lemma ranges_sorted_weaken : forall ts lo lo', ple lo' lo = true -> ranges_sorted lo ts -> ranges_sorted lo' ts.
Proof.
  intros [|t r] lo lo' H; cbn [ranges_sorted]; [auto|]. intros [H1 [H2 H3]].
  split; [eapply ple_trans; eassumption|auto].
Qed.

(* the token's range is delimited by two reader states reached from `lo`, at least one character
   apart, from the second of which `hi` is reached *)
Definition tok_reach (d : list (list char)) (lo : rstate) (tok : token) (hi : rstate) : Prop :=
  exists r1 r2, adv d lo r1 /\ sadv d r1 r2 /\ adv d r2 hi /\ t_s tok = r_pos r1 /\ t_e tok = r_pos r2.
Fixpoint toks_reach (d : list (list char)) (lo : rstate) (ts : list token) : Prop :=
  match ts with
  | [] => True
  | t :: r => exists hi, tok_reach d lo t hi /\ toks_reach d hi r
  end.
Lemma tok_reach_between : forall d lo tok hi, tok_reach d lo tok hi -> tok_between (r_pos lo) tok (r_pos hi).
Proof.
  intros d lo tok hi [r1 [r2 [A1 [S12 [A2 [E1 E2]]]]]]. unfold tok_between. rewrite E1, E2.
  split; [eapply adv_ple; exact A1|]. split; [eapply sadv_plt; exact S12|eapply adv_ple; exact A2].
Qed.
Lemma tok_reach_weaken : forall d lo lo' tok hi hi',
  adv d lo' lo -> adv d hi hi' -> tok_reach d lo tok hi -> tok_reach d lo' tok hi'.
Proof.
  intros d lo lo' tok hi hi' H1 H2 [r1 [r2 [A1 [S12 [A2 [E1 E2]]]]]]. exists r1, r2.
  split; [eapply adv_trans; eassumption|]. split; [exact S12|]. split; [eapply adv_trans; eassumption|auto].
Qed.
Lemma toks_reach_weaken : forall d ts lo lo', adv d lo' lo -> toks_reach d lo ts -> toks_reach d lo' ts.
Proof.
  intros d [|t r] lo lo' H; cbn [toks_reach]; [auto|]. intros [hi [T R]]. exists hi.
  split; [eapply tok_reach_weaken; [exact H|apply adv_refl|exact T]|exact R].
Qed.
Lemma toks_reach_sorted : forall d ts lo, toks_reach d lo ts -> ranges_sorted (r_pos lo) ts.
Proof.
  intros d ts. induction ts as [|t r IH]; intros lo H; cbn [toks_reach ranges_sorted] in *; [exact I|].
  destruct H as [hi [T R]]. destruct (tok_reach_between _ _ _ _ T) as [B1 [B2 B3]].
  split; [exact B1|]. split; [exact B2|]. eapply ranges_sorted_weaken; [exact B3|apply IH; exact R].
Qed.


Section Tokenizer.
  Variable d : list (list char).
  Variable kws : list (list N).
  Variable F : nat.
  Hypothesis HF : (length (concat d) < F)%nat.

  Local Notation adv := (adv d).
  Local Notation sadv := (sadv d).
  Local Notation mu := (mu d).
  Local Notation pop_raw := (pop_raw d kws F true).
  Local Notation tk_pop := (tk_pop d kws F true).
  Local Notation ignored_loop := (ignored_loop d kws F true).

  Lemma parse_token_none : forall start last st,
    peek d st = (Ok None, st) -> parse_token d kws F true start last st = (Ok None, st).
  Proof. intros start last st P. unfold parse_token. unfold bind at 1. rewrite P. reflexivity. Qed.

  Lemma advs_parse_token : forall start last, advs d (parse_token d kws F true start last).
  Proof. intros. apply advO_advs. intro. apply advO_parse_token. Qed.
  Lemma advs_leading_comments : forall fuel acc, advs d (leading_comments d F fuel acc).
  Proof. intros. apply advO_advs. intro. apply advO_leading_comments. Qed.
  Lemma advs_trailing_comment : advs d (trailing_comment d F).
  Proof. apply advO_advs. intro. apply advO_trailing_comment. Qed.


  Lemma pop_raw_props : forall t r t', pop_raw t = (r, t') ->
    adv (k_rd t) (k_rd t')
    /\ (r <> Ok None -> (forall a, r <> Ab a) -> sadv (k_rd t) (k_rd t'))
    /\ (forall tok, r = Ok (Some tok) -> tok_reach d (k_rd t) tok (k_rd t'))
    /\ r <> Ab OutOfFuel.
  Proof.
    intros t r t' H. unfold LangLexer.pop_raw in H.
    destruct (leading_comments d F F [] (k_rd t)) as [[lead|e|a] r1] eqn:LC;
      pose proof (advs_leading_comments _ _ _ _ _ LC) as A01.
    - destruct (leading_comments_ok_peek _ _ _ _ _ _ _ LC) as [ob P].
      destruct (parse_token d kws F true (r_pos r1) (k_last t) r1) as [[[[[k v] w]|]|e|a] r2] eqn:PT;
        pose proof (advs_parse_token _ _ _ _ _ PT) as A12.
      + assert (S12 : sadv r1 r2).
        { destruct ob as [b|].
          - eapply parse_token_progress; [exact P|exact PT|discriminate].
          - rewrite (parse_token_none _ _ _ P) in PT. discriminate. }
        destruct (trailing_comment d F r2) as [[tr|e|a] r3] eqn:TC;
          pose proof (advs_trailing_comment _ _ _ TC) as A23; injection H as <- <-; cbn [k_rd].
        * split; [eapply adv_trans; [exact A01|eapply adv_trans; [apply sadv_adv; exact S12|exact A23]]|].
          split; [intros _ _; eapply adv_sadv_trans; [exact A01|eapply sadv_adv_trans; eassumption]|].
          split; [|discriminate].
          intros tok E. injection E as <-. exists r1, r2. cbn [t_s t_e k_rd].
          split; [exact A01|]. split; [exact S12|]. split; [exact A23|]. split; reflexivity.
        * split; [eapply adv_trans; [exact A01|eapply adv_trans; [apply sadv_adv; exact S12|exact A23]]|].
          split; [intros _ _; eapply adv_sadv_trans; [exact A01|eapply sadv_adv_trans; eassumption]|].
          split; [intros tok E; discriminate|discriminate].
        * split; [eapply adv_trans; [exact A01|eapply adv_trans; [apply sadv_adv; exact S12|exact A23]]|].
          split; [intros _ Hab; exfalso; eapply Hab; reflexivity|].
          split; [intros tok E; discriminate|].
          intro E. injection E as ->. eapply nofuel_trailing_comment; [exact HF|exact TC].
      + injection H as <- <-. cbn [k_rd].
        split; [eapply adv_trans; eassumption|]. split; [intro C; exfalso; apply C; reflexivity|].
        split; [intros tok E; discriminate|discriminate].
      + assert (S12 : sadv r1 r2).
        { destruct ob as [b|].
          - eapply parse_token_progress; [exact P|exact PT|discriminate].
          - rewrite (parse_token_none _ _ _ P) in PT. discriminate. }
        injection H as <- <-. cbn [k_rd].
        split; [eapply adv_trans; [exact A01|apply sadv_adv; exact S12]|].
        split; [intros _ _; eapply adv_sadv_trans; eassumption|].
        split; [intros tok E; discriminate|discriminate].
      + injection H as <- <-. cbn [k_rd].
        split; [eapply adv_trans; eassumption|]. split; [intros _ Hab; exfalso; eapply Hab; reflexivity|].
        split; [intros tok E; discriminate|].
        intro E. injection E as ->. eapply nofuel_parse_token; [exact HF|exact PT].
    - injection H as <- <-. cbn [k_rd]. split; [exact A01|].
      split; [intros _ _; eapply leading_comments_er_sadv; exact LC|].
      split; [intros tok E; discriminate|discriminate].
    - injection H as <- <-. cbn [k_rd]. split; [exact A01|].
      split; [intros _ Hab; exfalso; eapply Hab; reflexivity|].
      split; [intros tok E; discriminate|].
      intro E. injection E as ->. eapply nofuel_leading_comments; [exact HF|exact LC].
  Qed.


  Lemma ignored_loop_props : forall fuel t,
    match ignored_loop fuel t with
    | IgnBreak t2 => adv (k_rd t) (k_rd t2)
    | IgnRet r t2 => adv (k_rd t) (k_rd t2) /\ (forall tok, r = Some tok -> tok_reach d (k_rd t) tok (k_rd t2))
    | IgnAb a t2 => adv (k_rd t) (k_rd t2) /\ ((mu (k_rd t) < fuel)%nat -> a <> OutOfFuel)
    end.
  Proof.
    induction fuel as [|f IH]; intro t; cbn [LangLexer.ignored_loop]; [split; [apply adv_refl|intro; lia]|].
    destruct (pop_raw t) as [r t1] eqn:PR. destruct (pop_raw_props _ _ _ PR) as [A [Sp [T NF]]].
    destruct r as [[tok|]|e|a].
    - destruct (trailing_is_end tok); [exact A|].
      destruct (leading_is_end tok).
      + split; [exact A|]. intros tok' E. injection E as <-. apply T. reflexivity.
      + specialize (IH t1). assert (S1 : sadv (k_rd t) (k_rd t1)) by (apply Sp; discriminate).
        destruct (ignored_loop f t1) as [t2|r t2|a t2].
        * eapply adv_trans; eassumption.
        * destruct IH as [A2 T2]. split; [eapply adv_trans; eassumption|].
          intros tok' E. eapply tok_reach_weaken; [exact A|apply adv_refl|apply T2; exact E].
        * destruct IH as [A2 N2]. split; [eapply adv_trans; eassumption|].
          intro Hm. apply N2. pose proof (sadv_mu _ _ _ S1). unfold ReaderProofs.mu in *. lia.
    - split; [exact A|]. intros tok E. discriminate.
    - specialize (IH t1). assert (S1 : sadv (k_rd t) (k_rd t1)) by (apply Sp; discriminate).
      destruct (ignored_loop f t1) as [t2|r t2|a t2].
      * eapply adv_trans; eassumption.
      * destruct IH as [A2 T2]. split; [eapply adv_trans; eassumption|].
        intros tok' E. eapply tok_reach_weaken; [exact A|apply adv_refl|apply T2; exact E].
      * destruct IH as [A2 N2]. split; [eapply adv_trans; eassumption|].
        intro Hm. apply N2. pose proof (sadv_mu _ _ _ S1). unfold ReaderProofs.mu in *. lia.
    - split; [exact A|]. intros _ E. subst a. apply NF. reflexivity.
  Qed.

  Lemma tk_pop_props : forall fuel t r t', tk_pop fuel t = (r, t') ->
    adv (k_rd t) (k_rd t')
    /\ (r <> Ok None -> (forall a, r <> Ab a) -> sadv (k_rd t) (k_rd t'))
    /\ (forall tok, r = Ok (Some tok) -> tok_reach d (k_rd t) tok (k_rd t'))
    /\ ((mu (k_rd t) < fuel)%nat -> r <> Ab OutOfFuel).
  Proof.
    induction fuel as [|f IH]; intros t r t' H; cbn [LangLexer.tk_pop] in H.
    - injection H as <- <-. split; [apply adv_refl|]. split; [intros _ Hab; exfalso; eapply Hab; reflexivity|].
      split; [intros tok E; discriminate|intro; lia].
    - destruct (pop_raw t) as [r1 t1] eqn:PR. destruct (pop_raw_props _ _ _ PR) as [A [Sp [T NF]]].
      destruct r1 as [[tok|]|e|a].
      + assert (S1 : sadv (k_rd t) (k_rd t1)) by (apply Sp; discriminate).
        assert (Hrec : forall t2, adv (k_rd t1) (k_rd t2) -> tk_pop f t2 = (r, t') ->
                  adv (k_rd t) (k_rd t')
                  /\ (r <> Ok None -> (forall a, r <> Ab a) -> sadv (k_rd t) (k_rd t'))
                  /\ (forall tok, r = Ok (Some tok) -> tok_reach d (k_rd t) tok (k_rd t'))
                  /\ ((mu (k_rd t) < S f)%nat -> r <> Ab OutOfFuel)).
        { intros t2 A2 E. destruct (IH _ _ _ E) as [A3 [S3 [T3 N3]]].
          assert (S2 : sadv (k_rd t) (k_rd t2)) by (eapply sadv_adv_trans; eassumption).
          split; [eapply adv_trans; [apply sadv_adv; exact S2|exact A3]|].
          split; [intros _ _; eapply sadv_adv_trans; eassumption|].
          split.
          - intros tok' E'. eapply tok_reach_weaken; [apply sadv_adv; exact S2|apply adv_refl|apply T3; exact E'].
          - intro Hm. apply N3. pose proof (sadv_mu _ _ _ S2). unfold ReaderProofs.mu in *. lia. }
        destruct (leading_is_start tok).
        * destruct (negb (trailing_is_end tok)).
          -- pose proof (ignored_loop_props F t1) as IL.
             destruct (ignored_loop F t1) as [t2|r2 t2|a t2].
             ++ apply Hrec with (t2 := t2); [exact IL|exact H].
             ++ injection H as <- <-. destruct IL as [A2 T2].
                split; [eapply adv_trans; eassumption|].
                split; [intros _ _; eapply sadv_adv_trans; eassumption|].
                split; [|discriminate].
                intros tok' E. injection E as E. eapply tok_reach_weaken; [exact A|apply adv_refl|apply T2; exact E].
             ++ injection H as <- <-. destruct IL as [A2 N2].
                split; [eapply adv_trans; eassumption|].
                split; [intros _ Hab; exfalso; eapply Hab; reflexivity|].
                split; [intros tok' E; discriminate|].
                intros _ E. injection E as ->. apply N2; [|reflexivity].
                pose proof (mu_total d (k_rd t1)). unfold ReaderProofs.mu in *. lia.
          -- apply Hrec with (t2 := t1); [apply adv_refl|exact H].
        * injection H as <- <-. split; [exact A|]. split; [intros _ _; exact S1|].
          split; [intros tok' E; apply T; exact E|discriminate].
      + injection H as <- <-. split; [exact A|]. split; [intro C; exfalso; apply C; reflexivity|].
        split; [intros tok' E; discriminate|discriminate].
      + injection H as <- <-. split; [exact A|]. split; [intros _ _; apply Sp; discriminate|].
        split; [intros tok' E; discriminate|discriminate].
      + injection H as <- <-. split; [exact A|]. split; [intros _ Hab; exfalso; eapply Hab; reflexivity|].
        split; [intros tok' E; discriminate|]. intros _ E. apply NF. exact E.
  Qed.
End Tokenizer.

Section Stream.
  Variable d : list (list char).
  Variable kws : list (list N).
  Variable F : nat.
  Hypothesis HF : (length (concat d) < F)%nat.

  Local Notation adv := (adv d).
  Local Notation sadv := (sadv d).
  Local Notation mu := (mu d).

  Lemma mu_lt_F : forall st, (mu st < F)%nat.
  Proof. intro st. pose proof (mu_total d st). unfold ReaderProofs.mu in *. lia. Qed.

  Lemma text_until_newline_props : forall t r t', text_until_newline d F t = (r, t') ->
    adv (k_rd t) (k_rd t') /\ r <> Ab OutOfFuel.
  Proof.
    intros t r t' H. unfold text_until_newline in H.
    destruct (until_nl d F [] (k_rd t)) as [[txt|e|a] r1] eqn:U;
      assert (A : adv (k_rd t) r1) by (eapply (advO_advs d); [intro; apply advO_until_nl|exact U]);
      injection H as <- <-; cbn [k_rd]; (split; [exact A|]); try discriminate.
    intro E. injection E as ->. eapply nofuel_until_nl; [exact HF|exact U].
  Qed.

  Lemma finish_directive_props : forall ds t r t', finish_directive d F ds t = (r, t') ->
    adv (k_rd t) (k_rd t') /\ r <> Ab OutOfFuel.
  Proof.
    intros ds t r t' H. unfold finish_directive in H.
    destruct (text_until_newline d F t) as [[x|e|a] t2] eqn:T;
      destruct (text_until_newline_props _ _ _ T) as [A N]; injection H as <- <-; (split; [exact A|]);
      try discriminate.
    intro E. apply N. congruence.
  Qed.

  Lemma handle_tool_directive_props : forall grave t r t',
    handle_tool_directive d kws F true grave t = (r, t') -> adv (k_rd t) (k_rd t') /\ r <> Ab OutOfFuel.
  Proof.
    intros grave t r t' H. unfold handle_tool_directive in H.
    destruct (tk_pop d kws F true F t) as [r1 t1] eqn:TP.
    destruct (tk_pop_props d kws F HF _ _ _ _ TP) as [A [_ [_ N]]].
    specialize (N (mu_lt_F _)).
    destruct r1 as [[tok|]|e|a].
    - destruct (is_identifier (t_kind tok)).
      + destruct (finish_directive_props _ _ _ _ H) as [A2 N2]. split; [eapply adv_trans; eassumption|exact N2].
      + destruct (text_until_newline d F t1) as [[x|e|a] t2] eqn:T;
          destruct (text_until_newline_props _ _ _ T) as [A2 N2]; injection H as <- <-;
          (split; [eapply adv_trans; eassumption|]); try discriminate.
        intro E. apply N2. congruence.
    - injection H as <- <-. split; [exact A|discriminate].
    - destruct (finish_directive_props _ _ _ _ H) as [A2 N2]. split; [eapply adv_trans; eassumption|exact N2].
    - injection H as <- <-. split; [exact A|]. intro E. apply N. congruence.
  Qed.

  Lemma add_diags_oof : forall es o, add_diags es o = Aborted OutOfFuel -> o = Aborted OutOfFuel.
  Proof. intros es [ts ds|a] H; cbn in H; [discriminate|exact H]. Qed.
  Lemma add_tok_oof : forall t o, add_tok t o = Aborted OutOfFuel -> o = Aborted OutOfFuel.
  Proof. intros t [ts ds|a] H; cbn in H; [discriminate|exact H]. Qed.

  Lemma lex_nofuel : forall fuel t, (mu (k_rd t) < fuel)%nat -> lex d kws F true fuel t <> Aborted OutOfFuel.
  Proof.
    induction fuel as [|f IH]; intros t Hm; [lia|]. cbn [lex].
    destruct (tk_pop d kws F true F t) as [r t1] eqn:TP.
    destruct (tk_pop_props d kws F HF _ _ _ _ TP) as [A [Sp [_ N]]]. specialize (N (mu_lt_F _)).
    destruct r as [[tok|]|e|a].
    - assert (S1 : sadv (k_rd t) (k_rd t1)) by (apply Sp; discriminate).
      pose proof (sadv_mu _ _ _ S1) as M1. unfold ReaderProofs.mu in *.
      destruct (is_grave (t_kind tok)).
      + destruct (handle_tool_directive d kws F true tok t1) as [[ds|e|a] t2] eqn:HT;
          destruct (handle_tool_directive_props _ _ _ _ HT) as [A2 N2].
        * intro E. apply add_diags_oof in E. revert E. apply IH.
          pose proof (adv_mu _ _ _ A2). unfold ReaderProofs.mu in *. lia.
        * discriminate.
        * intro E. apply N2. congruence.
      + intro E. apply add_tok_oof in E. revert E. apply IH. lia.
    - discriminate.
    - assert (S1 : sadv (k_rd t) (k_rd t1)) by (apply Sp; discriminate).
      pose proof (sadv_mu _ _ _ S1) as M1. unfold ReaderProofs.mu in *.
      intro E. apply add_diags_oof in E. revert E. apply IH. lia.
    - intro E. apply N. congruence.
  Qed.

  Lemma lex_reach : forall fuel t toks diags,
    lex d kws F true fuel t = Done toks diags -> toks_reach d (k_rd t) toks.
  Proof.
    induction fuel as [|f IH]; intros t toks diags H; [discriminate|]. cbn [lex] in H.
    destruct (tk_pop d kws F true F t) as [r t1] eqn:TP.
    destruct (tk_pop_props d kws F HF _ _ _ _ TP) as [A [_ [T _]]].
    destruct r as [[tok|]|e|a].
    - pose proof (T tok eq_refl) as TR.
      destruct (is_grave (t_kind tok)).
      + destruct (handle_tool_directive d kws F true tok t1) as [[ds|e|a] t2] eqn:HT; try discriminate.
        destruct (handle_tool_directive_props _ _ _ _ HT) as [A2 _].
        destruct (lex d kws F true f t2) as [ts ds'|a] eqn:L; cbn [add_diags] in H; [|discriminate].
        injection H as <- _. eapply toks_reach_weaken; [|eapply IH; exact L].
        eapply adv_trans; eassumption.
      + destruct (lex d kws F true f t1) as [ts ds'|a] eqn:L; cbn [add_tok] in H; [|discriminate].
        injection H as <- _. cbn [toks_reach]. exists (k_rd t1). split; [exact TR|eapply IH; exact L].
    - injection H as <- _. exact I.
    - destruct (lex d kws F true f t1) as [ts ds'|a] eqn:L; cbn [add_diags] in H; [|discriminate].
      injection H as <- _. eapply toks_reach_weaken; [exact A|eapply IH; exact L].
    - discriminate.
  Qed.
  Lemma lex_sorted : forall fuel t toks diags,
    lex d kws F true fuel t = Done toks diags -> ranges_sorted (r_pos (k_rd t)) toks.
  Proof. intros fuel t toks diags H. apply toks_reach_sorted with (d := d). eapply lex_reach; exact H. Qed.
End Stream.

(* ---------------------------------------------------------------------------------------- *)
(* E. whole inputs                                                                          *)
(* ---------------------------------------------------------------------------------------- *)
Lemma split_aux_length : forall s pc cur,
  (length (concat (split_aux pc cur s)) <= length cur + length s)%nat.
Proof.
  induction s as [|c r IH]; intros pc cur; cbn [split_aux].
  - destruct cur as [|x cur']; cbn [concat length]; [lia|].
    rewrite app_nil_r, rev_length. cbn [length]. lia.
  - destruct (c =? LF).
    + destruct pc.
      * specialize (IH false cur). cbn [length]. lia.
      * cbn [concat]. rewrite app_length, rev_length. specialize (IH false []). cbn [length] in *. lia.
    + destruct (c =? CR).
      * cbn [concat]. rewrite app_length, rev_length. specialize (IH true []). cbn [length] in *. lia.
      * specialize (IH false (c :: cur)). cbn [length] in *. lia.
Qed.
Lemma split_lines_length : forall s, (length (concat (split_lines s)) <= length s)%nat.
Proof. intro s. unfold split_lines. pose proof (split_aux_length s false []). cbn [length] in *. lia. Qed.

(* (a) the tokenizer terminates on every input: F5 regression theorem *)
Theorem lex_total_gen : forall (kws : list (list N)) (fuel : nat) (s : list char),
  (length s < fuel)%nat -> lex_gen kws true fuel s <> Aborted OutOfFuel.
Proof.
  intros kws fuel s H. unfold lex_gen.
  assert (HF : (length (concat (split_lines s)) < fuel)%nat) by (pose proof (split_lines_length s); lia).
  apply lex_nofuel; [exact HF|]. pose proof (mu_total (split_lines s) (k_rd tk_start)). lia.
Qed.
Theorem lex_total : forall s, lex_all s <> Aborted OutOfFuel.
Proof. intro s. unfold lex_all. apply lex_total_gen. unfold lex_fuel. lia. Qed.

(* the lookahead of maybe_base_specifier before the repair of F5: "x€" never gets past the `x` *)
Theorem lex_old_refuted : lex_all_old [120; 8364] = Aborted OutOfFuel.
Proof. vm_compute. reflexivity. Qed.

(* (c) token ranges are well-ordered, increasing and non-overlapping *)
Theorem token_ranges_ordered_gen : forall kws fuel s toks diags,
  (length s < fuel)%nat -> lex_gen kws true fuel s = Done toks diags -> ranges_sorted (0, 0) toks.
Proof.
  intros kws fuel s toks diags Hl H. unfold lex_gen in H.
  assert (HF : (length (concat (split_lines s)) < fuel)%nat) by (pose proof (split_lines_length s); lia).
  exact (lex_sorted _ _ _ HF _ _ _ _ H).
Qed.
Theorem tokens_reach_gen : forall kws fuel s toks diags,
  (length s < fuel)%nat -> lex_gen kws true fuel s = Done toks diags -> toks_reach (split_lines s) rstart toks.
Proof.
  intros kws fuel s toks diags Hl H. unfold lex_gen in H.
  assert (HF : (length (concat (split_lines s)) < fuel)%nat) by (pose proof (split_lines_length s); lia).
  exact (lex_reach _ _ _ HF _ _ _ _ H).
Qed.
Theorem token_ranges_ordered : forall s toks diags,
  lex_all s = Done toks diags -> ranges_sorted (0, 0) toks.
Proof. intros s toks diags H. eapply token_ranges_ordered_gen; [|exact H]. unfold lex_fuel. lia. Qed.
