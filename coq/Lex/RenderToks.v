(* Lex/RenderToks.v — every token kind covered by `supported_kind`: parse_token returns its kind and value
   when its text is followed by a `rest` accepted by `follow_ok` (pt_supported), and its text starts with a
   character at which get_leading_comments stops (tok_start_ok). *)
From Coq Require Import List NArith Arith Bool Lia ZifyBool ZifyN.
Import ListNotations.
From RH Require Import Text.Contents Text.ContentsProofs Text.Reader Text.ReaderProofs Text.ReaderInv
  Lex.LangLexer Lex.LangLexerProofs Lex.LexSpec Lex.Render Lex.RenderStream Lex.RenderArms Lex.RenderGaps.
Open Scope N_scope.
#[local] Arguments N.add : simpl never.
#[local] Arguments N.sub : simpl never.
#[local] Arguments N.mul : simpl never.
#[local] Arguments N.eqb : simpl never.
#[local] Arguments N.ltb : simpl never.
#[local] Arguments N.leb : simpl never.

Lemma leqb_true : forall x y, leqb x y = true -> x = y.
Proof. intros x y H. unfold leqb in H. destruct (list_eq_dec N.eq_dec x y); [assumption|discriminate]. Qed.
Lemma leqb_refl : forall x, leqb x x = true.
Proof. intro x. unfold leqb. destruct (list_eq_dec N.eq_dec x x); [reflexivity|congruence]. Qed.

(* ---------- facts about the keyword table ---------- *)
Definition kw_good (k : list N) : bool :=
  leqb (map lowercase k) k && match validate_basic_identifier k with None => true | Some _ => false end
  && hd_sat k (fun c => is_alpha c || (c =? 95)) && forallb is_idc k.
Lemma kw_table_good : forallb kw_good keywords_2008 = true.
Proof. vm_compute. reflexivity. Qed.
Lemma is_keyword_good : forall n, is_keyword n = true -> kw_good n = true.
Proof.
  intros n H. unfold is_keyword in H. apply existsb_exists in H. destruct H as [k [Hk E]]. apply leqb_true in E. subst k.
  pose proof kw_table_good as T. rewrite forallb_forall in T. apply T. exact Hk.
Qed.

(* validate_basic_identifier accepts: a letter first, identifier characters only *)
Lemma vbi_rest_idc : forall l p, vbi_rest p l = None -> forallb is_idc l = true.
Proof.
  induction l as [|b l IH]; intros p H; [reflexivity|]. cbn [vbi_rest] in H. cbn [forallb]. unfold is_idc at 1.
  destruct (b =? 95) eqn:E.
  - rewrite orb_true_r. destruct p; [discriminate|]. apply (IH _ H).
  - destruct (is_alnum b); [|discriminate]. apply (IH _ H).
Qed.
Lemma vbi_ok : forall n, validate_basic_identifier n = None ->
  hd_sat n (fun c => is_alpha c || (c =? 95)) = true /\ forallb is_idc n = true.
Proof.
  intros [|b l] H; [discriminate|]. cbn [validate_basic_identifier] in H. destruct (is_alpha b) eqn:E; [|discriminate].
  cbn [hd_sat forallb]. rewrite E. split; [reflexivity|]. unfold is_idc at 1, is_alnum. rewrite E. apply (vbi_rest_idc _ _ H).
Qed.

(* extended identifiers *)
Lemma ext_ident_shape : forall n, ext_ident_ok n = true ->
  exists v, n = 92 :: v ++ [92] /\ Forall (fun c => c < 256) v /\ forallb (fun c => negb (c =? 10)) v = true
            /\ ext_ident_text n = 92 :: escape 92 v ++ [92].
Proof.
  intros [|c r] H; [discriminate|]. cbn [ext_ident_ok] in H. apply andb_true_iff in H. destruct H as [H Hv].
  apply andb_true_iff in H. destruct H as [H Hl]. apply andb_true_iff in H. destruct H as [Hc Hne].
  apply N.eqb_eq in Hc. subst c. apply N.eqb_eq in Hl.
  assert (Hr : r <> []) by (destruct r; [discriminate|discriminate]).
  exists (removelast r). pose proof (app_removelast_last 0 Hr) as E. rewrite Hl in E.
  split; [rewrite <- E; reflexivity|]. split.
  - apply Forall_forall. intros x Hx. rewrite forallb_forall in Hv. specialize (Hv x Hx). unfold lat in Hv. lia.
  - split.
    + rewrite forallb_forall in Hv. apply forallb_forall. intros x Hx. specialize (Hv x Hx). unfold nonl in Hv. lia.
    + unfold ext_ident_text. replace (92 =? 92) with true by reflexivity. rewrite Hne. replace (last r 0 =? 92) with true by lia.
      reflexivity.
Qed.

Section Toks.
  Variable d : list (list char).
  Hypothesis HD : cdoc d.
  Variable F : nat.
  Hypothesis HF : (length (concat d) < F)%nat.
  Local Notation At := (At d).
  Local Notation PT := (parse_token d keywords_2008 F true).
  Local Notation fuel_at := (fuel_at d F HF).

  Lemma hd_lat_of_b' : forall r, hd_lat_b r = true -> hd_lat r.
  Proof. intros [|c r] H; cbn in *; [exact I|lia]. Qed.

  Lemma pt_supported : forall t start last st rest,
    supported_kind t = true -> follow_ok last t rest = true ->
    At st (tok_text t ++ rest) ->
    exists st', PT start last st = (Ok (Some (t_kind t, t_val t, None)), st') /\ At st' rest.
  Proof.
    intros [k v ts te tl tt] start last st rest Hs Hf HA.
    unfold supported_kind in Hs. unfold follow_ok, follow_kv in Hf. unfold tok_text, tok_text_gen in HA. cbn [t_kind t_val] in *.
    apply andb_true_iff in Hf. destruct Hf as [HL Hf]. pose proof (hd_lat_of_b' _ HL) as HL'.
    destruct v as [|n|s|? ? ? ?|txt n|?|c|?].
    - (* Value::None: keyword or delimiter *)
      destruct k; try discriminate Hs;
        try (apply (pt_delim d HD F); [reflexivity|discriminate|exact HA|exact HL|exact Hf]).
      + (* tick *) apply (pt_tick d HD F); [exact HA|exact HL|exact Hf].
      + (* keyword *)
        pose proof (is_keyword_good _ Hs) as G. unfold kw_good in G.
        apply andb_true_iff in G. destruct G as [G G4]. apply andb_true_iff in G. destruct G as [G G3].
        apply andb_true_iff in G. destruct G as [G1 G2]. apply leqb_true in G1.
        destruct (validate_basic_identifier name) eqn:EV; [discriminate|].
        cbn [kind_text follow_delim] in *. unfold ident_follow in Hf. apply andb_true_iff in Hf. destruct Hf as [Hf1 Hf2].
        apply negb_true_iff in Hf1, Hf2.
        destruct (pt_ident d HD F start last st name rest G3 G4 HL' Hf1 Hf2 HA (fuel_at _ _ HA)) as [st' [E HA']].
        exists st'. split; [|exact HA']. rewrite E. unfold insert_or_keyword. rewrite G1. unfold is_keyword in Hs. rewrite Hs, EV. reflexivity.
    - (* identifier *)
      destruct k; try discriminate Hs. apply orb_true_iff in Hs. destruct Hs as [Hs|Hs].
      + unfold basic_ident_ok in Hs. destruct (validate_basic_identifier n) eqn:EV; [discriminate|]. apply negb_true_iff in Hs.
        destruct (vbi_ok _ EV) as [G3 G4].
        assert (H92 : hd_is n 92 = false).
        { destruct n as [|a n1]; [reflexivity|]. cbn [hd_sat hd_is] in *. unfold is_alpha, is_lower, is_upper, in_range in G3. lia. }
        assert (ET : ext_ident_text n = n).
        { destruct n as [|a n1]; [reflexivity|]. cbn [hd_is] in H92. unfold ext_ident_text. rewrite H92. reflexivity. }
        rewrite ET in HA. rewrite H92 in Hf. unfold ident_follow in Hf. apply andb_true_iff in Hf. destruct Hf as [Hf1 Hf2].
        apply negb_true_iff in Hf1, Hf2.
        destruct (pt_ident d HD F start last st n rest G3 G4 HL' Hf1 Hf2 HA (fuel_at _ _ HA)) as [st' [E HA']].
        exists st'. split; [|exact HA']. rewrite E. unfold insert_or_keyword. unfold is_keyword in Hs. rewrite Hs, EV. reflexivity.
      + destruct (ext_ident_shape _ Hs) as [v [En [Hv [Hnl ET]]]]. rewrite ET in HA.
        assert (H92 : hd_is n 92 = true) by (rewrite En; reflexivity). rewrite H92 in Hf. apply negb_true_iff in Hf.
        cbn [app] in HA. rewrite <- app_assoc in HA. cbn [app] in HA.
        assert (Hfu' : Nat.lt (length (92 :: escape 92 v ++ 92 :: rest)) F) by (apply (fuel_at _ _ HA)).
        destruct (pt_extid d HD F start last st v rest Hv Hnl HL' Hf HA Hfu') as [st' [E HA']].
        exists st'. split; [|exact HA']. rewrite E, En. reflexivity.
    - (* string *)
      destruct k; try discriminate Hs. apply negb_true_iff in Hf.
      assert (Hv : Forall (fun c => c < 256) s /\ forallb (fun c => negb (c =? 10)) s = true).
      { split.
        - apply Forall_forall. intros x Hx. rewrite forallb_forall in Hs. specialize (Hs x Hx). unfold lat in Hs. lia.
        - rewrite forallb_forall in Hs. apply forallb_forall. intros x Hx. specialize (Hs x Hx). unfold nonl in Hs. lia. }
      destruct Hv as [Hv Hnl]. cbn [app] in HA. rewrite <- app_assoc in HA. cbn [app] in HA.
      apply (pt_string d HD F); try assumption. apply (fuel_at _ _ HA).
    - destruct k; discriminate Hs.
    - (* integer *)
      destruct k; try discriminate Hs. unfold plain_int_ok in Hs. apply andb_true_iff in Hs. destruct Hs as [Hd Hs].
      destruct (dec_value 0 txt) as [v|] eqn:EV; [|discriminate]. apply N.eqb_eq in Hs. subst v.
      assert (Hdu : forallb is_du txt = true).
      { clear -EV. revert EV. generalize 0 as acc. induction txt as [|b txt IH]; intros acc EV; [reflexivity|].
        cbn [dec_value] in EV. cbn [forallb]. unfold is_du at 1. destruct (b =? 95) eqn:E95.
        - rewrite orb_true_r. apply (IH _ EV).
        - destruct (is_digit b); [|discriminate]. cbv zeta in EV. destruct (10 * acc + (b - 48) <? TWO64); [|discriminate].
          apply (IH _ EV). }
      apply (pt_int d HD F); try assumption. apply (fuel_at _ _ HA).
    - destruct k; discriminate Hs.
    - (* character *)
      destruct k; try discriminate Hs. apply andb_true_iff in Hs. destruct Hs as [Hc _]. unfold lat in Hc. cbn [app] in HA.
      apply (pt_char d HD F); [exact HA|lia|exact Hf].
    - destruct k; discriminate Hs.
  Qed.


End Toks.

(* a supported token's text starts with a character at which get_leading_comments stops *)
Lemma alpha_start : forall a r, is_alpha a || (a =? 95) = true -> start_ok (a :: r) = true.
Proof.
  intros a r H. cbn [start_ok]. unfold wsP. unfold is_alpha, is_lower, is_upper, in_range in H.
  replace (a <? 256) with true by lia. replace (a =? 47) with false by lia. replace (a =? 45) with false by lia.
  replace ((a =? 32) || (a =? 9) || true && (a =? 10)) with false by lia. reflexivity.
Qed.
Lemma tok_start_ok : forall t last rest, supported_kind t = true -> follow_ok last t rest = true ->
  start_ok (tok_text t ++ rest) = true /\ tok_text t <> [].
Proof.
  intros [k v ts te tl tt] last rest Hs Hf.
  unfold supported_kind in Hs. unfold follow_ok, follow_kv in Hf. unfold tok_text, tok_text_gen. cbn [t_kind t_val] in *.
  apply andb_true_iff in Hf. destruct Hf as [HL Hf].
  destruct v as [|n|s|? ? ? ?|txt n|?|c|?].
  - destruct k; try discriminate Hs; cbn [kind_text delim_text app follow_delim] in *;
      try (split; [reflexivity|discriminate]).
    + (* minus *) split; [|discriminate]. cbn [start_ok]. ev_closed. cbn [andb negb]. unfold wsP. ev_closed. cbn [andb orb negb].
      rewrite HL, Hf. reflexivity.
    + (* div *) split; [|discriminate]. cbn [start_ok]. ev_closed. unfold wsP. ev_closed. cbn [andb orb negb].
      rewrite HL. apply negb_true_iff in Hf. apply orb_false_iff in Hf. destruct Hf as [_ Hf]. rewrite Hf. reflexivity.
    + (* keyword *)
      pose proof (is_keyword_good _ Hs) as G. unfold kw_good in G.
      apply andb_true_iff in G. destruct G as [G G4]. apply andb_true_iff in G. destruct G as [G G3].
      destruct name as [|a n1]; [discriminate|]. cbn [hd_sat app] in *. split; [apply alpha_start; exact G3|discriminate].
  - destruct k; try discriminate Hs. apply orb_true_iff in Hs. destruct Hs as [Hs|Hs].
    + unfold basic_ident_ok in Hs. destruct (validate_basic_identifier n) eqn:EV; [discriminate|].
      destruct (vbi_ok _ EV) as [G3 G4]. destruct n as [|a n1]; [discriminate|]. cbn [hd_sat] in G3.
      assert (H92 : (a =? 92) = false) by (unfold is_alpha, is_lower, is_upper, in_range in G3; lia).
      unfold ext_ident_text. rewrite H92. cbn [andb app]. split; [apply alpha_start; exact G3|discriminate].
    + destruct (ext_ident_shape _ Hs) as [v [En [Hv [Hnl ET]]]]. rewrite ET. cbn [app]. split; [reflexivity|discriminate].
  - destruct k; try discriminate Hs. cbn [app]. split; [reflexivity|discriminate].
  - destruct k; discriminate Hs.
  - destruct k; try discriminate Hs. unfold plain_int_ok in Hs. apply andb_true_iff in Hs. destruct Hs as [Hd _].
    destruct txt as [|a t1]; [discriminate|]. cbn [hd_sat app] in *. split; [|discriminate].
    cbn [start_ok]. unfold wsP. unfold is_digit, in_range in Hd.
    replace (a <? 256) with true by lia. replace (a =? 47) with false by lia. replace (a =? 45) with false by lia.
    replace ((a =? 32) || (a =? 9) || true && (a =? 10)) with false by lia. reflexivity.
  - destruct k; discriminate Hs.
  - destruct k; try discriminate Hs. cbn [app]. split; [reflexivity|discriminate].
  - destruct k; discriminate Hs.
Qed.
Lemma supported_not_grave : forall t, supported_kind t = true -> is_grave (t_kind t) = false.
Proof.
  intros [k v ts te tl tt] Hs. unfold supported_kind in Hs. cbn [t_kind t_val] in *. destruct k; try reflexivity.
  destruct v; discriminate Hs.
Qed.

(* ---------- no CR in the text of a supported token ---------- *)
Definition nocr (s : list char) : bool := forallb (fun c => negb (c =? 13)) s.
(* ---------- the text of supported pieces has no CR; a piece has at least one character ---------- *)
Lemma nocr_app : forall a b, nocr (a ++ b) = nocr a && nocr b.
Proof. intros. unfold nocr. apply forallb_app. Qed.
Lemma nocr_escape : forall q v, (q =? 13) = false -> nocr v = true -> nocr (escape q v) = true.
Proof.
  intros q v Hq. induction v as [|c v IH]; intro H; [reflexivity|]. unfold nocr in *. cbn [forallb] in H. apply andb_true_iff in H.
  destruct H as [Hc H]. unfold escape. cbn [flat_map]. fold (escape q v). rewrite forallb_app, (IH H), andb_true_r.
  destruct (c =? q); cbn [forallb]; rewrite ?Hq, ?Hc; reflexivity.
Qed.
Lemma idc_nocr : forall n, forallb is_idc n = true -> nocr n = true.
Proof.
  intros n H. unfold nocr. rewrite forallb_forall in *. intros x Hx. specialize (H x Hx).
  unfold is_idc, is_alnum, is_alpha, is_lower, is_upper, is_digit, in_range in H. lia.
Qed.
Lemma supported_nocr : forall t, supported_kind t = true -> nocr (tok_text t) = true.
Proof.
  intros [k v ts te tl tt] Hs. unfold supported_kind in Hs. unfold tok_text, tok_text_gen. cbn [t_kind t_val] in *.
  destruct v as [|n|s|? ? ? ?|txt n|?|c|?].
  - destruct k; try discriminate Hs; try reflexivity. cbn [kind_text].
    pose proof (is_keyword_good _ Hs) as G. unfold kw_good in G. apply andb_true_iff in G. destruct G as [_ G]. apply idc_nocr. exact G.
  - destruct k; try discriminate Hs. apply orb_true_iff in Hs. destruct Hs as [Hs|Hs].
    + unfold basic_ident_ok in Hs. destruct (validate_basic_identifier n) eqn:EV; [discriminate|]. destruct (vbi_ok _ EV) as [G3 G4].
      destruct n as [|a n1]; [reflexivity|]. cbn [hd_sat] in G3.
      assert (H92 : (a =? 92) = false) by (unfold is_alpha, is_lower, is_upper, in_range in G3; lia).
      unfold ext_ident_text. rewrite H92. cbn [andb]. apply idc_nocr. exact G4.
    + destruct (ext_ident_shape _ Hs) as [v [En [Hv [Hnl ET]]]]. rewrite ET.
      assert (Hn : nocr v = true).
      { subst n. cbn [ext_ident_ok] in Hs. apply andb_true_iff in Hs. destruct Hs as [_ Hs].
        assert (E : removelast (v ++ [92]) = v) by (apply removelast_last). rewrite E in Hs.
        unfold nocr. rewrite forallb_forall in *. intros x Hx. specialize (Hs x Hx). unfold nonl in Hs. lia. }
      change (92 :: escape 92 v ++ [92]) with ([92] ++ escape 92 v ++ [92]). rewrite !nocr_app, (nocr_escape 92 v eq_refl Hn). reflexivity.
  - destruct k; try discriminate Hs.
    assert (Hn : nocr s = true).
    { unfold nocr. rewrite forallb_forall in *. intros x Hx. specialize (Hs x Hx). unfold nonl in Hs. lia. }
    change (34 :: escape 34 s ++ [34]) with ([34] ++ escape 34 s ++ [34]). rewrite !nocr_app, (nocr_escape 34 s eq_refl Hn). reflexivity.
  - destruct k; discriminate Hs.
  - destruct k; try discriminate Hs. unfold plain_int_ok in Hs. apply andb_true_iff in Hs. destruct Hs as [_ Hs].
    destruct (dec_value 0 txt) as [v|] eqn:EV; [|discriminate]. clear Hs. revert EV. generalize 0 as acc.
    induction txt as [|b txt IH]; intros acc EV; [reflexivity|]. cbn [dec_value] in EV. unfold nocr. cbn [forallb].
    destruct (b =? 95) eqn:E95.
    + replace (b =? 13) with false by lia. apply (IH _ EV).
    + destruct (is_digit b) eqn:Ed; [|discriminate]. cbv zeta in EV. destruct (10 * acc + (b - 48) <? TWO64); [|discriminate].
      replace (b =? 13) with false by (unfold is_digit, in_range in Ed; lia). apply (IH _ EV).
  - destruct k; discriminate Hs.
  - destruct k; try discriminate Hs. apply andb_true_iff in Hs. destruct Hs as [_ Hc]. unfold nocr. cbn [forallb]. rewrite Hc. reflexivity.
  - destruct k; discriminate Hs.
Qed.

(* ---------- what the round-trip proof needs of a token ---------- *)
(* `tok_good t`: t is not a tool directive, its text holds no CR and is not empty, starts with a character at
   which get_leading_comments stops, and parse_token reads it back — kind, value, no warning — whenever it is
   followed by a `rest` accepted by follow_ok.  Proved for the tokens of `supported_kind` (supported_good) and for
   every token the tokenizer produces from a diagnostic-free input (Lex/RenderFull.v). *)
Definition tok_good (t : token) : Prop :=
  is_grave (t_kind t) = false /\ nocr (tok_text t) = true /\
  (forall last rest, follow_ok last t rest = true -> start_ok (tok_text t ++ rest) = true /\ tok_text t <> []) /\
  (forall d, cdoc d -> forall F, (length (concat d) < F)%nat -> forall start last st rest,
     follow_ok last t rest = true -> At d st (tok_text t ++ rest) ->
     exists st', parse_token d keywords_2008 F true start last st = (Ok (Some (t_kind t, t_val t, None)), st') /\ At d st' rest).
Lemma supported_good : forall t, supported_kind t = true -> tok_good t.
Proof.
  intros t Hs. split; [apply supported_not_grave; exact Hs|]. split; [apply supported_nocr; exact Hs|]. split.
  - intros last rest Hf. apply (tok_start_ok t last rest Hs Hf).
  - intros d HD F HF start last st rest Hf HA. apply (pt_supported d HD F HF t start last st rest Hs Hf HA).
Qed.
Definition piece_good (p : piece) : Prop := match p with PLex t => tok_good t | _ => True end.
Definition pieces_good (ps : list piece) : Prop := Forall piece_good ps.
