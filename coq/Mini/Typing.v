(* Mini/Typing.v — the declarative typing judgment of MiniVHDL expressions and sequential statements on raw
   syntax, and the typed syntax built from it (definitions only).

   `HasTy G e a`: expression e has an interpretation of type a (overloading: ONE derivation = one choice of
   candidates).  `RootOk G t e`: e is legal as a complete context where type t is expected; besides
   `HasTy` + implicit conversion of universal_integer this needs `unamb` (there is no second
   interpretation) — a side condition that is not structural and that the generator decides by running the
   reference (`unamb` is a boolean).  `StmtsOk G ss`: the statements are legal in G.
   Typed syntax = raw syntax packaged with its derivation (`texpr G a = {e | HasTy G e a}` ...), erasure =
   first projection; the generator (Mini/Gen.v) builds typed syntax only, so Coq's type checker enforces that
   every emitted phrase has a derivation.  `MiniProofs.erase_WT`: derivations are sound for the reference
   semantics (`root`/`check_stmts` return Ok).

   Names, targets, procedure calls and case selectors have no overloading; for them the judgment uses the
   reference's own (deterministic) resolution as its premise. *)
From Coq Require Import List NArith Arith Bool.
Import ListNotations.
From RH Require Import Mini.Syntax Mini.Sem.
Open Scope N_scope.

Section Judgments.
Variable md : mode.
Variable GE : genv.

(* no second interpretation (trivially true in mode AtLeast) *)
Definition unamb (G : env) (t : sty) (e : expr) : bool :=
  match interp md GE G e with
  | Ok l => (count_fits t l <=? 1)%nat || crit md 2
  | Bad _ _ => true
  end.
Definition ord_array (op : binop) (t : sty) : bool :=
  match op, t with OLt, SArr _ _ _ _ => true | _, _ => false end.
Definition is_agg (e : expr) : bool := match e with EAgg _ _ => true | _ => false end.

Inductive HasTy (G : env) : expr -> sty -> Prop :=
| HT_Int : forall i v, HasTy G (EInt i v) SUInt
| HT_Bit : forall i b, HasTy G (EBit i b) SBit
| HT_Nam : forall n l a,
    interp_name md GE G n = Ok l -> existsb (sty_eqb a) l = true -> HasTy G (ENam n) a
| HT_Call : forall f a bs ps r,
    callee_bindings GE G f = Ok bs -> In (ps, r) (funs_of bs) ->
    ArgsOk G (map ps_name ps) (map ps_ty ps) a ->
    HasTy G (ECall f a) r
| HT_Bin : forall i op l r al ar t,
    HasTy G l al -> HasTy G r ar -> fits t al = true -> fits t ar = true ->
    sty_eqb al t || sty_eqb ar t = true ->
    op_class_ok op t = true -> ord_array op t = false -> ops_visible G t = true ->
    HasTy G (EBin i op l r) (op_result op t)
(* one operand an aggregate: its type is the one composite type of the other operand *)
| HT_BinAggR : forall i op l r li t,
    is_aggregate l = false -> is_aggregate r = true ->
    interp md GE G l = Ok li -> agg_type G op li = Some t -> RootOk G t r ->
    HasTy G (EBin i op l r) (op_result op t)
| HT_BinAggL : forall i op l r ri t,
    is_aggregate l = true -> is_aggregate r = false ->
    interp md GE G r = Ok ri -> agg_type G op ri = Some t -> RootOk G t l ->
    HasTy G (EBin i op l r) (op_result op t)
(* ordering of two arrays of discrete elements: whether it is defined depends on the element type of the array type,
   which the identity of a type value does not determine; the premise is the reference's own resolution *)
| HT_OrdArr : forall i l r lst,
    interp md GE G (EBin i OLt l r) = Ok lst -> existsb (sty_eqb SBool) lst = true ->
    HasTy G (EBin i OLt l r) SBool
| HT_Not : forall i e t,
    HasTy G e t -> (match t with SBool | SBit => true | _ => false end) = true -> HasTy G (ENot i e) t
| HT_Qual : forall tm e t,
    resolve_tmark GE G tm = Ok t -> RootOk G t e -> HasTy G (EQual tm e) t
(* actuals against formals (names ns, types ts): a positional prefix, then named actuals in formal order *)
with ArgsOk (G : env) : list ident -> list sty -> args -> Prop :=
| AO_Nil : ArgsOk G [] [] ANil
| AO_Pos : forall x ns t ts e a r,
    HasTy G e a -> fits t a = true -> ArgsOk G ns ts r -> ArgsOk G (x :: ns) (t :: ts) (ACons ChPos e r)
| AO_Named : forall ns ts r,
    nodup_idents ns = true -> NamedOk G ns ts r -> ArgsOk G ns ts r
with NamedOk (G : env) : list ident -> list sty -> args -> Prop :=
| NO_Nil : NamedOk G [] [] ANil
| NO_Cons : forall o ns t ts e a r,
    HasTy G e a -> fits t a = true -> NamedOk G ns ts r ->
    NamedOk G (o_id o :: ns) (t :: ts) (ACons (ChName o) e r)
with RootOk (G : env) : sty -> expr -> Prop :=
| RO_Expr : forall t e a,
    is_agg e = false -> HasTy G e a -> fits t a = true -> unamb G t e = true -> RootOk G t e
| RO_Rec : forall u n fs i els,
    (match els with ACons ChPos _ ANil => false | _ => true end) = true ->
    FieldsOk G fs fs els -> RootOk G (SRec u n fs) (EAgg i els)
| RO_Arr : forall u n len el i els,
    (match els with ACons ChPos _ ANil => false | _ => true end) = true ->
    ElemsOk G el (N.to_nat len) els -> RootOk G (SArr u n len el) (EAgg i els)
(* record aggregate: positional in field order, then named (any order), then possibly `others` for the remaining
   fields when they are of one type; every field once *)
with FieldsOk (G : env) : list (ident * sty) -> list (ident * sty) -> args -> Prop :=
| FO_Nil : forall all, FieldsOk G all [] ANil
| FO_Pos : forall all ft fs e r,
    RootOk G (snd ft) e -> FieldsOk G all fs r -> FieldsOk G all (ft :: fs) (ACons ChPos e r)
| FO_Named : forall all fs f x e r,
    find_field all f = Some x -> existsb (fun y => fst y =? o_id f) fs = true -> args_has_pos r = false ->
    RootOk G (snd x) e -> FieldsOk G all (filter (fun y => negb (fst y =? o_id f)) fs) r ->
    FieldsOk G all fs (ACons (ChName f) e r)
| FO_Others : forall all ft fs e,
    forallb (fun y => sty_eqb (snd y) (snd ft)) fs = true -> RootOk G (snd ft) e ->
    FieldsOk G all (ft :: fs) (ACons ChOthers e ANil)
with ElemsOk (G : env) : sty -> nat -> args -> Prop :=
| EO_Nil : forall el, ElemsOk G el 0 ANil
| EO_Pos : forall el n e r, RootOk G el e -> ElemsOk G el n r -> ElemsOk G el (S n) (ACons ChPos e r)
| EO_Others : forall el n e, RootOk G el e -> ElemsOk G el n (ACons ChOthers e ANil).

Scheme HasTy_mind := Minimality for HasTy Sort Prop
  with ArgsOk_mind := Minimality for ArgsOk Sort Prop
  with NamedOk_mind := Minimality for NamedOk Sort Prop
  with RootOk_mind := Minimality for RootOk Sort Prop
  with FieldsOk_mind := Minimality for FieldsOk Sort Prop
  with ElemsOk_mind := Minimality for ElemsOk Sort Prop.
Combined Scheme typing_mutind from HasTy_mind, ArgsOk_mind, NamedOk_mind, RootOk_mind, FieldsOk_mind, ElemsOk_mind.

Inductive StmtOk (G : env) : stmt -> Prop :=
| SO_Sig : forall i t e ty, check_target md GE G KSig t = Ok ty -> RootOk G ty e -> StmtOk G (SSig i t e)
| SO_Var : forall i t e ty, check_target md GE G KVar t = Ok ty -> RootOk G ty e -> StmtOk G (SVar i t e)
| SO_If : forall i c th el, RootOk G SBool c -> StmtsOk G th -> StmtsOk G el -> StmtOk G (SIf i c th el)
| SO_Case : forall i sel alts oth o,
    obj_name md GE G sel = Ok o ->
    (match snd o with SEnum _ _ _ | SInt | SIntT _ _ | SBool | SBit => true | _ => false end) = true ->
    nodup_keys (map cchoice_key (calts_choices alts)) = true ->
    AltsOk G (snd o) alts -> StmtsOk G oth -> StmtOk G (SCase i sel alts oth)
| SO_For : forall i v lo hi b G',
    declare (push G) v (BObj KConst MNone SInt) = Ok G' -> StmtsOk G' b -> StmtOk G (SFor i v lo hi b)
| SO_While : forall i c b, RootOk G SBool c -> StmtsOk G b -> StmtOk G (SWhile i c b)
| SO_Call : forall f a, check_stmt md GE G (SCall f a) = Ok tt -> StmtOk G (SCall f a)
| SO_RetF : forall i e t, e_ret G = Some (Some t) -> RootOk G t e -> StmtOk G (SRet i (Some e))
| SO_RetP : forall i, e_ret G = Some None -> StmtOk G (SRet i None)
| SO_Null : forall i, StmtOk G (SNull i)
with StmtsOk (G : env) : stmts -> Prop :=
| SSO_Nil : StmtsOk G SNil
| SSO_Cons : forall s r, StmtOk G s -> StmtsOk G r -> StmtsOk G (SCons s r)
with AltsOk (G : env) : sty -> calts -> Prop :=
| AL_Nil : forall t, AltsOk G t CANil
| AL_Cons : forall t cs b r,
    check_list (check_cchoice G t) cs = Ok tt -> StmtsOk G b -> AltsOk G t r -> AltsOk G t (CACons cs b r).

Scheme StmtOk_mind := Minimality for StmtOk Sort Prop
  with StmtsOk_mind := Minimality for StmtsOk Sort Prop
  with AltsOk_mind := Minimality for AltsOk Sort Prop.
Combined Scheme stmt_typing_mutind from StmtOk_mind, StmtsOk_mind, AltsOk_mind.

(* typed syntax: raw syntax together with its derivation; erasure is the first projection *)
Definition texpr (G : env) (a : sty) : Type := { e : expr | HasTy G e a }.
Definition troot (G : env) (t : sty) : Type := { e : expr | RootOk G t e }.
Definition tstmt (G : env) : Type := { s : stmt | StmtOk G s }.
Definition tstmts (G : env) : Type := { s : stmts | StmtsOk G s }.
Definition erase_expr {G a} (e : texpr G a) : expr := proj1_sig e.
Definition erase_root {G t} (e : troot G t) : expr := proj1_sig e.
Definition erase_stmt {G} (s : tstmt G) : stmt := proj1_sig s.
Definition erase_stmts {G} (s : tstmts G) : stmts := proj1_sig s.

End Judgments.
