(* Mini/Scope.v — abstract syntax of the scoped/overloaded program family of C07 and the
   SPECIFICATION of visibility (LRM 12.3 / 12.4, VHDL-2019 use clauses) and of overload
   resolution on that family.  Definitions only; nothing here mentions the data structures of the
   implementation (regions, hash maps, caches): `denotes` is a direct recursive definition of
   "the declarations a name denotes at a program point".

   Program points.  A design unit is a *flat* list of items; nested declarative regions are
   bracketed by `IOpen`/`IOpenFun` ... `IClose`.  A program point is the *chain* of the enclosing
   regions, innermost first, each given by the items that textually precede the point in that
   region (`list (list item)`).  The outermost element of a chain is the context clause of the
   unit (preceded by the implicit `use std.standard.all`).  A secondary unit (package body,
   architecture) continues the two regions of its primary unit.

   Rules (transcribed from the round-0 Python resolver that was validated against the analyser):
   - inner declarations hide outer ones; a non-overloadable declaration hides everything further
     out; overloadable declarations (functions/operators, enumeration literals) accumulate from
     the inside out unless an already collected one has the same profile;
   - directly visible declarations hide use-visible ones (an overloadable use-visible
     declaration is only hidden by a direct one with an equal profile);
   - use-visible: `use p.all` makes every declaration of package p potentially visible,
     `use p.n` those named n — and, for a type, its enumeration literals (VHDL-2019);
     potentially visible declarations become visible unless they conflict: if all are
     overloadable they all are; a single non-overloadable one is; two or more with a
     non-overloadable among them hide each other (CONFLICT);
   - an overloaded use resolves to the unique candidate whose parameter and result types fit.

   One reading choice (as in the validated resolver and in the implementation): "directly visible
   declarations hide use-visible ones" is taken over the declarations that ARE directly visible at
   the point.  An outer constant c hidden by an inner function c does not keep a use-visible
   function c of another profile from being visible, although the point lies in the immediate scope
   of the constant (LRM 12.4 a) read literally would hide it). *)
From Coq Require Import List NArith Bool.
Import ListNotations.
Open Scope N_scope.

(* ------------------------------------------------------------------------------------------ *)
(* Abstract syntax                                                                            *)
(* ------------------------------------------------------------------------------------------ *)

(* Designators (identifiers, operator symbols, character literals) are numbered by the harness. *)
Definition des := N.

(* Distinct base types.  TInt n: integer types (TInt 0 = STD.STANDARD.INTEGER); TOth n: every other
   type (enumeration types; TOth 0 = BOOLEAN, TOth 1 = CHARACTER, TOth 2 = REAL). *)
Inductive ty := TInt (n : N) | TOth (n : N).
Definition ty_eqb (a b : ty) : bool :=
  match a, b with
  | TInt x, TInt y => x =? y
  | TOth x, TOth y => x =? y
  | _, _ => false
  end.
Definition is_int (t : ty) : bool := match t with TInt _ => true | TOth _ => false end.

(* The single actual of a call / the operand of a unary operator: an integer literal (type
   universal_integer) or an expression of a known type. *)
Inductive arg := AUniv | ATy (t : ty).

Inductive kind :=
| KObj (t : ty)                            (* constant or parameter: not overloadable *)
| KFunc (p r : ty)                         (* function / operator with one parameter of type p, result r *)
| KLit (t : ty)                            (* enumeration literal of type t (a nullary function) *)
| KType (t : ty) (lits : list (N * des)).  (* type t; (id, designator) of its enumeration literals *)

(* edeclby = Some i: this entity is the body of the subprogram declaration with id i (only for
   the `f` of `IOpenFun f param`). *)
Record ent := mkEnt { eid : N; edes : des; ekind : kind; edeclby : option N }.

Inductive usage :=
| UVal (t : ty)             (* the name alone where a value of type t is expected *)
| UCall (a : arg) (t : ty)  (* name(actual) / unary-operator operand, result of type t expected *)
| UType                     (* the name as a type mark *)
| UCallX (x : xarg) (t : ty) (* name(actual) where the actual is itself a use site: an (overloaded)
                               name or a nested call; result of type t expected *)
with xarg :=
| XName (s : N) (d : des)            (* site s: the name d alone *)
| XCall (s : N) (d : des) (a : arg). (* site s: the call d(a) *)

Record site := mkSite { sid : N; sdes : des; suse : usage }.

Inductive item :=
| IDecl (e : ent)
| IUseAll (p : N)              (* use lib.p.all *)
| IUseName (p : N) (d : des)   (* use lib.p.d *)
| IUseCtx (c : N)              (* context lib.c : stands for the clauses of context declaration c, in place *)
| ISite (s : site)
| IOpen                        (* block / process / branch of an if generate / alternative of a case
                                  generate / for generate: a nested declarative region opens; regions
                                  opened one after the other in the same region are siblings and
                                  independent of each other *)
| IOpenFun (f param : ent)     (* function body: f is declared in the current region (unless it
                                  completes an earlier declaration), its region starts with param *)
| IClose.

Inductive ukind := UPrimary | USecondary (of_unit : N).
Record unit := mkUnit { uid : N; ukd : ukind; uctx : list item; ubody : list item }.
Definition program := list unit.

(* ------------------------------------------------------------------------------------------ *)
(* The slice of STD.STANDARD that shares designators with the family (unit 0)                  *)
(* ------------------------------------------------------------------------------------------ *)
Definition d_minus : des := 20.   (* "-" *)
Definition d_plus : des := 21.    (* "+" *)
Definition d_chr_a : des := 30.   (* 'a' *)
Definition d_chr_b : des := 31.   (* 'b' *)
Definition t_integer := TInt 0.
Definition t_boolean := TOth 0.
Definition t_character := TOth 1.
Definition t_real := TOth 2.
Definition std_decls : list item :=
  [ IDecl (mkEnt 900 d_chr_a (KLit t_character) None);
    IDecl (mkEnt 901 d_chr_b (KLit t_character) None);
    IDecl (mkEnt 902 d_minus (KFunc t_integer t_integer) None);
    IDecl (mkEnt 903 d_minus (KFunc t_real t_real) None);
    IDecl (mkEnt 904 d_plus (KFunc t_integer t_integer) None);
    IDecl (mkEnt 905 d_plus (KFunc t_real t_real) None) ].
Definition std_context : list item := [IUseAll 0].

(* ------------------------------------------------------------------------------------------ *)
(* Visibility                                                                                 *)
(* ------------------------------------------------------------------------------------------ *)
Definition overloadable (e : ent) : bool :=
  match ekind e with KFunc _ _ | KLit _ => true | _ => false end.

(* profile of an overloadable declaration: parameter type (if any) and result type *)
Definition oty_eqb (a b : option ty) : bool :=
  match a, b with
  | Some x, Some y => ty_eqb x y
  | None, None => true
  | _, _ => false
  end.
Definition profile (e : ent) : option ty * option ty :=
  match ekind e with
  | KFunc p r => (Some p, Some r)
  | KLit t => (None, Some t)
  | _ => (None, None)
  end.
Definition same_profile (a b : ent) : bool :=
  oty_eqb (fst (profile a)) (fst (profile b)) && oty_eqb (snd (profile a)) (snd (profile b)).

Definition item_decls (it : item) : list ent :=
  match it with IDecl e => [e] | _ => [] end.
Definition decls_of (pre : list item) : list ent := flat_map item_decls pre.
Definition named (d : des) (l : list ent) : list ent := filter (fun e => edes e =? d) l.

(* the enumeration literals that come with a type *)
Definition implicits (e : ent) : list ent :=
  match ekind e with
  | KType t lits => map (fun il => mkEnt (fst il) (snd il) (KLit t) None) lits
  | _ => []
  end.

Inductive dres :=
| DSingle (e : ent)          (* one non-overloadable declaration *)
| DOver (es : list ent)      (* a non-empty set of overloadable declarations *)
| DConflict                  (* hidden by conflicting use clauses *)
| DUndeclared.

Definition not_hidden_by (acc : list ent) (e : ent) : bool := negb (existsb (same_profile e) acc).

(* declarations of d that are directly visible: walk the chain from the inside out *)
Fixpoint direct (ch : list (list item)) (d : des) (acc : list ent) : ent + list ent :=
  match ch with
  | [] => inr acc
  | pre :: rest =>
      let ds := named d (decls_of pre) in
      match filter (fun e => negb (overloadable e)) ds with
      | n :: _ => match acc with [] => inl n | _ :: _ => inr acc end
      | [] => direct rest d (acc ++ filter (not_hidden_by acc) ds)
      end
  end.

Section WithPackages.
  (* pkgs p = the declarations of the declarative part of package p *)
  Variable pkgs : N -> list ent.

  Definition item_uses (d : des) (it : item) : list ent :=
    match it with
    | IUseAll p => named d (pkgs p)
    | IUseName p n => let es := named n (pkgs p) in named d (es ++ flat_map implicits es)
    | _ => []
    end.

  Fixpoint dedupe (seen : list N) (l : list ent) : list ent :=
    match l with
    | [] => []
    | e :: r => if existsb (N.eqb (eid e)) seen then dedupe seen r else e :: dedupe (eid e :: seen) r
    end.

  (* potentially visible declarations of d at the point, each once *)
  Definition use_visible (ch : list (list item)) (d : des) : list ent :=
    dedupe [] (flat_map (flat_map (item_uses d)) ch).

  Definition denotes (ch : list (list item)) (d : des) : dres :=
    let vis := use_visible ch d in
    match direct ch d [] with
    | inl n => DSingle n
    | inr (a :: acc) =>
        if forallb overloadable vis
        then DOver ((a :: acc) ++ filter (not_hidden_by (a :: acc)) vis)
        else DOver (a :: acc)
    | inr [] =>
        match vis with
        | [] => DUndeclared
        | e :: r =>
            if forallb overloadable vis then DOver vis
            else match r with [] => DSingle e | _ :: _ => DConflict end
        end
    end.
End WithPackages.

(* ------------------------------------------------------------------------------------------ *)
(* Overload resolution: the unique candidate whose parameter and result types fit              *)
(* ------------------------------------------------------------------------------------------ *)
Definition arg_fits (a : arg) (p : ty) : bool :=
  match a with AUniv => is_int p | ATy t => ty_eqb t p end.

Definition cand_fits (u : usage) (e : ent) : bool :=
  match u, ekind e with
  | UVal t, KObj t' => ty_eqb t t'
  | UVal t, KLit t' => ty_eqb t t'
  | UCall a t, KFunc p r => arg_fits a p && ty_eqb r t
  | UType, KType _ _ => true
  | _, _ => false
  end.

Inductive answer := ADecl (id : N) | AConflict | AUndeclared | AError.

Definition resolve (r : dres) (u : usage) : answer :=
  match r with
  | DConflict => AConflict
  | DUndeclared => AUndeclared
  | DSingle e => if cand_fits u e then ADecl (eid e) else AError
  | DOver es => match filter (cand_fits u) es with [e] => ADecl (eid e) | _ => AError end
  end.

(* A call whose actual is itself overloaded: the complete context is resolved as a whole.  An
   interpretation is a pair (f, e): f a visible function of the call name with result type t, e a
   visible meaning of the actual whose type is the parameter type of f.  Exactly one interpretation:
   both sites resolve; otherwise the line is in error (whatever the reason: nothing visible, no
   interpretation, several). *)
Definition typed_meanings (x : xarg) (ri : dres) : list (ent * ty) :=
  match x with
  | XName _ _ =>
      match ri with
      | DSingle e => match ekind e with KObj t => [(e, t)] | _ => [] end
      | DOver es => flat_map (fun e => match ekind e with KLit t => [(e, t)] | _ => [] end) es
      | _ => []
      end
  | XCall _ _ a =>
      match ri with
      | DOver es => flat_map (fun e => match ekind e with
                                       | KFunc p r => if arg_fits a p then [(e, r)] else []
                                       | _ => []
                                       end) es
      | _ => []
      end
  end.
Definition interpretations (ro ri : dres) (x : xarg) (t : ty) : list (ent * ent) :=
  match ro with
  | DOver fs =>
      flat_map (fun f => match ekind f with
                         | KFunc p r =>
                             if ty_eqb r t
                             then flat_map (fun m => if ty_eqb (snd m) p then [(f, fst m)] else [])
                                           (typed_meanings x ri)
                             else []
                         | _ => []
                         end) fs
  | _ => []
  end.
Definition resolve_x (ro ri : dres) (x : xarg) (t : ty) : answer * answer :=
  match interpretations ro ri x t with
  | [(f, e)] => (ADecl (eid f), ADecl (eid e))
  | _ => (match ro with DConflict => AConflict | DUndeclared => AUndeclared | _ => AError end, AError)
  end.
Definition xarg_sid (x : xarg) : N := match x with XName s _ => s | XCall s _ _ => s end.
Definition xarg_des (x : xarg) : des := match x with XName _ d => d | XCall _ d _ => d end.

(* ------------------------------------------------------------------------------------------ *)
(* Program points of a whole program: the reference resolver over all use sites                *)
(* ------------------------------------------------------------------------------------------ *)
(* finished primary units: uid -> (context-clause region, declarative region) *)
Definition utable := list (N * (list item * list item)).
Fixpoint tab_find (t : utable) (u : N) : option (list item * list item) :=
  match t with
  | [] => None
  | (k, v) :: r => if k =? u then Some v else tab_find r u
  end.
(* a context declaration is recorded like a primary unit whose declarative region holds its
   (already expanded) library/use clauses *)
Definition is_use (it : item) : bool :=
  match it with IUseAll _ | IUseName _ _ => true | _ => false end.
Definition tab_ctx (t : utable) (c : N) : list item :=
  match tab_find t c with Some (_, dp) => filter is_use dp | None => [] end.
Definition expand_item (t : utable) (it : item) : list item :=
  match it with IUseCtx c => tab_ctx t c | _ => [it] end.
Definition expand_items (t : utable) (its : list item) : list item := flat_map (expand_item t) its.
Definition tab_pkgs (t : utable) (p : N) : list ent :=
  match tab_find t p with Some (_, dp) => decls_of dp | None => [] end.

Definition std_table : utable := [(0, ([], std_decls))].

Definition push_top (it : item) (ch : list (list item)) : list (list item) :=
  match ch with
  | [] => []
  | pre :: rest => (pre ++ [it]) :: rest
  end.

(* one item at a point with chain ch; returns the new chain and the answers if the item is a site *)
Definition spec_item (tb : utable) (ch : list (list item)) (it : item)
  : list (list item) * list (N * answer) :=
  match it with
  | IDecl _ | IUseAll _ | IUseName _ _ => (push_top it ch, [])
  | IUseCtx c => (fold_left (fun ch' i => push_top i ch') (tab_ctx tb c) ch, [])
  | ISite s =>
      (ch, match suse s with
           | UCallX x t =>
               let '(ao, ai) := resolve_x (denotes (tab_pkgs tb) ch (sdes s))
                                          (denotes (tab_pkgs tb) ch (xarg_des x)) x t in
               [(sid s, ao); (xarg_sid x, ai)]
           | u => [(sid s, resolve (denotes (tab_pkgs tb) ch (sdes s)) u)]
           end)
  | IOpen => ([] :: ch, [])
  | IOpenFun f p =>
      ([IDecl p] :: match edeclby f with None => push_top (IDecl f) ch | Some _ => ch end, [])
  | IClose => (match ch with _ :: (_ :: _ :: _) as rest => rest | _ => ch end, [])
  end.

Fixpoint spec_items (t : utable) (ch : list (list item)) (its : list item)
  : list (list item) * list (N * answer) :=
  match its with
  | [] => (ch, [])
  | it :: r =>
      let '(ch1, o) := spec_item t ch it in
      let '(ch2, out) := spec_items t ch1 r in
      (ch2, o ++ out)
  end.

Definition unit_chain (t : utable) (u : unit) : list (list item) :=
  match ukd u with
  | UPrimary => [[]; std_context ++ expand_items t (uctx u)]
  | USecondary q =>
      match tab_find t q with
      | Some (rp, dp) => [dp; rp ++ expand_items t (uctx u)]
      | None => [[]; std_context ++ expand_items t (uctx u)]
      end
  end.

Definition spec_unit (t : utable) (u : unit) : utable * list (N * answer) :=
  let '(ch, out) := spec_items t (unit_chain t u) (ubody u) in
  let t' := match ukd u, ch with
            | UPrimary, [dp; rp] => (uid u, (rp, dp)) :: t
            | _, _ => t
            end in
  (t', out).

Fixpoint spec_units (t : utable) (us : list unit) : list (N * answer) :=
  match us with
  | [] => []
  | u :: r => let '(t', out) := spec_unit t u in out ++ spec_units t' r
  end.

Definition spec_program (p : program) : list (N * answer) := spec_units std_table p.

(* ------------------------------------------------------------------------------------------ *)
(* The family: side conditions under which the rules above are the whole story                  *)
(* ------------------------------------------------------------------------------------------ *)
(* no duplicate declarations in one region: homographs in a region are overloadable with
   pairwise distinct profiles *)
Fixpoint distinct_profiles (l : list ent) : bool :=
  match l with
  | [] => true
  | e :: r => negb (existsb (same_profile e) r) && distinct_profiles r
  end.
Definition homographs_ok (l : list ent) : bool :=
  match l with
  | [] | [_] => true
  | _ => forallb overloadable l && distinct_profiles l
  end.
Definition des_of (l : list ent) : list des := map edes l.
Definition region_ok (decls : list ent) : bool :=
  forallb (fun d => homographs_ok (named d decls)) (des_of decls).

(* the excluded corner (DESIGN.md C07): two potentially visible subprograms with EQUAL profiles
   from different packages.  LRM 12.4: neither is directly visible; the implementation keeps
   whichever its hash map yields last.  Programs with such a point are outside the family. *)
Definition no_equal_profiles (pkgs : N -> list ent) (ch : list (list item)) (d : des) : bool :=
  let vis := use_visible pkgs ch d in
  negb (forallb overloadable vis) || distinct_profiles vis.

(* membership of a whole program in the family, decided along the same scan as `spec_items`:
   every region is free of duplicate declarations at every moment, and no use site sees two
   potentially visible subprograms with equal profiles *)
Definition top_ok (ch : list (list item)) : bool :=
  match ch with
  | [] => false
  | pre :: _ => region_ok (decls_of pre)
  end.
Fixpoint family_items (t : utable) (ch : list (list item)) (its : list item) : bool :=
  match its with
  | [] => true
  | it :: r =>
      let ch1 := fst (spec_item t ch it) in
      let here :=
        match it with
        | IDecl _ => top_ok ch1
        | IOpenFun _ _ => top_ok ch1 && match ch1 with _ :: up => top_ok up | [] => false end
        | ISite s => no_equal_profiles (tab_pkgs t) ch (sdes s) &&
                     match suse s with
                     | UCallX x _ => no_equal_profiles (tab_pkgs t) ch (xarg_des x)
                     | _ => true
                     end
        | _ => true
        end in
      here && family_items t ch1 r
  end.
Fixpoint family_units (t : utable) (us : list unit) : bool :=
  match us with
  | [] => true
  | u :: r =>
      family_items t (unit_chain t u) (ubody u) && family_units (fst (spec_unit t u)) r
  end.
(* entity ids identify entities: pairwise distinct over the whole program, and the literal list
   of a type names declared literals of that type *)
Definition item_ents (it : item) : list ent :=
  match it with
  | IDecl e => [e]
  | IOpenFun f p => [f; p]
  | _ => []
  end.
Definition program_ents (p : program) : list ent :=
  decls_of std_decls ++ flat_map (fun u => flat_map item_ents (ubody u)) p.
Fixpoint distinct_ids (l : list ent) : bool :=
  match l with
  | [] => true
  | e :: r => negb (existsb (fun x => eid x =? eid e) r) && distinct_ids r
  end.
Definition kind_is_lit (t : ty) (e : ent) : bool :=
  match ekind e with KLit t' => ty_eqb t t' | _ => false end.
Definition lits_declared (all : list ent) (e : ent) : bool :=
  match ekind e with
  | KType t lits =>
      forallb (fun il => existsb (fun x => (eid x =? fst il) && (edes x =? snd il) && kind_is_lit t x) all) lits
  | _ => true
  end.
Definition ids_ok (p : program) : bool :=
  let all := program_ents p in distinct_ids all && forallb (lits_declared all) all.

Definition family_program (p : program) : bool := ids_ok p && family_units std_table p.

(* statistics for the non-triviality rule: number of directly visible and of potentially
   visible declarations of the site's designator *)
Definition site_stats (pkgs : N -> list ent) (ch : list (list item)) (d : des) : nat * nat :=
  (match direct ch d [] with inl _ => 1%nat | inr acc => length acc end,
   length (use_visible pkgs ch d)).
Fixpoint stats_items (t : utable) (ch : list (list item)) (its : list item) : list (N * (nat * nat)) :=
  match its with
  | [] => []
  | it :: r =>
      let rest := stats_items t (fst (spec_item t ch it)) r in
      match it with
      | ISite s => (sid s, site_stats (tab_pkgs t) ch (sdes s)) ::
                   match suse s with
                   | UCallX x _ => (xarg_sid x, site_stats (tab_pkgs t) ch (xarg_des x)) :: rest
                   | _ => rest
                   end
      | _ => rest
      end
  end.
Fixpoint stats_units (t : utable) (us : list unit) : list (N * (nat * nat)) :=
  match us with
  | [] => []
  | u :: r => stats_items t (unit_chain t u) (ubody u) ++ stats_units (fst (spec_unit t u)) r
  end.
Definition stats_program (p : program) : list (N * (nat * nat)) := stats_units std_table p.
