(* Mini/ScopeProofs.v — proofs about Mini/Scope.v, Mini/Overload.v, Mini/ScopeImpl.v
   Part 1: the lookup cache is coherent along every trace that follows the analysis discipline.
   Part 2: lookup_uncached on the scope chain of a program point refines Scope.denotes.
   Part 3: the staged disambiguation refines "the unique candidate whose types fit". *)
From Coq Require Import List NArith Bool Lia Permutation.
Import ListNotations.
From RH Require Import Mini.Scope Mini.Overload Mini.ScopeImpl.
Open Scope N_scope.

#[local] Arguments N.eqb : simpl never.

(* ------------------------------------------------------------------------------------------ *)
(* Part 1: cache coherence                                                                    *)
(* ------------------------------------------------------------------------------------------ *)

(* two scope chains that agree, frame by frame, on the immediate declarations of d and on the
   visibility give the same uncached lookup of d (in particular: caches are irrelevant) *)
Definition same_for (d : des) (f f' : frame) : Prop :=
  lookup_immediate f d = lookup_immediate f' d /\ r_vis (f_region f) = r_vis (f_region f').

Lemma lookup_enclosing_same : forall d s s',
  Forall2 (same_for d) s s' -> lookup_enclosing s d = lookup_enclosing s' d.
Proof.
  intros d s s' H. induction H as [|f f' s s' [Hi Hv] HF IH]; [reflexivity|].
  cbn [lookup_enclosing]. rewrite Hi, IH. reflexivity.
Qed.

Lemma lookup_visibility_same : forall d s s',
  Forall2 (same_for d) s s' -> forall acc, lookup_visibility_into s d acc = lookup_visibility_into s' d acc.
Proof.
  intros d s s' H. induction H as [|f f' s s' [Hi Hv] HF IH]; intros acc; [reflexivity|].
  cbn [lookup_visibility_into]. rewrite Hv. apply IH.
Qed.

Lemma lookup_uncached_same : forall d s s',
  Forall2 (same_for d) s s' -> lookup_uncached s d = lookup_uncached s' d.
Proof.
  intros d s s' H. unfold lookup_uncached, lookup_visible.
  rewrite (lookup_enclosing_same d s s' H), (lookup_visibility_same d s s' H). reflexivity.
Qed.

Lemma same_for_refl : forall d f, same_for d f f.
Proof. intros; split; reflexivity. Qed.
Lemma Forall2_same_refl : forall d s, Forall2 (same_for d) s s.
Proof. intros d s; induction s; constructor; auto using same_for_refl. Qed.

(* a nested scope starts transparent *)
Lemma ents_get_nil : forall d, ents_get [] d = None.
Proof. reflexivity. Qed.

Lemma lookup_uncached_nested : forall c s d,
  lookup_uncached (mkFrame region_empty c :: s) d = lookup_uncached s d.
Proof.
  intros c s d. unfold lookup_uncached, lookup_visible.
  cbn [lookup_enclosing lookup_visibility_into lookup_immediate f_region region_empty r_ents r_vis
       vis_lookup_into vis_empty v_all v_named fold_left ents_get vmap_get].
  reflexivity.
Qed.

(* Region::add only changes what its own designator denotes *)
Lemma ents_get_add_other : forall m e d, d <> edes e -> ents_get (ents_add m e) d = ents_get m d.
Proof.
  intros m e d Hd. induction m as [|[k n] r IH]; cbn [ents_add ents_get].
  - destruct (N.eqb_spec (edes e) d); [congruence|reflexivity].
  - destruct (N.eqb_spec k (edes e)) as [->|Hk]; cbn [ents_get].
    + destruct (N.eqb_spec (edes e) d); [congruence|reflexivity].
    + destruct (N.eqb_spec k d); [reflexivity|apply IH].
Qed.

Lemma same_for_add : forall c f e d, d <> edes e -> same_for d (frame_add c f e) f.
Proof.
  intros c f e d Hd. split; cbn [frame_add lookup_immediate f_region r_ents r_vis].
  - apply ents_get_add_other; exact Hd.
  - reflexivity.
Qed.

Lemma update_nth_same : forall c e d k s s',
  d <> edes e -> update_nth k (fun f => frame_add c f e) s = Some s' -> Forall2 (same_for d) s' s.
Proof.
  intros c e d k. induction k as [|k IH]; intros s s' Hd H; destruct s as [|f r]; cbn [update_nth] in H; try discriminate.
  - inversion H; subst. constructor; [apply same_for_add; exact Hd|apply Forall2_same_refl].
  - destruct (update_nth k _ r) as [r'|] eqn:E; [|discriminate]. inversion H; subst.
    constructor; [apply same_for_refl|]. eapply IH; eauto.
Qed.

(* --- the invariant ------------------------------------------------------------------------ *)
Definition keys_ok (cached : list des) (c : cache) : Prop :=
  forall d n, cache_get c d = Some n -> mem d cached = true.
Definition cache_ok (stale : list des) (c : cache) (s : scope) : Prop :=
  forall d n, cache_get c d = Some n -> mem d stale = false -> lookup_uncached s d = LOk n.

Fixpoint coherent (st : list dframe) (s : scope) : Prop :=
  match st, s with
  | [], [] => True
  | df :: st', f :: s' =>
      keys_ok (d_cached df) (f_cache f) /\ cache_ok (d_stale df) (f_cache f) (f :: s') /\ coherent st' s'
  | _, _ => False
  end.

Lemma mem_true_iff : forall d l, mem d l = true <-> In d l.
Proof.
  intros d l. unfold mem. rewrite existsb_exists. split.
  - intros [x [Hx He]]. apply N.eqb_eq in He. subst. exact Hx.
  - intros H. exists d. split; [exact H|apply N.eqb_refl].
Qed.
Lemma mem_cons : forall d x l, mem d (x :: l) = (d =? x) || mem d l.
Proof. reflexivity. Qed.
Lemma mem_del : forall d x l, mem d (del x l) = negb (d =? x) && mem d l.
Proof.
  intros d x l. unfold mem, del. induction l as [|y r IH]; cbn [filter existsb].
  - rewrite andb_false_r. reflexivity.
  - destruct (N.eqb_spec y x) as [->|Hy]; cbn [negb].
    + rewrite IH. destruct (N.eqb_spec d x) as [->|Hd]; cbn [negb andb orb]; reflexivity.
    + cbn [existsb]. rewrite IH.
      destruct (N.eqb_spec d y) as [->|Hd]; cbn [orb].
      * destruct (N.eqb_spec y x); [congruence|reflexivity].
      * reflexivity.
Qed.

Lemma cache_get_remove : forall c x d,
  cache_get (cache_remove c x) d = if d =? x then None else cache_get c d.
Proof.
  intros c x d. unfold cache_get, cache_remove. induction c as [|[k n] r IH]; cbn [filter ents_get fst].
  - destruct (d =? x); reflexivity.
  - destruct (N.eqb_spec k x) as [Hk|Hk]; cbn [negb].
    + rewrite IH. subst k. destruct (N.eqb_spec d x) as [Hd|Hd]; [reflexivity|].
      destruct (N.eqb_spec x d); [congruence|reflexivity].
    + cbn [ents_get]. rewrite IH. destruct (N.eqb_spec k d) as [Hkd|Hkd]; [|reflexivity].
      subst k. destruct (N.eqb_spec d x); [congruence|reflexivity].
Qed.

Lemma keys_ok_forget : forall cached c x, keys_ok cached c -> keys_ok (del x cached) (cache_remove c x).
Proof.
  intros cached c x H d n Hg. rewrite cache_get_remove in Hg.
  destruct (N.eqb_spec d x) as [->|Hd]; [discriminate|].
  rewrite mem_del. apply H in Hg. rewrite Hg.
  destruct (N.eqb_spec d x); [congruence|reflexivity].
Qed.

(* frames whose region is not touched keep their coherence when only caches of inner frames change *)
Lemma cache_ok_same : forall stale c s s',
  (forall d, Forall2 (same_for d) s' s) -> cache_ok stale c s -> cache_ok stale c s'.
Proof.
  intros stale c s s' HS H d n Hg Hm. rewrite (lookup_uncached_same d s' s (HS d)). apply H; assumption.
Qed.

Lemma coherent_length : forall st s, coherent st s -> length st = length s.
Proof.
  induction st as [|df st IH]; destruct s as [|f s]; cbn [coherent]; intros H; try contradiction; [reflexivity|].
  destruct H as [_ [_ H]]. cbn [length]. f_equal. apply IH; exact H.
Qed.

(* add k levels up *)
Lemma coherent_add : forall c e, add_invalidates c = true -> forall k st s st' s',
  coherent st s -> d_add k (edes e) st = Some st' ->
  update_nth k (fun f => frame_add c f e) s = Some s' -> coherent st' s'.
Proof.
  intros c e Hc k. induction k as [|k IH]; intros st s st' s' Hco Hd Hu;
    destruct st as [|df st0]; destruct s as [|f s0]; cbn [coherent] in Hco; try contradiction;
    cbn [d_add] in Hd; cbn [update_nth] in Hu; try discriminate.
  - inversion Hd; subst; clear Hd. inversion Hu; subst; clear Hu.
    destruct Hco as [Hk [Hok Hrest]]. cbn [coherent]. split; [|split; [|exact Hrest]].
    + cbn [frame_add f_cache d_forget d_cached]. rewrite Hc. apply keys_ok_forget; exact Hk.
    + intros d n Hg Hm. cbn [frame_add f_cache] in Hg. rewrite Hc in Hg.
      rewrite cache_get_remove in Hg. destruct (N.eqb_spec d (edes e)) as [->|Hde]; [discriminate|].
      cbn [d_forget d_stale] in Hm. rewrite mem_del in Hm.
      destruct (N.eqb_spec d (edes e)); [congruence|]. cbn [negb andb] in Hm.
      rewrite (lookup_uncached_same d (frame_add c f e :: s0) (f :: s0)).
      * apply Hok; assumption.
      * constructor; [apply same_for_add; exact Hde|apply Forall2_same_refl].
  - destruct (d_add k (edes e) st0) as [st0'|] eqn:Ed; [|discriminate]. inversion Hd; subst; clear Hd.
    destruct (update_nth k _ s0) as [s0'|] eqn:Eu; [|discriminate]. inversion Hu; subst; clear Hu.
    destruct Hco as [Hk [Hok Hrest]]. cbn [coherent]. split; [|split; [|eapply IH; eauto]].
    + unfold d_taint. destruct (mem (edes e) (d_cached df)); cbn [d_cached]; exact Hk.
    + intros d n Hg Hm.
      assert (Hde : d <> edes e).
      { intros ->. pose proof (Hk _ _ Hg) as Hin. unfold d_taint in Hm. rewrite Hin in Hm.
        cbn [d_stale] in Hm. rewrite mem_cons, N.eqb_refl in Hm. discriminate. }
      assert (Hm' : mem d (d_stale df) = false).
      { unfold d_taint in Hm. destruct (mem (edes e) (d_cached df)); cbn [d_stale] in Hm; [|exact Hm].
        rewrite mem_cons in Hm. apply orb_false_iff in Hm. tauto. }
      rewrite (lookup_uncached_same d (f :: s0') (f :: s0)).
      * apply Hok; assumption.
      * constructor; [apply same_for_refl|]. eapply update_nth_same; eauto.
Qed.

(* the whole-step lemma *)
Definition cfg_sound (c : cfg) : Prop := add_invalidates c = true /\ mpv_clears c = true.

Lemma keys_ok_nil : forall l, keys_ok l [].
Proof. intros l d n H. discriminate. Qed.
Lemma cache_ok_nil : forall l s, cache_ok l [] s.
Proof. intros l s d n H. discriminate. Qed.

Lemma lookup_uncached_cache_irrelevant : forall r c c' s d,
  lookup_uncached (mkFrame r c :: s) d = lookup_uncached (mkFrame r c' :: s) d.
Proof.
  intros. apply lookup_uncached_same. constructor; [split; reflexivity|apply Forall2_same_refl].
Qed.

Lemma coherent_step : forall c st s o st' s' res,
  cfg_sound c -> coherent st s -> dstep st o = Some st' -> exec c s o = Some (s', res) ->
  coherent st' s' /\ (forall d, o = OLookup d -> res = Some (lookup_uncached s d)).
Proof.
  intros c st s o st' s' res [Hca Hcm] Hco Hd He. destruct o; cbn [dstep exec] in Hd, He.
  - (* ORoot *) inversion Hd; inversion He; subst. split; [|intros; discriminate].
    cbn [coherent f_cache d_cached d_stale]. split; [apply keys_ok_nil|split; [apply cache_ok_nil|exact I]].
  - (* OExtend *)
    destruct st as [|df st0]; [discriminate|]. destruct s as [|f s0]; [discriminate|].
    inversion Hd; inversion He; subst. split; [|intros; discriminate].
    cbn [coherent f_cache d_cached d_stale]. split; [apply keys_ok_nil|split; [apply cache_ok_nil|exact Hco]].
  - (* ONested *)
    destruct st as [|df st0]; [discriminate|]. destruct s as [|f s0]; [discriminate|].
    inversion Hd; inversion He; subst. split; [|intros; discriminate].
    pose proof Hco as Hco'. cbn [coherent] in Hco'. destruct Hco' as [Hk [Hok _]].
    cbn [coherent f_cache]. split; [exact Hk|split; [|exact Hco]].
    intros d n Hg Hm. rewrite lookup_uncached_nested. apply Hok; assumption.
  - (* ODrop *)
    destruct st as [|df [|df1 st0]]; try discriminate.
    destruct s as [|f [|f1 s0]]; try discriminate; cbn [coherent] in Hco; try tauto.
    inversion Hd; inversion He; subst. split; [|intros; discriminate]. cbn [coherent]. tauto.
  - (* OAdd *)
    destruct (update_nth k _ s) as [s1|] eqn:Eu; [|discriminate]. inversion He; subst.
    split; [|intros; discriminate]. eapply coherent_add; eauto.
  - (* OMpv *)
    destruct st as [|df st0]; [discriminate|]. destruct s as [|f s0]; [discriminate|].
    inversion Hd; inversion He; subst. split; [|intros; discriminate].
    cbn [coherent] in Hco. destruct Hco as [_ [_ Hrest]].
    cbn [coherent frame_mpv f_cache d_cached d_stale]. rewrite Hcm.
    split; [apply keys_ok_nil|split; [apply cache_ok_nil|exact Hrest]].
  - (* OMapv *)
    destruct st as [|df st0]; [discriminate|]. destruct s as [|f s0]; [discriminate|].
    inversion Hd; inversion He; subst. split; [|intros; discriminate].
    cbn [coherent] in Hco. destruct Hco as [_ [_ Hrest]].
    cbn [coherent frame_mapv f_cache d_cached d_stale].
    split; [apply keys_ok_nil|split; [apply cache_ok_nil|exact Hrest]].
  - (* OUncache *)
    destruct st as [|df st0]; [discriminate|]. destruct s as [|f s0]; [discriminate|].
    inversion Hd; inversion He; subst. split; [|intros; discriminate].
    cbn [coherent] in Hco. destruct Hco as [Hk [Hok Hrest]].
    cbn [coherent frame_uncache f_cache d_forget d_cached d_stale].
    split; [apply keys_ok_forget; exact Hk|split; [|exact Hrest]].
    intros x n Hg Hm. rewrite cache_get_remove in Hg.
    destruct (N.eqb_spec x d) as [->|Hx]; [discriminate|].
    rewrite mem_del in Hm. destruct (N.eqb_spec x d); [congruence|]. cbn [negb andb] in Hm.
    destruct f as [r cch]. unfold frame_uncache. cbn [f_region f_cache] in *.
    rewrite (lookup_uncached_cache_irrelevant r _ cch). apply Hok; assumption.
  - (* OLookup *)
    destruct st as [|df st0]; [discriminate|]. destruct s as [|f s0]; [discriminate|].
    destruct (mem d (d_stale df)) eqn:Hst; [discriminate|]. inversion Hd; subst; clear Hd.
    cbn [coherent] in Hco. destruct Hco as [Hk [Hok Hrest]].
    unfold lookup in He. destruct (cache_get (f_cache f) d) as [n|] eqn:Hg.
    + inversion He; subst; clear He. split.
      * cbn [coherent d_cached d_stale]. split; [|split; [exact Hok|exact Hrest]].
        intros x m Hx. rewrite mem_cons. apply Hk in Hx. rewrite Hx. apply orb_true_r.
      * intros d' Hd'. inversion Hd'; subst. f_equal. symmetry. apply Hok; assumption.
    + destruct (lookup_uncached (f :: s0) d) as [n|er] eqn:Hl; inversion He; subst; clear He.
      * split; [|intros d' Hd'; inversion Hd'; subst; rewrite Hl; reflexivity].
        cbn [coherent d_cached d_stale f_cache]. split; [|split; [|exact Hrest]].
        -- intros x m Hx. rewrite mem_cons. unfold cache_get in Hx. cbn [ents_get] in Hx.
           destruct (N.eqb_spec d x) as [->|Hdx].
           ++ rewrite N.eqb_refl. reflexivity.
           ++ apply Hk in Hx. rewrite Hx. apply orb_true_r.
        -- intros x m Hx Hm. destruct f as [r cch]. cbn [f_region f_cache] in *.
           rewrite (lookup_uncached_cache_irrelevant r _ cch).
           unfold cache_get in Hx. cbn [ents_get] in Hx. destruct (N.eqb_spec d x) as [->|Hdx].
           ++ inversion Hx; subst. exact Hl.
           ++ apply Hok; assumption.
      * split; [|intros d' Hd'; inversion Hd'; subst; rewrite Hl; reflexivity].
        cbn [coherent d_cached d_stale]. split; [|split; [exact Hok|exact Hrest]].
        intros x m Hx. rewrite mem_cons. apply Hk in Hx. rewrite Hx. apply orb_true_r.
  - (* OCtx *)
    destruct st as [|df st0]; [discriminate|]. destruct s as [|f s0]; [discriminate|].
    inversion Hd; inversion He; subst. split; [|intros; discriminate].
    cbn [coherent] in Hco. destruct Hco as [_ [_ Hrest]].
    cbn [coherent frame_ctx f_cache d_cached d_stale].
    split; [apply keys_ok_nil|split; [apply cache_ok_nil|exact Hrest]].
Qed.

(* the reference semantics: no cache at all *)
Definition exec_ref (c : cfg) (s : scope) (o : op) : option (scope * option lres) :=
  match o with
  | OLookup d => match s with [] => None | _ :: _ => Some (s, Some (lookup_uncached s d)) end
  | _ => exec c s o
  end.
Fixpoint run_ref (c : cfg) (s : scope) (t : list op) : option (scope * list lres) :=
  match t with
  | [] => Some (s, [])
  | o :: r =>
      match exec_ref c s o with
      | None => None
      | Some (s1, res) =>
          match run_ref c s1 r with
          | None => None
          | Some (s2, out) => Some (s2, match res with Some x => x :: out | None => out end)
          end
      end
  end.

Lemma run_coherent : forall c t st s s' rs,
  cfg_sound c -> coherent st s -> disciplined st t -> run c s t = Some (s', rs) ->
  exists st', coherent st' s' /\ forall d, disciplined st (t ++ [OLookup d]) -> disciplined st' [OLookup d].
Proof.
  intros c t. induction t as [|o t IH]; intros st s s' rs Hc Hco Hd Hr.
  - cbn [run] in Hr. inversion Hr; subst. exists st. split; [exact Hco|]. intros d H. exact H.
  - cbn [run] in Hr. destruct (exec c s o) as [[s1 res]|] eqn:He; [|discriminate].
    destruct (run c s1 t) as [[s2 out]|] eqn:Hr2; [|discriminate]. inversion Hr; subst; clear Hr.
    inversion Hd as [|? ? st1 ? Hs Hd1]; subst.
    destruct (coherent_step c st s o st1 s1 res Hc Hco Hs He) as [Hco1 _].
    destruct (IH st1 s1 s' out Hc Hco1 Hd1 Hr2) as [st' [Hco' Hn]].
    exists st'. split; [exact Hco'|]. intros d H. apply Hn.
    cbn [app] in H. inversion H as [|? ? st1' ? Hs' Hd']; subst. rewrite Hs in Hs'. inversion Hs'; subst. exact Hd'.
Qed.

Theorem cache_coherent : forall t d s rs,
  disciplined [] (t ++ [OLookup d]) -> run cfg_now [] t = Some (s, rs) ->
  exists s', lookup s d = Some (lookup_uncached s d, s').
Proof.
  intros t d s rs Hd Hr.
  assert (Hd1 : disciplined [] t).
  { clear Hr. revert Hd. generalize (@nil dframe). induction t as [|o t IH]; intros st H; [constructor|].
    cbn [app] in H. inversion H; subst. econstructor; eauto. }
  destruct (run_coherent cfg_now t [] [] s rs) as [st' [Hco Hn]]; try assumption.
  - split; reflexivity.
  - exact I.
  - specialize (Hn d Hd). inversion Hn as [|? ? st2 ? Hs _]; subst.
    destruct (exec cfg_now s (OLookup d)) as [[s2 res]|] eqn:He.
    + destruct (coherent_step cfg_now st' s (OLookup d) st2 s2 res) as [_ Hres]; try assumption; [split; reflexivity|].
      specialize (Hres d eq_refl). subst res. cbn [exec] in He.
      destruct (lookup s d) as [[r s3]|]; [|discriminate]. inversion He; subst. exists s2. reflexivity.
    + exfalso. cbn [exec dstep] in He, Hs. destruct st' as [|df st0]; [discriminate|].
      destruct s as [|f s0]; [cbn [coherent] in Hco; contradiction|].
      unfold lookup in He. destruct (cache_get (f_cache f) d); [discriminate|].
      destruct (lookup_uncached (f :: s0) d); discriminate.
Qed.


(* the boolean checker used by the runner decides the inductive predicate *)
Lemma disciplined_b_sound : forall t st, disciplined_b st t = true <-> disciplined st t.
Proof.
  induction t as [|o t IH]; intros st; cbn [disciplined_b].
  - split; [constructor|reflexivity].
  - destruct (dstep st o) as [st'|] eqn:E.
    + rewrite IH. split; intros H.
      * econstructor; eauto.
      * inversion H as [|? ? st1 ? Hs Hd]; subst. rewrite E in Hs. inversion Hs; subst. assumption.
    + split; [discriminate|]. intros H. inversion H as [|? ? st1 ? Hs Hd]; subst. rewrite E in Hs. discriminate.
Qed.

(* ------------------------------------------------------------------------------------------ *)
(* Part 3: overload resolution                                                                *)
(* ------------------------------------------------------------------------------------------ *)
Lemma ty_eqb_eq : forall a b, ty_eqb a b = true <-> a = b.
Proof.
  intros [x|x] [y|y]; cbn [ty_eqb]; try (split; [discriminate|intros H; inversion H]);
    rewrite N.eqb_eq; split; intros H; [subst|inversion H| subst |inversion H]; reflexivity.
Qed.
Lemma ty_eqb_refl : forall a, ty_eqb a a = true.
Proof. intros a. apply ty_eqb_eq. reflexivity. Qed.
Lemma oty_eqb_eq : forall a b, oty_eqb a b = true <-> a = b.
Proof.
  intros [x|] [y|]; cbn [oty_eqb]; try (split; [discriminate|intros H; inversion H]); try tauto.
  rewrite ty_eqb_eq. split; intros H; [subst|inversion H]; reflexivity.
Qed.
Lemma same_profile_eq : forall a b, same_profile a b = true <-> profile a = profile b.
Proof.
  intros a b. unfold same_profile. rewrite andb_true_iff, !oty_eqb_eq.
  destruct (profile a) as [p1 r1], (profile b) as [p2 r2]; cbn [fst snd].
  split; [intros [-> ->]; reflexivity|intros H; inversion H; auto].
Qed.

Lemma distinct_profiles_NoDup : forall l, distinct_profiles l = true <-> NoDup (map profile l).
Proof.
  induction l as [|e r IH]; cbn [distinct_profiles map].
  - split; [constructor|reflexivity].
  - rewrite andb_true_iff, IH, negb_true_iff. split.
    + intros [Hn Hd]. constructor; [|exact Hd]. intros Hin. apply in_map_iff in Hin.
      destruct Hin as [x [Hx Hin]]. assert (existsb (same_profile e) r = true); [|congruence].
      apply existsb_exists. exists x. split; [exact Hin|]. apply same_profile_eq. symmetry. exact Hx.
    + intros H. inversion H as [|? ? Hn Hd]; subst. split; [|exact Hd].
      destruct (existsb (same_profile e) r) eqn:E; [|reflexivity]. exfalso. apply Hn.
      apply existsb_exists in E. destruct E as [x [Hin Hx]]. apply in_map_iff. exists x.
      split; [|exact Hin]. symmetry. apply same_profile_eq. exact Hx.
Qed.

(* for overloadable declarations, fitting a call = surviving every stage's predicate *)
Lemma fits_call_stages : forall a t e, overloadable e = true ->
  cand_fits (UCall a t) e =
  is_function e && accepts_one_actual e && actual_ok implicit_possible a e && return_ok (Some t) e.
Proof.
  intros a t [i d k b] Ho. unfold overloadable in Ho. cbn [ekind] in Ho.
  destruct k as [ty0|p r|ty0|ty0 lits]; try discriminate;
    unfold cand_fits, is_function, accepts_one_actual, actual_ok, return_ok, return_type, formal; cbn [ekind].
  - unfold arg_fits, implicit_possible. destruct a; cbn [andb]; reflexivity.
  - reflexivity.
Qed.

Lemma filter_filter : forall {A} (f g : A -> bool) l, filter f (filter g l) = filter (fun x => g x && f x) l.
Proof.
  intros A f g l. induction l as [|x r IH]; [reflexivity|]. cbn [filter].
  destruct (g x); cbn [filter andb]; [destruct (f x); rewrite IH; reflexivity|exact IH].
Qed.
Lemma filter_ext_in' : forall {A} (f g : A -> bool) l, (forall x, In x l -> f x = g x) -> filter f l = filter g l.
Proof.
  intros A f g l H. induction l as [|x r IH]; [reflexivity|]. cbn [filter].
  rewrite (H x (or_introl eq_refl)). rewrite IH; [reflexivity|]. intros y Hy. apply H. right. exact Hy.
Qed.

Lemma forallb_In : forall {A} (f : A -> bool) l x, forallb f l = true -> In x l -> f x = true.
Proof. intros A f l x H Hin. rewrite forallb_forall in H. auto. Qed.

Definition stage1 (es : list ent) := filter is_function es.
Definition stage2 (es : list ent) := filter accepts_one_actual (stage1 es).
Definition stage3 a (es : list ent) := filter (actual_ok implicit_possible a) (stage2 es).
Definition stage4 a t (es : list ent) := filter (return_ok (Some t)) (stage3 a es).

Lemma stage4_fits : forall a t es, forallb overloadable es = true ->
  stage4 a t es = filter (cand_fits (UCall a t)) es.
Proof.
  intros a t es Ho. unfold stage4, stage3, stage2, stage1. rewrite !filter_filter.
  apply filter_ext_in'. intros x Hx. rewrite (fits_call_stages a t x (forallb_In _ _ _ Ho Hx)).
  rewrite !andb_assoc. reflexivity.
Qed.

Lemma in_stage_of_fits : forall a t es e, forallb overloadable es = true ->
  In e es -> cand_fits (UCall a t) e = true ->
  In e (stage1 es) /\ In e (stage2 es) /\ In e (stage3 a es) /\ In e (stage4 a t es).
Proof.
  intros a t es e Ho Hin Hf. rewrite (fits_call_stages a t e (forallb_In _ _ _ Ho Hin)) in Hf.
  apply andb_true_iff in Hf. destruct Hf as [Hf H4]. apply andb_true_iff in Hf. destruct Hf as [Hf H3].
  apply andb_true_iff in Hf. destruct Hf as [H1 H2].
  unfold stage4, stage3, stage2, stage1. repeat rewrite filter_In. tauto.
Qed.

Lemma disambiguate_stages : forall es a t,
  disambiguate es a (Some t) =
  match es with
  | [e] => Unambiguous e
  | _ =>
    match stage1 es with
    | [e] => Unambiguous e
    | [] => Failed
    | _ => match stage2 es with
           | [e] => Unambiguous e
           | [] => Failed
           | _ => match stage3 a es with
                  | [e] => Unambiguous e
                  | [] => Failed
                  | _ => match stage4 a t es with
                         | [e] => Unambiguous e
                         | [] => Failed
                         | _ => match filter (actual_ok strict_possible a) (stage4 a t es) with
                                | [e] => Unambiguous e
                                | [] => Ambiguous (stage4 a t es)
                                | _ => Ambiguous (filter (actual_ok strict_possible a) (stage4 a t es))
                                end
                         end
                  end
           end
    end
  end.
Proof. reflexivity. Qed.

Lemma singleton_of_in : forall (l : list ent) e x, In e l -> l = [x] -> x = e.
Proof. intros l e x Hin ->. destruct Hin as [H|[]]. exact H. Qed.

Lemma disambiguate_in : forall es a t x, disambiguate es a (Some t) = Unambiguous x -> In x es.
Proof.
  intros es a t x. rewrite disambiguate_stages.
  assert (H1 : forall y, In y (stage1 es) -> In y es) by (intros y Hy; apply filter_In in Hy; tauto).
  assert (H2 : forall y, In y (stage2 es) -> In y es) by (intros y Hy; apply filter_In in Hy; apply H1; tauto).
  assert (H3 : forall y, In y (stage3 a es) -> In y es) by (intros y Hy; apply filter_In in Hy; apply H2; tauto).
  assert (H4 : forall y, In y (stage4 a t es) -> In y es) by (intros y Hy; apply filter_In in Hy; apply H3; tauto).
  assert (H5 : forall y, In y (filter (actual_ok strict_possible a) (stage4 a t es)) -> In y es)
    by (intros y Hy; apply filter_In in Hy; apply H4; tauto).
  destruct es as [|e0 [|e1 r]]; [| intros H; inversion H; subst; left; reflexivity |].
  - cbn. discriminate.
  - set (es := e0 :: e1 :: r) in *.
    destruct (stage1 es) as [|a1 [|b1 r1]] eqn:E1; [discriminate| intros H; inversion H; subst; apply H1; left; reflexivity|].
    destruct (stage2 es) as [|a2 [|b2 r2]] eqn:E2; [discriminate| intros H; inversion H; subst; apply H2; left; reflexivity|].
    destruct (stage3 a es) as [|a3 [|b3 r3]] eqn:E3; [discriminate| intros H; inversion H; subst; apply H3; left; reflexivity|].
    destruct (stage4 a t es) as [|a4 [|b4 r4]] eqn:E4; [discriminate| intros H; inversion H; subst; apply H4; left; reflexivity|].
    destruct (filter (actual_ok strict_possible a) (a4 :: b4 :: r4)) as [|a5 [|b5 r5]] eqn:E5;
      [discriminate| intros H; inversion H; subst; apply H5; left; reflexivity| discriminate].
Qed.

Lemma disambiguate_unique_fit : forall es a t e,
  forallb overloadable es = true -> filter (cand_fits (UCall a t)) es = [e] ->
  disambiguate es a (Some t) = Unambiguous e.
Proof.
  intros es a t e Ho HF.
  assert (Hin : In e es /\ cand_fits (UCall a t) e = true).
  { assert (In e (filter (cand_fits (UCall a t)) es)) by (rewrite HF; left; reflexivity).
    apply filter_In in H. exact H. }
  destruct Hin as [Hin Hfit].
  destruct (in_stage_of_fits a t es e Ho Hin Hfit) as [I1 [I2 [I3 I4]]].
  rewrite disambiguate_stages. rewrite <- (stage4_fits a t es Ho) in HF.
  destruct es as [|e0 [|e1 r]]; [destruct Hin| destruct Hin as [->|[]]; reflexivity|].
  set (es := e0 :: e1 :: r) in *.
  destruct (stage1 es) as [|a1 [|b1 r1]] eqn:E1; [destruct I1| f_equal; apply (singleton_of_in [a1] e a1 I1 eq_refl) |].
  destruct (stage2 es) as [|a2 [|b2 r2]] eqn:E2; [destruct I2| f_equal; apply (singleton_of_in [a2] e a2 I2 eq_refl) |].
  destruct (stage3 a es) as [|a3 [|b3 r3]] eqn:E3; [destruct I3| f_equal; apply (singleton_of_in [a3] e a3 I3 eq_refl) |].
  rewrite HF. reflexivity.
Qed.

Lemma filter_length_le' : forall {A} (f : A -> bool) l, (length (filter f l) <= length l)%nat.
Proof. intros A f l. induction l as [|x r IH]; cbn [filter length]; [lia|]. destruct (f x); cbn [length]; lia. Qed.

Lemma NoDup_map_filter : forall {A B} (f : A -> B) (g : A -> bool) l, NoDup (map f l) -> NoDup (map f (filter g l)).
Proof.
  intros A B f g l. induction l as [|x r IH]; cbn [map filter]; intros H; [constructor|].
  inversion H as [|? ? Hn Hd]; subst. destruct (g x); cbn [map]; [|apply IH; exact Hd].
  constructor; [|apply IH; exact Hd]. intros Hin. apply Hn. apply in_map_iff in Hin.
  destruct Hin as [y [Hy Hin]]. apply filter_In in Hin. apply in_map_iff. exists y. tauto.
Qed.

(* two different fitting candidates are only possible for a universal integer actual *)
Lemma two_fits_universal : forall es a t x y r,
  NoDup (map profile es) -> filter (cand_fits (UCall a t)) es = x :: y :: r -> a = AUniv.
Proof.
  intros es a t x y r Hnd HF.
  pose proof (NoDup_map_filter profile (cand_fits (UCall a t)) es Hnd) as H. rewrite HF in H.
  assert (Hx : cand_fits (UCall a t) x = true /\ cand_fits (UCall a t) y = true).
  { assert (In x (filter (cand_fits (UCall a t)) es)) by (rewrite HF; left; reflexivity).
    assert (In y (filter (cand_fits (UCall a t)) es)) by (rewrite HF; right; left; reflexivity).
    rewrite filter_In in *. tauto. }
  destruct Hx as [Hx Hy]. destruct a as [|ta]; [reflexivity|exfalso].
  cbn [map] in H. inversion H as [|? ? Hn _]; subst. apply Hn. left.
  unfold cand_fits in Hx, Hy. unfold profile.
  destruct (ekind x) as [?|px rx|?|? ?]; try discriminate. destruct (ekind y) as [?|py ry|?|? ?]; try discriminate.
  cbn [arg_fits] in Hx, Hy. apply andb_true_iff in Hx, Hy. destruct Hx as [Hx1 Hx2], Hy as [Hy1 Hy2].
  apply ty_eqb_eq in Hx1, Hx2, Hy1, Hy2. subst. reflexivity.
Qed.

Lemma strict_universal_none : forall (l : list ent) t,
  (forall e, In e l -> cand_fits (UCall AUniv t) e = true) -> filter (actual_ok strict_possible AUniv) l = [].
Proof.
  intros l t H. induction l as [|e r IH]; [reflexivity|]. cbn [filter].
  assert (He : cand_fits (UCall AUniv t) e = true) by (apply H; left; reflexivity).
  unfold cand_fits in He. unfold actual_ok, formal. destruct (ekind e); try discriminate.
  cbn [strict_possible]. apply IH. intros x Hx. apply H. right. exact Hx.
Qed.

Lemma disambiguate_several_fit : forall es a t x y r,
  forallb overloadable es = true -> NoDup (map profile es) ->
  filter (cand_fits (UCall a t)) es = x :: y :: r ->
  disambiguate es a (Some t) = Ambiguous (x :: y :: r).
Proof.
  intros es a t x y r Ho Hnd HF.
  pose proof (two_fits_universal es a t x y r Hnd HF) as Ha. subst a.
  rewrite disambiguate_stages. pose proof (stage4_fits AUniv t es Ho) as H4. rewrite HF in H4.
  assert (L4 : (2 <= length (stage4 AUniv t es))%nat) by (rewrite H4; cbn [length]; lia).
  assert (L3 : (2 <= length (stage3 AUniv es))%nat).
  { unfold stage4 in L4. pose proof (filter_length_le' (return_ok (Some t)) (stage3 AUniv es)). lia. }
  assert (L2 : (2 <= length (stage2 es))%nat).
  { unfold stage3 in L3. pose proof (filter_length_le' (actual_ok implicit_possible AUniv) (stage2 es)). lia. }
  assert (L1 : (2 <= length (stage1 es))%nat).
  { unfold stage2 in L2. pose proof (filter_length_le' accepts_one_actual (stage1 es)). lia. }
  assert (L0 : (2 <= length es)%nat).
  { unfold stage1 in L1. pose proof (filter_length_le' is_function es). lia. }
  destruct es as [|e0 [|e1 r0]]; cbn [length] in L0; try lia.
  set (es := e0 :: e1 :: r0) in *.
  destruct (stage1 es) as [|a1 [|b1 r1]]; cbn [length] in L1; try lia.
  destruct (stage2 es) as [|a2 [|b2 r2]]; cbn [length] in L2; try lia.
  destruct (stage3 AUniv es) as [|a3 [|b3 r3]]; cbn [length] in L3; try lia.
  rewrite H4. rewrite (strict_universal_none (x :: y :: r) t); [reflexivity|].
  intros e He. rewrite <- HF in He. apply filter_In in He. tauto.
Qed.

(* ---- unary operators ---------------------------------------------------------------------- *)
Definition op1 (a : arg) (cs : list ent) := if longer_than_one cs then filter (actual_ok implicit_possible a) cs else cs.
Definition op2 (t : ty) (c1 : list ent) := if longer_than_one c1 then filter (return_ok (Some t)) c1 else c1.
Definition op3 (a : arg) (c2 : list ent) :=
  if longer_than_one c2 && all_same_return c2 then filter (actual_ok strict_possible a) c2 else c2.
Definition op5 (a : arg) (cs c4 : list ent) :=
  match c4 with
  | [] => match filter (actual_ok strict_possible a) cs with [e] => [e] | _ => [] end
  | _ => c4
  end.
Lemma disambiguate_op_stages : forall cs a t,
  disambiguate_op cs a (Some t) =
  match op5 a cs (op2 t (op3 a (op2 t (op1 a cs)))) with
  | [] => Failed
  | [e] => Unambiguous e
  | _ => Ambiguous (op5 a cs (op2 t (op3 a (op2 t (op1 a cs)))))
  end.
Proof. reflexivity. Qed.

Lemma lt1_length : forall {A} (l : list A), longer_than_one l = true <-> (2 <= length l)%nat.
Proof. intros A [|x [|y r]]; cbn [longer_than_one length]; split; try discriminate; try lia; reflexivity. Qed.
Lemma lt1_false : forall {A} (l : list A), longer_than_one l = false -> l = [] \/ exists x, l = [x].
Proof. intros A [|x [|y r]]; cbn [longer_than_one]; intros H; try discriminate; [left; reflexivity|right; eauto]. Qed.

(* candidates of an operator call all accept one actual and are functions *)
Lemma opcand_fits : forall a t e, accepts_one_actual e = true -> is_function e = true ->
  cand_fits (UCall a t) e = actual_ok implicit_possible a e && return_ok (Some t) e.
Proof.
  intros a t [i d k b]. unfold accepts_one_actual, is_function, formal, return_type, cand_fits, actual_ok, return_ok.
  cbn [ekind]. destruct k; try discriminate. intros _ _. unfold arg_fits, implicit_possible. destruct a; reflexivity.
Qed.

Lemma fits_is_opcand : forall a t e, cand_fits (UCall a t) e = true -> accepts_one_actual e && is_function e = true.
Proof.
  intros a t e H. unfold cand_fits in H. unfold accepts_one_actual, is_function, formal, return_type.
  destruct (ekind e); try discriminate. reflexivity.
Qed.

Lemma opcand_filter : forall a t es,
  filter (cand_fits (UCall a t)) (operator_candidates es) = filter (cand_fits (UCall a t)) es.
Proof.
  intros a t es. unfold operator_candidates. rewrite filter_filter. apply filter_ext_in'.
  intros x _. destruct (cand_fits (UCall a t) x) eqn:E; [|apply andb_false_r].
  rewrite (fits_is_opcand a t x E). reflexivity.
Qed.

Section OpStages.
  Variables (a : arg) (t : ty) (cs : list ent).
  Hypothesis Hcs : forall e, In e cs -> accepts_one_actual e = true /\ is_function e = true.

  Lemma op_fits_12 : forall e, In e cs ->
    cand_fits (UCall a t) e = actual_ok implicit_possible a e && return_ok (Some t) e.
  Proof. intros e He. destruct (Hcs e He). apply opcand_fits; assumption. Qed.

  Lemma op12_filter : filter (return_ok (Some t)) (filter (actual_ok implicit_possible a) cs)
                      = filter (cand_fits (UCall a t)) cs.
  Proof.
    rewrite filter_filter. apply filter_ext_in'. intros x Hx. rewrite (op_fits_12 x Hx). reflexivity.
  Qed.

  Lemma op_unique_fit : forall e, filter (cand_fits (UCall a t)) cs = [e] ->
    disambiguate_op cs a (Some t) = Unambiguous e.
  Proof.
    intros e HF. rewrite disambiguate_op_stages.
    assert (He : In e cs /\ cand_fits (UCall a t) e = true).
    { assert (In e (filter (cand_fits (UCall a t)) cs)) by (rewrite HF; left; reflexivity).
      apply filter_In in H. exact H. }
    destruct He as [Hin Hfit]. pose proof Hfit as Hfit'. rewrite (op_fits_12 e Hin) in Hfit'.
    apply andb_true_iff in Hfit'. destruct Hfit' as [P1 P2].
    assert (C2 : op2 t (op1 a cs) = [e]).
    { unfold op1. destruct (longer_than_one cs) eqn:L0.
      - assert (I1 : In e (filter (actual_ok implicit_possible a) cs)) by (apply filter_In; tauto).
        unfold op2. destruct (longer_than_one (filter (actual_ok implicit_possible a) cs)) eqn:L1.
        + rewrite op12_filter. exact HF.
        + destruct (lt1_false _ L1) as [E|[x E]]; rewrite E in *; [destruct I1|].
          destruct I1 as [->|[]]. reflexivity.
      - destruct (lt1_false _ L0) as [E|[x E]]; rewrite E in *; [destruct Hin|].
        destruct Hin as [->|[]]. reflexivity. }
    rewrite C2. reflexivity.
  Qed.

  Lemma op_several_fit : forall x y r, NoDup (map profile cs) ->
    filter (cand_fits (UCall a t)) cs = x :: y :: r -> disambiguate_op cs a (Some t) = Failed.
  Proof.
    intros x y r Hnd HF. pose proof (two_fits_universal cs a t x y r Hnd HF) as Ha.
    rewrite disambiguate_op_stages.
    assert (L0 : longer_than_one cs = true).
    { apply lt1_length. pose proof (filter_length_le' (cand_fits (UCall a t)) cs) as H. rewrite HF in H. cbn [length] in H. lia. }
    assert (L1 : longer_than_one (filter (actual_ok implicit_possible a) cs) = true).
    { apply lt1_length. pose proof (filter_length_le' (return_ok (Some t)) (filter (actual_ok implicit_possible a) cs)) as H.
      rewrite op12_filter, HF in H. cbn [length] in H. lia. }
    unfold op1. rewrite L0. unfold op2 at 2. rewrite L1. rewrite op12_filter, HF.
    assert (Hall : forall e, In e (x :: y :: r) -> cand_fits (UCall a t) e = true).
    { intros e He. rewrite <- HF in He. apply filter_In in He. tauto. }
    assert (Hsame : all_same_return (x :: y :: r) = true).
    { assert (forall e, In e (x :: y :: r) -> return_type e = Some t).
      { intros e He. specialize (Hall e He). unfold cand_fits in Hall. unfold return_type.
        destruct (ekind e); try discriminate. apply andb_true_iff in Hall. destruct Hall as [_ Hr].
        apply ty_eqb_eq in Hr. subst. reflexivity. }
      cbn [all_same_return]. apply forallb_forall. intros e He. apply oty_eqb_eq.
      rewrite (H e (or_intror He)), (H x (or_introl eq_refl)). reflexivity. }
    unfold op3. cbn [longer_than_one]. rewrite Hsame. cbn [andb]. subst a.
    rewrite (strict_universal_none (x :: y :: r) t Hall). unfold op2. cbn [longer_than_one]. unfold op5.
    assert (Hs : filter (actual_ok strict_possible AUniv) cs = []).
    { clear - Hcs. induction cs as [|e l IH]; [reflexivity|]. cbn [filter].
      destruct (Hcs e (or_introl eq_refl)) as [Ha _]. unfold actual_ok. unfold accepts_one_actual in Ha.
      destruct (formal e); [|discriminate]. cbn [strict_possible]. apply IH. intros z Hz. apply Hcs. right. exact Hz. }
    rewrite Hs. reflexivity.
  Qed.

  Lemma op_result_in : forall x, disambiguate_op cs a (Some t) = Unambiguous x -> In x cs.
  Proof.
    intros x. rewrite disambiguate_op_stages.
    assert (S1 : forall z, In z (op1 a cs) -> In z cs).
    { intros z. unfold op1. destruct (longer_than_one cs); [rewrite filter_In; tauto|auto]. }
    assert (S2 : forall l z, In z (op2 t l) -> In z l).
    { intros l z. unfold op2. destruct (longer_than_one l); [rewrite filter_In; tauto|auto]. }
    assert (S3 : forall l z, In z (op3 a l) -> In z l).
    { intros l z. unfold op3. destruct (longer_than_one l && all_same_return l); [rewrite filter_In; tauto|auto]. }
    assert (S5 : forall l z, (forall w, In w l -> In w cs) -> In z (op5 a cs l) -> In z cs).
    { intros l z Hl. unfold op5. destruct l as [|w l'].
      - destruct (filter (actual_ok strict_possible a) cs) as [|e [|e' r']] eqn:E.
        + intros [].
        + intros [<-|[]]. assert (In e (filter (actual_ok strict_possible a) cs)) by (rewrite E; left; reflexivity).
          apply filter_In in H. tauto.
        + intros [].
      - apply Hl. }
    set (c5 := op5 a cs (op2 t (op3 a (op2 t (op1 a cs))))).
    assert (H5 : forall z, In z c5 -> In z cs).
    { intros z. apply S5. intros w Hw. apply S1. apply S2. apply S3. apply S2. exact Hw. }
    destruct c5 as [|e [|e' r']]; try discriminate. intros H. inversion H; subst. apply H5. left. reflexivity.
  Qed.
End OpStages.

(* ---- what a use site observes refines `resolve` ------------------------------------------- *)
Definition agrees (m : mres) (a : answer) : Prop :=
  match a with
  | ADecl i => m = mkMres (Some i) MOk
  | AConflict => mclass_of m = MConflict
  | AUndeclared => mclass_of m = MUndeclared
  | AError => mclass_of m = MError
  end.

Inductive look_equiv : looked -> dres -> Prop :=
| le_single : forall e, look_equiv (LkSingle e) (DSingle e)
| le_over : forall m es, Permutation m es -> look_equiv (LkOver m) (DOver es)
| le_conflict : look_equiv LkConflict DConflict
| le_undeclared : look_equiv LkUndeclared DUndeclared.

Lemma perm_filter : forall {A} (f : A -> bool) l l', Permutation l l' -> Permutation (filter f l) (filter f l').
Proof.
  intros A f l l' H. induction H; cbn [filter].
  - constructor.
  - destruct (f x); [constructor|]; assumption.
  - destruct (f x), (f y); try apply Permutation_refl. apply perm_swap.
  - eapply Permutation_trans; eauto.
Qed.

Lemma perm_forallb : forall {A} (f : A -> bool) l l', Permutation l l' -> forallb f l' = true -> forallb f l = true.
Proof.
  intros A f l l' H Hf. apply forallb_forall. intros x Hx. rewrite forallb_forall in Hf. apply Hf.
  eapply Permutation_in; eauto.
Qed.

Lemma no_actuals_filter : forall t es, forallb overloadable es = true ->
  filter (fun e => callable_without_actuals e && is_function e && return_ok (Some t) e) es
  = filter (cand_fits (UVal t)) es.
Proof.
  intros t es Ho. apply filter_ext_in'. intros [i d k b] Hx. pose proof (forallb_In _ _ _ Ho Hx) as H.
  unfold overloadable in H. cbn [ekind] in H.
  unfold callable_without_actuals, is_function, return_ok, formal, return_type, cand_fits. cbn [ekind].
  destruct k; try discriminate; cbn [andb]; [reflexivity|]. apply eq_true_iff_eq. rewrite !ty_eqb_eq. split; congruence.
Qed.

Lemma typemark_filter : forall es, forallb overloadable es = true -> filter (cand_fits UType) es = [].
Proof.
  intros es Ho. induction es as [|e r IH]; [reflexivity|]. cbn [forallb] in Ho. apply andb_true_iff in Ho.
  destruct Ho as [He Hr]. cbn [filter]. unfold overloadable in He. unfold cand_fits.
  destruct (ekind e); try discriminate; apply IH; exact Hr.
Qed.

Inductive shape {A} : list A -> Type :=
| sh_nil : shape []
| sh_one : forall e, shape [e]
| sh_more : forall x y r, shape (x :: y :: r).
Definition shape_of {A} (l : list A) : shape l :=
  match l with [] => sh_nil | [e] => sh_one e | x :: y :: r => sh_more x y r end.

Definition in_fragment (d : des) (u : usage) (r : dres) : Prop :=
  match r with
  | DSingle e => is_operator d = false /\ overloadable e = false /\
                 match u, ekind e with UCall _ _, KType _ _ => False | _, _ => True end
  | DOver es => forallb overloadable es = true /\ NoDup (map profile es)
  | _ => True
  end.

Theorem site_result_refines_resolve : forall d u r r',
  look_equiv r r' -> in_fragment d u r' -> agrees (site_result d u r) (resolve r' u).
Proof.
  intros d u r r' H Hfr. destruct H as [e|m es Hp| |]; cbn [site_result resolve]; try reflexivity.
  - (* a single non-overloadable declaration *)
    destruct Hfr as [Hop [Hno Hty]]. rewrite Hop.
    assert (Hs : single_ok u e = cand_fits u e).
    { unfold single_ok, cand_fits. unfold overloadable in Hno.
      destruct u, (ekind e); try contradiction; try discriminate; try reflexivity.
      apply eq_true_iff_eq. rewrite !ty_eqb_eq. split; congruence. }
    rewrite Hs. destruct (cand_fits u e); reflexivity.
  - (* overloaded *)
    destruct Hfr as [Ho Hnd].
    assert (Hom : forallb overloadable m = true) by (eapply perm_forallb; eauto).
    assert (Hndm : NoDup (map profile m)).
    { eapply Permutation_NoDup; [|exact Hnd]. apply Permutation_map. apply Permutation_sym. exact Hp. }
    pose proof (perm_filter (cand_fits u) m es Hp) as HpF.
    destruct u as [t|a t| |x t].
    + (* value *)
      unfold disambiguate_no_actuals. rewrite (no_actuals_filter t m Hom).
      destruct (shape_of (filter (cand_fits (UVal t)) es)) as [|e|x y r0].
      * apply Permutation_sym in HpF; apply Permutation_nil in HpF. rewrite HpF. reflexivity.
      * apply Permutation_sym in HpF; apply Permutation_length_1_inv in HpF. rewrite HpF. reflexivity.
      * pose proof (Permutation_length HpF) as HL. cbn [length] in HL.
        destruct (filter (cand_fits (UVal t)) m) as [|x' [|y' r']]; cbn [length] in HL; try lia. reflexivity.
    + (* call *)
      destruct (shape_of (filter (cand_fits (UCall a t)) es)) as [|e|x y r0].
      * (* nothing fits: whatever is selected does not type-check *)
        apply Permutation_sym in HpF; apply Permutation_nil in HpF.
        assert (Hnone : forall z, In z m -> cand_fits (UCall a t) z = false).
        { intros z Hz. destruct (cand_fits (UCall a t) z) eqn:E; [|reflexivity].
          assert (In z (filter (cand_fits (UCall a t)) m)) by (apply filter_In; tauto). rewrite HpF in H. destruct H. }
        destruct (is_operator d).
        -- destruct (operator_candidates m) as [|c0 cs0] eqn:Ec; [reflexivity|].
           destruct (disambiguate_op (c0 :: cs0) a (Some t)) as [z| |] eqn:Ed; try reflexivity.
           assert (Hcs : forall e, In e (c0 :: cs0) -> accepts_one_actual e = true /\ is_function e = true).
           { intros e He. rewrite <- Ec in He. unfold operator_candidates in He. apply filter_In in He.
             destruct He as [_ He]. apply andb_true_iff in He. exact He. }
           pose proof (op_result_in a t (c0 :: cs0) z Ed) as Hz.
           assert (Hzm : In z m). { rewrite <- Ec in Hz. unfold operator_candidates in Hz. apply filter_In in Hz. tauto. }
           cbn [mclass_of]. rewrite <- (op_fits_12 a t (c0 :: cs0) Hcs z Hz). rewrite (Hnone z Hzm). reflexivity.
        -- destruct (disambiguate m a (Some t)) as [z| |] eqn:Ed; try reflexivity.
           pose proof (disambiguate_in m a t z Ed) as Hz. cbn [mclass_of].
           pose proof (fits_call_stages a t z (forallb_In _ _ _ Hom Hz)) as Hst.
           rewrite (Hnone z Hz) in Hst.
           assert (is_function z = true).
           { pose proof (forallb_In _ _ _ Hom Hz) as Hoz. unfold overloadable in Hoz. unfold is_function, return_type.
             destruct (ekind z); try discriminate; reflexivity. }
           rewrite H in Hst. cbn [andb] in Hst. rewrite <- Hst. reflexivity.
      * (* exactly one fits *)
        apply Permutation_sym in HpF; apply Permutation_length_1_inv in HpF.
        assert (Hfit : cand_fits (UCall a t) e = true /\ In e m).
        { assert (In e (filter (cand_fits (UCall a t)) m)) by (rewrite HpF; left; reflexivity).
          apply filter_In in H. tauto. }
        destruct Hfit as [Hfit Hem].
        destruct (is_operator d).
        -- pose proof (opcand_filter a t m) as Hcf. rewrite HpF in Hcf.
           destruct (operator_candidates m) as [|c0 cs0] eqn:Ec; [discriminate|].
           assert (Hcs : forall z, In z (c0 :: cs0) -> accepts_one_actual z = true /\ is_function z = true).
           { intros z He. rewrite <- Ec in He. unfold operator_candidates in He. apply filter_In in He.
             destruct He as [_ He]. apply andb_true_iff in He. exact He. }
           rewrite (op_unique_fit a t (c0 :: cs0) Hcs e Hcf).
           assert (Hec : In e (c0 :: cs0)).
           { assert (In e (filter (cand_fits (UCall a t)) (c0 :: cs0))) by (rewrite Hcf; left; reflexivity).
             apply filter_In in H. tauto. }
           rewrite <- (op_fits_12 a t (c0 :: cs0) Hcs e Hec), Hfit. reflexivity.
        -- rewrite (disambiguate_unique_fit m a t e Hom HpF).
           pose proof (fits_call_stages a t e (forallb_In _ _ _ Hom Hem)) as Hst. rewrite Hfit in Hst.
           symmetry in Hst. apply andb_true_iff in Hst. destruct Hst as [Hst H4].
           apply andb_true_iff in Hst. destruct Hst as [Hst H3]. apply andb_true_iff in Hst. destruct Hst as [H1 H2].
           rewrite H2, H3, H4. reflexivity.
      * (* several fit: ambiguous *)
        pose proof (Permutation_length HpF) as HL. cbn [length] in HL.
        destruct (filter (cand_fits (UCall a t)) m) as [|x' [|y' r']] eqn:EF; cbn [length] in HL; try lia.
        destruct (is_operator d).
        -- pose proof (opcand_filter a t m) as Hcf. rewrite EF in Hcf.
           destruct (operator_candidates m) as [|c0 cs0] eqn:Ec; [reflexivity|].
           assert (Hcs : forall z, In z (c0 :: cs0) -> accepts_one_actual z = true /\ is_function z = true).
           { intros z He. rewrite <- Ec in He. unfold operator_candidates in He. apply filter_In in He.
             destruct He as [_ He]. apply andb_true_iff in He. exact He. }
           assert (Hndc : NoDup (map profile (c0 :: cs0))).
           { rewrite <- Ec. unfold operator_candidates. apply NoDup_map_filter. exact Hndm. }
           rewrite (op_several_fit a t (c0 :: cs0) Hcs x' y' r' Hndc Hcf). reflexivity.
        -- rewrite (disambiguate_several_fit m a t x' y' r' Hom Hndm EF). reflexivity.
    + (* type mark *)
      rewrite (typemark_filter es Ho). reflexivity.
    + (* a call with an overloaded actual is resolved by site_result_x / resolve_x *)
      assert (Hn : filter (cand_fits (UCallX x t)) es = []).
      { clear. induction es as [|e r IH]; [reflexivity|]. cbn [filter]. unfold cand_fits at 1.
        destruct (ekind e); exact IH. }
      rewrite Hn. reflexivity.
Qed.

(* ------------------------------------------------------------------------------------------ *)
(* Part 2: lookup_uncached on the scope chain of a program point refines Scope.denotes         *)
(* ------------------------------------------------------------------------------------------ *)
Definition add_opt (o : option nament) (e : ent) : option nament :=
  Some (match o with None => named_new e | Some n => add_to n e end).

Lemma ents_get_add : forall m e d,
  ents_get (ents_add m e) d = if edes e =? d then add_opt (ents_get m d) e else ents_get m d.
Proof.
  intros m e d. destruct (N.eqb_spec (edes e) d) as [Hd|Hd].
  - subst d. induction m as [|[k n] r IH]; cbn [ents_add ents_get].
    + rewrite N.eqb_refl. reflexivity.
    + destruct (N.eqb_spec k (edes e)) as [Hk|Hk]; cbn [ents_get].
      * rewrite Hk, N.eqb_refl. reflexivity.
      * destruct (N.eqb_spec k (edes e)); [contradiction|]. exact IH.
  - apply ents_get_add_other. congruence.
Qed.

Lemma ents_get_fold_add : forall l m d,
  ents_get (fold_left ents_add l m) d = fold_left add_opt (named d l) (ents_get m d).
Proof.
  induction l as [|e r IH]; intros m d; [reflexivity|]. cbn [fold_left]. rewrite IH, ents_get_add.
  unfold named. cbn [filter]. destruct (edes e =? d); reflexivity.
Qed.

Lemma skey_profile : forall e, overloadable e = true -> subprogram_key e = profile e.
Proof.
  intros [i d k b]. unfold overloadable, subprogram_key, profile, formal, return_type. cbn [ekind].
  destruct k; try discriminate; reflexivity.
Qed.

Lemma key_of_is_profile : forall e x, overloadable e = true -> overloadable x = true ->
  key_of_is e x = same_profile e x.
Proof.
  intros e x He Hx. unfold key_of_is, skey_eqb. rewrite (skey_profile e He), (skey_profile x Hx).
  unfold same_profile. apply eq_true_iff_eq. rewrite !andb_true_iff, !oty_eqb_eq. split; intros [A B]; split; congruence.
Qed.

Lemma same_profile_sym : forall a b, same_profile a b = same_profile b a.
Proof. intros a b. apply eq_true_iff_eq. rewrite !same_profile_eq. split; congruence. Qed.

Lemma omap_get_none : forall m e, forallb overloadable m = true -> overloadable e = true ->
  not_hidden_by m e = true -> omap_get m e = None.
Proof.
  intros m e Hm He Hn. unfold omap_get. induction m as [|x r IH]; [reflexivity|].
  cbn [forallb] in Hm. apply andb_true_iff in Hm. destruct Hm as [Hx Hr].
  unfold not_hidden_by in Hn. cbn [existsb] in Hn. rewrite negb_orb in Hn. apply andb_true_iff in Hn.
  destruct Hn as [H1 H2]. cbn [find]. rewrite (key_of_is_profile e x He Hx).
  apply negb_true_iff in H1. rewrite H1. apply IH; assumption.
Qed.

(* the entities a region holds for d after the declarations l (no duplicate declarations) *)
Definition classify (l : list ent) : option nament :=
  match l with
  | [] => None
  | [e] => Some (named_new e)
  | _ => Some (NOver l)
  end.

Lemma fold_add_over : forall rest acc,
  forallb overloadable (acc ++ rest) = true -> distinct_profiles (acc ++ rest) = true -> acc <> [] ->
  fold_left add_opt rest (Some (NOver acc)) = Some (NOver (acc ++ rest)).
Proof.
  induction rest as [|e r IH]; intros acc Ho Hd Hne; [rewrite app_nil_r; reflexivity|].
  cbn [fold_left]. unfold add_opt at 2. cbn [add_to].
  assert (Hoe : overloadable e = true).
  { apply (forallb_In _ _ e Ho). apply in_or_app. right. left. reflexivity. }
  assert (Hoa : forallb overloadable acc = true).
  { apply forallb_forall. intros x Hx. apply (forallb_In _ _ x Ho). apply in_or_app. left. exact Hx. }
  unfold is_overloaded. unfold overloadable in Hoe. rewrite Hoe. fold (overloadable e) in Hoe.
  assert (Hnh : not_hidden_by acc e = true).
  { apply distinct_profiles_NoDup in Hd. rewrite map_app in Hd. cbn [map] in Hd.
    apply NoDup_remove_2 in Hd. unfold not_hidden_by. apply negb_true_iff.
    destruct (existsb (same_profile e) acc) eqn:E; [|reflexivity]. exfalso. apply Hd.
    apply existsb_exists in E. destruct E as [x [Hx Hs]]. apply in_or_app. left.
    apply in_map_iff. exists x. split; [|exact Hx]. symmetry. apply same_profile_eq. exact Hs. }
  unfold over_insert. rewrite (omap_get_none acc e Hoa Hoe Hnh).
  replace (acc ++ e :: r) with ((acc ++ [e]) ++ r) by (rewrite <- app_assoc; reflexivity).
  apply IH.
  - rewrite <- app_assoc. exact Ho.
  - rewrite <- app_assoc. exact Hd.
  - destruct acc; discriminate.
Qed.

Lemma fold_add_classify : forall l, homographs_ok l = true -> fold_left add_opt l None = classify l.
Proof.
  intros [|e [|e' r]] H; [reflexivity|reflexivity|].
  cbn [homographs_ok] in H. apply andb_true_iff in H. destruct H as [Ho Hd].
  assert (He : overloadable e = true) by (apply (forallb_In _ _ e Ho); left; reflexivity).
  assert (H1 : add_opt None e = Some (NOver [e])).
  { unfold add_opt, named_new, is_overloaded. unfold overloadable in He. rewrite He. reflexivity. }
  change (fold_left add_opt (e :: e' :: r) None) with (fold_left add_opt (e' :: r) (add_opt None e)).
  rewrite H1. cbn [classify].
  apply (fold_add_over (e' :: r) [e]); [exact Ho|exact Hd|discriminate].
Qed.

Section Point.
  Variable pkgs : N -> list ent.

  Lemma point_region_ents : forall pre r0,
    r_ents (fold_left (item_apply pkgs) pre r0) = fold_left ents_add (decls_of pre) (r_ents r0).
  Proof.
    induction pre as [|it pre IH]; intros r0; [reflexivity|]. cbn [fold_left]. rewrite IH.
    unfold decls_of. cbn [flat_map]. rewrite fold_left_app. destruct it; cbn [item_apply item_decls r_ents fold_left]; reflexivity.
  Qed.

  Lemma point_immediate : forall pre c d, homographs_ok (named d (decls_of pre)) = true ->
    lookup_immediate (mkFrame (point_region pkgs pre) c) d = classify (named d (decls_of pre)).
  Proof.
    intros pre c d H. unfold lookup_immediate, point_region. cbn [f_region].
    rewrite point_region_ents, ents_get_fold_add. cbn [region_empty r_ents ents_get].
    apply fold_add_classify. exact H.
  Qed.

  Lemma pkg_region_get : forall p d, homographs_ok (named d (pkgs p)) = true ->
    named_ents (ents_get (pkg_region pkgs p) d) = named d (pkgs p).
  Proof.
    intros p d H. unfold pkg_region. rewrite ents_get_fold_add. cbn [ents_get].
    rewrite (fold_add_classify _ H). destruct (named d (pkgs p)) as [|e [|e' r]]; cbn [classify named_ents]; try reflexivity.
    unfold named_new. destruct (is_overloaded e); reflexivity.
  Qed.
End Point.

(* ---- directly visible declarations --------------------------------------------------------- *)
Definition oplus (a b : list ent) : list ent := a ++ filter (not_hidden_by a) b.

Lemma omap_has_hidden : forall m e, forallb overloadable m = true -> overloadable e = true ->
  omap_has m e = negb (not_hidden_by m e).
Proof.
  intros m e Hm He. unfold omap_has, not_hidden_by. rewrite negb_involutive.
  induction m as [|x r IH]; [reflexivity|]. cbn [forallb] in Hm. apply andb_true_iff in Hm. destruct Hm as [Hx Hr].
  cbn [existsb]. rewrite (key_of_is_profile e x He Hx), (IH Hr). reflexivity.
Qed.

Lemma not_hidden_app : forall a b e, not_hidden_by (a ++ b) e = not_hidden_by a e && not_hidden_by b e.
Proof. intros a b e. unfold not_hidden_by. rewrite existsb_app, negb_orb. reflexivity. Qed.

Lemma with_visible_oplus : forall enc imm,
  forallb overloadable imm = true -> forallb overloadable enc = true -> NoDup (map profile enc) ->
  with_visible imm enc = oplus imm enc.
Proof.
  unfold with_visible, oplus. induction enc as [|e r IH]; intros imm Hi He Hnd; [cbn; rewrite app_nil_r; reflexivity|].
  cbn [forallb] in He. apply andb_true_iff in He. destruct He as [Hoe Hor].
  cbn [map] in Hnd. inversion Hnd as [|? ? Hn Hd]; subst.
  cbn [fold_left filter]. rewrite (omap_has_hidden imm e Hi Hoe).
  destruct (not_hidden_by imm e) eqn:Enh; cbn [negb].
  - rewrite IH; [|rewrite forallb_app; cbn [forallb]; rewrite Hi, Hoe; reflexivity|exact Hor|exact Hd].
    rewrite <- app_assoc. cbn [app]. f_equal. f_equal. apply filter_ext_in'. intros x Hx.
    rewrite not_hidden_app. unfold not_hidden_by at 2. cbn [existsb]. rewrite orb_false_r.
    destruct (same_profile x e) eqn:Es; [|rewrite andb_true_r; reflexivity].
    exfalso. apply Hn. apply in_map_iff. exists x. split; [|exact Hx]. apply same_profile_eq. exact Es.
  - apply IH; assumption.
Qed.

Lemma hidden_trans : forall a e x, same_profile e x = true -> not_hidden_by a x = false -> not_hidden_by a e = false.
Proof.
  intros a e x Hs Hx. unfold not_hidden_by in *. apply negb_false_iff in Hx. apply negb_false_iff.
  apply existsb_exists in Hx. destruct Hx as [y [Hy Hxy]]. apply existsb_exists. exists y. split; [exact Hy|].
  apply same_profile_eq. apply same_profile_eq in Hs, Hxy. congruence.
Qed.

Lemma oplus_assoc : forall a b c, oplus (oplus a b) c = oplus a (oplus b c).
Proof.
  intros a b c. unfold oplus. rewrite <- app_assoc. f_equal. rewrite filter_app. f_equal.
  rewrite filter_filter. apply filter_ext_in'. intros e He.
  rewrite not_hidden_app. destruct (not_hidden_by a e) eqn:Ea; cbn [andb]; [|rewrite andb_false_r; reflexivity].
  rewrite andb_true_r.
  (* e is not hidden by a: hidden by b iff hidden by the part of b that a does not hide *)
  change (negb (existsb (same_profile e) (filter (not_hidden_by a) b)) = negb (existsb (same_profile e) b)).
  f_equal. apply eq_true_iff_eq. rewrite !existsb_exists. split.
  - intros [x [Hx Hs]]. apply filter_In in Hx. exists x. tauto.
  - intros [x [Hx Hs]]. exists x. split; [|exact Hs]. apply filter_In. split; [exact Hx|].
    destruct (not_hidden_by a x) eqn:Ex; [reflexivity|]. rewrite (hidden_trans a e x Hs Ex) in Ea. discriminate.
Qed.

Lemma oplus_nil_r : forall a, oplus a [] = a.
Proof. intros a. unfold oplus. cbn [filter]. apply app_nil_r. Qed.
Lemma oplus_nil_l : forall b, oplus [] b = b.
Proof.
  intros b. unfold oplus. cbn [app]. induction b as [|e r IH]; [reflexivity|]. cbn [filter]. unfold not_hidden_by at 1.
  cbn [existsb negb]. f_equal. exact IH.
Qed.

Lemma oplus_overloadable : forall a b, forallb overloadable a = true -> forallb overloadable b = true ->
  forallb overloadable (oplus a b) = true.
Proof.
  intros a b Ha Hb. unfold oplus. rewrite forallb_app, Ha. cbn [andb]. apply forallb_forall. intros x Hx.
  apply filter_In in Hx. apply (forallb_In _ _ x Hb). tauto.
Qed.

Lemma NoDup_app_intro : forall {A} (l1 l2 : list A),
  NoDup l1 -> NoDup l2 -> (forall x, In x l1 -> ~ In x l2) -> NoDup (l1 ++ l2).
Proof.
  intros A l1 l2 H1 H2 Hd. induction l1 as [|x r IH]; [exact H2|]. cbn [app].
  inversion H1 as [|? ? Hn Hr]; subst. constructor.
  - intros Hin. apply in_app_or in Hin. destruct Hin as [Hin|Hin]; [contradiction|].
    apply (Hd x); [left; reflexivity|exact Hin].
  - apply IH; [exact Hr|]. intros y Hy. apply Hd. right. exact Hy.
Qed.

Lemma oplus_NoDup : forall a b, NoDup (map profile a) -> NoDup (map profile b) -> NoDup (map profile (oplus a b)).
Proof.
  intros a b Ha Hb. unfold oplus. rewrite map_app. apply NoDup_app_intro.
  - exact Ha.
  - apply NoDup_map_filter. exact Hb.
  - intros x Hx Hy. apply in_map_iff in Hx. destruct Hx as [z [Hz Hza]].
    apply in_map_iff in Hy. destruct Hy as [y [Hy Hyb]]. apply filter_In in Hyb. destruct Hyb as [_ Hnh].
    unfold not_hidden_by in Hnh. apply negb_true_iff in Hnh.
    assert (existsb (same_profile y) a = true); [|congruence].
    apply existsb_exists. exists z. split; [exact Hza|]. apply same_profile_eq. congruence.
Qed.

Inductive ds_shape (ds : list ent) : Prop :=
| dss_nil : ds = [] -> ds_shape ds
| dss_single : forall n, ds = [n] -> overloadable n = false -> ds_shape ds
| dss_over : ds <> [] -> forallb overloadable ds = true -> NoDup (map profile ds) -> ds_shape ds.

Lemma homographs_shape : forall ds, homographs_ok ds = true -> ds_shape ds.
Proof.
  intros [|e [|e' r]] H.
  - apply dss_nil. reflexivity.
  - destruct (overloadable e) eqn:E.
    + apply dss_over; [discriminate|cbn [forallb]; rewrite E; reflexivity|]. cbn [map]. constructor; [intros []|constructor].
    + eapply dss_single; [reflexivity|exact E].
  - cbn [homographs_ok] in H. apply andb_true_iff in H. destruct H as [Ho Hd].
    apply dss_over; [discriminate|exact Ho|apply distinct_profiles_NoDup; exact Hd].
Qed.

Lemma classify_over : forall ds, ds <> [] -> forallb overloadable ds = true -> classify ds = Some (NOver ds).
Proof.
  intros [|e [|e' r]] Hne Ho; [contradiction| |reflexivity].
  cbn [classify]. unfold named_new, is_overloaded. cbn [forallb] in Ho. rewrite andb_true_r in Ho.
  unfold overloadable in Ho. rewrite Ho. reflexivity.
Qed.

Lemma filter_nonover_over : forall ds, forallb overloadable ds = true -> filter (fun e => negb (overloadable e)) ds = [].
Proof.
  induction ds as [|e r IH]; intros H; [reflexivity|]. cbn [forallb] in H. apply andb_true_iff in H.
  destruct H as [He Hr]. cbn [filter]. rewrite He. cbn [negb]. apply IH. exact Hr.
Qed.

Inductive enc_inv : option nament -> Prop :=
| ei_none : enc_inv None
| ei_single : forall e, overloadable e = false -> enc_inv (Some (NSingle e))
| ei_over : forall l, l <> [] -> forallb overloadable l = true -> NoDup (map profile l) -> enc_inv (Some (NOver l)).

Section Point2.
  Variable pkgs : N -> list ent.
  Definition regions_ok (ch : list (list item)) (d : des) : Prop :=
    Forall (fun pre => homographs_ok (named d (decls_of pre)) = true) ch.

  Lemma oplus_nonempty : forall a b, a <> [] -> oplus a b <> [].
  Proof. intros [|x a] b H; [contradiction|discriminate]. Qed.

  Lemma lookup_enclosing_inv : forall ch d, regions_ok ch d -> enc_inv (lookup_enclosing (point_scope pkgs ch) d).
  Proof.
    induction ch as [|pre rest IH]; intros d H; [constructor|]. inversion H as [|? ? Hp Hr]; subst.
    specialize (IH d Hr). cbn [point_scope map lookup_enclosing]. rewrite (point_immediate pkgs pre [] d Hp).
    destruct (homographs_shape _ Hp) as [E|n E Hn|Hne Ho Hnd].
    - rewrite E. cbn [classify]. exact IH.
    - rewrite E. cbn [classify]. unfold named_new, is_overloaded. unfold overloadable in Hn. rewrite Hn.
      constructor. exact Hn.
    - rewrite (classify_over _ Hne Ho). fold (point_scope pkgs rest).
      destruct IH as [|e He|l Hl Hlo Hln].
      + constructor; assumption.
      + constructor; assumption.
      + rewrite (with_visible_oplus l _ Ho Hlo Hln). constructor.
        * apply oplus_nonempty. exact Hne.
        * apply oplus_overloadable; assumption.
        * apply oplus_NoDup; assumption.
  Qed.

  Lemma direct_enclosing : forall ch d, regions_ok ch d -> forall acc,
    direct ch d acc =
    match lookup_enclosing (point_scope pkgs ch) d with
    | Some (NSingle n) => match acc with [] => inl n | _ :: _ => inr acc end
    | Some (NOver enc) => inr (oplus acc enc)
    | None => inr acc
    end.
  Proof.
    induction ch as [|pre rest IH]; intros d H acc; [reflexivity|]. inversion H as [|? ? Hp Hr]; subst.
    pose proof (lookup_enclosing_inv rest d Hr) as Hinv. specialize (IH d Hr).
    cbn [point_scope map lookup_enclosing direct]. rewrite (point_immediate pkgs pre [] d Hp).
    fold (point_scope pkgs rest).
    destruct (homographs_shape _ Hp) as [E|n E Hn|Hne Ho Hnd].
    - rewrite E. cbn [classify filter]. rewrite app_nil_r. apply IH.
    - rewrite E. cbn [classify filter]. rewrite Hn. cbn [negb]. unfold named_new, is_overloaded.
      unfold overloadable in Hn. rewrite Hn. reflexivity.
    - rewrite (filter_nonover_over _ Ho), (classify_over _ Hne Ho).
      change (acc ++ filter (not_hidden_by acc) (named d (decls_of pre))) with (oplus acc (named d (decls_of pre))).
      rewrite IH. destruct Hinv as [|e He|l Hl Hlo Hln].
      + reflexivity.
      + destruct (oplus acc (named d (decls_of pre))) eqn:E; [|reflexivity].
        exfalso. destruct acc as [|x acc].
        * rewrite oplus_nil_l in E. contradiction.
        * discriminate.
      + rewrite (with_visible_oplus l _ Ho Hlo Hln). rewrite oplus_assoc. reflexivity.
  Qed.
End Point2.

(* ---- potentially visible declarations ------------------------------------------------------- *)
Definition ids_consistent (l : list ent) : Prop := forall x y, In x l -> In y l -> eid x = eid y -> x = y.

Lemma ids_consistent_incl : forall l l', (forall x, In x l -> In x l') -> ids_consistent l' -> ids_consistent l.
Proof. intros l l' H Hc x y Hx Hy. apply Hc; auto. Qed.

Lemma visible_insert_spec : forall acc e,
  visible_insert acc e = if existsb (fun x => eid x =? eid e) acc then acc else acc ++ [e].
Proof. reflexivity. Qed.

Lemma fold_insert_in : forall l acc e, ids_consistent (acc ++ l) ->
  (In e (fold_left visible_insert l acc) <-> In e acc \/ In e l).
Proof.
  induction l as [|x r IH]; intros acc e Hc; cbn [fold_left].
  - cbn [In]. tauto.
  - rewrite visible_insert_spec. destruct (existsb (fun y => eid y =? eid x) acc) eqn:E.
    + rewrite IH.
      * cbn [In]. split; [tauto|]. intros [H|[H|H]]; auto. subst e. left.
        apply existsb_exists in E. destruct E as [y [Hy He]]. apply N.eqb_eq in He.
        assert (Hyx : y = x) by (apply Hc; [apply in_or_app; left; exact Hy|apply in_or_app; right; left; reflexivity|exact He]).
        subst y. exact Hy.
      * eapply ids_consistent_incl; [|exact Hc]. intros z Hz. apply in_app_or in Hz. apply in_or_app.
        destruct Hz; [left|right; right]; assumption.
    + rewrite IH.
      * rewrite in_app_iff. cbn [In]. tauto.
      * eapply ids_consistent_incl; [|exact Hc]. intros z Hz. rewrite <- app_assoc in Hz. exact Hz.
Qed.

Lemma fold_insert_nodup : forall l acc, NoDup (map eid acc) -> NoDup (map eid (fold_left visible_insert l acc)).
Proof.
  induction l as [|x r IH]; intros acc H; [exact H|]. cbn [fold_left]. apply IH.
  rewrite visible_insert_spec. destruct (existsb (fun y => eid y =? eid x) acc) eqn:E; [exact H|].
  rewrite map_app. cbn [map]. apply NoDup_app_intro; [exact H|constructor; [intros []|constructor]|].
  intros i Hi [Hx|[]]. subst i. apply in_map_iff in Hi. destruct Hi as [y [Hy Hin]].
  assert (existsb (fun y => eid y =? eid x) acc = true); [|congruence].
  apply existsb_exists. exists y. split; [exact Hin|]. apply N.eqb_eq. exact Hy.
Qed.

Lemma dedupe_in : forall l seen e, In e (dedupe seen l) -> In e l /\ ~ In (eid e) seen.
Proof.
  induction l as [|x r IH]; intros seen e H; cbn [dedupe] in H; [destruct H|].
  destruct (existsb (N.eqb (eid x)) seen) eqn:E.
  - apply IH in H. cbn [In]. tauto.
  - destruct H as [H|H].
    + subst e. split; [left; reflexivity|]. intros Hin.
      assert (existsb (N.eqb (eid x)) seen = true); [|congruence]. apply existsb_exists. exists (eid x).
      split; [exact Hin|apply N.eqb_refl].
    + apply IH in H. cbn [In] in H. split; [right; tauto|tauto].
Qed.

Lemma dedupe_complete : forall l seen e, ids_consistent l -> In e l -> ~ In (eid e) seen -> In e (dedupe seen l).
Proof.
  induction l as [|x r IH]; intros seen e Hc Hin Hs; [destruct Hin|]. cbn [dedupe].
  assert (Hcr : ids_consistent r) by (eapply ids_consistent_incl; [|exact Hc]; intros z Hz; right; exact Hz).
  destruct (existsb (N.eqb (eid x)) seen) eqn:E.
  - destruct Hin as [Hx|Hin]; [|apply IH; assumption]. subst e. exfalso. apply Hs.
    apply existsb_exists in E. destruct E as [i [Hi He]]. apply N.eqb_eq in He. subst i. exact Hi.
  - destruct Hin as [Hx|Hin]; [left; exact Hx|].
    destruct (N.eq_dec (eid e) (eid x)) as [He|He].
    + left. symmetry. apply Hc; [right; exact Hin|left; reflexivity|exact He].
    + right. apply IH; [exact Hcr|exact Hin|]. intros [H|H]; [congruence|contradiction].
Qed.

Lemma dedupe_nodup : forall l seen, NoDup (map eid (dedupe seen l)).
Proof.
  induction l as [|x r IH]; intros seen; cbn [dedupe]; [constructor|].
  destruct (existsb (N.eqb (eid x)) seen); [apply IH|]. cbn [map]. constructor; [|apply IH].
  intros Hin. apply in_map_iff in Hin. destruct Hin as [y [Hy Hin]]. apply dedupe_in in Hin.
  destruct Hin as [_ Hn]. apply Hn. left. symmetry. exact Hy.
Qed.

(* hash-map helpers of Visibility *)
Lemma vmap_get_put : forall m d' x d,
  vmap_get (vmap_put d' x m) d = if d' =? d then idmap_put x (vmap_get m d) else vmap_get m d.
Proof.
  induction m as [|[k es] r IH]; intros d' x d; cbn [vmap_put vmap_get].
  - destruct (d' =? d); reflexivity.
  - destruct (N.eqb_spec k d') as [Hk|Hk]; cbn [vmap_get].
    + subst k. destruct (N.eqb_spec d' d); reflexivity.
    + rewrite IH. destruct (N.eqb_spec k d) as [Hkd|Hkd]; [|reflexivity].
      subst k. destruct (N.eqb_spec d' d); [congruence|reflexivity].
Qed.

Lemma idmap_put_in : forall x es e, In e (idmap_put x es) -> e = x \/ In e es.
Proof.
  induction es as [|y r IH]; intros e H; cbn [idmap_put] in H.
  - destruct H as [H|[]]. left. symmetry. exact H.
  - destruct (eid y =? eid x).
    + destruct H as [H|H]; [left; symmetry; exact H|right; right; exact H].
    + destruct H as [H|H]; [right; left; exact H|]. apply IH in H. cbn [In]. tauto.
Qed.
Lemma idmap_put_self : forall x es, In x (idmap_put x es).
Proof.
  induction es as [|y r IH]; cbn [idmap_put]; [left; reflexivity|].
  destruct (eid y =? eid x); [left; reflexivity|right; exact IH].
Qed.
Lemma idmap_put_keep : forall x es e, In e es -> eid e <> eid x -> In e (idmap_put x es).
Proof.
  induction es as [|y r IH]; intros e H Hne; [destruct H|]. cbn [idmap_put].
  destruct (N.eqb_spec (eid y) (eid x)) as [Hy|Hy].
  - destruct H as [H|H]; [subst y; contradiction|right; exact H].
  - destruct H as [H|H]; [left; exact H|right; apply IH; assumption].
Qed.

Definition put_all (l : list ent) (m : list (des * list ent)) : list (des * list ent) :=
  fold_left (fun m x => vmap_put (edes x) x m) l m.

Lemma put_all_in : forall l m d e, In e (vmap_get (put_all l m) d) -> (In e l /\ edes e = d) \/ In e (vmap_get m d).
Proof.
  unfold put_all. induction l as [|x r IH]; intros m d e H; cbn [fold_left] in H; [right; exact H|].
  apply IH in H. destruct H as [[H1 H2]|H]; [left; split; [right; exact H1|exact H2]|].
  rewrite vmap_get_put in H. destruct (N.eqb_spec (edes x) d) as [Hd|Hd]; [|right; exact H].
  apply idmap_put_in in H. destruct H as [H|H]; [left; subst e; split; [left; reflexivity|exact Hd]|right; exact H].
Qed.

Lemma put_all_complete : forall l m d e,
  ids_consistent (filter (fun x => edes x =? d) l ++ vmap_get m d) ->
  (In e l /\ edes e = d) \/ In e (vmap_get m d) -> In e (vmap_get (put_all l m) d).
Proof.
  unfold put_all. induction l as [|x r IH]; intros m d e Hc H; cbn [fold_left].
  - destruct H as [[[] _]|H]. exact H.
  - apply IH.
    + rewrite vmap_get_put. cbn [filter] in Hc. destruct (N.eqb_spec (edes x) d) as [Hd|Hd].
      * eapply ids_consistent_incl; [|exact Hc]. intros z Hz. apply in_app_or in Hz. cbn [app In].
        destruct Hz as [Hz|Hz]; [right; apply in_or_app; left; exact Hz|].
        apply idmap_put_in in Hz. destruct Hz as [Hz|Hz]; [left; symmetry; exact Hz|right; apply in_or_app; right; exact Hz].
      * exact Hc.
    + rewrite vmap_get_put. cbn [filter] in Hc. destruct (N.eqb_spec (edes x) d) as [Hd|Hd].
      * destruct H as [[[H|H] H2]|H].
        -- right. subst e. apply idmap_put_self.
        -- left. tauto.
        -- right. destruct (N.eq_dec (eid e) (eid x)) as [He|He].
           ++ assert (e = x).
              { apply Hc; [right; apply in_or_app; right; exact H|left; reflexivity|exact He]. }
              subst e. apply idmap_put_self.
           ++ apply idmap_put_keep; assumption.
      * destruct H as [[[H|H] H2]|H]; [subst e; contradiction|left; tauto|right; exact H].
Qed.

(* what Visibility::lookup_into offers to Visible::insert, in order *)
Definition region_cands (r : region) (d : des) : list ent :=
  flat_map (fun en => named_ents (ents_get en d)) (v_all (r_vis r)) ++ vmap_get (v_named (r_vis r)) d.

Lemma fold_left_flat_map : forall {A B C} (f : C -> B -> C) (g : A -> list B) l acc,
  fold_left (fun a x => fold_left f (g x) a) l acc = fold_left f (flat_map g l) acc.
Proof.
  intros A B C f g l. induction l as [|x r IH]; intros acc; [reflexivity|].
  cbn [fold_left flat_map]. rewrite fold_left_app. apply IH.
Qed.

Lemma vis_lookup_into_cands : forall r d acc,
  vis_lookup_into (r_vis r) d acc = fold_left visible_insert (region_cands r d) acc.
Proof.
  intros r d acc. unfold vis_lookup_into, region_cands. rewrite fold_left_app. f_equal.
  rewrite <- fold_left_flat_map. revert acc. induction (v_all (r_vis r)) as [|en l IH]; intros acc; [reflexivity|].
  cbn [fold_left]. rewrite IH. f_equal. destruct (ents_get en d) as [[e|os]|]; reflexivity.
Qed.

Lemma lookup_visibility_cands : forall s d acc,
  lookup_visibility_into s d acc = fold_left visible_insert (flat_map (fun f => region_cands (f_region f) d) s) acc.
Proof.
  induction s as [|f r IH]; intros d acc; [reflexivity|]. cbn [lookup_visibility_into flat_map].
  rewrite fold_left_app, vis_lookup_into_cands. apply IH.
Qed.

Section Point3.
  Variable pkgs : N -> list ent.

  Definition vis_apply (v : visibility) (it : item) : visibility :=
    match it with
    | IUseAll p => vis_make_all v (pkg_region pkgs p)
    | IUseName p d => fold_left vis_make (named_ents (ents_get (pkg_region pkgs p) d)) v
    | _ => v
    end.
  Lemma point_region_vis : forall pre r0,
    r_vis (fold_left (item_apply pkgs) pre r0) = fold_left vis_apply pre (r_vis r0).
  Proof.
    induction pre as [|it pre IH]; intros r0; [reflexivity|]. cbn [fold_left]. rewrite IH.
    destruct it; reflexivity.
  Qed.

  Definition use_alls (pre : list item) : list N :=
    flat_map (fun it => match it with IUseAll p => [p] | _ => [] end) pre.
  Definition name_inserts (pre : list item) : list ent :=
    flat_map (fun it => match it with
                        | IUseName p n => flat_map (fun x => implicits x ++ [x]) (named_ents (ents_get (pkg_region pkgs p) n))
                        | _ => []
                        end) pre.

  Lemma vis_make_named : forall l v,
    v_named (fold_left vis_make l v) = put_all (flat_map (fun x => implicits x ++ [x]) l) (v_named v)
    /\ v_all (fold_left vis_make l v) = v_all v.
  Proof.
    induction l as [|x r IH]; intros v; [split; reflexivity|]. cbn [fold_left flat_map].
    destruct (IH (vis_make v x)) as [H1 H2]. rewrite H1, H2. split; [|reflexivity].
    unfold put_all. rewrite !fold_left_app. reflexivity.
  Qed.

  Lemma point_vis_all : forall pre v, v_all (fold_left vis_apply pre v) = v_all v ++ map (pkg_region pkgs) (use_alls pre).
  Proof.
    induction pre as [|it pre IH]; intros v; [cbn; rewrite app_nil_r; reflexivity|]. cbn [fold_left]. rewrite IH.
    unfold use_alls. cbn [flat_map]. destruct it; cbn [vis_apply app map]; try reflexivity.
    - unfold vis_make_all. cbn [v_all]. rewrite <- app_assoc. reflexivity.
    - destruct (vis_make_named (named_ents (ents_get (pkg_region pkgs p) d)) v) as [_ H]. rewrite H. reflexivity.
  Qed.

  Lemma point_vis_named : forall pre v, v_named (fold_left vis_apply pre v) = put_all (name_inserts pre) (v_named v).
  Proof.
    induction pre as [|it pre IH]; intros v; [reflexivity|]. cbn [fold_left]. rewrite IH.
    unfold name_inserts. cbn [flat_map]. unfold put_all. rewrite fold_left_app. f_equal.
    destruct it; cbn [vis_apply]; try reflexivity.
    destruct (vis_make_named (named_ents (ents_get (pkg_region pkgs p) d)) v) as [H _]. exact H.
  Qed.

  (* side conditions on the packages used in a region prefix, for designator d *)
  Definition uses_ok (d : des) (pre : list item) : Prop :=
    forall it, In it pre ->
      match it with
      | IUseAll p => homographs_ok (named d (pkgs p)) = true
      | IUseName p n => homographs_ok (named n (pkgs p)) = true
      | _ => True
      end.

  Lemma name_inserts_spec : forall pre d e, uses_ok d pre ->
    (In e (name_inserts pre) /\ edes e = d <->
     exists p n, In (IUseName p n) pre /\ In e (item_uses pkgs d (IUseName p n))).
  Proof.
    intros pre d e Hu. unfold name_inserts. rewrite in_flat_map. split.
    - intros [[it [Hit Hin]] Hd]. destruct it; try (destruct Hin). exists p, d0. split; [exact Hit|].
      pose proof (Hu _ Hit) as Hok. cbn in Hok. rewrite (pkg_region_get pkgs p d0 Hok) in Hin.
      cbn [item_uses]. unfold named at 1. apply filter_In. split; [|apply N.eqb_eq; exact Hd].
      apply in_flat_map in Hin. destruct Hin as [x [Hx Hin]]. apply in_app_or in Hin. apply in_or_app.
      destruct Hin as [Hin|[Hin|[]]]; [right; apply in_flat_map; exists x; tauto|left; subst; exact Hx].
    - intros [p [n [Hit Hin]]]. cbn [item_uses] in Hin. unfold named at 1 in Hin. apply filter_In in Hin.
      destruct Hin as [Hin Hd]. apply N.eqb_eq in Hd. split; [|exact Hd]. exists (IUseName p n). split; [exact Hit|].
      pose proof (Hu _ Hit) as Hok. cbn in Hok. rewrite (pkg_region_get pkgs p n Hok).
      apply in_flat_map. apply in_app_or in Hin. destruct Hin as [Hin|Hin].
      + exists e. split; [exact Hin|apply in_or_app; right; left; reflexivity].
      + apply in_flat_map in Hin. destruct Hin as [x [Hx Hin]]. exists x. split; [exact Hx|apply in_or_app; left; exact Hin].
  Qed.

  Lemma use_alls_in : forall pre p, In p (use_alls pre) <-> In (IUseAll p) pre.
  Proof.
    intros pre p. unfold use_alls. rewrite in_flat_map. split.
    - intros [it [Hit Hin]]. destruct it; cbn [In] in Hin; try contradiction. destruct Hin as [->|[]]. exact Hit.
    - intros H. exists (IUseAll p). split; [exact H|left; reflexivity].
  Qed.

  Lemma cands_to_spec : forall pre d e, uses_ok d pre ->
    In e (region_cands (point_region pkgs pre) d) -> In e (flat_map (item_uses pkgs d) pre).
  Proof.
    intros pre d e Hu H. unfold region_cands, point_region in H. rewrite point_region_vis in H.
    rewrite point_vis_all, point_vis_named in H. cbn [region_empty r_vis vis_empty v_all v_named app] in H.
    apply in_app_or in H. apply in_flat_map. destruct H as [H|H].
    - apply in_flat_map in H. destruct H as [en [Hen Hin]]. apply in_map_iff in Hen. destruct Hen as [p [Hp Hpin]].
      subst en. apply use_alls_in in Hpin. exists (IUseAll p). split; [exact Hpin|].
      pose proof (Hu _ Hpin) as Hok. cbn in Hok. rewrite (pkg_region_get pkgs p d Hok) in Hin. exact Hin.
    - apply put_all_in in H. destruct H as [H|H]; [|destruct H].
      apply (name_inserts_spec pre d e Hu) in H. destruct H as [p [n [Hit Hin]]]. exists (IUseName p n). tauto.
  Qed.

  Lemma spec_to_cands : forall pre d e, uses_ok d pre ->
    ids_consistent (flat_map (item_uses pkgs d) pre) ->
    In e (flat_map (item_uses pkgs d) pre) -> In e (region_cands (point_region pkgs pre) d).
  Proof.
    intros pre d e Hu Hc H. unfold region_cands, point_region. rewrite point_region_vis.
    rewrite point_vis_all, point_vis_named. cbn [region_empty r_vis vis_empty v_all v_named app].
    apply in_flat_map in H. destruct H as [it [Hit Hin]]. apply in_or_app.
    destruct it; try (destruct Hin).
    - left. apply in_flat_map. exists (pkg_region pkgs p). split; [apply in_map; apply use_alls_in; exact Hit|].
      pose proof (Hu _ Hit) as Hok. cbn in Hok. rewrite (pkg_region_get pkgs p d Hok). exact Hin.
    - right. apply put_all_complete.
      + cbn [vmap_get]. rewrite app_nil_r. eapply ids_consistent_incl; [|exact Hc].
        intros x Hx. apply filter_In in Hx. destruct Hx as [Hx Hd]. apply N.eqb_eq in Hd.
        assert (In x (name_inserts pre) /\ edes x = d) as Hx' by tauto.
        apply (name_inserts_spec pre d x Hu) in Hx'. destruct Hx' as [p' [n' [H1 H2]]].
        apply in_flat_map. exists (IUseName p' n'). tauto.
      + left. apply (name_inserts_spec pre d e Hu). exists p, d0. tauto.
  Qed.
End Point3.

(* ---- the refinement theorem ----------------------------------------------------------------- *)
Inductive res_equiv : lres -> dres -> Prop :=
| re_single : forall e, res_equiv (LOk (NSingle e)) (DSingle e)
| re_over : forall m es, Permutation m es -> res_equiv (LOk (NOver m)) (DOver es)
| re_conflict : res_equiv (LErr EConflict) DConflict
| re_undeclared : res_equiv (LErr EUndeclared) DUndeclared.

Lemma omap_put_fresh : forall m e, (forall x, In x m -> key_of_is e x = false) -> omap_put e m = m ++ [e].
Proof.
  induction m as [|x r IH]; intros e H; [reflexivity|]. cbn [omap_put].
  rewrite (H x (or_introl eq_refl)). cbn [app]. f_equal. apply IH. intros y Hy. apply H. right. exact Hy.
Qed.

Lemma over_new_id_gen : forall r acc, forallb overloadable (acc ++ r) = true -> NoDup (map profile (acc ++ r)) ->
  fold_left (fun m e => omap_put e m) r acc = acc ++ r.
Proof.
  induction r as [|e r IH]; intros acc Ho Hnd; [rewrite app_nil_r; reflexivity|]. cbn [fold_left].
  rewrite omap_put_fresh.
  - rewrite IH; rewrite <- app_assoc; [reflexivity|exact Ho|exact Hnd].
  - intros x Hx. assert (Hox : overloadable x = true) by (apply (forallb_In _ _ x Ho); apply in_or_app; left; exact Hx).
    assert (Hoe : overloadable e = true) by (apply (forallb_In _ _ e Ho); apply in_or_app; right; left; reflexivity).
    rewrite (key_of_is_profile e x Hoe Hox). destruct (same_profile e x) eqn:E; [|reflexivity]. exfalso.
    rewrite map_app in Hnd. cbn [map] in Hnd. apply NoDup_remove_2 in Hnd. apply Hnd. apply in_or_app. left.
    apply in_map_iff. exists x. split; [|exact Hx]. symmetry. apply same_profile_eq. exact E.
Qed.
Lemma over_new_id : forall l, forallb overloadable l = true -> NoDup (map profile l) -> over_new l = l.
Proof. intros l Ho Hnd. unfold over_new. apply (over_new_id_gen l []); assumption. Qed.

Lemma flat_map_map' : forall {A B C} (f : A -> B) (g : B -> list C) l, flat_map g (map f l) = flat_map (fun x => g (f x)) l.
Proof. intros A B C f g l. induction l as [|x r IH]; [reflexivity|]. cbn [map flat_map]. rewrite IH. reflexivity. Qed.

Lemma NoDup_map_inv' : forall {A B} (f : A -> B) l, NoDup (map f l) -> NoDup l.
Proof.
  intros A B f l. induction l as [|x r IH]; intros H; [constructor|]. cbn [map] in H. inversion H as [|? ? Hn Hd]; subst.
  constructor; [|apply IH; exact Hd]. intros Hin. apply Hn. apply in_map. exact Hin.
Qed.

Section Refinement.
  Variable pkgs : N -> list ent.

  Record wf_point (ch : list (list item)) (d : des) : Prop := mkWf {
    wf_regions : regions_ok ch d;                                   (* no duplicate declarations of d in a region *)
    wf_uses : Forall (uses_ok pkgs d) ch;                           (* nor in the used packages *)
    wf_ids : ids_consistent (flat_map (flat_map (item_uses pkgs d)) ch);  (* entity ids identify entities *)
    wf_profiles : no_equal_profiles pkgs ch d = true                (* the excluded corner *)
  }.

  Definition model_cands (ch : list (list item)) (d : des) : list ent :=
    flat_map (fun pre => region_cands (point_region pkgs pre) d) ch.
  Definition spec_cands (ch : list (list item)) (d : des) : list ent :=
    flat_map (flat_map (item_uses pkgs d)) ch.

  Lemma cands_equiv : forall ch d, Forall (uses_ok pkgs d) ch -> ids_consistent (spec_cands ch d) ->
    forall e, In e (model_cands ch d) <-> In e (spec_cands ch d).
  Proof.
    intros ch d Hu Hc e. unfold model_cands, spec_cands in *. rewrite !in_flat_map. split.
    - intros [pre [Hpre Hin]]. exists pre. split; [exact Hpre|]. rewrite Forall_forall in Hu.
      apply cands_to_spec; auto.
    - intros [pre [Hpre Hin]]. exists pre. split; [exact Hpre|]. rewrite Forall_forall in Hu.
      apply spec_to_cands; auto. eapply ids_consistent_incl; [|exact Hc].
      intros x Hx. apply in_flat_map. exists pre. tauto.
  Qed.

  Lemma visible_perm : forall ch d, Forall (uses_ok pkgs d) ch -> ids_consistent (spec_cands ch d) ->
    Permutation (lookup_visibility_into (point_scope pkgs ch) d []) (use_visible pkgs ch d).
  Proof.
    intros ch d Hu Hc. rewrite lookup_visibility_cands. unfold point_scope. rewrite flat_map_map'. cbn [f_region].
    fold (model_cands ch d). unfold use_visible. fold (spec_cands ch d).
    pose proof (cands_equiv ch d Hu Hc) as Heq.
    assert (Hcm : ids_consistent (model_cands ch d)).
    { eapply ids_consistent_incl; [|exact Hc]. intros x Hx. apply Heq. exact Hx. }
    apply NoDup_Permutation.
    - eapply NoDup_map_inv'. apply fold_insert_nodup. constructor.
    - eapply NoDup_map_inv'. apply dedupe_nodup.
    - intros e. rewrite (fold_insert_in (model_cands ch d) [] e Hcm). cbn [In]. split.
      + intros [[]|H]. apply dedupe_complete; [exact Hc|apply Heq; exact H|intros []].
      + intros H. right. apply dedupe_in in H. apply Heq. tauto.
  Qed.

  Theorem lookup_refines_spec : forall ch d, wf_point ch d ->
    res_equiv (lookup_uncached (point_scope pkgs ch) d) (denotes pkgs ch d).
  Proof.
    intros ch d [Hr Hu Hc Hp].
    pose proof (visible_perm ch d Hu Hc) as Hperm.
    pose proof (direct_enclosing pkgs ch d Hr []) as Hdir.
    pose proof (lookup_enclosing_inv pkgs ch d Hr) as Hinv.
    unfold lookup_uncached, lookup_visible, denotes.
    set (Vm := lookup_visibility_into (point_scope pkgs ch) d []) in *.
    set (Vs := use_visible pkgs ch d) in *.
    assert (Hov : forallb overloadable Vm = forallb overloadable Vs).
    { apply eq_true_iff_eq. split; intros H; [eapply perm_forallb; [apply Permutation_sym; exact Hperm|exact H]
                                              |eapply perm_forallb; [exact Hperm|exact H]]. }
    assert (Hnd : forallb overloadable Vs = true -> NoDup (map profile Vm)).
    { intros H. unfold no_equal_profiles in Hp. fold Vs in Hp. rewrite H in Hp. cbn [negb orb] in Hp.
      apply distinct_profiles_NoDup in Hp. eapply Permutation_NoDup; [|exact Hp].
      apply Permutation_map. apply Permutation_sym. exact Hperm. }
    (* into_unambiguous on the model's list, by cases on the specification's list *)
    assert (Hinto :
      match Vs with
      | [] => into_unambiguous Vm = inl None
      | e :: r =>
          if forallb overloadable Vs then into_unambiguous Vm = inl (Some (NOver Vm))
          else match r with
               | [] => into_unambiguous Vm = inl (Some (NSingle e)) /\ Vm = [e]
               | _ :: _ => into_unambiguous Vm = inr EConflict
               end
      end).
    { destruct Vs as [|e r] eqn:EVs.
      - apply Permutation_sym in Hperm. apply Permutation_nil in Hperm. rewrite Hperm. reflexivity.
      - destruct (forallb overloadable (e :: r)) eqn:Eo.
        + unfold into_unambiguous. destruct Vm as [|e' r'] eqn:EVm.
          * apply Permutation_nil in Hperm. discriminate.
          * change (forallb is_overloaded (e' :: r')) with (forallb overloadable (e' :: r')). rewrite Hov.
            rewrite over_new_id; [reflexivity|exact Hov|apply Hnd; reflexivity].
        + destruct r as [|e2 r2].
          * apply Permutation_sym in Hperm. apply Permutation_length_1_inv in Hperm. rewrite Hperm. split; [|reflexivity].
            unfold into_unambiguous. change (forallb is_overloaded [e]) with (forallb overloadable [e]).
            rewrite Eo. unfold named_new. cbn [forallb] in Eo. rewrite andb_true_r in Eo.
            unfold is_overloaded. unfold overloadable in Eo. rewrite Eo. reflexivity.
          * pose proof (Permutation_length Hperm) as HL. cbn [length] in HL.
            destruct Vm as [|a1 [|a2 r3]] eqn:EVm; cbn [length] in HL; try lia.
            unfold into_unambiguous. change (forallb is_overloaded (a1 :: a2 :: r3)) with (forallb overloadable (a1 :: a2 :: r3)).
            rewrite Hov. reflexivity. }
    rewrite Hdir. destruct Hinv as [|e He|enc Hne Hoe Hnde].
    - (* nothing declared directly *)
      destruct Vs as [|e r] eqn:EVs.
      + rewrite Hinto. constructor.
      + destruct (forallb overloadable (e :: r)) eqn:Eo.
        * rewrite Hinto. constructor. exact Hperm.
        * destruct r as [|e2 r2].
          -- destruct Hinto as [Hi _]. rewrite Hi. constructor.
          -- rewrite Hinto. constructor.
    - constructor.
    - (* overloadable declarations directly visible *)
      rewrite oplus_nil_l. destruct enc as [|a0 acc]; [contradiction|].
      destruct Vs as [|e r] eqn:EVs.
      + rewrite Hinto. cbn [forallb filter]. rewrite app_nil_r. constructor. apply Permutation_refl.
      + destruct (forallb overloadable (e :: r)) eqn:Eo.
        * rewrite Hinto. rewrite (with_visible_oplus Vm (a0 :: acc) Hoe); [|exact Hov|apply Hnd; reflexivity].
          constructor. unfold oplus. apply Permutation_app_head. apply perm_filter. exact Hperm.
        * destruct r as [|e2 r2].
          -- destruct Hinto as [Hi _]. rewrite Hi. constructor. apply Permutation_refl.
          -- rewrite Hinto. constructor. apply Permutation_refl.
  Qed.
End Refinement.

(* ---- end to end at a program point: the model's answer agrees with the reference resolver ---- *)
Section EndToEnd.
  Variable pkgs : N -> list ent.

  Lemma denotes_wf : forall ch d, wf_point pkgs ch d ->
    match denotes pkgs ch d with
    | DSingle e => overloadable e = false
    | DOver es => forallb overloadable es = true /\ NoDup (map profile es)
    | _ => True
    end.
  Proof.
    intros ch d [Hr Hu Hc Hp]. unfold denotes.
    rewrite (direct_enclosing pkgs ch d Hr []).
    pose proof (lookup_enclosing_inv pkgs ch d Hr) as Hinv.
    set (Vs := use_visible pkgs ch d) in *.
    assert (Hnd : forallb overloadable Vs = true -> NoDup (map profile Vs)).
    { intros H. unfold no_equal_profiles in Hp. fold Vs in Hp. rewrite H in Hp. cbn [negb orb] in Hp.
      apply distinct_profiles_NoDup. exact Hp. }
    destruct Hinv as [|e He|enc Hne Hoe Hnde].
    - destruct Vs as [|e r] eqn:E; [exact I|]. destruct (forallb overloadable (e :: r)) eqn:Eo.
      + split; [exact Eo|apply Hnd; reflexivity].
      + destruct r; [|exact I]. cbn [forallb] in Eo. rewrite andb_true_r in Eo. exact Eo.
    - exact He.
    - rewrite oplus_nil_l. destruct enc as [|a0 acc]; [contradiction|].
      destruct (forallb overloadable Vs) eqn:Eo.
      + split.
        * apply (oplus_overloadable (a0 :: acc) Vs Hoe Eo).
        * apply (oplus_NoDup (a0 :: acc) Vs Hnde). apply Hnd. reflexivity.
      + split; assumption.
  Qed.

  (* sites outside the claim: an operator symbol that denotes a non-overloadable declaration
     (impossible in VHDL) and a type conversion `t(x)` written like a call *)
  Definition site_in_fragment (d : des) (u : usage) (r : dres) : Prop :=
    match r with
    | DSingle e => is_operator d = false /\
                   match u, ekind e with UCall _ _, KType _ _ => False | _, _ => True end
    | _ => True
    end.

  Theorem resolution_refines_spec : forall ch d u,
    wf_point pkgs ch d -> site_in_fragment d u (denotes pkgs ch d) ->
    agrees (site_result d u (looked_of (lookup_uncached (point_scope pkgs ch) d)))
           (resolve (denotes pkgs ch d) u).
  Proof.
    intros ch d u Hwf Hs. pose proof (lookup_refines_spec pkgs ch d Hwf) as Hre.
    pose proof (denotes_wf ch d Hwf) as Hd.
    apply site_result_refines_resolve.
    - destruct Hre; cbn [looked_of]; constructor; assumption.
    - destruct (denotes pkgs ch d); cbn [in_fragment site_in_fragment] in *; tauto.
  Qed.
End EndToEnd.

(* ------------------------------------------------------------------------------------------ *)
(* Part 4: witnesses (refutations of the pre-fix / mutated behaviours, examples)               *)
(* ------------------------------------------------------------------------------------------ *)
Definition e_f_int : ent := mkEnt 1 0 (KFunc t_integer t_integer) None.
Definition e_f_bool : ent := mkEnt 2 0 (KFunc t_boolean t_integer) None.

(* WITHOUT the invalidation in ScopeInner::add the cache goes stale on a trace that follows the
   discipline: declare f(integer), look f up, declare f(boolean), look f up again *)
Lemma no_add_invalidation_refuted :
  exists t d s rs r s',
    disciplined [] (t ++ [OLookup d]) /\ run cfg_no_add_invalidation [] t = Some (s, rs) /\
    lookup s d = Some (r, s') /\ r <> lookup_uncached s d.
Proof.
  exists [ORoot region_empty; OAdd 0 e_f_int; OLookup 0; OAdd 0 e_f_bool], 0.
  eexists. eexists. eexists. eexists. split; [|split; [|split]].
  - apply disciplined_b_sound. vm_compute. reflexivity.
  - vm_compute. reflexivity.
  - vm_compute. reflexivity.
  - vm_compute. discriminate.
Qed.

(* the same trace with the code of today *)
Lemma add_invalidation_example :
  exists s rs, run cfg_now [] [ORoot region_empty; OAdd 0 e_f_int; OLookup 0; OAdd 0 e_f_bool] = Some (s, rs) /\
               exists s', lookup s 0 = Some (LOk (NOver [e_f_int; e_f_bool]), s').
Proof. eexists. eexists. split; [vm_compute; reflexivity|]. eexists. vm_compute. reflexivity. Qed.

(* programs of the corpus (corpus/C07.cases) *)
Definition prog_f21 : program :=
 [mkUnit 1 UPrimary [] [IDecl (mkEnt 1 110 (KLit (TOth 10)) None); IDecl (mkEnt 2 0 (KLit (TOth 10)) None); IDecl (mkEnt 3 1 (KLit (TOth 10)) None); IDecl (mkEnt 4 10 (KType (TOth 10) [(1, 110); (2, 0); (3, 1)]) None)];
  mkUnit 2 UPrimary [] [IDecl (mkEnt 5 111 (KLit (TOth 11)) None); IDecl (mkEnt 6 0 (KLit (TOth 11)) None); IDecl (mkEnt 7 2 (KLit (TOth 11)) None); IDecl (mkEnt 8 11 (KType (TOth 11) [(5, 111); (6, 0); (7, 2)]) None)];
  mkUnit 3 UPrimary [IUseAll 2] [];
  mkUnit 4 (USecondary 3) [] [ISite (mkSite 1 0 (UVal (TOth 11))); IUseName 1 10; ISite (mkSite 2 0 (UVal (TOth 10))); ISite (mkSite 3 1 (UVal (TOth 10))); ISite (mkSite 4 2 (UVal (TOth 11)))]].

Definition prog_f22 : program :=
 [mkUnit 1 UPrimary [] [IDecl (mkEnt 1 110 (KLit (TOth 10)) None); IDecl (mkEnt 2 10 (KType (TOth 10) [(1, 110)]) None)];
  mkUnit 2 UPrimary [] [];
  mkUnit 3 (USecondary 2) [] [IOpenFun (mkEnt 3 0 (KFunc (TInt 0) (TInt 0)) None) (mkEnt 4 9 (KObj (TInt 0)) None); IClose; ISite (mkSite 1 0 (UCall AUniv (TInt 0))); IOpenFun (mkEnt 5 0 (KFunc (TOth 0) (TInt 0)) None) (mkEnt 6 9 (KObj (TOth 0)) None); ISite (mkSite 2 0 (UCall (ATy (TOth 0)) (TInt 0))); ISite (mkSite 3 0 (UCall AUniv (TInt 0))); IClose; ISite (mkSite 4 0 (UCall (ATy (TOth 0)) (TInt 0)))]].

Definition prog_nest3 : program :=
 [mkUnit 1 UPrimary [] [IDecl (mkEnt 1 110 (KLit (TOth 10)) None); IDecl (mkEnt 2 10 (KType (TOth 10) [(1, 110)]) None)];
  mkUnit 2 UPrimary [] [];
  mkUnit 3 (USecondary 2) [] [IDecl (mkEnt 3 0 (KObj (TInt 0)) None); ISite (mkSite 1 0 (UVal (TInt 0))); IOpen; IOpenFun (mkEnt 4 0 (KFunc (TInt 0) (TInt 0)) None) (mkEnt 5 9 (KObj (TInt 0)) None); IClose; ISite (mkSite 2 0 (UCall AUniv (TInt 0))); ISite (mkSite 3 0 (UVal (TInt 0))); IOpen; IDecl (mkEnt 6 0 (KObj (TOth 0)) None); ISite (mkSite 4 0 (UVal (TOth 0))); ISite (mkSite 5 0 (UCall AUniv (TInt 0))); IClose; IClose]].

Definition prog_homograph : program :=
 [mkUnit 1 UPrimary [] [IDecl (mkEnt 1 0 (KObj (TInt 0)) None); IDecl (mkEnt 2 1 (KObj (TInt 0)) None)];
  mkUnit 2 UPrimary [] [IDecl (mkEnt 3 0 (KObj (TInt 0)) None); IDecl (mkEnt 4 1 (KObj (TOth 0)) None)];
  mkUnit 3 UPrimary [IUseAll 1; IUseAll 2] [];
  mkUnit 4 (USecondary 3) [] [ISite (mkSite 1 0 (UVal (TInt 0))); ISite (mkSite 2 1 (UVal (TInt 0))); IOpen; IDecl (mkEnt 5 0 (KObj (TInt 0)) None); ISite (mkSite 3 0 (UVal (TInt 0))); ISite (mkSite 4 1 (UVal (TOth 0))); IClose; IOpen; IUseName 1 0; ISite (mkSite 5 0 (UVal (TInt 0))); IClose];
  mkUnit 5 UPrimary [IUseName 1 1] [];
  mkUnit 6 (USecondary 5) [IUseName 2 1] [ISite (mkSite 6 1 (UVal (TInt 0))); ISite (mkSite 7 0 (UVal (TInt 0)))]].

Definition prog_twolits : program :=
 [mkUnit 1 UPrimary [] [IDecl (mkEnt 1 110 (KLit (TOth 10)) None); IDecl (mkEnt 2 0 (KLit (TOth 10)) None); IDecl (mkEnt 3 1 (KLit (TOth 10)) None); IDecl (mkEnt 4 10 (KType (TOth 10) [(1, 110); (2, 0); (3, 1)]) None)];
  mkUnit 2 UPrimary [] [IDecl (mkEnt 5 111 (KLit (TOth 11)) None); IDecl (mkEnt 6 0 (KLit (TOth 11)) None); IDecl (mkEnt 7 2 (KLit (TOth 11)) None); IDecl (mkEnt 8 11 (KType (TOth 11) [(5, 111); (6, 0); (7, 2)]) None)];
  mkUnit 3 UPrimary [] [IDecl (mkEnt 9 0 (KFunc (TInt 0) (TOth 11)) None)];
  mkUnit 4 (USecondary 3) [] [IOpenFun (mkEnt 10 0 (KFunc (TInt 0) (TOth 11)) (Some 9)) (mkEnt 11 9 (KObj (TInt 0)) None); IClose];
  mkUnit 5 UPrimary [IUseAll 1; IUseAll 2; IUseAll 3] [];
  mkUnit 6 (USecondary 5) [] [ISite (mkSite 1 0 (UVal (TOth 10))); ISite (mkSite 2 0 (UVal (TOth 11))); ISite (mkSite 3 1 (UVal (TOth 11))); ISite (mkSite 4 2 (UVal (TOth 10))); ISite (mkSite 5 0 (UCall AUniv (TOth 11))); ISite (mkSite 6 0 (UCall AUniv (TOth 10))); ISite (mkSite 7 10 UType); ISite (mkSite 8 11 UType); ISite (mkSite 9 0 UType)]].

Definition prog_charlit : program :=
 [mkUnit 1 UPrimary [] [IDecl (mkEnt 1 110 (KLit (TOth 10)) None); IDecl (mkEnt 2 30 (KLit (TOth 10)) None); IDecl (mkEnt 3 10 (KType (TOth 10) [(1, 110); (2, 30)]) None)];
  mkUnit 2 UPrimary [] [];
  mkUnit 3 (USecondary 2) [] [ISite (mkSite 1 30 (UVal (TOth 10))); IUseAll 1; ISite (mkSite 2 30 (UVal (TOth 10))); ISite (mkSite 3 31 (UVal (TOth 10)))]].

(* what the model observes per site: (sid, reference, class), through the cache / without it *)
Definition observed (c : cfg) (p : program) : option (list (N * option N * mclass) * list (N * option N * mclass)) :=
  match model_program c p with
  | Some m => Some (map (fun o => (o_sid o, mtarget (o_cached o), mclass_of (o_cached o))) (m_sites m),
                    map (fun o => (o_sid o, mtarget (o_uncached o), mclass_of (o_uncached o))) (m_sites m))
  | None => None
  end.
Definition trace_disciplined (c : cfg) (p : program) : option bool :=
  match model_program c p with Some m => Some (disciplined_b [] (m_trace m)) | None => None end.

(* F21: `use p1.t0` after the literal v0 of p2.t1 was looked up.  Before 2dc9b83
   make_potentially_visible dropped the cache entry of `t0` only: site 2 saw the stale candidates. *)
Lemma stale_implicit_old_refuted :
  family_program prog_f21 = true /\
  spec_program prog_f21 = [(1, ADecl 6); (2, ADecl 2); (3, ADecl 3); (4, ADecl 7)] /\
  observed cfg_old_mpv prog_f21 =
    Some ([(1, Some 6, MOk); (2, None, MError); (3, Some 3, MOk); (4, Some 7, MOk)],
          [(1, Some 6, MOk); (2, Some 2, MOk); (3, Some 3, MOk); (4, Some 7, MOk)]) /\
  observed cfg_now prog_f21 =
    Some ([(1, Some 6, MOk); (2, Some 2, MOk); (3, Some 3, MOk); (4, Some 7, MOk)],
          [(1, Some 6, MOk); (2, Some 2, MOk); (3, Some 3, MOk); (4, Some 7, MOk)]) /\
  trace_disciplined cfg_now prog_f21 = Some true.
Proof. repeat split; vm_compute; reflexivity. Qed.

(* F22: recursive call of the overloaded function v0 inside the body of v0(boolean), after v0 was
   looked up in the enclosing region.  Before b25a4b2 the nested scope kept the clone of the stale
   entry: site 2 resolved against v0(integer) only; the trace leaves the discipline. *)
Lemma stale_nested_old_refuted :
  family_program prog_f22 = true /\
  spec_program prog_f22 = [(1, ADecl 3); (2, ADecl 5); (3, ADecl 3); (4, ADecl 5)] /\
  observed cfg_old_body prog_f22 =
    Some ([(1, Some 3, MOk); (2, Some 3, MError); (3, Some 3, MOk); (4, Some 5, MOk)],
          [(1, Some 3, MOk); (2, Some 5, MOk); (3, Some 3, MOk); (4, Some 5, MOk)]) /\
  trace_disciplined cfg_old_body prog_f22 = Some false /\
  observed cfg_now prog_f22 =
    Some ([(1, Some 3, MOk); (2, Some 5, MOk); (3, Some 3, MOk); (4, Some 5, MOk)],
          [(1, Some 3, MOk); (2, Some 5, MOk); (3, Some 3, MOk); (4, Some 5, MOk)]) /\
  trace_disciplined cfg_now prog_f22 = Some true.
Proof. repeat split; vm_compute; reflexivity. Qed.

(* F23 (open): a character literal in an expression is not looked up.  Site 1: 'a' of p1.t0 is not
   visible (no use clause yet): the reference resolver says UNDECLARED-or-ERROR, the analyser accepts;
   site 2: visible, the resolver names declaration 2, the analyser sets no reference. *)
Lemma char_literal_refuted :
  family_program prog_charlit = true /\
  spec_program prog_charlit = [(1, AError); (2, ADecl 2); (3, AError)] /\
  observed cfg_now prog_charlit =
    Some ([(1, None, MOk); (2, None, MOk); (3, None, MError)],
          [(1, None, MOk); (2, None, MOk); (3, None, MError)]).
Proof. repeat split; vm_compute; reflexivity. Qed.

(* dropping the return-type stage of `disambiguate` loses a unique fit *)
Lemma stage_dropped_refuted :
  let es := [mkEnt 1 0 (KFunc t_integer t_integer) None; mkEnt 2 0 (KFunc t_integer t_boolean) None] in
  filter (cand_fits (UCall AUniv t_integer)) es = [mkEnt 1 0 (KFunc t_integer t_integer) None] /\
  disambiguate es AUniv (Some t_integer) = Unambiguous (mkEnt 1 0 (KFunc t_integer t_integer) None) /\
  disambiguate_no_return_stage es AUniv (Some t_integer) = Ambiguous es.
Proof. repeat split; vm_compute; reflexivity. Qed.

(* Examples: 3-deep nesting; a homograph pair; overloaded literals over two enumeration types *)
Lemma example_nest3 :
  family_program prog_nest3 = true /\
  spec_program prog_nest3 = [(1, ADecl 3); (2, ADecl 4); (3, AError); (4, ADecl 6); (5, AError)] /\
  observed cfg_now prog_nest3 =
    Some ([(1, Some 3, MOk); (2, Some 4, MOk); (3, None, MError); (4, Some 6, MOk); (5, Some 6, MError)],
          [(1, Some 3, MOk); (2, Some 4, MOk); (3, None, MError); (4, Some 6, MOk); (5, Some 6, MError)]).
Proof. repeat split; vm_compute; reflexivity. Qed.

Lemma example_homograph :
  family_program prog_homograph = true /\
  spec_program prog_homograph =
    [(1, AConflict); (2, AConflict); (3, ADecl 5); (4, AConflict); (5, AConflict); (6, AConflict); (7, AUndeclared)] /\
  observed cfg_now prog_homograph =
    Some ([(1, None, MConflict); (2, None, MConflict); (3, Some 5, MOk); (4, None, MConflict);
           (5, None, MConflict); (6, None, MConflict); (7, None, MUndeclared)],
          [(1, None, MConflict); (2, None, MConflict); (3, Some 5, MOk); (4, None, MConflict);
           (5, None, MConflict); (6, None, MConflict); (7, None, MUndeclared)]).
Proof. repeat split; vm_compute; reflexivity. Qed.

Lemma example_twolits :
  family_program prog_twolits = true /\
  spec_program prog_twolits =
    [(1, ADecl 2); (2, ADecl 6); (3, AError); (4, AError); (5, ADecl 9); (6, AError); (7, ADecl 4); (8, ADecl 8); (9, AError)] /\
  observed cfg_now prog_twolits =
    Some ([(1, Some 2, MOk); (2, Some 6, MOk); (3, None, MError); (4, None, MError); (5, Some 9, MOk);
           (6, Some 9, MError); (7, Some 4, MOk); (8, Some 8, MOk); (9, None, MError)],
          [(1, Some 2, MOk); (2, Some 6, MOk); (3, None, MError); (4, None, MError); (5, Some 9, MOk);
           (6, Some 9, MError); (7, Some 4, MOk); (8, Some 8, MOk); (9, None, MError)]).
Proof. repeat split; vm_compute; reflexivity. Qed.

(* non-vacuity of the hypotheses of the refinement theorem: a point inside a process (3 regions deep
   below the context clause) that sees v0 as: a function declared in the process, a function of the
   architecture, a function and a literal of package 1 (use p1.all), a literal of package 2 brought
   along by `use p2.t1` *)
Definition ex_pkgs (p : N) : list ent :=
  if p =? 0 then decls_of std_decls
  else if p =? 1 then [mkEnt 11 110 (KLit (TOth 10)) None; mkEnt 12 0 (KLit (TOth 10)) None;
                       mkEnt 13 10 (KType (TOth 10) [(11, 110); (12, 0)]) None;
                       mkEnt 14 0 (KFunc t_integer t_boolean) None]
  else if p =? 2 then [mkEnt 21 111 (KLit (TOth 11)) None; mkEnt 22 0 (KLit (TOth 11)) None;
                       mkEnt 23 11 (KType (TOth 11) [(21, 111); (22, 0)]) None]
  else [].
Definition ex_chain : list (list item) :=
  [ [IDecl (mkEnt 31 0 (KFunc t_boolean t_integer) None)];                           (* process *)
    [IDecl (mkEnt 32 1 (KObj t_integer) None); IUseName 2 11];                        (* block *)
    [IDecl (mkEnt 33 0 (KFunc t_integer t_integer) None); IUseAll 1];                 (* architecture *)
    [IUseAll 0] ].                                                                    (* context clause *)

Lemma ex_wf_point : wf_point ex_pkgs ex_chain 0.
Proof.
  constructor.
  - repeat constructor.
  - repeat constructor; intros it Hin; cbn [In] in Hin;
      repeat (destruct Hin as [<-|Hin]; [try exact I; vm_compute; reflexivity|]); destruct Hin.
  - intros x y Hx Hy Hid. vm_compute in Hx, Hy.
    repeat (destruct Hx as [<-|Hx]); try contradiction;
      repeat (destruct Hy as [<-|Hy]); try contradiction; try reflexivity; vm_compute in Hid; discriminate.
  - vm_compute. reflexivity.
Qed.

Lemma ex_point_values :
  denotes ex_pkgs ex_chain 0 =
    DOver [mkEnt 31 0 (KFunc t_boolean t_integer) None; mkEnt 33 0 (KFunc t_integer t_integer) None;
           mkEnt 22 0 (KLit (TOth 11)) None; mkEnt 12 0 (KLit (TOth 10)) None;
           mkEnt 14 0 (KFunc t_integer t_boolean) None] /\
  lookup_uncached (point_scope ex_pkgs ex_chain) 0 =
    LOk (NOver [mkEnt 31 0 (KFunc t_boolean t_integer) None; mkEnt 33 0 (KFunc t_integer t_integer) None;
                mkEnt 22 0 (KLit (TOth 11)) None; mkEnt 12 0 (KLit (TOth 10)) None;
                mkEnt 14 0 (KFunc t_integer t_boolean) None]).
Proof. split; vm_compute; reflexivity. Qed.

Lemma disambiguate_unique :
  forall es a t,
    forallb overloadable es = true -> NoDup (map profile es) ->
    match filter (cand_fits (UCall a t)) es with
    | [e] => disambiguate es a (Some t) = Unambiguous e
    | [] => forall e, disambiguate es a (Some t) = Unambiguous e -> In e es /\ cand_fits (UCall a t) e = false
    | x :: y :: r => disambiguate es a (Some t) = Ambiguous (x :: y :: r)
    end.
Proof.
  intros es a t Ho Hnd. destruct (filter (cand_fits (UCall a t)) es) as [|x [|y r]] eqn:E.
  - intros e He. pose proof (disambiguate_in es a t e He) as Hin. split; [exact Hin|].
    destruct (cand_fits (UCall a t) e) eqn:Ef; [|reflexivity].
    assert (In e (filter (cand_fits (UCall a t)) es)) by (apply filter_In; tauto). rewrite E in H. destruct H.
  - exact (disambiguate_unique_fit es a t x Ho E).
  - exact (disambiguate_several_fit es a t x y r Ho Hnd E).
Qed.

(* ------------------------------------------------------------------------------------------ *)
(* Part 5: the traces of the elaborator follow the discipline                                  *)
(* ------------------------------------------------------------------------------------------ *)
Fixpoint dsteps (st : list dframe) (t : list op) : option (list dframe) :=
  match t with
  | [] => Some st
  | o :: r => match dstep st o with Some st' => dsteps st' r | None => None end
  end.
Lemma dsteps_disciplined : forall t st st', dsteps st t = Some st' -> disciplined st t.
Proof.
  induction t as [|o t IH]; intros st st' H; [constructor|]. cbn [dsteps] in H.
  destruct (dstep st o) as [st1|] eqn:E; [|discriminate]. econstructor; eauto.
Qed.
Lemma dsteps_app : forall t1 t2 st,
  dsteps st (t1 ++ t2) = match dsteps st t1 with Some st1 => dsteps st1 t2 | None => None end.
Proof.
  induction t1 as [|o t IH]; intros t2 st; [reflexivity|]. cbn [app dsteps].
  destruct (dstep st o); [apply IH|reflexivity].
Qed.

Definition stale_free (dst : list dframe) : Prop := Forall (fun df => d_stale df = []) dst.
Definition dshape (dst : list dframe) (s : scope) : Prop := length dst = length s /\ stale_free dst.

Lemma del_nil : forall d, del d [] = [].
Proof. reflexivity. Qed.

Lemma update_nth_length : forall k g s s', update_nth k g s = Some s' -> length s' = length s.
Proof.
  induction k as [|k IH]; intros g [|f r] s' H; cbn [update_nth] in H; try discriminate.
  - inversion H; reflexivity.
  - destruct (update_nth k g r) as [r'|] eqn:E; [|discriminate]. inversion H; subst. cbn [length]. f_equal. eapply IH; eauto.
Qed.

(* every operation except an `add` to an ancestor keeps the abstract state free of stale marks *)
Definition not_add_up (o : op) : Prop := match o with OAdd (S _) _ => False | _ => True end.

Lemma dstep_shape : forall c dst s o s' r,
  dshape dst s -> not_add_up o -> exec c s o = Some (s', r) ->
  exists dst', dstep dst o = Some dst' /\ dshape dst' s'.
Proof.
  intros c dst s o s' r [HL HS] Hn He. destruct o; cbn [exec] in He; cbn [dstep].
  - inversion He; subst. eexists. split; [reflexivity|]. split; [reflexivity|]. repeat constructor.
  - destruct s as [|f s0]; [discriminate|]. destruct dst as [|df dst0]; [discriminate|]. inversion He; subst.
    eexists. split; [reflexivity|]. split; [cbn [length] in *; lia|]. constructor; [reflexivity|exact HS].
  - destruct s as [|f s0]; [discriminate|]. destruct dst as [|df dst0]; [discriminate|]. inversion He; subst.
    eexists. split; [reflexivity|]. split; [cbn [length] in *; lia|]. inversion HS; subst. constructor; assumption.
  - destruct s as [|f [|f1 s0]]; try discriminate. destruct dst as [|df [|df1 dst0]]; try discriminate. inversion He; subst.
    eexists. split; [reflexivity|]. split; [cbn [length] in *; lia|]. inversion HS; subst. assumption.
  - destruct k as [|k]; [|contradiction]. destruct s as [|f s0]; [discriminate|]. destruct dst as [|df dst0]; [discriminate|].
    cbn [update_nth] in He. inversion He; subst. cbn [d_add]. eexists. split; [reflexivity|].
    split; [cbn [length] in *; lia|]. inversion HS as [|? ? H1 H2]; subst. constructor; [|exact H2].
    cbn [d_forget d_stale]. rewrite H1. reflexivity.
  - destruct s as [|f s0]; [discriminate|]. destruct dst as [|df dst0]; [discriminate|]. inversion He; subst.
    eexists. split; [reflexivity|]. split; [cbn [length] in *; lia|]. inversion HS; subst. constructor; [reflexivity|assumption].
  - destruct s as [|f s0]; [discriminate|]. destruct dst as [|df dst0]; [discriminate|]. inversion He; subst.
    eexists. split; [reflexivity|]. split; [cbn [length] in *; lia|]. inversion HS; subst. constructor; [reflexivity|assumption].
  - destruct s as [|f s0]; [discriminate|]. destruct dst as [|df dst0]; [discriminate|]. inversion He; subst.
    eexists. split; [reflexivity|]. split; [cbn [length] in *; lia|]. inversion HS as [|? ? H1 H2]; subst.
    constructor; [|exact H2]. cbn [d_forget d_stale]. rewrite H1. reflexivity.
  - destruct s as [|f s0]; [cbn in He; discriminate|]. destruct dst as [|df dst0]; [discriminate|].
    inversion HS as [|? ? H1 H2]; subst. rewrite H1. cbn [mem existsb].
    destruct (lookup (f :: s0) d) as [[res s1]|] eqn:El; [|discriminate]. inversion He; subst.
    eexists. split; [reflexivity|]. split.
    + unfold lookup in El. destruct (cache_get (f_cache f) d).
      * inversion El; subst. exact HL.
      * destruct (lookup_uncached (f :: s0) d); inversion El; subst; exact HL.
    + constructor; [reflexivity|exact H2].
  - destruct s as [|f s0]; [discriminate|]. destruct dst as [|df dst0]; [discriminate|]. inversion He; subst.
    eexists. split; [reflexivity|]. split; [cbn [length] in *; lia|]. inversion HS; subst. constructor; [reflexivity|assumption].
Qed.

Lemma dsteps_shape : forall c ops dst s s' rs,
  dshape dst s -> Forall not_add_up ops -> run c s ops = Some (s', rs) ->
  exists dst', dsteps dst ops = Some dst' /\ dshape dst' s'.
Proof.
  induction ops as [|o ops IH]; intros dst s s' rs Hs Hn Hr.
  - cbn [run] in Hr. inversion Hr; subst. exists dst. split; [reflexivity|exact Hs].
  - cbn [run] in Hr. destruct (exec c s o) as [[s1 res]|] eqn:He; [|discriminate].
    destruct (run c s1 ops) as [[s2 out]|] eqn:Hr2; [|discriminate]. inversion Hr; subst.
    inversion Hn as [|? ? Hn1 Hn2]; subst.
    destruct (dstep_shape c dst s o s1 res Hs Hn1 He) as [dst1 [Hd1 Hs1]].
    destruct (IH dst1 s1 s' out Hs1 Hn2 Hr2) as [dst' [Hd' Hs']].
    exists dst'. split; [|exact Hs']. cbn [dsteps]. rewrite Hd1. exact Hd'.
Qed.

(* a subprogram body: the parent's add taints the clone, invalidate_cached removes the mark *)
Lemma dsteps_fun_body : forall c f p dst s s' rs,
  body_uncaches c = true -> dshape dst s ->
  run c s ([ONested; OAdd 0 p; OAdd 1 f] ++ (if body_uncaches c then [OUncache (edes f)] else [])) = Some (s', rs) ->
  exists dst', dsteps dst ([ONested; OAdd 0 p; OAdd 1 f] ++ (if body_uncaches c then [OUncache (edes f)] else [])) = Some dst'
               /\ dshape dst' s'.
Proof.
  intros c f p dst s s' rs Hb [HL HS] Hr. rewrite Hb in *. cbn [app] in *.
  destruct s as [|f0 s0]; [cbn in Hr; discriminate|]. destruct dst as [|df dst0]; [discriminate|].
  inversion HS as [|? ? H1 H2]; subst.
  cbn [run exec update_nth] in Hr. inversion Hr; subst; clear Hr.
  cbn [dsteps dstep d_add]. eexists. split; [reflexivity|]. split.
  - cbn [length] in *. lia.
  - constructor; [|constructor; [|exact H2]].
    + unfold d_taint, d_forget. cbn [d_cached d_stale]. rewrite H1.
      destruct (mem (edes f) (del (edes p) (d_cached df))); cbn [d_stale del filter].
      * rewrite N.eqb_refl. reflexivity.
      * reflexivity.
    + unfold d_forget. cbn [d_stale]. rewrite H1. reflexivity.
Qed.

Definition einv (st : estate) : Prop :=
  exists dst, dsteps [] (rev (e_trace st)) = Some dst /\ dshape dst (e_scope st).

Lemma do_ops_inv : forall c st ops st',
  Forall not_add_up ops -> einv st -> do_ops c st ops = Some st' -> einv st'.
Proof.
  intros c st ops st' Hn [dst [Hd Hs]] H. unfold do_ops in H.
  destruct (run c (e_scope st) ops) as [[s' rs]|] eqn:Hr; [|discriminate]. inversion H; subst; clear H.
  destruct (dsteps_shape c ops dst (e_scope st) s' rs Hs Hn Hr) as [dst' [Hd' Hs']].
  exists dst'. cbn [e_trace e_scope]. split; [|exact Hs'].
  rewrite rev_app_distr, rev_involutive, dsteps_app, Hd. exact Hd'.
Qed.

Lemma use_ops_not_add : forall t it, Forall not_add_up (use_ops t it).
Proof.
  intros t it. destruct it; cbn [use_ops]; try constructor.
  - destruct (mtab_find t p) as [[v r]|]; repeat constructor.
  - destruct (mtab_find t p) as [[v r]|]; [|constructor].
    destruct (ents_get (r_ents r) d) as [[e|os]|]; [repeat constructor| |constructor].
    induction os; cbn [map]; constructor; [exact I|assumption].
  - destruct (mtab_find t c) as [[v r]|]; repeat constructor.
Qed.

Lemma lookup_step_inv : forall (c : cfg) tr dst sc d res sc',
  dsteps [] (rev tr) = Some dst -> dshape dst sc -> lookup sc d = Some (res, sc') ->
  exists dst', dsteps [] (rev (OLookup d :: tr)) = Some dst' /\ dshape dst' sc'.
Proof.
  intros c tr dst sc d res sc' Hd Hs El.
  assert (He : exec c sc (OLookup d) = Some (sc', Some res)) by (cbn [exec]; rewrite El; reflexivity).
  destruct (dstep_shape c dst sc (OLookup d) sc' (Some res) Hs I He) as [dst' [Hd' Hs']].
  exists dst'. split; [|exact Hs']. cbn [rev]. rewrite dsteps_app, Hd. cbn [dsteps]. rewrite Hd'. reflexivity.
Qed.

Lemma elab_item_inv : forall c lt st it st',
  body_uncaches c = true -> einv st -> elab_item c lt st it = Some st' -> einv st'.
Proof.
  intros c lt st it st' Hb Hi H. destruct it; cbn [elab_item] in H.
  - eapply do_ops_inv; [|exact Hi|exact H]. repeat constructor.
  - eapply do_ops_inv; [|exact Hi|exact H]. apply use_ops_not_add.
  - eapply do_ops_inv; [|exact Hi|exact H]. apply use_ops_not_add.
  - eapply do_ops_inv; [|exact Hi|exact H]. apply use_ops_not_add.
  - (* site *)
    unfold elab_site in H. destruct Hi as [dst [Hd Hs]].
    assert (Hplain : forall u,
      match match u with UVal t => if is_character (sdes s) then Some t else None | _ => None end with
      | Some t => Some (mkE (e_tab st) (e_scope st) (e_trace st)
                            (mkOut (sid s) (char_site_result (lits_find lt t) (sdes s))
                                   (char_site_result (lits_find lt t) (sdes s)) None :: e_out st))
      | None => match lookup (e_scope st) (sdes s) with
                | None => None
                | Some (res, s') =>
                    Some (mkE (e_tab st) s' (OLookup (sdes s) :: e_trace st)
                              (mkOut (sid s) (site_result (sdes s) u (looked_of res))
                                     (site_result (sdes s) u (looked_of (lookup_uncached (e_scope st) (sdes s)))) None
                               :: e_out st))
                end
      end = Some st' -> einv st').
    { intros u Hu.
      destruct (match u with UVal t => if is_character (sdes s) then Some t else None | _ => None end).
      - inversion Hu; subst. exists dst. split; assumption.
      - destruct (lookup (e_scope st) (sdes s)) as [[res s1]|] eqn:El; [|discriminate]. inversion Hu; subst.
        destruct (lookup_step_inv c (e_trace st) dst (e_scope st) (sdes s) res s1 Hd Hs El) as [dst' [Hd' Hs']].
        exists dst'. split; assumption. }
    destruct (suse s) as [t|a t| |x t];
      [apply (Hplain (UVal t) H)|apply (Hplain (UCall a t) H)|apply (Hplain UType H)|].
    destruct (lookup (e_scope st) (sdes s)) as [[ro s1]|] eqn:E1; [|discriminate].
    destruct (lookup s1 (xarg_des x)) as [[ri s2]|] eqn:E2; [|discriminate]. inversion H; subst; clear H.
    destruct (lookup_step_inv c (e_trace st) dst (e_scope st) (sdes s) ro s1 Hd Hs E1) as [dst1 [Hd1 Hs1]].
    destruct (lookup_step_inv c (OLookup (sdes s) :: e_trace st) dst1 s1 (xarg_des x) ri s2 Hd1 Hs1 E2) as [dst2 [Hd2 Hs2]].
    exists dst2. split; assumption.
  - eapply do_ops_inv; [|exact Hi|exact H]. repeat constructor.
  - (* function body *)
    destruct Hi as [dst [Hd Hs]]. unfold do_ops in H.
    destruct (run c (e_scope st) _) as [[s' rs]|] eqn:Hr; [|discriminate]. inversion H; subst; clear H.
    destruct (dsteps_fun_body c f param dst (e_scope st) s' rs Hb Hs Hr) as [dst' [Hd' Hs']].
    exists dst'. cbn [e_trace e_scope]. split; [|exact Hs'].
    set (ops := [ONested; OAdd 0 param; OAdd 1 f] ++ (if body_uncaches c then [OUncache (edes f)] else [])) in *.
    change (dsteps [] (rev (rev ops ++ e_trace st)) = Some dst').
    rewrite rev_app_distr, rev_involutive, dsteps_app, Hd. exact Hd'.
  - eapply do_ops_inv; [|exact Hi|exact H]. repeat constructor.
Qed.

Lemma elab_items_inv : forall c lt its st st',
  body_uncaches c = true -> einv st -> elab_items c lt st its = Some st' -> einv st'.
Proof.
  induction its as [|it r IH]; intros st st' Hb Hi H; cbn [elab_items] in H.
  - inversion H; subst. exact Hi.
  - destruct (elab_item c lt st it) as [st1|] eqn:E; [|discriminate].
    eapply IH; [exact Hb| |exact H]. eapply elab_item_inv; eauto.
Qed.

Lemma flat_use_ops_not_add : forall t its, Forall not_add_up (flat_map (use_ops t) its).
Proof.
  intros t its. induction its as [|it r IH]; cbn [flat_map]; [constructor|].
  apply Forall_app. split; [apply use_ops_not_add|exact IH].
Qed.

Lemma elab_unit_inv : forall c lt st u st',
  body_uncaches c = true -> einv st -> elab_unit c lt st u = Some st' -> einv st'.
Proof.
  intros c lt st u st' Hb Hi H. unfold elab_unit in H.
  set (start := match ukd u with
                | UPrimary => do_ops c st (ORoot region_empty :: flat_map (use_ops (e_tab st)) std_context)
                | USecondary q => match mtab_find (e_tab st) q with
                                  | Some (v, _) => do_ops c st [ORoot (mkRegion [] v)]
                                  | None => do_ops c st (ORoot region_empty :: flat_map (use_ops (e_tab st)) std_context)
                                  end
                end) in H.
  destruct start as [st0|] eqn:E0; [|discriminate].
  assert (I0 : einv st0).
  { unfold start in E0. destruct (ukd u) as [|q].
    - eapply do_ops_inv; [|exact Hi|exact E0]. constructor; [exact I|apply flat_use_ops_not_add].
    - destruct (mtab_find (e_tab st) q) as [[v r]|].
      + eapply do_ops_inv; [|exact Hi|exact E0]. repeat constructor.
      + eapply do_ops_inv; [|exact Hi|exact E0]. constructor; [exact I|apply flat_use_ops_not_add]. }
  destruct (elab_items c lt st0 (uctx u)) as [st1|] eqn:E1; [|discriminate].
  assert (I1 : einv st1) by (eapply elab_items_inv; eauto).
  set (opened := match ukd u with
                 | UPrimary => do_ops c st1 [ONested]
                 | USecondary q => match mtab_find (e_tab st1) q with
                                   | Some (_, r) => do_ops c st1 [OExtend r]
                                   | None => do_ops c st1 [ONested]
                                   end
                 end) in H.
  destruct opened as [st2|] eqn:E2; [|discriminate].
  assert (I2 : einv st2).
  { unfold opened in E2. destruct (ukd u) as [|q].
    - eapply do_ops_inv; [|exact I1|exact E2]. repeat constructor.
    - destruct (mtab_find (e_tab st1) q) as [[v r]|]; (eapply do_ops_inv; [|exact I1|exact E2]); repeat constructor. }
  destruct (elab_items c lt st2 (ubody u)) as [st3|] eqn:E3; [|discriminate].
  assert (I3 : einv st3) by (eapply elab_items_inv; eauto).
  inversion H; subst. exact I3.
Qed.

Lemma elab_units_inv : forall c lt us st st',
  body_uncaches c = true -> einv st -> elab_units c lt st us = Some st' -> einv st'.
Proof.
  induction us as [|u r IH]; intros st st' Hb Hi H; cbn [elab_units] in H.
  - inversion H; subst. exact Hi.
  - destruct (elab_unit c lt st u) as [st1|] eqn:E; [|discriminate].
    eapply IH; [exact Hb| |exact H]. eapply elab_unit_inv; eauto.
Qed.

(* whatever program the elaborator of today's code processes, its trace follows the discipline *)
Theorem elaborator_disciplined : forall p m, model_program cfg_now p = Some m -> disciplined [] (m_trace m).
Proof.
  intros p m H. unfold model_program in H.
  destruct (elab_units cfg_now (program_lits p) (mkE std_mtable [] [] []) p) as [st|] eqn:E; [|discriminate].
  inversion H; subst; clear H. cbn [m_trace].
  assert (I0 : einv (mkE std_mtable [] [] [])).
  { exists []. split; [reflexivity|]. split; [reflexivity|constructor]. }
  destruct (elab_units_inv cfg_now _ p _ st eq_refl I0 E) as [dst [Hd _]].
  eapply dsteps_disciplined. exact Hd.
Qed.

Lemma disciplined_prefix : forall t1 t2 st, disciplined st (t1 ++ t2) -> disciplined st t1.
Proof.
  induction t1 as [|o t IH]; intros t2 st H; [constructor|]. cbn [app] in H.
  inversion H as [|? ? st1 ? Hs Hd]; subst. econstructor; eauto.
Qed.

(* every lookup the elaborator performs returns what lookup_uncached returns at that moment *)
Corollary elaborator_cache_coherent : forall p m t d rest s rs,
  model_program cfg_now p = Some m -> m_trace m = t ++ OLookup d :: rest ->
  run cfg_now [] t = Some (s, rs) -> exists s', lookup s d = Some (lookup_uncached s d, s').
Proof.
  intros p m t d rest s rs Hm Ht Hr. pose proof (elaborator_disciplined p m Hm) as Hd. rewrite Ht in Hd.
  replace (t ++ OLookup d :: rest) with ((t ++ [OLookup d]) ++ rest) in Hd by (rewrite <- app_assoc; reflexivity).
  apply disciplined_prefix in Hd. eapply cache_coherent; eauto.
Qed.

(* ------------------------------------------------------------------------------------------ *)
(* Calls whose actual is itself a use site                                                      *)
(* ------------------------------------------------------------------------------------------ *)
(* corpus: conv(color) return level / state; literal v0 of color and of light; pick(integer)
   return color / light *)
Definition prog_conv : program :=
 [mkUnit 1 UPrimary [] [IDecl (mkEnt 1 110 (KLit (TOth 10)) None); IDecl (mkEnt 2 0 (KLit (TOth 10)) None); IDecl (mkEnt 3 1 (KLit (TOth 10)) None); IDecl (mkEnt 4 10 (KType (TOth 10) [(1, 110); (2, 0); (3, 1)]) None)];
  mkUnit 2 UPrimary [] [IDecl (mkEnt 5 111 (KLit (TOth 11)) None); IDecl (mkEnt 6 0 (KLit (TOth 11)) None); IDecl (mkEnt 7 2 (KLit (TOth 11)) None); IDecl (mkEnt 8 11 (KType (TOth 11) [(5, 111); (6, 0); (7, 2)]) None)];
  mkUnit 3 UPrimary [] [IDecl (mkEnt 9 112 (KLit (TOth 12)) None); IDecl (mkEnt 10 12 (KType (TOth 12) [(9, 112)]) None)];
  mkUnit 4 UPrimary [] [IDecl (mkEnt 11 113 (KLit (TOth 13)) None); IDecl (mkEnt 12 10 (KType (TOth 13) [(11, 113)]) None)];
  mkUnit 5 UPrimary [] [IDecl (mkEnt 20 4 (KFunc (TOth 10) (TOth 12)) None); IDecl (mkEnt 21 4 (KFunc (TOth 10) (TOth 13)) None); IDecl (mkEnt 22 5 (KFunc (TInt 0) (TOth 10)) None); IDecl (mkEnt 23 5 (KFunc (TInt 0) (TOth 11)) None)];
  mkUnit 7 UPrimary [IUseAll 1; IUseAll 2; IUseAll 5] [];
  mkUnit 8 (USecondary 7) [] [ISite (mkSite 1 4 (UCallX (XName 2 0) (TOth 12))); ISite (mkSite 3 4 (UCallX (XName 4 0) (TOth 13)));
                              ISite (mkSite 5 4 (UCallX (XCall 6 5 AUniv) (TOth 12))); ISite (mkSite 7 4 (UCallX (XName 8 2) (TOth 12)))]].

Lemma example_conv :
  family_program prog_conv = true /\
  spec_program prog_conv =
    [(1, ADecl 20); (2, ADecl 2); (3, ADecl 21); (4, ADecl 2); (5, ADecl 20); (6, ADecl 22); (7, AError); (8, AError)] /\
  observed cfg_now prog_conv =
    Some ([(1, Some 20, MOk); (2, Some 2, MOk); (3, Some 21, MOk); (4, Some 2, MOk); (5, Some 20, MOk); (6, Some 22, MOk);
           (7, None, MError); (8, None, MError)],
          [(1, Some 20, MOk); (2, Some 2, MOk); (3, Some 21, MOk); (4, Some 2, MOk); (5, Some 20, MOk); (6, Some 22, MOk);
           (7, None, MError); (8, None, MError)]).
Proof. repeat split; vm_compute; reflexivity. Qed.

(* the seeded change "check_call of the return-type stage dropped": the call still resolves and no
   diagnostic appears, but the overloaded actual keeps no reference, where the reference resolver
   (and the model of today's code) name the literal of the parameter's type *)
Lemma return_stage_check_dropped_refuted :
  let convs := [mkEnt 20 4 (KFunc (TOth 10) (TOth 12)) None; mkEnt 21 4 (KFunc (TOth 10) (TOth 13)) None] in
  let reds := [mkEnt 2 0 (KLit (TOth 10)) None; mkEnt 6 0 (KLit (TOth 11)) None] in
  resolve_x (DOver convs) (DOver reds) (XName 2 0) (TOth 12) = (ADecl 20, ADecl 2) /\
  site_result_x 4 (XName 2 0) (TOth 12) (LkOver convs) (LkOver reds) = mkXres (Some 20) (Some 2) MOk (Some 3%nat) /\
  site_result_x_gen (Some 3%nat) 4 (XName 2 0) (TOth 12) (LkOver convs) (LkOver reds) = mkXres (Some 20) None MOk (Some 3%nat).
Proof. repeat split; vm_compute; reflexivity. Qed.

(* sibling regions: alternatives of a case generate, branches of an if generate, a for generate; each
   is a region of its own (a seeded change that let all alternatives of a case generate share one
   region is caught on this program) *)
Definition prog_siblings : program :=
 [mkUnit 1 UPrimary [] [IDecl (mkEnt 1 0 (KObj (TInt 0)) None); IDecl (mkEnt 2 1 (KObj (TInt 0)) None)];
 mkUnit 2 UPrimary [IUseAll 1] [];
 mkUnit 3 (USecondary 2) [] [IDecl (mkEnt 3 2 (KObj (TInt 0)) None); IOpenFun (mkEnt 4 1 (KFunc (TInt 0) (TInt 0)) None) (mkEnt 5 9 (KObj (TInt 0)) None); IClose; ISite (mkSite 1 0 (UVal (TInt 0))); IOpen; IDecl (mkEnt 6 2 (KObj (TOth 0)) None); IOpenFun (mkEnt 7 1 (KFunc (TInt 0) (TInt 0)) None) (mkEnt 8 9 (KObj (TInt 0)) None); IClose; ISite (mkSite 2 2 (UVal (TOth 0))); ISite (mkSite 3 1 (UCall AUniv (TInt 0))); IClose; IOpen; ISite (mkSite 4 2 (UVal (TInt 0))); ISite (mkSite 5 1 (UCall AUniv (TInt 0))); IDecl (mkEnt 9 2 (KObj (TInt 0)) None); ISite (mkSite 6 2 (UVal (TInt 0))); IClose; IOpen; IDecl (mkEnt 10 2 (KObj (TOth 0)) None); ISite (mkSite 7 2 (UVal (TOth 0))); IClose; IOpen; IDecl (mkEnt 11 3 (KObj (TInt 0)) None); ISite (mkSite 8 3 (UVal (TInt 0))); IClose; IOpen; ISite (mkSite 9 3 (UVal (TInt 0))); IDecl (mkEnt 12 3 (KObj (TOth 0)) None); IClose; IOpen; ISite (mkSite 10 3 (UVal (TInt 0))); IClose; IOpen; IDecl (mkEnt 13 0 (KObj (TInt 0)) None); ISite (mkSite 11 0 (UVal (TInt 0))); IOpen; ISite (mkSite 12 0 (UVal (TInt 0))); IClose; IClose]].
Lemma example_siblings :
  family_program prog_siblings = true /\
  spec_program prog_siblings = [(1, ADecl 1); (2, ADecl 6); (3, ADecl 7); (4, ADecl 3); (5, ADecl 4); (6, ADecl 9); (7, ADecl 10); (8, ADecl 11); (9, AUndeclared); (10, AUndeclared); (11, ADecl 13); (12, ADecl 13)] /\
  option_map fst (observed cfg_now prog_siblings) = Some [(1, Some 1, MOk); (2, Some 6, MOk); (3, Some 7, MOk); (4, Some 3, MOk); (5, Some 4, MOk); (6, Some 9, MOk); (7, Some 10, MOk); (8, Some 11, MOk); (9, None, MUndeclared); (10, None, MUndeclared); (11, Some 13, MOk); (12, Some 13, MOk)] /\
  trace_disciplined cfg_now prog_siblings = Some true.
Proof. repeat split; vm_compute; reflexivity. Qed.

(* context declarations: a context reference stands for the clauses of the context, in place; in the
   analyser Visibility::add_context_visibility (OCtx).  By-name use clauses before and after the
   reference conflict alike; overloads and the literals of a type named in the context are added *)
Definition prog_contexts : program :=
 [mkUnit 1 UPrimary [] [IDecl (mkEnt 1 0 (KObj (TInt 0)) None); IDecl (mkEnt 2 1 (KObj (TInt 0)) None)];
 mkUnit 2 UPrimary [] [IDecl (mkEnt 3 0 (KObj (TInt 0)) None); IDecl (mkEnt 4 1 (KFunc (TInt 0) (TInt 0)) None)];
 mkUnit 3 UPrimary [] [IDecl (mkEnt 5 1 (KFunc (TOth 0) (TInt 0)) None); IDecl (mkEnt 6 2 (KObj (TInt 0)) None)];
 mkUnit 4 UPrimary [] [IDecl (mkEnt 7 110 (KLit (TOth 10)) None); IDecl (mkEnt 8 2 (KLit (TOth 10)) None); IDecl (mkEnt 9 10 (KType (TOth 10) [(7, 110); (8, 2)]) None)];
 mkUnit 5 (USecondary 2) [] [IOpenFun (mkEnt 10 1 (KFunc (TInt 0) (TInt 0)) (Some 4)) (mkEnt 11 9 (KObj (TInt 0)) None); IClose];
 mkUnit 6 (USecondary 3) [] [IOpenFun (mkEnt 12 1 (KFunc (TOth 0) (TInt 0)) (Some 5)) (mkEnt 13 9 (KObj (TOth 0)) None); IClose];
 mkUnit 7 UPrimary [] [IUseName 1 0; IUseName 2 1; IUseName 4 10];
 mkUnit 8 UPrimary [] [IUseCtx 7; IUseAll 1];
 mkUnit 9 UPrimary [IUseName 2 0; IUseName 3 1; IUseName 3 2; IUseCtx 7] [];
 mkUnit 10 (USecondary 9) [] [ISite (mkSite 1 0 (UVal (TInt 0))); ISite (mkSite 2 1 (UCall AUniv (TInt 0))); ISite (mkSite 3 1 (UCall (ATy (TOth 0)) (TInt 0))); ISite (mkSite 4 2 (UVal (TOth 10))); ISite (mkSite 5 2 (UVal (TInt 0))); ISite (mkSite 6 10 UType)];
 mkUnit 11 UPrimary [IUseCtx 7; IUseName 2 0; IUseName 3 1; IUseName 3 2] [];
 mkUnit 12 (USecondary 11) [] [ISite (mkSite 7 0 (UVal (TInt 0))); ISite (mkSite 8 1 (UCall AUniv (TInt 0))); ISite (mkSite 9 1 (UCall (ATy (TOth 0)) (TInt 0))); ISite (mkSite 10 2 (UVal (TOth 10))); ISite (mkSite 11 2 (UVal (TInt 0)))];
 mkUnit 13 UPrimary [IUseCtx 8] [];
 mkUnit 14 (USecondary 13) [] [ISite (mkSite 12 0 (UVal (TInt 0))); ISite (mkSite 13 1 (UVal (TInt 0))); ISite (mkSite 14 1 (UCall AUniv (TInt 0)))]].
Lemma example_contexts :
  family_program prog_contexts = true /\
  spec_program prog_contexts = [(1, AConflict); (2, ADecl 4); (3, ADecl 5); (4, AConflict); (5, AConflict); (6, ADecl 9); (7, AConflict); (8, ADecl 4); (9, ADecl 5); (10, AConflict); (11, AConflict); (12, ADecl 1); (13, AConflict); (14, AConflict)] /\
  option_map fst (observed cfg_now prog_contexts) = Some [(1, None, MConflict); (2, Some 4, MOk); (3, Some 5, MOk); (4, None, MConflict); (5, None, MConflict); (6, Some 9, MOk); (7, None, MConflict); (8, Some 4, MOk); (9, Some 5, MOk); (10, None, MConflict); (11, None, MConflict); (12, Some 1, MOk); (13, None, MConflict); (14, None, MConflict)] /\
  trace_disciplined cfg_now prog_contexts = Some true.
Proof. repeat split; vm_compute; reflexivity. Qed.
