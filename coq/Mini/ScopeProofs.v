(* Mini/ScopeProofs.v — proofs about Mini/Scope.v, Mini/Overload.v, Mini/ScopeImpl.v
   Part 1: the lookup cache is coherent along every trace that follows the analysis discipline.
   Part 2: lookup_uncached on the scope chain of a program point refines Scope.denotes.
   Part 3: the staged disambiguation refines "the unique candidate whose types fit". *)
From Coq Require Import List NArith Bool Lia Permutation.
Import ListNotations.
From RH Require Import Mini.Scope Mini.Overload Mini.ScopeImpl.
Open Scope N_scope.

#[local] Arguments N.eqb : simpl never.

(* ------------------------------------------------------------------------------------------ *)
(* Part 1: cache coherence                                                                    *)
(* ------------------------------------------------------------------------------------------ *)

(* two scope chains that agree, frame by frame, on the immediate declarations of d and on the
   visibility give the same uncached lookup of d (in particular: caches are irrelevant) *)
Definition same_for (d : des) (f f' : frame) : Prop :=
  lookup_immediate f d = lookup_immediate f' d /\ r_vis (f_region f) = r_vis (f_region f').

Lemma lookup_enclosing_same : forall d s s',
  Forall2 (same_for d) s s' -> lookup_enclosing s d = lookup_enclosing s' d.
Proof.
  intros d s s' H. induction H as [|f f' s s' [Hi Hv] HF IH]; [reflexivity|].
  cbn [lookup_enclosing]. rewrite Hi, IH. reflexivity.
Qed.

Lemma lookup_visibility_same : forall d s s',
  Forall2 (same_for d) s s' -> forall acc, lookup_visibility_into s d acc = lookup_visibility_into s' d acc.
Proof.
  intros d s s' H. induction H as [|f f' s s' [Hi Hv] HF IH]; intros acc; [reflexivity|].
  cbn [lookup_visibility_into]. rewrite Hv. apply IH.
Qed.

Lemma lookup_uncached_same : forall d s s',
  Forall2 (same_for d) s s' -> lookup_uncached s d = lookup_uncached s' d.
Proof.
  intros d s s' H. unfold lookup_uncached, lookup_visible.
  rewrite (lookup_enclosing_same d s s' H), (lookup_visibility_same d s s' H). reflexivity.
Qed.

Lemma same_for_refl : forall d f, same_for d f f.
Proof. intros; split; reflexivity. Qed.
Lemma Forall2_same_refl : forall d s, Forall2 (same_for d) s s.
Proof. intros d s; induction s; constructor; auto using same_for_refl. Qed.

(* a nested scope starts transparent *)
Lemma ents_get_nil : forall d, ents_get [] d = None.
Proof. reflexivity. Qed.

Lemma lookup_uncached_nested : forall c s d,
  lookup_uncached (mkFrame region_empty c :: s) d = lookup_uncached s d.
Proof.
  intros c s d. unfold lookup_uncached, lookup_visible.
  cbn [lookup_enclosing lookup_visibility_into lookup_immediate f_region region_empty r_ents r_vis
       vis_lookup_into vis_empty v_all v_named fold_left ents_get vmap_get].
  reflexivity.
Qed.

(* Region::add only changes what its own designator denotes *)
Lemma ents_get_add_other : forall m e d, d <> edes e -> ents_get (ents_add m e) d = ents_get m d.
Proof.
  intros m e d Hd. induction m as [|[k n] r IH]; cbn [ents_add ents_get].
  - destruct (N.eqb_spec (edes e) d); [congruence|reflexivity].
  - destruct (N.eqb_spec k (edes e)) as [->|Hk]; cbn [ents_get].
    + destruct (N.eqb_spec (edes e) d); [congruence|reflexivity].
    + destruct (N.eqb_spec k d); [reflexivity|apply IH].
Qed.

Lemma same_for_add : forall c f e d, d <> edes e -> same_for d (frame_add c f e) f.
Proof.
  intros c f e d Hd. split; cbn [frame_add lookup_immediate f_region r_ents r_vis].
  - apply ents_get_add_other; exact Hd.
  - reflexivity.
Qed.

Lemma update_nth_same : forall c e d k s s',
  d <> edes e -> update_nth k (fun f => frame_add c f e) s = Some s' -> Forall2 (same_for d) s' s.
Proof.
  intros c e d k. induction k as [|k IH]; intros s s' Hd H; destruct s as [|f r]; cbn [update_nth] in H; try discriminate.
  - inversion H; subst. constructor; [apply same_for_add; exact Hd|apply Forall2_same_refl].
  - destruct (update_nth k _ r) as [r'|] eqn:E; [|discriminate]. inversion H; subst.
    constructor; [apply same_for_refl|]. eapply IH; eauto.
Qed.

(* --- the invariant ------------------------------------------------------------------------ *)
Definition keys_ok (cached : list des) (c : cache) : Prop :=
  forall d n, cache_get c d = Some n -> mem d cached = true.
Definition cache_ok (stale : list des) (c : cache) (s : scope) : Prop :=
  forall d n, cache_get c d = Some n -> mem d stale = false -> lookup_uncached s d = LOk n.

Fixpoint coherent (st : list dframe) (s : scope) : Prop :=
  match st, s with
  | [], [] => True
  | df :: st', f :: s' =>
      keys_ok (d_cached df) (f_cache f) /\ cache_ok (d_stale df) (f_cache f) (f :: s') /\ coherent st' s'
  | _, _ => False
  end.

Lemma mem_true_iff : forall d l, mem d l = true <-> In d l.
Proof.
  intros d l. unfold mem. rewrite existsb_exists. split.
  - intros [x [Hx He]]. apply N.eqb_eq in He. subst. exact Hx.
  - intros H. exists d. split; [exact H|apply N.eqb_refl].
Qed.
Lemma mem_cons : forall d x l, mem d (x :: l) = (d =? x) || mem d l.
Proof. reflexivity. Qed.
Lemma mem_del : forall d x l, mem d (del x l) = negb (d =? x) && mem d l.
Proof.
  intros d x l. unfold mem, del. induction l as [|y r IH]; cbn [filter existsb].
  - rewrite andb_false_r. reflexivity.
  - destruct (N.eqb_spec y x) as [->|Hy]; cbn [negb].
    + rewrite IH. destruct (N.eqb_spec d x) as [->|Hd]; cbn [negb andb orb]; reflexivity.
    + cbn [existsb]. rewrite IH.
      destruct (N.eqb_spec d y) as [->|Hd]; cbn [orb].
      * destruct (N.eqb_spec y x); [congruence|reflexivity].
      * reflexivity.
Qed.

Lemma cache_get_remove : forall c x d,
  cache_get (cache_remove c x) d = if d =? x then None else cache_get c d.
Proof.
  intros c x d. unfold cache_get, cache_remove. induction c as [|[k n] r IH]; cbn [filter ents_get fst].
  - destruct (d =? x); reflexivity.
  - destruct (N.eqb_spec k x) as [Hk|Hk]; cbn [negb].
    + rewrite IH. subst k. destruct (N.eqb_spec d x) as [Hd|Hd]; [reflexivity|].
      destruct (N.eqb_spec x d); [congruence|reflexivity].
    + cbn [ents_get]. rewrite IH. destruct (N.eqb_spec k d) as [Hkd|Hkd]; [|reflexivity].
      subst k. destruct (N.eqb_spec d x); [congruence|reflexivity].
Qed.

Lemma keys_ok_forget : forall cached c x, keys_ok cached c -> keys_ok (del x cached) (cache_remove c x).
Proof.
  intros cached c x H d n Hg. rewrite cache_get_remove in Hg.
  destruct (N.eqb_spec d x) as [->|Hd]; [discriminate|].
  rewrite mem_del. apply H in Hg. rewrite Hg.
  destruct (N.eqb_spec d x); [congruence|reflexivity].
Qed.

(* frames whose region is not touched keep their coherence when only caches of inner frames change *)
Lemma cache_ok_same : forall stale c s s',
  (forall d, Forall2 (same_for d) s' s) -> cache_ok stale c s -> cache_ok stale c s'.
Proof.
  intros stale c s s' HS H d n Hg Hm. rewrite (lookup_uncached_same d s' s (HS d)). apply H; assumption.
Qed.

Lemma coherent_length : forall st s, coherent st s -> length st = length s.
Proof.
  induction st as [|df st IH]; destruct s as [|f s]; cbn [coherent]; intros H; try contradiction; [reflexivity|].
  destruct H as [_ [_ H]]. cbn [length]. f_equal. apply IH; exact H.
Qed.

(* add k levels up *)
Lemma coherent_add : forall c e, add_invalidates c = true -> forall k st s st' s',
  coherent st s -> d_add k (edes e) st = Some st' ->
  update_nth k (fun f => frame_add c f e) s = Some s' -> coherent st' s'.
Proof.
  intros c e Hc k. induction k as [|k IH]; intros st s st' s' Hco Hd Hu;
    destruct st as [|df st0]; destruct s as [|f s0]; cbn [coherent] in Hco; try contradiction;
    cbn [d_add] in Hd; cbn [update_nth] in Hu; try discriminate.
  - inversion Hd; subst; clear Hd. inversion Hu; subst; clear Hu.
    destruct Hco as [Hk [Hok Hrest]]. cbn [coherent]. split; [|split; [|exact Hrest]].
    + cbn [frame_add f_cache d_forget d_cached]. rewrite Hc. apply keys_ok_forget; exact Hk.
    + intros d n Hg Hm. cbn [frame_add f_cache] in Hg. rewrite Hc in Hg.
      rewrite cache_get_remove in Hg. destruct (N.eqb_spec d (edes e)) as [->|Hde]; [discriminate|].
      cbn [d_forget d_stale] in Hm. rewrite mem_del in Hm.
      destruct (N.eqb_spec d (edes e)); [congruence|]. cbn [negb andb] in Hm.
      rewrite (lookup_uncached_same d (frame_add c f e :: s0) (f :: s0)).
      * apply Hok; assumption.
      * constructor; [apply same_for_add; exact Hde|apply Forall2_same_refl].
  - destruct (d_add k (edes e) st0) as [st0'|] eqn:Ed; [|discriminate]. inversion Hd; subst; clear Hd.
    destruct (update_nth k _ s0) as [s0'|] eqn:Eu; [|discriminate]. inversion Hu; subst; clear Hu.
    destruct Hco as [Hk [Hok Hrest]]. cbn [coherent]. split; [|split; [|eapply IH; eauto]].
    + unfold d_taint. destruct (mem (edes e) (d_cached df)); cbn [d_cached]; exact Hk.
    + intros d n Hg Hm.
      assert (Hde : d <> edes e).
      { intros ->. pose proof (Hk _ _ Hg) as Hin. unfold d_taint in Hm. rewrite Hin in Hm.
        cbn [d_stale] in Hm. rewrite mem_cons, N.eqb_refl in Hm. discriminate. }
      assert (Hm' : mem d (d_stale df) = false).
      { unfold d_taint in Hm. destruct (mem (edes e) (d_cached df)); cbn [d_stale] in Hm; [|exact Hm].
        rewrite mem_cons in Hm. apply orb_false_iff in Hm. tauto. }
      rewrite (lookup_uncached_same d (f :: s0') (f :: s0)).
      * apply Hok; assumption.
      * constructor; [apply same_for_refl|]. eapply update_nth_same; eauto.
Qed.

(* the whole-step lemma *)
Definition cfg_sound (c : cfg) : Prop := add_invalidates c = true /\ mpv_clears c = true.

Lemma keys_ok_nil : forall l, keys_ok l [].
Proof. intros l d n H. discriminate. Qed.
Lemma cache_ok_nil : forall l s, cache_ok l [] s.
Proof. intros l s d n H. discriminate. Qed.

Lemma lookup_uncached_cache_irrelevant : forall r c c' s d,
  lookup_uncached (mkFrame r c :: s) d = lookup_uncached (mkFrame r c' :: s) d.
Proof.
  intros. apply lookup_uncached_same. constructor; [split; reflexivity|apply Forall2_same_refl].
Qed.

Lemma coherent_step : forall c st s o st' s' res,
  cfg_sound c -> coherent st s -> dstep st o = Some st' -> exec c s o = Some (s', res) ->
  coherent st' s' /\ (forall d, o = OLookup d -> res = Some (lookup_uncached s d)).
Proof.
  intros c st s o st' s' res [Hca Hcm] Hco Hd He. destruct o; cbn [dstep exec] in Hd, He.
  - (* ORoot *) inversion Hd; inversion He; subst. split; [|intros; discriminate].
    cbn [coherent f_cache d_cached d_stale]. split; [apply keys_ok_nil|split; [apply cache_ok_nil|exact I]].
  - (* OExtend *)
    destruct st as [|df st0]; [discriminate|]. destruct s as [|f s0]; [discriminate|].
    inversion Hd; inversion He; subst. split; [|intros; discriminate].
    cbn [coherent f_cache d_cached d_stale]. split; [apply keys_ok_nil|split; [apply cache_ok_nil|exact Hco]].
  - (* ONested *)
    destruct st as [|df st0]; [discriminate|]. destruct s as [|f s0]; [discriminate|].
    inversion Hd; inversion He; subst. split; [|intros; discriminate].
    pose proof Hco as Hco'. cbn [coherent] in Hco'. destruct Hco' as [Hk [Hok _]].
    cbn [coherent f_cache]. split; [exact Hk|split; [|exact Hco]].
    intros d n Hg Hm. rewrite lookup_uncached_nested. apply Hok; assumption.
  - (* ODrop *)
    destruct st as [|df [|df1 st0]]; try discriminate.
    destruct s as [|f [|f1 s0]]; try discriminate; cbn [coherent] in Hco; try tauto.
    inversion Hd; inversion He; subst. split; [|intros; discriminate]. cbn [coherent]. tauto.
  - (* OAdd *)
    destruct (update_nth k _ s) as [s1|] eqn:Eu; [|discriminate]. inversion He; subst.
    split; [|intros; discriminate]. eapply coherent_add; eauto.
  - (* OMpv *)
    destruct st as [|df st0]; [discriminate|]. destruct s as [|f s0]; [discriminate|].
    inversion Hd; inversion He; subst. split; [|intros; discriminate].
    cbn [coherent] in Hco. destruct Hco as [_ [_ Hrest]].
    cbn [coherent frame_mpv f_cache d_cached d_stale]. rewrite Hcm.
    split; [apply keys_ok_nil|split; [apply cache_ok_nil|exact Hrest]].
  - (* OMapv *)
    destruct st as [|df st0]; [discriminate|]. destruct s as [|f s0]; [discriminate|].
    inversion Hd; inversion He; subst. split; [|intros; discriminate].
    cbn [coherent] in Hco. destruct Hco as [_ [_ Hrest]].
    cbn [coherent frame_mapv f_cache d_cached d_stale].
    split; [apply keys_ok_nil|split; [apply cache_ok_nil|exact Hrest]].
  - (* OUncache *)
    destruct st as [|df st0]; [discriminate|]. destruct s as [|f s0]; [discriminate|].
    inversion Hd; inversion He; subst. split; [|intros; discriminate].
    cbn [coherent] in Hco. destruct Hco as [Hk [Hok Hrest]].
    cbn [coherent frame_uncache f_cache d_forget d_cached d_stale].
    split; [apply keys_ok_forget; exact Hk|split; [|exact Hrest]].
    intros x n Hg Hm. rewrite cache_get_remove in Hg.
    destruct (N.eqb_spec x d) as [->|Hx]; [discriminate|].
    rewrite mem_del in Hm. destruct (N.eqb_spec x d); [congruence|]. cbn [negb andb] in Hm.
    destruct f as [r cch]. unfold frame_uncache. cbn [f_region f_cache] in *.
    rewrite (lookup_uncached_cache_irrelevant r _ cch). apply Hok; assumption.
  - (* OLookup *)
    destruct st as [|df st0]; [discriminate|]. destruct s as [|f s0]; [discriminate|].
    destruct (mem d (d_stale df)) eqn:Hst; [discriminate|]. inversion Hd; subst; clear Hd.
    cbn [coherent] in Hco. destruct Hco as [Hk [Hok Hrest]].
    unfold lookup in He. destruct (cache_get (f_cache f) d) as [n|] eqn:Hg.
    + inversion He; subst; clear He. split.
      * cbn [coherent d_cached d_stale]. split; [|split; [exact Hok|exact Hrest]].
        intros x m Hx. rewrite mem_cons. apply Hk in Hx. rewrite Hx. apply orb_true_r.
      * intros d' Hd'. inversion Hd'; subst. f_equal. symmetry. apply Hok; assumption.
    + destruct (lookup_uncached (f :: s0) d) as [n|er] eqn:Hl; inversion He; subst; clear He.
      * split; [|intros d' Hd'; inversion Hd'; subst; rewrite Hl; reflexivity].
        cbn [coherent d_cached d_stale f_cache]. split; [|split; [|exact Hrest]].
        -- intros x m Hx. rewrite mem_cons. unfold cache_get in Hx. cbn [ents_get] in Hx.
           destruct (N.eqb_spec d x) as [->|Hdx].
           ++ rewrite N.eqb_refl. reflexivity.
           ++ apply Hk in Hx. rewrite Hx. apply orb_true_r.
        -- intros x m Hx Hm. destruct f as [r cch]. cbn [f_region f_cache] in *.
           rewrite (lookup_uncached_cache_irrelevant r _ cch).
           unfold cache_get in Hx. cbn [ents_get] in Hx. destruct (N.eqb_spec d x) as [->|Hdx].
           ++ inversion Hx; subst. exact Hl.
           ++ apply Hok; assumption.
      * split; [|intros d' Hd'; inversion Hd'; subst; rewrite Hl; reflexivity].
        cbn [coherent d_cached d_stale]. split; [|split; [exact Hok|exact Hrest]].
        intros x m Hx. rewrite mem_cons. apply Hk in Hx. rewrite Hx. apply orb_true_r.
Qed.

(* the reference semantics: no cache at all *)
Definition exec_ref (c : cfg) (s : scope) (o : op) : option (scope * option lres) :=
  match o with
  | OLookup d => match s with [] => None | _ :: _ => Some (s, Some (lookup_uncached s d)) end
  | _ => exec c s o
  end.
Fixpoint run_ref (c : cfg) (s : scope) (t : list op) : option (scope * list lres) :=
  match t with
  | [] => Some (s, [])
  | o :: r =>
      match exec_ref c s o with
      | None => None
      | Some (s1, res) =>
          match run_ref c s1 r with
          | None => None
          | Some (s2, out) => Some (s2, match res with Some x => x :: out | None => out end)
          end
      end
  end.

Lemma run_coherent : forall c t st s s' rs,
  cfg_sound c -> coherent st s -> disciplined st t -> run c s t = Some (s', rs) ->
  exists st', coherent st' s' /\ forall d, disciplined st (t ++ [OLookup d]) -> disciplined st' [OLookup d].
Proof.
  intros c t. induction t as [|o t IH]; intros st s s' rs Hc Hco Hd Hr.
  - cbn [run] in Hr. inversion Hr; subst. exists st. split; [exact Hco|]. intros d H. exact H.
  - cbn [run] in Hr. destruct (exec c s o) as [[s1 res]|] eqn:He; [|discriminate].
    destruct (run c s1 t) as [[s2 out]|] eqn:Hr2; [|discriminate]. inversion Hr; subst; clear Hr.
    inversion Hd as [|? ? st1 ? Hs Hd1]; subst.
    destruct (coherent_step c st s o st1 s1 res Hc Hco Hs He) as [Hco1 _].
    destruct (IH st1 s1 s' out Hc Hco1 Hd1 Hr2) as [st' [Hco' Hn]].
    exists st'. split; [exact Hco'|]. intros d H. apply Hn.
    cbn [app] in H. inversion H as [|? ? st1' ? Hs' Hd']; subst. rewrite Hs in Hs'. inversion Hs'; subst. exact Hd'.
Qed.

Theorem cache_coherent : forall t d s rs,
  disciplined [] (t ++ [OLookup d]) -> run cfg_now [] t = Some (s, rs) ->
  exists s', lookup s d = Some (lookup_uncached s d, s').
Proof.
  intros t d s rs Hd Hr.
  assert (Hd1 : disciplined [] t).
  { clear Hr. revert Hd. generalize (@nil dframe). induction t as [|o t IH]; intros st H; [constructor|].
    cbn [app] in H. inversion H; subst. econstructor; eauto. }
  destruct (run_coherent cfg_now t [] [] s rs) as [st' [Hco Hn]]; try assumption.
  - split; reflexivity.
  - exact I.
  - specialize (Hn d Hd). inversion Hn as [|? ? st2 ? Hs _]; subst.
    destruct (exec cfg_now s (OLookup d)) as [[s2 res]|] eqn:He.
    + destruct (coherent_step cfg_now st' s (OLookup d) st2 s2 res) as [_ Hres]; try assumption; [split; reflexivity|].
      specialize (Hres d eq_refl). subst res. cbn [exec] in He.
      destruct (lookup s d) as [[r s3]|]; [|discriminate]. inversion He; subst. exists s2. reflexivity.
    + exfalso. cbn [exec dstep] in He, Hs. destruct st' as [|df st0]; [discriminate|].
      destruct s as [|f s0]; [cbn [coherent] in Hco; contradiction|].
      unfold lookup in He. destruct (cache_get (f_cache f) d); [discriminate|].
      destruct (lookup_uncached (f :: s0) d); discriminate.
Qed.


(* the boolean checker used by the runner decides the inductive predicate *)
Lemma disciplined_b_sound : forall t st, disciplined_b st t = true <-> disciplined st t.
Proof.
  induction t as [|o t IH]; intros st; cbn [disciplined_b].
  - split; [constructor|reflexivity].
  - destruct (dstep st o) as [st'|] eqn:E.
    + rewrite IH. split; intros H.
      * econstructor; eauto.
      * inversion H as [|? ? st1 ? Hs Hd]; subst. rewrite E in Hs. inversion Hs; subst. assumption.
    + split; [discriminate|]. intros H. inversion H as [|? ? st1 ? Hs Hd]; subst. rewrite E in Hs. discriminate.
Qed.

(* ------------------------------------------------------------------------------------------ *)
(* Part 3: overload resolution                                                                *)
(* ------------------------------------------------------------------------------------------ *)
Lemma ty_eqb_eq : forall a b, ty_eqb a b = true <-> a = b.
Proof.
  intros [x|x] [y|y]; cbn [ty_eqb]; try (split; [discriminate|intros H; inversion H]);
    rewrite N.eqb_eq; split; intros H; [subst|inversion H| subst |inversion H]; reflexivity.
Qed.
Lemma ty_eqb_refl : forall a, ty_eqb a a = true.
Proof. intros a. apply ty_eqb_eq. reflexivity. Qed.
Lemma oty_eqb_eq : forall a b, oty_eqb a b = true <-> a = b.
Proof.
  intros [x|] [y|]; cbn [oty_eqb]; try (split; [discriminate|intros H; inversion H]); try tauto.
  rewrite ty_eqb_eq. split; intros H; [subst|inversion H]; reflexivity.
Qed.
Lemma same_profile_eq : forall a b, same_profile a b = true <-> profile a = profile b.
Proof.
  intros a b. unfold same_profile. rewrite andb_true_iff, !oty_eqb_eq.
  destruct (profile a) as [p1 r1], (profile b) as [p2 r2]; cbn [fst snd].
  split; [intros [-> ->]; reflexivity|intros H; inversion H; auto].
Qed.

Lemma distinct_profiles_NoDup : forall l, distinct_profiles l = true <-> NoDup (map profile l).
Proof.
  induction l as [|e r IH]; cbn [distinct_profiles map].
  - split; [constructor|reflexivity].
  - rewrite andb_true_iff, IH, negb_true_iff. split.
    + intros [Hn Hd]. constructor; [|exact Hd]. intros Hin. apply in_map_iff in Hin.
      destruct Hin as [x [Hx Hin]]. assert (existsb (same_profile e) r = true); [|congruence].
      apply existsb_exists. exists x. split; [exact Hin|]. apply same_profile_eq. symmetry. exact Hx.
    + intros H. inversion H as [|? ? Hn Hd]; subst. split; [|exact Hd].
      destruct (existsb (same_profile e) r) eqn:E; [|reflexivity]. exfalso. apply Hn.
      apply existsb_exists in E. destruct E as [x [Hin Hx]]. apply in_map_iff. exists x.
      split; [|exact Hin]. symmetry. apply same_profile_eq. exact Hx.
Qed.

(* for overloadable declarations, fitting a call = surviving every stage's predicate *)
Lemma fits_call_stages : forall a t e, overloadable e = true ->
  cand_fits (UCall a t) e =
  is_function e && accepts_one_actual e && actual_ok implicit_possible a e && return_ok (Some t) e.
Proof.
  intros a t [i d k b] Ho. unfold overloadable in Ho. cbn [ekind] in Ho.
  destruct k as [ty0|p r|ty0|ty0 lits]; try discriminate;
    unfold cand_fits, is_function, accepts_one_actual, actual_ok, return_ok, return_type, formal; cbn [ekind].
  - unfold arg_fits, implicit_possible. destruct a; cbn [andb]; reflexivity.
  - reflexivity.
Qed.

Lemma filter_filter : forall {A} (f g : A -> bool) l, filter f (filter g l) = filter (fun x => g x && f x) l.
Proof.
  intros A f g l. induction l as [|x r IH]; [reflexivity|]. cbn [filter].
  destruct (g x); cbn [filter andb]; [destruct (f x); rewrite IH; reflexivity|exact IH].
Qed.
Lemma filter_ext_in' : forall {A} (f g : A -> bool) l, (forall x, In x l -> f x = g x) -> filter f l = filter g l.
Proof.
  intros A f g l H. induction l as [|x r IH]; [reflexivity|]. cbn [filter].
  rewrite (H x (or_introl eq_refl)). rewrite IH; [reflexivity|]. intros y Hy. apply H. right. exact Hy.
Qed.

Lemma forallb_In : forall {A} (f : A -> bool) l x, forallb f l = true -> In x l -> f x = true.
Proof. intros A f l x H Hin. rewrite forallb_forall in H. auto. Qed.

Definition stage1 (es : list ent) := filter is_function es.
Definition stage2 (es : list ent) := filter accepts_one_actual (stage1 es).
Definition stage3 a (es : list ent) := filter (actual_ok implicit_possible a) (stage2 es).
Definition stage4 a t (es : list ent) := filter (return_ok (Some t)) (stage3 a es).

Lemma stage4_fits : forall a t es, forallb overloadable es = true ->
  stage4 a t es = filter (cand_fits (UCall a t)) es.
Proof.
  intros a t es Ho. unfold stage4, stage3, stage2, stage1. rewrite !filter_filter.
  apply filter_ext_in'. intros x Hx. rewrite (fits_call_stages a t x (forallb_In _ _ _ Ho Hx)).
  rewrite !andb_assoc. reflexivity.
Qed.

Lemma in_stage_of_fits : forall a t es e, forallb overloadable es = true ->
  In e es -> cand_fits (UCall a t) e = true ->
  In e (stage1 es) /\ In e (stage2 es) /\ In e (stage3 a es) /\ In e (stage4 a t es).
Proof.
  intros a t es e Ho Hin Hf. rewrite (fits_call_stages a t e (forallb_In _ _ _ Ho Hin)) in Hf.
  apply andb_true_iff in Hf. destruct Hf as [Hf H4]. apply andb_true_iff in Hf. destruct Hf as [Hf H3].
  apply andb_true_iff in Hf. destruct Hf as [H1 H2].
  unfold stage4, stage3, stage2, stage1. repeat rewrite filter_In. tauto.
Qed.

Lemma disambiguate_stages : forall es a t,
  disambiguate es a (Some t) =
  match es with
  | [e] => Unambiguous e
  | _ =>
    match stage1 es with
    | [e] => Unambiguous e
    | [] => Failed
    | _ => match stage2 es with
           | [e] => Unambiguous e
           | [] => Failed
           | _ => match stage3 a es with
                  | [e] => Unambiguous e
                  | [] => Failed
                  | _ => match stage4 a t es with
                         | [e] => Unambiguous e
                         | [] => Failed
                         | _ => match filter (actual_ok strict_possible a) (stage4 a t es) with
                                | [e] => Unambiguous e
                                | [] => Ambiguous (stage4 a t es)
                                | _ => Ambiguous (filter (actual_ok strict_possible a) (stage4 a t es))
                                end
                         end
                  end
           end
    end
  end.
Proof. reflexivity. Qed.

Lemma singleton_of_in : forall (l : list ent) e x, In e l -> l = [x] -> x = e.
Proof. intros l e x Hin ->. destruct Hin as [H|[]]. exact H. Qed.

Lemma disambiguate_in : forall es a t x, disambiguate es a (Some t) = Unambiguous x -> In x es.
Proof.
  intros es a t x. rewrite disambiguate_stages.
  assert (H1 : forall y, In y (stage1 es) -> In y es) by (intros y Hy; apply filter_In in Hy; tauto).
  assert (H2 : forall y, In y (stage2 es) -> In y es) by (intros y Hy; apply filter_In in Hy; apply H1; tauto).
  assert (H3 : forall y, In y (stage3 a es) -> In y es) by (intros y Hy; apply filter_In in Hy; apply H2; tauto).
  assert (H4 : forall y, In y (stage4 a t es) -> In y es) by (intros y Hy; apply filter_In in Hy; apply H3; tauto).
  assert (H5 : forall y, In y (filter (actual_ok strict_possible a) (stage4 a t es)) -> In y es)
    by (intros y Hy; apply filter_In in Hy; apply H4; tauto).
  destruct es as [|e0 [|e1 r]]; [| intros H; inversion H; subst; left; reflexivity |].
  - cbn. discriminate.
  - set (es := e0 :: e1 :: r) in *.
    destruct (stage1 es) as [|a1 [|b1 r1]] eqn:E1; [discriminate| intros H; inversion H; subst; apply H1; left; reflexivity|].
    destruct (stage2 es) as [|a2 [|b2 r2]] eqn:E2; [discriminate| intros H; inversion H; subst; apply H2; left; reflexivity|].
    destruct (stage3 a es) as [|a3 [|b3 r3]] eqn:E3; [discriminate| intros H; inversion H; subst; apply H3; left; reflexivity|].
    destruct (stage4 a t es) as [|a4 [|b4 r4]] eqn:E4; [discriminate| intros H; inversion H; subst; apply H4; left; reflexivity|].
    destruct (filter (actual_ok strict_possible a) (a4 :: b4 :: r4)) as [|a5 [|b5 r5]] eqn:E5;
      [discriminate| intros H; inversion H; subst; apply H5; left; reflexivity| discriminate].
Qed.

Lemma disambiguate_unique_fit : forall es a t e,
  forallb overloadable es = true -> filter (cand_fits (UCall a t)) es = [e] ->
  disambiguate es a (Some t) = Unambiguous e.
Proof.
  intros es a t e Ho HF.
  assert (Hin : In e es /\ cand_fits (UCall a t) e = true).
  { assert (In e (filter (cand_fits (UCall a t)) es)) by (rewrite HF; left; reflexivity).
    apply filter_In in H. exact H. }
  destruct Hin as [Hin Hfit].
  destruct (in_stage_of_fits a t es e Ho Hin Hfit) as [I1 [I2 [I3 I4]]].
  rewrite disambiguate_stages. rewrite <- (stage4_fits a t es Ho) in HF.
  destruct es as [|e0 [|e1 r]]; [destruct Hin| destruct Hin as [->|[]]; reflexivity|].
  set (es := e0 :: e1 :: r) in *.
  destruct (stage1 es) as [|a1 [|b1 r1]] eqn:E1; [destruct I1| f_equal; apply (singleton_of_in [a1] e a1 I1 eq_refl) |].
  destruct (stage2 es) as [|a2 [|b2 r2]] eqn:E2; [destruct I2| f_equal; apply (singleton_of_in [a2] e a2 I2 eq_refl) |].
  destruct (stage3 a es) as [|a3 [|b3 r3]] eqn:E3; [destruct I3| f_equal; apply (singleton_of_in [a3] e a3 I3 eq_refl) |].
  rewrite HF. reflexivity.
Qed.

Lemma filter_length_le' : forall {A} (f : A -> bool) l, (length (filter f l) <= length l)%nat.
Proof. intros A f l. induction l as [|x r IH]; cbn [filter length]; [lia|]. destruct (f x); cbn [length]; lia. Qed.

Lemma NoDup_map_filter : forall {A B} (f : A -> B) (g : A -> bool) l, NoDup (map f l) -> NoDup (map f (filter g l)).
Proof.
  intros A B f g l. induction l as [|x r IH]; cbn [map filter]; intros H; [constructor|].
  inversion H as [|? ? Hn Hd]; subst. destruct (g x); cbn [map]; [|apply IH; exact Hd].
  constructor; [|apply IH; exact Hd]. intros Hin. apply Hn. apply in_map_iff in Hin.
  destruct Hin as [y [Hy Hin]]. apply filter_In in Hin. apply in_map_iff. exists y. tauto.
Qed.

(* two different fitting candidates are only possible for a universal integer actual *)
Lemma two_fits_universal : forall es a t x y r,
  NoDup (map profile es) -> filter (cand_fits (UCall a t)) es = x :: y :: r -> a = AUniv.
Proof.
  intros es a t x y r Hnd HF.
  pose proof (NoDup_map_filter profile (cand_fits (UCall a t)) es Hnd) as H. rewrite HF in H.
  assert (Hx : cand_fits (UCall a t) x = true /\ cand_fits (UCall a t) y = true).
  { assert (In x (filter (cand_fits (UCall a t)) es)) by (rewrite HF; left; reflexivity).
    assert (In y (filter (cand_fits (UCall a t)) es)) by (rewrite HF; right; left; reflexivity).
    rewrite filter_In in *. tauto. }
  destruct Hx as [Hx Hy]. destruct a as [|ta]; [reflexivity|exfalso].
  cbn [map] in H. inversion H as [|? ? Hn _]; subst. apply Hn. left.
  unfold cand_fits in Hx, Hy. unfold profile.
  destruct (ekind x) as [?|px rx|?|? ?]; try discriminate. destruct (ekind y) as [?|py ry|?|? ?]; try discriminate.
  cbn [arg_fits] in Hx, Hy. apply andb_true_iff in Hx, Hy. destruct Hx as [Hx1 Hx2], Hy as [Hy1 Hy2].
  apply ty_eqb_eq in Hx1, Hx2, Hy1, Hy2. subst. reflexivity.
Qed.

Lemma strict_universal_none : forall (l : list ent) t,
  (forall e, In e l -> cand_fits (UCall AUniv t) e = true) -> filter (actual_ok strict_possible AUniv) l = [].
Proof.
  intros l t H. induction l as [|e r IH]; [reflexivity|]. cbn [filter].
  assert (He : cand_fits (UCall AUniv t) e = true) by (apply H; left; reflexivity).
  unfold cand_fits in He. unfold actual_ok, formal. destruct (ekind e); try discriminate.
  cbn [strict_possible]. apply IH. intros x Hx. apply H. right. exact Hx.
Qed.

Lemma disambiguate_several_fit : forall es a t x y r,
  forallb overloadable es = true -> NoDup (map profile es) ->
  filter (cand_fits (UCall a t)) es = x :: y :: r ->
  disambiguate es a (Some t) = Ambiguous (x :: y :: r).
Proof.
  intros es a t x y r Ho Hnd HF.
  pose proof (two_fits_universal es a t x y r Hnd HF) as Ha. subst a.
  rewrite disambiguate_stages. pose proof (stage4_fits AUniv t es Ho) as H4. rewrite HF in H4.
  assert (L4 : (2 <= length (stage4 AUniv t es))%nat) by (rewrite H4; cbn [length]; lia).
  assert (L3 : (2 <= length (stage3 AUniv es))%nat).
  { unfold stage4 in L4. pose proof (filter_length_le' (return_ok (Some t)) (stage3 AUniv es)). lia. }
  assert (L2 : (2 <= length (stage2 es))%nat).
  { unfold stage3 in L3. pose proof (filter_length_le' (actual_ok implicit_possible AUniv) (stage2 es)). lia. }
  assert (L1 : (2 <= length (stage1 es))%nat).
  { unfold stage2 in L2. pose proof (filter_length_le' accepts_one_actual (stage1 es)). lia. }
  assert (L0 : (2 <= length es)%nat).
  { unfold stage1 in L1. pose proof (filter_length_le' is_function es). lia. }
  destruct es as [|e0 [|e1 r0]]; cbn [length] in L0; try lia.
  set (es := e0 :: e1 :: r0) in *.
  destruct (stage1 es) as [|a1 [|b1 r1]]; cbn [length] in L1; try lia.
  destruct (stage2 es) as [|a2 [|b2 r2]]; cbn [length] in L2; try lia.
  destruct (stage3 AUniv es) as [|a3 [|b3 r3]]; cbn [length] in L3; try lia.
  rewrite H4. rewrite (strict_universal_none (x :: y :: r) t); [reflexivity|].
  intros e He. rewrite <- HF in He. apply filter_In in He. tauto.
Qed.

(* ---- unary operators ---------------------------------------------------------------------- *)
Definition op1 (a : arg) (cs : list ent) := if longer_than_one cs then filter (actual_ok implicit_possible a) cs else cs.
Definition op2 (t : ty) (c1 : list ent) := if longer_than_one c1 then filter (return_ok (Some t)) c1 else c1.
Definition op3 (a : arg) (c2 : list ent) :=
  if longer_than_one c2 && all_same_return c2 then filter (actual_ok strict_possible a) c2 else c2.
Definition op5 (a : arg) (cs c4 : list ent) :=
  match c4 with
  | [] => match filter (actual_ok strict_possible a) cs with [e] => [e] | _ => [] end
  | _ => c4
  end.
Lemma disambiguate_op_stages : forall cs a t,
  disambiguate_op cs a (Some t) =
  match op5 a cs (op2 t (op3 a (op2 t (op1 a cs)))) with
  | [] => Failed
  | [e] => Unambiguous e
  | _ => Ambiguous (op5 a cs (op2 t (op3 a (op2 t (op1 a cs)))))
  end.
Proof. reflexivity. Qed.

Lemma lt1_length : forall {A} (l : list A), longer_than_one l = true <-> (2 <= length l)%nat.
Proof. intros A [|x [|y r]]; cbn [longer_than_one length]; split; try discriminate; try lia; reflexivity. Qed.
Lemma lt1_false : forall {A} (l : list A), longer_than_one l = false -> l = [] \/ exists x, l = [x].
Proof. intros A [|x [|y r]]; cbn [longer_than_one]; intros H; try discriminate; [left; reflexivity|right; eauto]. Qed.

(* candidates of an operator call all accept one actual and are functions *)
Lemma opcand_fits : forall a t e, accepts_one_actual e = true -> is_function e = true ->
  cand_fits (UCall a t) e = actual_ok implicit_possible a e && return_ok (Some t) e.
Proof.
  intros a t [i d k b]. unfold accepts_one_actual, is_function, formal, return_type, cand_fits, actual_ok, return_ok.
  cbn [ekind]. destruct k; try discriminate. intros _ _. unfold arg_fits, implicit_possible. destruct a; reflexivity.
Qed.

Lemma fits_is_opcand : forall a t e, cand_fits (UCall a t) e = true -> accepts_one_actual e && is_function e = true.
Proof.
  intros a t e H. unfold cand_fits in H. unfold accepts_one_actual, is_function, formal, return_type.
  destruct (ekind e); try discriminate. reflexivity.
Qed.

Lemma opcand_filter : forall a t es,
  filter (cand_fits (UCall a t)) (operator_candidates es) = filter (cand_fits (UCall a t)) es.
Proof.
  intros a t es. unfold operator_candidates. rewrite filter_filter. apply filter_ext_in'.
  intros x _. destruct (cand_fits (UCall a t) x) eqn:E; [|apply andb_false_r].
  rewrite (fits_is_opcand a t x E). reflexivity.
Qed.

Section OpStages.
  Variables (a : arg) (t : ty) (cs : list ent).
  Hypothesis Hcs : forall e, In e cs -> accepts_one_actual e = true /\ is_function e = true.

  Lemma op_fits_12 : forall e, In e cs ->
    cand_fits (UCall a t) e = actual_ok implicit_possible a e && return_ok (Some t) e.
  Proof. intros e He. destruct (Hcs e He). apply opcand_fits; assumption. Qed.

  Lemma op12_filter : filter (return_ok (Some t)) (filter (actual_ok implicit_possible a) cs)
                      = filter (cand_fits (UCall a t)) cs.
  Proof.
    rewrite filter_filter. apply filter_ext_in'. intros x Hx. rewrite (op_fits_12 x Hx). reflexivity.
  Qed.

  Lemma op_unique_fit : forall e, filter (cand_fits (UCall a t)) cs = [e] ->
    disambiguate_op cs a (Some t) = Unambiguous e.
  Proof.
    intros e HF. rewrite disambiguate_op_stages.
    assert (He : In e cs /\ cand_fits (UCall a t) e = true).
    { assert (In e (filter (cand_fits (UCall a t)) cs)) by (rewrite HF; left; reflexivity).
      apply filter_In in H. exact H. }
    destruct He as [Hin Hfit]. pose proof Hfit as Hfit'. rewrite (op_fits_12 e Hin) in Hfit'.
    apply andb_true_iff in Hfit'. destruct Hfit' as [P1 P2].
    assert (C2 : op2 t (op1 a cs) = [e]).
    { unfold op1. destruct (longer_than_one cs) eqn:L0.
      - assert (I1 : In e (filter (actual_ok implicit_possible a) cs)) by (apply filter_In; tauto).
        unfold op2. destruct (longer_than_one (filter (actual_ok implicit_possible a) cs)) eqn:L1.
        + rewrite op12_filter. exact HF.
        + destruct (lt1_false _ L1) as [E|[x E]]; rewrite E in *; [destruct I1|].
          destruct I1 as [->|[]]. reflexivity.
      - destruct (lt1_false _ L0) as [E|[x E]]; rewrite E in *; [destruct Hin|].
        destruct Hin as [->|[]]. reflexivity. }
    rewrite C2. reflexivity.
  Qed.

  Lemma op_several_fit : forall x y r, NoDup (map profile cs) ->
    filter (cand_fits (UCall a t)) cs = x :: y :: r -> disambiguate_op cs a (Some t) = Failed.
  Proof.
    intros x y r Hnd HF. pose proof (two_fits_universal cs a t x y r Hnd HF) as Ha.
    rewrite disambiguate_op_stages.
    assert (L0 : longer_than_one cs = true).
    { apply lt1_length. pose proof (filter_length_le' (cand_fits (UCall a t)) cs) as H. rewrite HF in H. cbn [length] in H. lia. }
    assert (L1 : longer_than_one (filter (actual_ok implicit_possible a) cs) = true).
    { apply lt1_length. pose proof (filter_length_le' (return_ok (Some t)) (filter (actual_ok implicit_possible a) cs)) as H.
      rewrite op12_filter, HF in H. cbn [length] in H. lia. }
    unfold op1. rewrite L0. unfold op2 at 2. rewrite L1. rewrite op12_filter, HF.
    assert (Hall : forall e, In e (x :: y :: r) -> cand_fits (UCall a t) e = true).
    { intros e He. rewrite <- HF in He. apply filter_In in He. tauto. }
    assert (Hsame : all_same_return (x :: y :: r) = true).
    { assert (forall e, In e (x :: y :: r) -> return_type e = Some t).
      { intros e He. specialize (Hall e He). unfold cand_fits in Hall. unfold return_type.
        destruct (ekind e); try discriminate. apply andb_true_iff in Hall. destruct Hall as [_ Hr].
        apply ty_eqb_eq in Hr. subst. reflexivity. }
      cbn [all_same_return]. apply forallb_forall. intros e He. apply oty_eqb_eq.
      rewrite (H e (or_intror He)), (H x (or_introl eq_refl)). reflexivity. }
    unfold op3. cbn [longer_than_one]. rewrite Hsame. cbn [andb]. subst a.
    rewrite (strict_universal_none (x :: y :: r) t Hall). unfold op2. cbn [longer_than_one]. unfold op5.
    assert (Hs : filter (actual_ok strict_possible AUniv) cs = []).
    { clear - Hcs. induction cs as [|e l IH]; [reflexivity|]. cbn [filter].
      destruct (Hcs e (or_introl eq_refl)) as [Ha _]. unfold actual_ok. unfold accepts_one_actual in Ha.
      destruct (formal e); [|discriminate]. cbn [strict_possible]. apply IH. intros z Hz. apply Hcs. right. exact Hz. }
    rewrite Hs. reflexivity.
  Qed.

  Lemma op_result_in : forall x, disambiguate_op cs a (Some t) = Unambiguous x -> In x cs.
  Proof.
    intros x. rewrite disambiguate_op_stages.
    assert (S1 : forall z, In z (op1 a cs) -> In z cs).
    { intros z. unfold op1. destruct (longer_than_one cs); [rewrite filter_In; tauto|auto]. }
    assert (S2 : forall l z, In z (op2 t l) -> In z l).
    { intros l z. unfold op2. destruct (longer_than_one l); [rewrite filter_In; tauto|auto]. }
    assert (S3 : forall l z, In z (op3 a l) -> In z l).
    { intros l z. unfold op3. destruct (longer_than_one l && all_same_return l); [rewrite filter_In; tauto|auto]. }
    assert (S5 : forall l z, (forall w, In w l -> In w cs) -> In z (op5 a cs l) -> In z cs).
    { intros l z Hl. unfold op5. destruct l as [|w l'].
      - destruct (filter (actual_ok strict_possible a) cs) as [|e [|e' r']] eqn:E.
        + intros [].
        + intros [<-|[]]. assert (In e (filter (actual_ok strict_possible a) cs)) by (rewrite E; left; reflexivity).
          apply filter_In in H. tauto.
        + intros [].
      - apply Hl. }
    set (c5 := op5 a cs (op2 t (op3 a (op2 t (op1 a cs))))).
    assert (H5 : forall z, In z c5 -> In z cs).
    { intros z. apply S5. intros w Hw. apply S1. apply S2. apply S3. apply S2. exact Hw. }
    destruct c5 as [|e [|e' r']]; try discriminate. intros H. inversion H; subst. apply H5. left. reflexivity.
  Qed.
End OpStages.

(* ---- what a use site observes refines `resolve` ------------------------------------------- *)
Definition agrees (m : mres) (a : answer) : Prop :=
  match a with
  | ADecl i => m = mkMres (Some i) MOk
  | AConflict => mclass_of m = MConflict
  | AUndeclared => mclass_of m = MUndeclared
  | AError => mclass_of m = MError
  end.

Inductive look_equiv : looked -> dres -> Prop :=
| le_single : forall e, look_equiv (LkSingle e) (DSingle e)
| le_over : forall m es, Permutation m es -> look_equiv (LkOver m) (DOver es)
| le_conflict : look_equiv LkConflict DConflict
| le_undeclared : look_equiv LkUndeclared DUndeclared.

Lemma perm_filter : forall {A} (f : A -> bool) l l', Permutation l l' -> Permutation (filter f l) (filter f l').
Proof.
  intros A f l l' H. induction H; cbn [filter].
  - constructor.
  - destruct (f x); [constructor|]; assumption.
  - destruct (f x), (f y); try apply Permutation_refl. apply perm_swap.
  - eapply Permutation_trans; eauto.
Qed.

Lemma perm_forallb : forall {A} (f : A -> bool) l l', Permutation l l' -> forallb f l' = true -> forallb f l = true.
Proof.
  intros A f l l' H Hf. apply forallb_forall. intros x Hx. rewrite forallb_forall in Hf. apply Hf.
  eapply Permutation_in; eauto.
Qed.

Lemma no_actuals_filter : forall t es, forallb overloadable es = true ->
  filter (fun e => callable_without_actuals e && is_function e && return_ok (Some t) e) es
  = filter (cand_fits (UVal t)) es.
Proof.
  intros t es Ho. apply filter_ext_in'. intros [i d k b] Hx. pose proof (forallb_In _ _ _ Ho Hx) as H.
  unfold overloadable in H. cbn [ekind] in H.
  unfold callable_without_actuals, is_function, return_ok, formal, return_type, cand_fits. cbn [ekind].
  destruct k; try discriminate; cbn [andb]; [reflexivity|]. apply eq_true_iff_eq. rewrite !ty_eqb_eq. split; congruence.
Qed.

Lemma typemark_filter : forall es, forallb overloadable es = true -> filter (cand_fits UType) es = [].
Proof.
  intros es Ho. induction es as [|e r IH]; [reflexivity|]. cbn [forallb] in Ho. apply andb_true_iff in Ho.
  destruct Ho as [He Hr]. cbn [filter]. unfold overloadable in He. unfold cand_fits.
  destruct (ekind e); try discriminate; apply IH; exact Hr.
Qed.

Inductive shape {A} : list A -> Type :=
| sh_nil : shape []
| sh_one : forall e, shape [e]
| sh_more : forall x y r, shape (x :: y :: r).
Definition shape_of {A} (l : list A) : shape l :=
  match l with [] => sh_nil | [e] => sh_one e | x :: y :: r => sh_more x y r end.

Definition in_fragment (d : des) (u : usage) (r : dres) : Prop :=
  match r with
  | DSingle e => is_operator d = false /\ overloadable e = false /\
                 match u, ekind e with UCall _ _, KType _ _ => False | _, _ => True end
  | DOver es => forallb overloadable es = true /\ NoDup (map profile es)
  | _ => True
  end.

Theorem site_result_refines_resolve : forall d u r r',
  look_equiv r r' -> in_fragment d u r' -> agrees (site_result d u r) (resolve r' u).
Proof.
  intros d u r r' H Hfr. destruct H as [e|m es Hp| |]; cbn [site_result resolve]; try reflexivity.
  - (* a single non-overloadable declaration *)
    destruct Hfr as [Hop [Hno Hty]]. rewrite Hop.
    assert (Hs : single_ok u e = cand_fits u e).
    { unfold single_ok, cand_fits. unfold overloadable in Hno.
      destruct u, (ekind e); try contradiction; try discriminate; try reflexivity.
      apply eq_true_iff_eq. rewrite !ty_eqb_eq. split; congruence. }
    rewrite Hs. destruct (cand_fits u e); reflexivity.
  - (* overloaded *)
    destruct Hfr as [Ho Hnd].
    assert (Hom : forallb overloadable m = true) by (eapply perm_forallb; eauto).
    assert (Hndm : NoDup (map profile m)).
    { eapply Permutation_NoDup; [|exact Hnd]. apply Permutation_map. apply Permutation_sym. exact Hp. }
    pose proof (perm_filter (cand_fits u) m es Hp) as HpF.
    destruct u as [t|a t|].
    + (* value *)
      unfold disambiguate_no_actuals. rewrite (no_actuals_filter t m Hom).
      destruct (shape_of (filter (cand_fits (UVal t)) es)) as [|e|x y r0].
      * apply Permutation_sym in HpF; apply Permutation_nil in HpF. rewrite HpF. reflexivity.
      * apply Permutation_sym in HpF; apply Permutation_length_1_inv in HpF. rewrite HpF. reflexivity.
      * pose proof (Permutation_length HpF) as HL. cbn [length] in HL.
        destruct (filter (cand_fits (UVal t)) m) as [|x' [|y' r']]; cbn [length] in HL; try lia. reflexivity.
    + (* call *)
      destruct (shape_of (filter (cand_fits (UCall a t)) es)) as [|e|x y r0].
      * (* nothing fits: whatever is selected does not type-check *)
        apply Permutation_sym in HpF; apply Permutation_nil in HpF.
        assert (Hnone : forall z, In z m -> cand_fits (UCall a t) z = false).
        { intros z Hz. destruct (cand_fits (UCall a t) z) eqn:E; [|reflexivity].
          assert (In z (filter (cand_fits (UCall a t)) m)) by (apply filter_In; tauto). rewrite HpF in H. destruct H. }
        destruct (is_operator d).
        -- destruct (operator_candidates m) as [|c0 cs0] eqn:Ec; [reflexivity|].
           destruct (disambiguate_op (c0 :: cs0) a (Some t)) as [z| |] eqn:Ed; try reflexivity.
           assert (Hcs : forall e, In e (c0 :: cs0) -> accepts_one_actual e = true /\ is_function e = true).
           { intros e He. rewrite <- Ec in He. unfold operator_candidates in He. apply filter_In in He.
             destruct He as [_ He]. apply andb_true_iff in He. exact He. }
           pose proof (op_result_in a t (c0 :: cs0) z Ed) as Hz.
           assert (Hzm : In z m). { rewrite <- Ec in Hz. unfold operator_candidates in Hz. apply filter_In in Hz. tauto. }
           cbn [mclass_of]. rewrite <- (op_fits_12 a t (c0 :: cs0) Hcs z Hz). rewrite (Hnone z Hzm). reflexivity.
        -- destruct (disambiguate m a (Some t)) as [z| |] eqn:Ed; try reflexivity.
           pose proof (disambiguate_in m a t z Ed) as Hz. cbn [mclass_of].
           pose proof (fits_call_stages a t z (forallb_In _ _ _ Hom Hz)) as Hst.
           rewrite (Hnone z Hz) in Hst.
           assert (is_function z = true).
           { pose proof (forallb_In _ _ _ Hom Hz) as Hoz. unfold overloadable in Hoz. unfold is_function, return_type.
             destruct (ekind z); try discriminate; reflexivity. }
           rewrite H in Hst. cbn [andb] in Hst. rewrite <- Hst. reflexivity.
      * (* exactly one fits *)
        apply Permutation_sym in HpF; apply Permutation_length_1_inv in HpF.
        assert (Hfit : cand_fits (UCall a t) e = true /\ In e m).
        { assert (In e (filter (cand_fits (UCall a t)) m)) by (rewrite HpF; left; reflexivity).
          apply filter_In in H. tauto. }
        destruct Hfit as [Hfit Hem].
        destruct (is_operator d).
        -- pose proof (opcand_filter a t m) as Hcf. rewrite HpF in Hcf.
           destruct (operator_candidates m) as [|c0 cs0] eqn:Ec; [discriminate|].
           assert (Hcs : forall z, In z (c0 :: cs0) -> accepts_one_actual z = true /\ is_function z = true).
           { intros z He. rewrite <- Ec in He. unfold operator_candidates in He. apply filter_In in He.
             destruct He as [_ He]. apply andb_true_iff in He. exact He. }
           rewrite (op_unique_fit a t (c0 :: cs0) Hcs e Hcf).
           assert (Hec : In e (c0 :: cs0)).
           { assert (In e (filter (cand_fits (UCall a t)) (c0 :: cs0))) by (rewrite Hcf; left; reflexivity).
             apply filter_In in H. tauto. }
           rewrite <- (op_fits_12 a t (c0 :: cs0) Hcs e Hec), Hfit. reflexivity.
        -- rewrite (disambiguate_unique_fit m a t e Hom HpF).
           pose proof (fits_call_stages a t e (forallb_In _ _ _ Hom Hem)) as Hst. rewrite Hfit in Hst.
           symmetry in Hst. apply andb_true_iff in Hst. destruct Hst as [Hst H4].
           apply andb_true_iff in Hst. destruct Hst as [Hst H3]. apply andb_true_iff in Hst. destruct Hst as [H1 H2].
           rewrite H2, H3, H4. reflexivity.
      * (* several fit: ambiguous *)
        pose proof (Permutation_length HpF) as HL. cbn [length] in HL.
        destruct (filter (cand_fits (UCall a t)) m) as [|x' [|y' r']] eqn:EF; cbn [length] in HL; try lia.
        destruct (is_operator d).
        -- pose proof (opcand_filter a t m) as Hcf. rewrite EF in Hcf.
           destruct (operator_candidates m) as [|c0 cs0] eqn:Ec; [reflexivity|].
           assert (Hcs : forall z, In z (c0 :: cs0) -> accepts_one_actual z = true /\ is_function z = true).
           { intros z He. rewrite <- Ec in He. unfold operator_candidates in He. apply filter_In in He.
             destruct He as [_ He]. apply andb_true_iff in He. exact He. }
           assert (Hndc : NoDup (map profile (c0 :: cs0))).
           { rewrite <- Ec. unfold operator_candidates. apply NoDup_map_filter. exact Hndm. }
           rewrite (op_several_fit a t (c0 :: cs0) Hcs x' y' r' Hndc Hcf). reflexivity.
        -- rewrite (disambiguate_several_fit m a t x' y' r' Hom Hndm EF). reflexivity.
    + (* type mark *)
      rewrite (typemark_filter es Ho). reflexivity.
Qed.

(* ------------------------------------------------------------------------------------------ *)
(* Part 2: lookup_uncached on the scope chain of a program point refines Scope.denotes         *)
(* ------------------------------------------------------------------------------------------ *)
Definition add_opt (o : option nament) (e : ent) : option nament :=
  Some (match o with None => named_new e | Some n => add_to n e end).

Lemma ents_get_add : forall m e d,
  ents_get (ents_add m e) d = if edes e =? d then add_opt (ents_get m d) e else ents_get m d.
Proof.
  intros m e d. destruct (N.eqb_spec (edes e) d) as [Hd|Hd].
  - subst d. induction m as [|[k n] r IH]; cbn [ents_add ents_get].
    + rewrite N.eqb_refl. reflexivity.
    + destruct (N.eqb_spec k (edes e)) as [Hk|Hk]; cbn [ents_get].
      * rewrite Hk, N.eqb_refl. reflexivity.
      * destruct (N.eqb_spec k (edes e)); [contradiction|]. exact IH.
  - apply ents_get_add_other. congruence.
Qed.

Lemma ents_get_fold_add : forall l m d,
  ents_get (fold_left ents_add l m) d = fold_left add_opt (named d l) (ents_get m d).
Proof.
  induction l as [|e r IH]; intros m d; [reflexivity|]. cbn [fold_left]. rewrite IH, ents_get_add.
  unfold named. cbn [filter]. destruct (edes e =? d); reflexivity.
Qed.

Lemma skey_profile : forall e, overloadable e = true -> subprogram_key e = profile e.
Proof.
  intros [i d k b]. unfold overloadable, subprogram_key, profile, formal, return_type. cbn [ekind].
  destruct k; try discriminate; reflexivity.
Qed.

Lemma key_of_is_profile : forall e x, overloadable e = true -> overloadable x = true ->
  key_of_is e x = same_profile e x.
Proof.
  intros e x He Hx. unfold key_of_is, skey_eqb. rewrite (skey_profile e He), (skey_profile x Hx).
  unfold same_profile. apply eq_true_iff_eq. rewrite !andb_true_iff, !oty_eqb_eq. split; intros [A B]; split; congruence.
Qed.

Lemma same_profile_sym : forall a b, same_profile a b = same_profile b a.
Proof. intros a b. apply eq_true_iff_eq. rewrite !same_profile_eq. split; congruence. Qed.

Lemma omap_get_none : forall m e, forallb overloadable m = true -> overloadable e = true ->
  not_hidden_by m e = true -> omap_get m e = None.
Proof.
  intros m e Hm He Hn. unfold omap_get. induction m as [|x r IH]; [reflexivity|].
  cbn [forallb] in Hm. apply andb_true_iff in Hm. destruct Hm as [Hx Hr].
  unfold not_hidden_by in Hn. cbn [existsb] in Hn. rewrite negb_orb in Hn. apply andb_true_iff in Hn.
  destruct Hn as [H1 H2]. cbn [find]. rewrite (key_of_is_profile e x He Hx).
  apply negb_true_iff in H1. rewrite H1. apply IH; assumption.
Qed.

(* the entities a region holds for d after the declarations l (no duplicate declarations) *)
Definition classify (l : list ent) : option nament :=
  match l with
  | [] => None
  | [e] => Some (named_new e)
  | _ => Some (NOver l)
  end.

Lemma fold_add_over : forall rest acc,
  forallb overloadable (acc ++ rest) = true -> distinct_profiles (acc ++ rest) = true -> acc <> [] ->
  fold_left add_opt rest (Some (NOver acc)) = Some (NOver (acc ++ rest)).
Proof.
  induction rest as [|e r IH]; intros acc Ho Hd Hne; [rewrite app_nil_r; reflexivity|].
  cbn [fold_left]. unfold add_opt at 2. cbn [add_to].
  assert (Hoe : overloadable e = true).
  { apply (forallb_In _ _ e Ho). apply in_or_app. right. left. reflexivity. }
  assert (Hoa : forallb overloadable acc = true).
  { apply forallb_forall. intros x Hx. apply (forallb_In _ _ x Ho). apply in_or_app. left. exact Hx. }
  unfold is_overloaded. unfold overloadable in Hoe. rewrite Hoe. fold (overloadable e) in Hoe.
  assert (Hnh : not_hidden_by acc e = true).
  { apply distinct_profiles_NoDup in Hd. rewrite map_app in Hd. cbn [map] in Hd.
    apply NoDup_remove_2 in Hd. unfold not_hidden_by. apply negb_true_iff.
    destruct (existsb (same_profile e) acc) eqn:E; [|reflexivity]. exfalso. apply Hd.
    apply existsb_exists in E. destruct E as [x [Hx Hs]]. apply in_or_app. left.
    apply in_map_iff. exists x. split; [|exact Hx]. symmetry. apply same_profile_eq. exact Hs. }
  unfold over_insert. rewrite (omap_get_none acc e Hoa Hoe Hnh).
  replace (acc ++ e :: r) with ((acc ++ [e]) ++ r) by (rewrite <- app_assoc; reflexivity).
  apply IH.
  - rewrite <- app_assoc. exact Ho.
  - rewrite <- app_assoc. exact Hd.
  - destruct acc; discriminate.
Qed.

Lemma fold_add_classify : forall l, homographs_ok l = true -> fold_left add_opt l None = classify l.
Proof.
  intros [|e [|e' r]] H; [reflexivity|reflexivity|].
  cbn [homographs_ok] in H. apply andb_true_iff in H. destruct H as [Ho Hd].
  assert (He : overloadable e = true) by (apply (forallb_In _ _ e Ho); left; reflexivity).
  assert (H1 : add_opt None e = Some (NOver [e])).
  { unfold add_opt, named_new, is_overloaded. unfold overloadable in He. rewrite He. reflexivity. }
  change (fold_left add_opt (e :: e' :: r) None) with (fold_left add_opt (e' :: r) (add_opt None e)).
  rewrite H1. cbn [classify].
  apply (fold_add_over (e' :: r) [e]); [exact Ho|exact Hd|discriminate].
Qed.

Section Point.
  Variable pkgs : N -> list ent.

  Lemma point_region_ents : forall pre r0,
    r_ents (fold_left (item_apply pkgs) pre r0) = fold_left ents_add (decls_of pre) (r_ents r0).
  Proof.
    induction pre as [|it pre IH]; intros r0; [reflexivity|]. cbn [fold_left]. rewrite IH.
    unfold decls_of. cbn [flat_map]. rewrite fold_left_app. destruct it; cbn [item_apply item_decls r_ents fold_left]; reflexivity.
  Qed.

  Lemma point_immediate : forall pre c d, homographs_ok (named d (decls_of pre)) = true ->
    lookup_immediate (mkFrame (point_region pkgs pre) c) d = classify (named d (decls_of pre)).
  Proof.
    intros pre c d H. unfold lookup_immediate, point_region. cbn [f_region].
    rewrite point_region_ents, ents_get_fold_add. cbn [region_empty r_ents ents_get].
    apply fold_add_classify. exact H.
  Qed.

  Lemma pkg_region_get : forall p d, homographs_ok (named d (pkgs p)) = true ->
    named_ents (ents_get (pkg_region pkgs p) d) = named d (pkgs p).
  Proof.
    intros p d H. unfold pkg_region. rewrite ents_get_fold_add. cbn [ents_get].
    rewrite (fold_add_classify _ H). destruct (named d (pkgs p)) as [|e [|e' r]]; cbn [classify named_ents]; try reflexivity.
    unfold named_new. destruct (is_overloaded e); reflexivity.
  Qed.
End Point.

(* ---- directly visible declarations --------------------------------------------------------- *)
Definition oplus (a b : list ent) : list ent := a ++ filter (not_hidden_by a) b.

Lemma omap_has_hidden : forall m e, forallb overloadable m = true -> overloadable e = true ->
  omap_has m e = negb (not_hidden_by m e).
Proof.
  intros m e Hm He. unfold omap_has, not_hidden_by. rewrite negb_involutive.
  induction m as [|x r IH]; [reflexivity|]. cbn [forallb] in Hm. apply andb_true_iff in Hm. destruct Hm as [Hx Hr].
  cbn [existsb]. rewrite (key_of_is_profile e x He Hx), (IH Hr). reflexivity.
Qed.

Lemma not_hidden_app : forall a b e, not_hidden_by (a ++ b) e = not_hidden_by a e && not_hidden_by b e.
Proof. intros a b e. unfold not_hidden_by. rewrite existsb_app, negb_orb. reflexivity. Qed.

Lemma with_visible_oplus : forall enc imm,
  forallb overloadable imm = true -> forallb overloadable enc = true -> NoDup (map profile enc) ->
  with_visible imm enc = oplus imm enc.
Proof.
  unfold with_visible, oplus. induction enc as [|e r IH]; intros imm Hi He Hnd; [cbn; rewrite app_nil_r; reflexivity|].
  cbn [forallb] in He. apply andb_true_iff in He. destruct He as [Hoe Hor].
  cbn [map] in Hnd. inversion Hnd as [|? ? Hn Hd]; subst.
  cbn [fold_left filter]. rewrite (omap_has_hidden imm e Hi Hoe).
  destruct (not_hidden_by imm e) eqn:Enh; cbn [negb].
  - rewrite IH; [|rewrite forallb_app; cbn [forallb]; rewrite Hi, Hoe; reflexivity|exact Hor|exact Hd].
    rewrite <- app_assoc. cbn [app]. f_equal. f_equal. apply filter_ext_in'. intros x Hx.
    rewrite not_hidden_app. unfold not_hidden_by at 2. cbn [existsb]. rewrite orb_false_r.
    destruct (same_profile x e) eqn:Es; [|rewrite andb_true_r; reflexivity].
    exfalso. apply Hn. apply in_map_iff. exists x. split; [|exact Hx]. apply same_profile_eq. exact Es.
  - apply IH; assumption.
Qed.

Lemma hidden_trans : forall a e x, same_profile e x = true -> not_hidden_by a x = false -> not_hidden_by a e = false.
Proof.
  intros a e x Hs Hx. unfold not_hidden_by in *. apply negb_false_iff in Hx. apply negb_false_iff.
  apply existsb_exists in Hx. destruct Hx as [y [Hy Hxy]]. apply existsb_exists. exists y. split; [exact Hy|].
  apply same_profile_eq. apply same_profile_eq in Hs, Hxy. congruence.
Qed.

Lemma oplus_assoc : forall a b c, oplus (oplus a b) c = oplus a (oplus b c).
Proof.
  intros a b c. unfold oplus. rewrite <- app_assoc. f_equal. rewrite filter_app. f_equal.
  rewrite filter_filter. apply filter_ext_in'. intros e He.
  rewrite not_hidden_app. destruct (not_hidden_by a e) eqn:Ea; cbn [andb]; [|rewrite andb_false_r; reflexivity].
  rewrite andb_true_r.
  (* e is not hidden by a: hidden by b iff hidden by the part of b that a does not hide *)
  change (negb (existsb (same_profile e) (filter (not_hidden_by a) b)) = negb (existsb (same_profile e) b)).
  f_equal. apply eq_true_iff_eq. rewrite !existsb_exists. split.
  - intros [x [Hx Hs]]. apply filter_In in Hx. exists x. tauto.
  - intros [x [Hx Hs]]. exists x. split; [|exact Hs]. apply filter_In. split; [exact Hx|].
    destruct (not_hidden_by a x) eqn:Ex; [reflexivity|]. rewrite (hidden_trans a e x Hs Ex) in Ea. discriminate.
Qed.

Lemma oplus_nil_r : forall a, oplus a [] = a.
Proof. intros a. unfold oplus. cbn [filter]. apply app_nil_r. Qed.
Lemma oplus_nil_l : forall b, oplus [] b = b.
Proof.
  intros b. unfold oplus. cbn [app]. induction b as [|e r IH]; [reflexivity|]. cbn [filter]. unfold not_hidden_by at 1.
  cbn [existsb negb]. f_equal. exact IH.
Qed.

Lemma oplus_overloadable : forall a b, forallb overloadable a = true -> forallb overloadable b = true ->
  forallb overloadable (oplus a b) = true.
Proof.
  intros a b Ha Hb. unfold oplus. rewrite forallb_app, Ha. cbn [andb]. apply forallb_forall. intros x Hx.
  apply filter_In in Hx. apply (forallb_In _ _ x Hb). tauto.
Qed.

Lemma NoDup_app_intro : forall {A} (l1 l2 : list A),
  NoDup l1 -> NoDup l2 -> (forall x, In x l1 -> ~ In x l2) -> NoDup (l1 ++ l2).
Proof.
  intros A l1 l2 H1 H2 Hd. induction l1 as [|x r IH]; [exact H2|]. cbn [app].
  inversion H1 as [|? ? Hn Hr]; subst. constructor.
  - intros Hin. apply in_app_or in Hin. destruct Hin as [Hin|Hin]; [contradiction|].
    apply (Hd x); [left; reflexivity|exact Hin].
  - apply IH; [exact Hr|]. intros y Hy. apply Hd. right. exact Hy.
Qed.

Lemma oplus_NoDup : forall a b, NoDup (map profile a) -> NoDup (map profile b) -> NoDup (map profile (oplus a b)).
Proof.
  intros a b Ha Hb. unfold oplus. rewrite map_app. apply NoDup_app_intro.
  - exact Ha.
  - apply NoDup_map_filter. exact Hb.
  - intros x Hx Hy. apply in_map_iff in Hx. destruct Hx as [z [Hz Hza]].
    apply in_map_iff in Hy. destruct Hy as [y [Hy Hyb]]. apply filter_In in Hyb. destruct Hyb as [_ Hnh].
    unfold not_hidden_by in Hnh. apply negb_true_iff in Hnh.
    assert (existsb (same_profile y) a = true); [|congruence].
    apply existsb_exists. exists z. split; [exact Hza|]. apply same_profile_eq. congruence.
Qed.
