(* Mini/ScopeProofs.v — proofs about Mini/Scope.v, Mini/Overload.v, Mini/ScopeImpl.v *)
From Coq Require Import List NArith Bool Lia.
Import ListNotations.
From RH Require Import Mini.Scope Mini.Overload Mini.ScopeImpl.
Open Scope N_scope.
