(* Mini/ScopeImpl.v — executable MODEL of the lookup side of
     vhdl_lang/src/named_entity/region.rs      Region, NamedEntities, OverloadedName (insert / with_visible / new)
     vhdl_lang/src/named_entity/visibility.rs  Visibility (make_all_potentially_visible, make_potentially_visible_with_name,
                                                lookup_into), Visible (insert, into_unambiguous)
     vhdl_lang/src/analysis/scope.rs           ScopeInner {parent, region, cache}: add, make_potentially_visible,
                                                make_all_potentially_visible, lookup_enclosing, lookup_visible,
                                                lookup_uncached, lookup; Scope::new / nested / extend / invalidate_cached
   as repaired by the commits 2dc9b83 (make_potentially_visible clears the cache) and b25a4b2
   (subprogram_body drops the nested scope's cached entry of the subprogram's designator), and of the
   order in which design_unit.rs / declarative.rs / subprogram.rs apply these operations to a design
   unit of the family (`elab_*`: the "elaborator").  The pre-fix behaviours are kept behind the
   switches of `cfg` for the refutation lemmas.

   Representation.  Hash maps are association lists with unique keys in insertion order (the code
   never depends on iteration order inside the family; the one place where it does —
   `OverloadedName::new` over two visible subprograms with equal keys — is the excluded corner).
   `Rc<RefCell<ScopeInner>>` with its parent pointer is a list of frames, innermost first: the
   analyser uses scopes as a stack (a nested scope is dropped before its parent is looked up
   again); the parent of frame k is frame k+1, and `OAdd k` mutates an ancestor while its
   descendants stay alive (subprogram bodies).  `&'a Region` of a used package is the (immutable)
   entity map itself.  Entities of the analyser that cannot be homographs of a family designator
   (library names, design-unit names, labels, implicit operators of types, `work`) and their scope
   operations are omitted.  No proofs in this file. *)
From Coq Require Import List NArith Bool.
Import ListNotations.
From RH Require Import Mini.Scope Mini.Overload.
Open Scope N_scope.

(* ------------------------------------------------------------------------------------------ *)
(* region.rs                                                                                  *)
(* ------------------------------------------------------------------------------------------ *)
(* SubprogramKey: base types of the formals and of the return type *)
Definition skey := (option ty * option ty)%type.
Definition subprogram_key (e : ent) : skey := (formal e, return_type e).
Definition skey_eqb (a b : skey) : bool := oty_eqb (fst a) (fst b) && oty_eqb (snd a) (snd b).
Definition key_of_is (e x : ent) : bool := skey_eqb (subprogram_key x) (subprogram_key e).

(* OverloadedEnt::from_any *)
Definition is_overloaded (e : ent) : bool :=
  match ekind e with KFunc _ _ | KLit _ => true | _ => false end.
Definition declared_by (e old : ent) : bool :=
  match edeclby e with Some i => i =? eid old | None => false end.

(* FnvHashMap<SubprogramKey, OverloadedEnt>::insert *)
Fixpoint omap_put (e : ent) (m : list ent) : list ent :=
  match m with
  | [] => [e]
  | x :: r => if key_of_is e x then e :: r else x :: omap_put e r
  end.
Definition omap_has (m : list ent) (e : ent) : bool := existsb (key_of_is e) m.
Definition omap_get (m : list ent) (e : ent) : option ent := find (key_of_is e) m.

(* OverloadedName::new *)
Definition over_new (es : list ent) : list ent := fold_left (fun m e => omap_put e m) es [].
(* OverloadedName::insert (no implicit entities in the fragment): Err = Duplicate, map unchanged *)
Definition over_insert (m : list ent) (e : ent) : list ent :=
  match omap_get m e with
  | None => m ++ [e]
  | Some old => if declared_by e old then omap_put e m else m
  end.
(* OverloadedName::with_visible *)
Definition with_visible (self visible : list ent) : list ent :=
  fold_left (fun m e => if omap_has m e then m else m ++ [e]) visible self.

Inductive nament := NSingle (e : ent) | NOver (m : list ent).
Definition named_new (e : ent) : nament := if is_overloaded e then NOver [e] else NSingle e.

Definition entities := list (des * nament).
Fixpoint ents_get (m : entities) (d : des) : option nament :=
  match m with
  | [] => None
  | (k, n) :: r => if k =? d then Some n else ents_get r d
  end.

(* Region::add *)
Definition add_to (n : nament) (e : ent) : nament :=
  match n with
  | NSingle prev =>
      if eid prev =? eid e then NSingle e
      else if declared_by e prev then NSingle e
      else NSingle prev                                  (* Duplicate declaration *)
  | NOver os =>
      if is_overloaded e then NOver (over_insert os e)
      else NOver os                                      (* Duplicate declaration *)
  end.
Fixpoint ents_add (m : entities) (e : ent) : entities :=
  match m with
  | [] => [(edes e, named_new e)]
  | (k, n) :: r => if k =? edes e then (k, add_to n e) :: r else (k, n) :: ents_add r e
  end.

(* ------------------------------------------------------------------------------------------ *)
(* visibility.rs                                                                              *)
(* ------------------------------------------------------------------------------------------ *)
(* map EntityId -> entity *)
Fixpoint idmap_put (e : ent) (m : list ent) : list ent :=
  match m with
  | [] => [e]
  | x :: r => if eid x =? eid e then e :: r else x :: idmap_put e r
  end.
Fixpoint vmap_put (d : des) (e : ent) (m : list (des * list ent)) : list (des * list ent) :=
  match m with
  | [] => [(d, [e])]
  | (k, es) :: r => if k =? d then (k, idmap_put e es) :: r else (k, es) :: vmap_put d e r
  end.
Fixpoint vmap_get (m : list (des * list ent)) (d : des) : list ent :=
  match m with
  | [] => []
  | (k, es) :: r => if k =? d then es else vmap_get r d
  end.

Record visibility := mkVis { v_all : list entities; v_named : list (des * list ent) }.
Definition vis_empty : visibility := mkVis [] [].

Definition vis_make_all (v : visibility) (r : entities) : visibility :=
  mkVis (v_all v ++ [r]) (v_named v).
(* make_potentially_visible_with_name(designator = ent.designator): first the implicits of the
   entity (the literals of an enumeration type), then the entity itself *)
Definition vis_make (v : visibility) (e : ent) : visibility :=
  let m1 := fold_left (fun m i => vmap_put (edes i) i m) (implicits e) (v_named v) in
  mkVis (v_all v) (vmap_put (edes e) e m1).

(* Visibility::add_context_visibility: the `.all` regions of the context, then every individually
   visible entity of the context, designator by designator, entity by entity *)
Definition vis_add_context (v ctx : visibility) : visibility :=
  mkVis (v_all v ++ v_all ctx)
        (fold_left (fun m de => fold_left (fun m' e => vmap_put (fst de) e m') (snd de) m) (v_named ctx) (v_named v)).

(* Visible::insert: keyed by entity id, first one stays (no aliases in the fragment) *)
Definition visible_insert (acc : list ent) (e : ent) : list ent :=
  if existsb (fun x => eid x =? eid e) acc then acc else acc ++ [e].
Definition visible_insert_named (acc : list ent) (n : nament) : list ent :=
  match n with
  | NSingle e => visible_insert acc e
  | NOver os => fold_left visible_insert os acc
  end.
(* Visibility::lookup_into *)
Definition vis_lookup_into (v : visibility) (d : des) (acc : list ent) : list ent :=
  let acc1 := fold_left (fun a r => match ents_get r d with
                                    | Some n => visible_insert_named a n
                                    | None => a
                                    end) (v_all v) acc in
  fold_left visible_insert (vmap_get (v_named v) d) acc1.

Inductive lerr := EConflict | EUndeclared.
(* Visible::into_unambiguous *)
Definition into_unambiguous (vis : list ent) : option nament + lerr :=
  match vis with
  | [] => inl None
  | e :: r =>
      if forallb is_overloaded vis then inl (Some (NOver (over_new vis)))
      else match r with
           | [] => inl (Some (named_new e))
           | _ :: _ => inr EConflict
           end
  end.

(* ------------------------------------------------------------------------------------------ *)
(* scope.rs                                                                                   *)
(* ------------------------------------------------------------------------------------------ *)
Record region := mkRegion { r_ents : entities; r_vis : visibility }.
Definition region_empty : region := mkRegion [] vis_empty.
Definition cache := list (des * nament).
Record frame := mkFrame { f_region : region; f_cache : cache }.
(* innermost scope first; `parent` of a frame = the rest of the list ([] = None) *)
Definition scope := list frame.

Definition cache_get (c : cache) (d : des) : option nament := ents_get c d.
Definition cache_remove (c : cache) (d : des) : cache := filter (fun kv => negb (fst kv =? d)) c.

Definition lookup_immediate (f : frame) (d : des) : option nament := ents_get (r_ents (f_region f)) d.

Fixpoint lookup_enclosing (s : scope) (d : des) : option nament :=
  match s with
  | [] => None
  | f :: parent =>
      match lookup_immediate f d with
      | Some (NSingle e) => Some (NSingle e)
      | Some (NOver immediate) =>
          match lookup_enclosing parent d with
          | Some (NOver enclosing) => Some (NOver (with_visible immediate enclosing))
          | _ => Some (NOver immediate)
          end
      | None => lookup_enclosing parent d
      end
  end.

Fixpoint lookup_visibility_into (s : scope) (d : des) (acc : list ent) : list ent :=
  match s with
  | [] => acc
  | f :: parent => lookup_visibility_into parent d (vis_lookup_into (r_vis (f_region f)) d acc)
  end.

Definition lookup_visible (s : scope) (d : des) : option nament + lerr :=
  into_unambiguous (lookup_visibility_into s d []).

Inductive lres := LOk (n : nament) | LErr (e : lerr).

(* `precedence_swapped` = the would-catch mutation "visible before enclosing" *)
Definition lookup_uncached (s : scope) (d : des) : lres :=
  match lookup_enclosing s d with
  | Some (NSingle e) => LOk (NSingle e)
  | Some (NOver enclosing) =>
      match lookup_visible s d with
      | inl (Some (NOver overloaded)) => LOk (NOver (with_visible enclosing overloaded))
      | _ => LOk (NOver enclosing)
      end
  | None =>
      match lookup_visible s d with
      | inl (Some n) => LOk n
      | inl None => LErr EUndeclared
      | inr e => LErr e
      end
  end.

(* ScopeInner::lookup: the cache of the innermost frame is consulted first and filled on success.
   (`unreachable!("Cache miss cannot be followed by occupied entry")` cannot fire: nothing touches
   the own cache between the miss and the insertion.) *)
Definition lookup (s : scope) (d : des) : option (lres * scope) :=
  match s with
  | [] => None
  | f :: parent =>
      match cache_get (f_cache f) d with
      | Some n => Some (LOk n, s)
      | None =>
          match lookup_uncached s d with
          | LOk n => Some (LOk n, mkFrame (f_region f) ((d, n) :: f_cache f) :: parent)
          | LErr e => Some (LErr e, s)
          end
      end
  end.

(* switches for the pre-fix / mutated behaviours; `cfg_now` is the code of today *)
Record cfg := mkCfg {
  add_invalidates : bool;    (* ScopeInner::add removes the cache entry of the designator *)
  mpv_clears : bool;         (* 2dc9b83: make_potentially_visible clears the cache (before: removed ent.designator only) *)
  body_uncaches : bool       (* b25a4b2: subprogram_body calls subpgm_region.invalidate_cached(designator) *)
}.
Definition cfg_now : cfg := mkCfg true true true.
Definition cfg_no_add_invalidation : cfg := mkCfg false true true.
Definition cfg_old_mpv : cfg := mkCfg true false true.
Definition cfg_old_body : cfg := mkCfg true true false.

Definition frame_add (c : cfg) (f : frame) (e : ent) : frame :=
  mkFrame (mkRegion (ents_add (r_ents (f_region f)) e) (r_vis (f_region f)))
          (if add_invalidates c then cache_remove (f_cache f) (edes e) else f_cache f).
Definition frame_mpv (c : cfg) (f : frame) (e : ent) : frame :=
  mkFrame (mkRegion (r_ents (f_region f)) (vis_make (r_vis (f_region f)) e))
          (if mpv_clears c then [] else cache_remove (f_cache f) (edes e)).
Definition frame_mapv (f : frame) (r : entities) : frame :=
  mkFrame (mkRegion (r_ents (f_region f)) (vis_make_all (r_vis (f_region f)) r)) [].
Definition frame_ctx (f : frame) (ctx : visibility) : frame :=
  mkFrame (mkRegion (r_ents (f_region f)) (vis_add_context (r_vis (f_region f)) ctx)) [].
Definition frame_uncache (f : frame) (d : des) : frame :=
  mkFrame (f_region f) (cache_remove (f_cache f) d).

Fixpoint update_nth (k : nat) (g : frame -> frame) (s : scope) : option scope :=
  match s, k with
  | [], _ => None
  | f :: r, O => Some (g f :: r)
  | f :: r, S k' => match update_nth k' g r with Some r' => Some (f :: r') | None => None end
  end.

(* ------------------------------------------------------------------------------------------ *)
(* Scope operations as a trace language                                                       *)
(* ------------------------------------------------------------------------------------------ *)
Inductive op :=
| ORoot (r : region)       (* Scope::new(region): root scope of a design unit; older scopes are gone *)
| OExtend (r : region)     (* Scope::extend(region, Some(top)): new innermost scope, empty cache *)
| ONested                  (* top.nested(): empty region, cache CLONED from the parent *)
| ODrop                    (* the innermost scope is dropped *)
| OAdd (k : nat) (e : ent) (* (k levels up).add(e) *)
| OMpv (e : ent)           (* top.make_potentially_visible(e) *)
| OMapv (r : entities)     (* top.make_all_potentially_visible(region of a package) *)
| OUncache (d : des)       (* top.invalidate_cached(d) *)
| OLookup (d : des)        (* top.lookup(d) *)
| OCtx (v : visibility).   (* top.add_context_visibility(region of a context declaration): cache cleared *)

Definition exec (c : cfg) (s : scope) (o : op) : option (scope * option lres) :=
  match o with
  | ORoot r => Some ([mkFrame r []], None)
  | OExtend r => match s with [] => None | _ :: _ => Some (mkFrame r [] :: s, None) end
  | ONested => match s with [] => None | f :: _ => Some (mkFrame region_empty (f_cache f) :: s, None) end
  | ODrop => match s with _ :: (_ :: _) as r => Some (r, None) | _ => None end
  | OAdd k e => match update_nth k (fun f => frame_add c f e) s with Some s' => Some (s', None) | None => None end
  | OMpv e => match s with [] => None | f :: r => Some (frame_mpv c f e :: r, None) end
  | OMapv en => match s with [] => None | f :: r => Some (frame_mapv f en :: r, None) end
  | OUncache d => match s with [] => None | f :: r => Some (frame_uncache f d :: r, None) end
  | OLookup d => match lookup s d with Some (res, s') => Some (s', Some res) | None => None end
  | OCtx v => match s with [] => None | f :: r => Some (frame_ctx f v :: r, None) end
  end.

(* run a trace; the lookups' results in order *)
Fixpoint run (c : cfg) (s : scope) (t : list op) : option (scope * list lres) :=
  match t with
  | [] => Some (s, [])
  | o :: r =>
      match exec c s o with
      | None => None
      | Some (s1, res) =>
          match run c s1 r with
          | None => None
          | Some (s2, out) => Some (s2, match res with Some x => x :: out | None => out end)
          end
      end
  end.

(* ------------------------------------------------------------------------------------------ *)
(* The analysis discipline, as a predicate on traces                                          *)
(* ------------------------------------------------------------------------------------------ *)
(* Abstract state per live scope: the designators whose lookup may be cached there, and those
   among them whose cached value may be stale because an ancestor was mutated after the clone. *)
Record dframe := mkD { d_cached : list des; d_stale : list des }.
Definition mem (d : des) (l : list des) : bool := existsb (N.eqb d) l.
Definition del (d : des) (l : list des) : list des := filter (fun x => negb (x =? d)) l.
Definition d_forget (d : des) (f : dframe) : dframe := mkD (del d (d_cached f)) (del d (d_stale f)).
Definition d_taint (d : des) (f : dframe) : dframe :=
  if mem d (d_cached f) then mkD (d_cached f) (d :: d_stale f) else f.
Fixpoint d_add (k : nat) (d : des) (st : list dframe) : option (list dframe) :=
  match st, k with
  | [], _ => None
  | f :: r, O => Some (d_forget d f :: r)
  | f :: r, S k' => match d_add k' d r with Some r' => Some (d_taint d f :: r') | None => None end
  end.

(* one step of the discipline: None = the trace leaves the discipline here *)
Definition dstep (st : list dframe) (o : op) : option (list dframe) :=
  match o with
  | ORoot _ => Some [mkD [] []]
  | OExtend _ => match st with [] => None | _ :: _ => Some (mkD [] [] :: st) end
  | ONested => match st with [] => None | f :: _ => Some (f :: st) end
  | ODrop => match st with _ :: (_ :: _) as r => Some r | _ => None end
  | OAdd k e => d_add k (edes e) st
  | OMpv _ | OMapv _ => match st with [] => None | _ :: r => Some (mkD [] [] :: r) end
  | OUncache d => match st with [] => None | f :: r => Some (d_forget d f :: r) end
  | OLookup d =>
      match st with
      | [] => None
      | f :: r => if mem d (d_stale f) then None else Some (mkD (d :: d_cached f) (d_stale f) :: r)
      end
  | OCtx _ => match st with [] => None | _ :: r => Some (mkD [] [] :: r) end
  end.

(* "the trace follows the analysis discipline": scopes are used as a stack, and a designator is
   never looked up in a scope whose copy of the cache may hold a stale value for it *)
Inductive disciplined : list dframe -> list op -> Prop :=
| disc_nil : forall st, disciplined st []
| disc_cons : forall st o st' t, dstep st o = Some st' -> disciplined st' t -> disciplined st (o :: t).

Fixpoint disciplined_b (st : list dframe) (t : list op) : bool :=
  match t with
  | [] => true
  | o :: r => match dstep st o with Some st' => disciplined_b st' r | None => false end
  end.

(* ------------------------------------------------------------------------------------------ *)
(* The elaborator: the scope operations the analyser performs on a design unit of the family    *)
(* ------------------------------------------------------------------------------------------ *)
(* finished primary units: Design::Package(visibility, region) / Design::Entity(visibility, region) *)
Definition mtable := list (N * (visibility * region)).
Fixpoint mtab_find (t : mtable) (u : N) : option (visibility * region) :=
  match t with
  | [] => None
  | (k, v) :: r => if k =? u then Some v else mtab_find r u
  end.

Definition lits_table := list (ty * list des).
Fixpoint lits_find (t : lits_table) (x : ty) : option (list des) :=
  match t with
  | [] => None
  | (k, v) :: r => if ty_eqb k x then Some v else lits_find r x
  end.

Definition looked_of (r : lres) : looked :=
  match r with
  | LOk (NSingle e) => LkSingle e
  | LOk (NOver m) => LkOver m
  | LErr EConflict => LkConflict
  | LErr EUndeclared => LkUndeclared
  end.

(* per site: what the analyser observes (through the cache) and what it would observe without *)
(* o_stage: for a call with a use-site actual, the stage of `disambiguate` that selected (statistics) *)
Record site_out := mkOut { o_sid : N; o_cached : mres; o_uncached : mres; o_stage : option nat }.

Record estate := mkE {
  e_tab : mtable;
  e_scope : scope;
  e_trace : list op;          (* reversed *)
  e_out : list site_out       (* reversed *)
}.

Definition do_ops (c : cfg) (st : estate) (ops : list op) : option estate :=
  match run c (e_scope st) ops with
  | Some (s', _) => Some (mkE (e_tab st) s' (rev ops ++ e_trace st) (e_out st))
  | None => None
  end.

(* analyze_use_clause *)
Definition use_ops (t : mtable) (it : item) : list op :=
  match it with
  | IUseAll p => match mtab_find t p with Some (_, r) => [OMapv (r_ents r)] | None => [] end
  | IUseName p d =>
      match mtab_find t p with
      | Some (_, r) =>
          match ents_get (r_ents r) d with
          | Some (NSingle e) => [OMpv e]
          | Some (NOver os) => map OMpv os
          | None => []
          end
      | None => []
      end
  | IUseCtx c =>
      (* context reference: Design::Context(region) of the context declaration *)
      match mtab_find t c with Some (_, r) => [OCtx (r_vis r)] | None => [] end
  | _ => []
  end.

Definition elab_site (c : cfg) (lt : lits_table) (st : estate) (s : site) : option estate :=
  let d := sdes s in
  match suse s with
  | UCallX x t =>
      (* the call name is looked up first, then the name in the actual *)
      let d' := xarg_des x in
      match lookup (e_scope st) d with
      | None => None
      | Some (ro, s1) =>
          match lookup s1 d' with
          | None => None
          | Some (ri, s2) =>
              let rc := site_result_x d x t (looked_of ro) (looked_of ri) in
              let ru := site_result_x d x t (looked_of (lookup_uncached (e_scope st) d))
                                      (looked_of (lookup_uncached (e_scope st) d')) in
              Some (mkE (e_tab st) s2 (OLookup d' :: OLookup d :: e_trace st)
                        (mkOut (xarg_sid x) (mkMres (x_inner rc) (x_class rc)) (mkMres (x_inner ru) (x_class ru)) (x_stage rc)
                         :: mkOut (sid s) (mkMres (x_outer rc) (x_class rc)) (mkMres (x_outer ru) (x_class ru)) (x_stage rc)
                         :: e_out st))
          end
      end
  | u =>
      let char_value := match u with UVal t => if is_character d then Some t else None | _ => None end in
      match char_value with
      | Some t =>
          (* Literal::Character with a target type: no lookup at all *)
          let r := char_site_result (lits_find lt t) d in
          Some (mkE (e_tab st) (e_scope st) (e_trace st) (mkOut (sid s) r r None :: e_out st))
      | None =>
          match lookup (e_scope st) d with
          | None => None
          | Some (res, s') =>
              Some (mkE (e_tab st) s' (OLookup d :: e_trace st)
                        (mkOut (sid s) (site_result d u (looked_of res))
                               (site_result d u (looked_of (lookup_uncached (e_scope st) d))) None
                         :: e_out st))
          end
      end
  end.

Definition elab_item (c : cfg) (lt : lits_table) (st : estate) (it : item) : option estate :=
  match it with
  | IDecl e => do_ops c st [OAdd 0 e]
  | IUseAll _ | IUseName _ _ | IUseCtx _ => do_ops c st (use_ops (e_tab st) it)
  | ISite s => elab_site c lt st s
  | IOpen => do_ops c st [ONested]
  | IOpenFun f p =>
      (* subprogram_specification: nested scope, formals; subprogram_body: parent.add(f), then (b25a4b2)
         the nested scope forgets what it cached for f's designator *)
      do_ops c st ([ONested; OAdd 0 p; OAdd 1 f] ++ (if body_uncaches c then [OUncache (edes f)] else []))
  | IClose => do_ops c st [ODrop]
  end.

Fixpoint elab_items (c : cfg) (lt : lits_table) (st : estate) (its : list item) : option estate :=
  match its with
  | [] => Some st
  | it :: r => match elab_item c lt st it with Some st' => elab_items c lt st' r | None => None end
  end.

Definition std_region : entities := fold_left ents_add (decls_of std_decls) [].
Definition std_mtable : mtable := [(0, (vis_empty, mkRegion std_region vis_empty))].

(* analyze_package / analyze_entity (primary) and analyze_package_body / analyze_architecture *)
Definition elab_unit (c : cfg) (lt : lits_table) (st : estate) (u : unit) : option estate :=
  let start :=
    match ukd u with
    | UPrimary =>
        (* Scope::default(); add_implicit_context_clause: use std.standard.all *)
        do_ops c st (ORoot region_empty :: flat_map (use_ops (e_tab st)) std_context)
    | USecondary q =>
        match mtab_find (e_tab st) q with
        | Some (v, _) => do_ops c st [ORoot (mkRegion [] v)]
        | None => do_ops c st (ORoot region_empty :: flat_map (use_ops (e_tab st)) std_context)
        end
    end in
  match start with
  | None => None
  | Some st0 =>
    match elab_items c lt st0 (uctx u) with
    | None => None
    | Some st1 =>
      let opened :=
        match ukd u with
        | UPrimary => do_ops c st1 [ONested]
        | USecondary q =>
            match mtab_find (e_tab st1) q with
            | Some (_, r) => do_ops c st1 [OExtend r]
            | None => do_ops c st1 [ONested]
            end
        end in
      match opened with
      | None => None
      | Some st2 =>
        match elab_items c lt st2 (ubody u) with
        | None => None
        | Some st3 =>
            let tab' :=
              match ukd u, e_scope st3 with
              | UPrimary, [fd; fr] => (uid u, (r_vis (f_region fr), f_region fd)) :: e_tab st3
              | _, _ => e_tab st3
              end in
            Some (mkE tab' (e_scope st3) (e_trace st3) (e_out st3))
        end
      end
    end
  end.

Fixpoint elab_units (c : cfg) (lt : lits_table) (st : estate) (us : list unit) : option estate :=
  match us with
  | [] => Some st
  | u :: r => match elab_unit c lt st u with Some st' => elab_units c lt st' r | None => None end
  end.

(* literal designators of every enumeration type declared in the program (+ CHARACTER) *)
Definition item_lits (it : item) : lits_table :=
  match it with
  | IDecl e => match ekind e with KType t ((_ :: _) as lits) => [(t, map snd lits)] | _ => [] end
  | _ => []
  end.
Definition program_lits (p : program) : lits_table :=
  (t_character, [d_chr_a; d_chr_b]) :: flat_map (fun u => flat_map item_lits (ubody u)) p.

Record model_out := mkModelOut { m_sites : list site_out; m_trace : list op }.
Definition model_program (c : cfg) (p : program) : option model_out :=
  match elab_units c (program_lits p) (mkE std_mtable [] [] []) p with
  | Some st => Some (mkModelOut (rev (e_out st)) (rev (e_trace st)))
  | None => None
  end.

(* ------------------------------------------------------------------------------------------ *)
(* The scope chain the analyser has built when it reaches a program point                       *)
(* ------------------------------------------------------------------------------------------ *)
(* `pkgs p` = the declarations of package p in order; its region is what `Region::add` makes of
   them.  `point_region` applies to an empty region what the elaborator applies for the items
   of a region prefix (OAdd 0 / OMapv / OMpv); `point_scope` is the chain of these regions. *)
Section PointScope.
  Variable pkgs : N -> list ent.
  Definition pkg_region (p : N) : entities := fold_left ents_add (pkgs p) [].
  Definition named_ents (o : option nament) : list ent :=
    match o with Some (NSingle e) => [e] | Some (NOver os) => os | None => [] end.
  Definition item_apply (r : region) (it : item) : region :=
    match it with
    | IDecl e => mkRegion (ents_add (r_ents r) e) (r_vis r)
    | IUseAll p => mkRegion (r_ents r) (vis_make_all (r_vis r) (pkg_region p))
    | IUseName p d =>
        mkRegion (r_ents r) (fold_left vis_make (named_ents (ents_get (pkg_region p) d)) (r_vis r))
    | _ => r
    end.
  Definition point_region (pre : list item) : region := fold_left item_apply pre region_empty.
  Definition point_scope (ch : list (list item)) : scope :=
    map (fun pre => mkFrame (point_region pre) []) ch.
End PointScope.
