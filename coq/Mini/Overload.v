(* Mini/Overload.v — MODEL of the overload resolution code on the fragment's type system
   (distinct base types, universal integer literals, enumeration literals as nullary functions,
   subprograms with exactly one parameter without default):

     analysis/overloaded.rs   `disambiguate` (staged), `disambiguate_no_actuals` + `Candidates::finish`
     analysis/expression.rs   `lookup_operator`, `disambiguate_op`, `TypeMatcher::is_possible`
     analysis/names.rs        what `name_resolve_with_suffixes` / `expression_name_with_ttyp` /
                              `type_name` make of the looked-up name at a use site (reference set or
                              not, error or not)
     analysis/literals.rs     a character literal with a known target type (NO scope lookup)

   The specification ("the unique candidate whose parameter and result types fit") is
   `Scope.cand_fits` / `Scope.resolve`.  Definitions only. *)
From Coq Require Import List NArith Bool.
Import ListNotations.
From RH Require Import Mini.Scope.
Open Scope N_scope.

(* ---- TypeMatcher::is_possible for one actual against the base type of a formal ----
   implicit_matcher: the type itself, or universal_integer -> any integer type;
   strict_matcher  : the type itself only (no formal of the fragment has a universal type).  *)
Definition implicit_possible (a : arg) (p : ty) : bool :=
  match a with
  | ATy t => ty_eqb t p
  | AUniv => is_int p
  end.
Definition strict_possible (a : arg) (p : ty) : bool :=
  match a with
  | ATy t => ty_eqb t p
  | AUniv => false
  end.

Definition return_type (e : ent) : option ty :=
  match ekind e with KFunc _ r => Some r | KLit t => Some t | _ => None end.
Definition formal (e : ent) : option ty :=
  match ekind e with KFunc p _ => Some p | _ => None end.
Definition is_function (e : ent) : bool :=
  match return_type e with Some _ => true | None => false end.
(* resolve_association_formals with ONE positional actual: needs exactly one formal *)
Definition accepts_one_actual (e : ent) : bool :=
  match formal e with Some _ => true | None => false end.
Definition actual_ok (m : arg -> ty -> bool) (a : arg) (e : ent) : bool :=
  match formal e with Some p => m a p | None => true end.
(* can_be_target_type (any_matcher) of a return type against the target base type: in the fragment
   no return type is universal, so only identity remains; no target type: every candidate stays *)
Definition return_ok (ttyp : option ty) (e : ent) : bool :=
  match ttyp, return_type e with
  | Some t, Some r => ty_eqb r t
  | Some _, None => false
  | None, _ => true
  end.

Inductive disamb :=
| Unambiguous (e : ent)          (* reference is set to e; check_call / check_op then type-checks *)
| Ambiguous (es : list ent)
| Failed.                        (* a diagnostic was pushed, EvalError::Unknown *)

(* overloaded.rs `disambiguate`, kind = SubprogramKind::Function(ttyp), one positional actual *)
Definition disambiguate (all : list ent) (a : arg) (ttyp : option ty) : disamb :=
  match all with
  | [e] => Unambiguous e
  | _ =>
    let ok_kind := filter is_function all in
    match ok_kind with
    | [e] => Unambiguous e
    | [] => Failed
    | _ =>
      (* no uninstantiated subprograms in the fragment: `retain(!is_uninst_subprogram)` keeps all *)
      let ok_formals := filter accepts_one_actual ok_kind in
      match ok_formals with
      | [e] => Unambiguous e
      | [] => Failed
      | _ =>
        let ok_assoc_types := filter (actual_ok implicit_possible a) ok_formals in
        match ok_assoc_types with
        | [e] => Unambiguous e
        | [] => Failed
        | _ =>
          let ok_return_type := filter (return_ok ttyp) ok_assoc_types in
          match ok_return_type with
          | [e] => Unambiguous e
          | [] => Failed
          | _ =>
            let strict := filter (actual_ok strict_possible a) ok_return_type in
            match strict with
            | [e] => Unambiguous e
            | [] => Ambiguous ok_return_type   (* "do not disambiguate away to empty result" *)
            | _ => Ambiguous strict
            end
          end
        end
      end
    end
  end.

(* the variant with the return-type stage dropped (a would-catch mutation; used by a `_refuted` lemma) *)
Definition disambiguate_no_return_stage (all : list ent) (a : arg) (ttyp : option ty) : disamb :=
  match all with
  | [e] => Unambiguous e
  | _ =>
    let ok_formals := filter accepts_one_actual (filter is_function all) in
    match ok_formals with
    | [e] => Unambiguous e
    | [] => Failed
    | _ =>
      let ok_assoc_types := filter (actual_ok implicit_possible a) ok_formals in
      match ok_assoc_types with
      | [e] => Unambiguous e
      | [] => Failed
      | _ =>
        let strict := filter (actual_ok strict_possible a) ok_assoc_types in
        match strict with
        | [e] => Unambiguous e
        | [] => Ambiguous ok_assoc_types
        | _ => Ambiguous strict
        end
      end
    end
  end.

(* overloaded.rs `disambiguate_no_actuals` + `Candidates::finish` with ttyp = Some t *)
Definition callable_without_actuals (e : ent) : bool :=
  match formal e with Some _ => false | None => true end.
Definition disambiguate_no_actuals (all : list ent) (ttyp : option ty) : disamb :=
  let remaining := filter (fun e => callable_without_actuals e && is_function e && return_ok ttyp e) all in
  match remaining with
  | [e] => Unambiguous e
  | [] => Failed
  | _ => Ambiguous remaining
  end.

(* expression.rs `lookup_operator` (arity 1) followed by `disambiguate_op` with ttyp = Some t *)
Definition all_same_return (l : list ent) : bool :=
  match l with
  | [] => true
  | e :: r => forallb (fun x => oty_eqb (return_type x) (return_type e)) r
  end.
Definition longer_than_one {A} (l : list A) : bool := match l with _ :: _ :: _ => true | _ => false end.
Definition disambiguate_op (overloaded : list ent) (a : arg) (ttyp : option ty) : disamb :=
  let c0 := overloaded in
  let c1 := if longer_than_one c0 then filter (actual_ok implicit_possible a) c0 else c0 in
  let c2 := if longer_than_one c1 then filter (return_ok ttyp) c1 else c1 in
  let c3 := if longer_than_one c2 && all_same_return c2
            then filter (actual_ok strict_possible a) c2 else c2 in
  let c4 := if longer_than_one c3 then filter (return_ok ttyp) c3 else c3 in
  let c5 := match c4 with
            | [] => match filter (actual_ok strict_possible a) overloaded with [e] => [e] | _ => [] end
            | _ => c4
            end in
  match c5 with
  | [] => Failed
  | [e] => Unambiguous e
  | _ => Ambiguous c5
  end.
Definition operator_candidates (es : list ent) : list ent :=
  filter (fun e => accepts_one_actual e && is_function e) es.

(* ------------------------------------------------------------------------------------------ *)
(* What a use site observes: the reference that go-to-declaration follows and the error class   *)
(* ------------------------------------------------------------------------------------------ *)
Inductive mclass := MOk | MConflict | MUndeclared | MError.
Record mres := mkMres { mtarget : option N; mclass_of : mclass }.

(* result of Scope::lookup as the sites see it *)
Inductive looked :=
| LkSingle (e : ent)
| LkOver (es : list ent)
| LkConflict
| LkUndeclared.

Definition is_operator (d : des) : bool := (20 <=? d) && (d <? 30).
Definition is_character (d : des) : bool := (30 <=? d) && (d <? 40).

Definition ok_if (b : bool) : mclass := if b then MOk else MError.

(* a non-overloaded name: constant where a value is expected (type must match), type mark, or a
   type conversion `t(actual)` (closely related: identical or both integer types) *)
Definition conversion_ok (a : arg) (tc : ty) : bool :=
  match a with
  | AUniv => is_int tc
  | ATy t => ty_eqb t tc || (is_int t && is_int tc)
  end.
Definition single_ok (u : usage) (e : ent) : bool :=
  match u, ekind e with
  | UVal t, KObj t' => ty_eqb t' t
  | UCall a t, KType tc _ => conversion_ok a tc && ty_eqb tc t
  | UType, KType _ _ => true
  | _, _ => false
  end.

Definition site_result (d : des) (u : usage) (r : looked) : mres :=
  match r with
  | LkConflict => mkMres None MConflict
  | LkUndeclared => mkMres None MUndeclared
  | LkSingle e =>
      (* names.rs: the reference is set before anything is checked *)
      if is_operator d then mkMres None MError   (* "Operator symbol cannot denote non-overloaded symbol" *)
      else mkMres (Some (eid e)) (ok_if (single_ok u e))
  | LkOver es =>
      match u with
      | UCallX _ _ => mkMres None MError     (* handled by site_result_x *)
      | UType => mkMres None MError
      | UVal t =>
          match disambiguate_no_actuals es (Some t) with
          | Unambiguous e => mkMres (Some (eid e)) MOk
          | _ => mkMres None MError
          end
      | UCall a t =>
          if is_operator d then
            match operator_candidates es with
            | [] => mkMres None MError
            | cs => match disambiguate_op cs a (Some t) with
                    | Unambiguous e =>
                        mkMres (Some (eid e)) (ok_if (actual_ok implicit_possible a e && return_ok (Some t) e))
                    | _ => mkMres None MError
                    end
            end
          else
            match disambiguate es a (Some t) with
            | Unambiguous e =>
                mkMres (Some (eid e))
                       (ok_if (accepts_one_actual e && actual_ok implicit_possible a e && return_ok (Some t) e))
            | _ => mkMres None MError
            end
      end
  end.

(* literals.rs `analyze_literal_with_target_type` for Literal::Character: no scope lookup, no
   reference; `lits` = the literal designators of the target type if it is an enumeration type *)
Definition char_site_result (lits : option (list des)) (d : des) : mres :=
  match lits with
  | Some l => mkMres None (ok_if (existsb (N.eqb d) l))
  | None => mkMres None MError
  end.

(* ------------------------------------------------------------------------------------------ *)
(* A call whose actual is itself a use site (an overloaded name or a nested call)              *)
(* ------------------------------------------------------------------------------------------ *)
(* ExpressionType of the actual analysed WITHOUT a target type (overloaded.rs `actual_types`) *)
Inductive etype := ETOne (t : ty) | ETMany (ts : list ty).
Definition et_possible (et : etype) (p : ty) : bool :=
  match et with ETOne t => ty_eqb t p | ETMany ts => existsb (fun t => ty_eqb t p) ts end.
Definition et_actual_ok (et : etype) (e : ent) : bool :=
  match formal e with Some p => et_possible et p | None => true end.

(* names.rs expression_name_types / name_to_type for the actual; the bool = a diagnostic was pushed
   although a type came out (an early exit of `disambiguate` followed by a failing check_call);
   None = EvalError (the enclosing `disambiguate` gives up) *)
Definition lits_of (es : list ent) : list ent :=
  filter (fun e => callable_without_actuals e && is_function e) es.
Definition types_of (es : list ent) : list ty :=
  flat_map (fun e => match return_type e with Some t => [t] | None => [] end) es.
Definition call_fits (a : arg) (ttyp : option ty) (e : ent) : bool :=
  accepts_one_actual e && actual_ok implicit_possible a e && return_ok ttyp e.

(* result: type(s), a diagnostic was pushed, the reference already set on the actual (when it is
   unambiguous on its own) *)
Definition actual_type (x : xarg) (ri : looked) : option (etype * bool * option N) :=
  match x, ri with
  | XName _ _, LkSingle e => match ekind e with KObj t => Some (ETOne t, false, Some (eid e)) | _ => None end
  | XName _ _, LkOver es =>
      match lits_of es with
      | [] => None
      | [e] => match return_type e with Some t => Some (ETOne t, false, Some (eid e)) | None => None end
      | ls => Some (ETMany (types_of ls), false, None)
      end
  | XCall _ _ a, LkOver es =>
      match disambiguate es a None with
      | Unambiguous g =>
          match return_type g with
          | Some t => Some (ETOne t, negb (call_fits a None g), Some (eid g))
          | None => None
          end
      | Ambiguous gs => Some (ETMany (types_of gs), false, None)
      | Failed => None
      end
  | _, _ => None
  end.

(* check_call of the chosen subprogram analyses the actual WITH the formal's type as target:
   the reference of the actual and whether that went without a diagnostic *)
Definition actual_with_type (x : xarg) (ri : looked) (p : ty) : option N * bool :=
  match x, ri with
  | XName _ _, LkSingle e => (Some (eid e), match ekind e with KObj t => ty_eqb t p | _ => false end)
  | XName _ _, LkOver es =>
      match disambiguate_no_actuals es (Some p) with
      | Unambiguous e => (Some (eid e), true)
      | _ => (None, false)
      end
  | XCall _ _ a, LkOver es =>
      match disambiguate es a (Some p) with
      | Unambiguous g => (Some (eid g), call_fits a (Some p) g)
      | _ => (None, false)
      end
  | _, _ => (None, false)
  end.

(* stage at which `disambiguate` singled the candidate out: 0 only candidate, 1 formals,
   2 actual types, 3 return type; `clean` = no diagnostic so far; `pre` = the reference the
   analysis of the actual without target type has already set *)
Inductive chosen := Chosen (f : ent) (stage : nat) (clean : bool) (pre : option N) | NotChosen.
Definition disambiguate_x (all : list ent) (x : xarg) (ri : looked) (t : ty) : chosen :=
  match all with
  | [e] => Chosen e 0 true None
  | _ =>
    match filter accepts_one_actual (filter is_function all) with
    | [e] => Chosen e 1 true None
    | [] => NotChosen
    | ok_formals =>
      match actual_type x ri with
      | None => NotChosen
      | Some (et, dirty, pre) =>
        match filter (et_actual_ok et) ok_formals with
        | [e] => Chosen e 2 (negb dirty) pre
        | [] => NotChosen
        | ok_assoc_types =>
          match filter (return_ok (Some t)) ok_assoc_types with
          | [e] => Chosen e 3 (negb dirty) pre
          | [] => NotChosen
          | _ =>
            (* the strict matcher equals the implicit one on the actual types of the fragment:
               nothing is removed, the call stays ambiguous and is reported *)
            NotChosen
          end
        end
      end
    end
  end.

Record xres := mkXres { x_outer : option N; x_inner : option N; x_class : mclass; x_stage : option nat }.

(* `skip` = Some k: the check_call after stage k is dropped (a seeded change: the call resolves, the
   actual is never analysed against the formal of the chosen subprogram and keeps only the
   reference it got on its own) *)
Definition site_result_x_gen (skip : option nat) (d : des) (x : xarg) (t : ty) (ro ri : looked) : xres :=
  match ro with
  | LkConflict => mkXres None None MConflict None
  | LkUndeclared => mkXres None None MUndeclared None
  | LkSingle e => mkXres (Some (eid e)) None MError None
  | LkOver es =>
      if is_operator d then mkXres None None MError None
      else
        match disambiguate_x es x ri t with
        | NotChosen => mkXres None None MError None
        | Chosen f stage clean pre =>
            match formal f with
            | None => mkXres (Some (eid f)) None MError (Some stage)  (* a literal called with an actual *)
            | Some p =>
                let skipped := match skip with Some k => Nat.eqb k stage | None => false end in
                if skipped then mkXres (Some (eid f)) pre (ok_if (clean && return_ok (Some t) f)) (Some stage)
                else
                  let '(it, iok) := actual_with_type x ri p in
                  mkXres (Some (eid f)) it (ok_if (clean && iok && return_ok (Some t) f)) (Some stage)
            end
        end
  end.
Definition site_result_x := site_result_x_gen None.
