(* Mini/Gen.v — the generator of MiniVHDL programs: choice list -> program (definitions only).

   Expressions and sequential statements are built as TYPED syntax (Mini/Typing.v: a raw phrase packaged with
   its typing derivation); the premises of the typing rules are obtained by evaluating the reference's
   decidable side conditions (`ok_dec`, `dec_true`), falling back to a simpler phrase when one fails.  So the
   Coq type checker enforces that every expression and statement the generator emits has a derivation.
   Declarations and design units are assembled from those phrases and threaded through the reference checker
   (`check_decl`, `check_unit`) to obtain the environment of the next program point; a declaration or unit the
   checker rejects is dropped.  `gen` finally returns the program only if the whole-program check accepts it
   (else the fixed `fallback` program) — the evidence of a run reports how often that happened.

   Node ids are all 0 during generation; `Renumber.renumber` assigns them at the end. *)
From Coq Require Import List NArith Arith Bool.
Import ListNotations.
From RH Require Import Mini.Syntax Mini.Sem Mini.Typing Mini.Renumber.
Open Scope N_scope.

Notation MD := Exactly.

(* ---------- deciding side conditions ---------- *)
Definition dec_true (b : bool) : option (b = true) :=
  match b as b' return option (b' = true) with true => Some eq_refl | false => None end.
Definition dec_false (b : bool) : option (b = false) :=
  match b as b' return option (b' = false) with false => Some eq_refl | true => None end.
Definition ok_dec {A} (r : res A) : option { a : A | r = Ok a } :=
  match r as r' return option { a : A | r' = Ok a } with
  | Ok a => Some (exist _ a eq_refl)
  | Bad _ _ => None
  end.
Definition some_dec {A} (r : option A) : option { a : A | r = Some a } :=
  match r as r' return option { a : A | r' = Some a } with
  | Some a => Some (exist _ a eq_refl)
  | None => None
  end.

(* ---------- generator monad: a stream of choices and a supply of identifiers ---------- *)
Record gst := GSt { g_ch : list N; g_next : ident }.
Definition gen (A : Type) := gst -> A * gst.
Definition gret {A} (a : A) : gen A := fun s => (a, s).
Definition gbind {A B} (m : gen A) (f : A -> gen B) : gen B := fun s => let (a, s') := m s in f a s'.
Notation "x <= m ;; k" := (gbind m (fun x => k)) (at level 61, m at next level, right associativity).
(* a number below n (0 when n = 0 or the choices are used up) *)
Definition pick (n : N) : gen N := fun s =>
  match g_ch s with
  | [] => (0, s)
  | c :: r => ((if n =? 0 then 0 else c mod n), GSt r (g_next s))
  end.
Definition fresh_id : gen ident := fun s => (g_next s, GSt (g_ch s) (g_next s + 1)).
Definition pick_nat (n : nat) : gen nat := k <= pick (N.of_nat n) ;; gret (N.to_nat k).
Definition flip : gen bool := k <= pick 2 ;; gret (k =? 1).
Definition pick_from {A} (l : list A) : gen (option A) :=
  k <= pick_nat (length l) ;; gret (nth_error l k).
Fixpoint grepeat {A} (n : nat) (m : gen (option A)) : gen (list A) :=
  match n with
  | O => gret []
  | S n' => x <= m ;; r <= grepeat n' m ;; gret (match x with Some a => a :: r | None => r end)
  end.

Definition o (x : ident) : occ := Occ 0 x.

(* ---------- what the generator knows about the visible declarations ---------- *)
(* how a package item is referred to: by simple name (declared here / use-visible) or lib.pkg.x *)
Inductive sref := RSimple | RSel (l p : ident).
Definition ref_name (r : sref) (x : ident) : name :=
  match r with RSimple => NId (o x) | RSel l p => NSel (o l) (o p) (o x) end.
Definition ref_fname (r : sref) (x : ident) : fname :=
  match r with RSimple => FId (o x) | RSel l p => FSel (o l) (o p) (o x) end.
Definition ref_tmark (r : sref) (x : ident) : tmark :=
  match r with RSimple => TMName (o x) | RSel l p => TMSel (o l) (o p) (o x) end.

Record gobj := GObj { go_ref : sref; go_id : ident; go_cls : ocls; go_mode : omode; go_ty : sty }.
Record gfun := GFun { gf_ref : sref; gf_id : ident; gf_ps : list psig; gf_ret : option sty }.
Record gty := GTy { gt_ref : sref; gt_id : ident; gt_ty : sty }.
Record gcomp := GComp { gc_id : ident; gc_gens : list isig; gc_ports : list isig }.
Record gctx := GCtx_ {
  c_objs : list gobj;
  c_subs : list gfun;          (* functions (ret = Some t) and procedures (None) *)
  c_lits : list gobj;          (* enumeration literals (cls/mode unused) *)
  c_types : list gty;
  c_comps : list gcomp }.
Definition ctx_empty : gctx := GCtx_ [] [] [] [] [].
Definition ctx_app (a b : gctx) : gctx :=
  GCtx_ (c_objs a ++ c_objs b) (c_subs a ++ c_subs b) (c_lits a ++ c_lits b) (c_types a ++ c_types b) (c_comps a ++ c_comps b).
Definition add_obj (c : gctx) (x : gobj) := GCtx_ (x :: c_objs c) (c_subs c) (c_lits c) (c_types c) (c_comps c).
Definition add_sub (c : gctx) (x : gfun) := GCtx_ (c_objs c) (x :: c_subs c) (c_lits c) (c_types c) (c_comps c).
Definition add_lit (c : gctx) (x : gobj) := GCtx_ (c_objs c) (c_subs c) (x :: c_lits c) (c_types c) (c_comps c).
Definition add_type (c : gctx) (x : gty) := GCtx_ (c_objs c) (c_subs c) (c_lits c) (x :: c_types c) (c_comps c).
Definition add_comp (c : gctx) (x : gcomp) := GCtx_ (c_objs c) (c_subs c) (c_lits c) (c_types c) (x :: c_comps c).
(* the same declarations seen from another unit *)
Definition reref (r : sref) (c : gctx) : gctx :=
  GCtx_ (map (fun x => GObj r (go_id x) (go_cls x) (go_mode x) (go_ty x)) (c_objs c))
        (map (fun x => GFun r (gf_id x) (gf_ps x) (gf_ret x)) (c_subs c))
        (map (fun x => GObj r (go_id x) (go_cls x) (go_mode x) (go_ty x)) (c_lits c))
        (map (fun x => GTy r (gt_id x) (gt_ty x)) (c_types c))
        [].

Definition tmark_of (c : gctx) (t : sty) : option tmark :=
  match t with
  | SBool => Some TMBool
  | SInt => Some TMInt
  | SBit => Some TMBit
  | _ => match find (fun x => sty_eqb (gt_ty x) t) (c_types c) with
         | Some x => Some (ref_tmark (gt_ref x) (gt_id x))
         | None => None
         end
  end.

(* ------------------------------------------------------------------------------------------ *)
(* typed expressions                                                                            *)
(* ------------------------------------------------------------------------------------------ *)
Section Exprs.
Variable GE : genv.
Notation texpr := (texpr MD GE).
Notation troot := (troot MD GE).
Notation tstmt := (tstmt MD GE).
Notation tstmts := (tstmts MD GE).

(* an expression with an interpretation that is acceptable where t is expected *)
Definition tfit (G : env) (t : sty) : Type := { a : sty & (texpr G a * (fits t a = true))%type }.

Definition t_int (G : env) (v : N) : texpr G SUInt := exist _ (EInt 0 v) (HT_Int MD GE G 0 v).
Definition t_bit (G : env) (b : bool) : texpr G SBit := exist _ (EBit 0 b) (HT_Bit MD GE G 0 b).
Definition t_nam (G : env) (n : name) (a : sty) : option (texpr G a) :=
  match ok_dec (interp_name MD GE G n) with
  | Some (exist _ l pf) =>
      match dec_true (existsb (sty_eqb a) l) with
      | Some p => Some (exist _ (ENam n) (HT_Nam MD GE G n l a pf p))
      | None => None
      end
  | None => None
  end.
Definition fit_of (G : env) (t a : sty) (e : texpr G a) : option (tfit G t) :=
  match dec_true (fits t a) with
  | Some p => Some (existT _ a (e, p))
  | None => None
  end.
Definition t_root (G : env) (t : sty) (x : tfit G t) : option (troot G t) :=
  match x with
  | existT _ a (exist _ e h, p) =>
      match dec_true (negb (is_agg e)), dec_true (unamb MD GE G t e) with
      | Some na, Some u =>
          Some (exist _ e (RO_Expr MD GE G t e a (proj1 (negb_true_iff _) na) h p u))
      | _, _ => None
      end
  end.
Definition t_bin (G : env) (op : binop) (t al ar : sty) (l : texpr G al) (r : texpr G ar) : option (texpr G (op_result op t)) :=
  match dec_true (fits t al), dec_true (fits t ar), dec_true (sty_eqb al t || sty_eqb ar t),
        dec_true (op_class_ok op t), dec_true (ops_visible G t), dec_false (ord_array op t) with
  | Some p1, Some p2, Some p3, Some p4, Some p5, Some p6 =>
      Some (exist _ (EBin 0 op (proj1_sig l) (proj1_sig r))
                  (HT_Bin MD GE G 0 op _ _ al ar t (proj2_sig l) (proj2_sig r) p1 p2 p3 p4 p6 p5))
  | _, _, _, _, _, _ => None
  end.
(* l < r for two arrays of discrete elements: the resolution is the reference's *)
Definition t_ordarr (G : env) (l r : expr) : option (texpr G SBool) :=
  match ok_dec (interp MD GE G (EBin 0 OLt l r)) with
  | Some (exist _ lst pf) =>
      match dec_true (existsb (sty_eqb SBool) lst) with
      | Some pe => Some (exist _ (EBin 0 OLt l r) (HT_OrdArr MD GE G 0 l r lst pf pe))
      | None => None
      end
  | None => None
  end.
Definition t_not (G : env) (t : sty) (e : texpr G t) : option (texpr G t) :=
  match dec_true (match t with SBool | SBit => true | _ => false end) with
  | Some p => Some (exist _ (ENot 0 (proj1_sig e)) (HT_Not MD GE G 0 _ t (proj2_sig e) p))
  | None => None
  end.
Definition t_qual (G : env) (tm : tmark) (t : sty) (pf : resolve_tmark GE G tm = Ok t) (e : troot G t) : texpr G t :=
  exist _ (EQual tm (proj1_sig e)) (HT_Qual MD GE G tm _ t pf (proj2_sig e)).

(* ---------- actuals ---------- *)
Definition targs (G : env) (ns : list ident) (ts : list sty) : Type := { a : args | ArgsOk MD GE G ns ts a }.
Definition tnamed (G : env) (ns : list ident) (ts : list sty) : Type := { a : args | NamedOk MD GE G ns ts a }.

Section WithExprGen.
Variable G : env.
Variable ge : forall t : sty, gen (option (tfit G t)).

Fixpoint gen_named (ps : list psig) : gen (option (tnamed G (map ps_name ps) (map ps_ty ps))) :=
  match ps as ps0 return gen (option (tnamed G (map ps_name ps0) (map ps_ty ps0))) with
  | [] => gret (Some (exist _ ANil (NO_Nil MD GE G)))
  | p :: r =>
      x <= ge (ps_ty p) ;;
      rest <= gen_named r ;;
      gret (match x, rest with
            | Some (existT _ a (e, pf)), Some rs =>
                Some (exist _ (ACons (ChName (o (ps_name p))) (proj1_sig e) (proj1_sig rs))
                            (NO_Cons MD GE G (o (ps_name p)) _ _ _ _ a _ (proj2_sig e) pf (proj2_sig rs)))
            | _, _ => None
            end)
  end.
(* the first k actuals positional, the others named *)
Definition args_named (ps : list psig) : gen (option (targs G (map ps_name ps) (map ps_ty ps))) :=
  rest <= gen_named ps ;;
  gret (match rest, dec_true (nodup_idents (map ps_name ps)) with
        | Some rs, Some nd => Some (exist _ (proj1_sig rs) (AO_Named MD GE G _ _ _ nd (proj2_sig rs)))
        | _, _ => None
        end).
Fixpoint gen_args (k : nat) (ps : list psig) {struct ps} : gen (option (targs G (map ps_name ps) (map ps_ty ps))) :=
  match ps as ps0 return gen (option (targs G (map ps_name ps0) (map ps_ty ps0))) with
  | [] => args_named []
  | p :: r =>
      match k with
      | O => args_named (p :: r)
      | S k' =>
          x <= ge (ps_ty p) ;;
          rest <= gen_args k' r ;;
          gret (match x, rest with
                | Some (existT _ a (e, pf)), Some rs =>
                    Some (exist _ (ACons ChPos (proj1_sig e) (proj1_sig rs))
                                (AO_Pos MD GE G (ps_name p) _ _ _ _ a _ (proj2_sig e) pf (proj2_sig rs)))
                | _, _ => None
                end)
      end
  end.
End WithExprGen.

Definition t_call (G : env) (f : fname) (bs : list binding) (pf : callee_bindings GE G f = Ok bs)
    (k : nat) (ps : list psig) (r : sty) (pk : nth_error (funs_of bs) k = Some (ps, r))
    (a : targs G (map ps_name ps) (map ps_ty ps)) : texpr G r :=
  exist _ (ECall f (proj1_sig a)) (HT_Call MD GE G f _ bs ps r pf (nth_error_In _ _ pk) (proj2_sig a)).

(* literal of type t, when the type has literals the context can name *)
Definition lit_fit (G : env) (c : gctx) (t : sty) (k : N) : option (tfit G t) :=
  match t with
  | SBit => fit_of G t SBit (t_bit G (k mod 2 =? 1))
  | SBool => match t_nam G (NId (o (if k mod 2 =? 1 then id_true else id_false))) SBool with
             | Some e => fit_of G t SBool e | None => None end
  | SEnum _ _ _ =>
      let ls := filter (fun x => sty_eqb (go_ty x) t) (c_lits c) in
      match nth_error ls (N.to_nat k mod (Nat.max 1 (length ls))) with
      | Some x => match t_nam G (ref_name (go_ref x) (go_id x)) (go_ty x) with
                  | Some e => fit_of G t (go_ty x) e | None => None end
      | None => None
      end
  | _ => if is_int t then fit_of G t SUInt (t_int G (k mod 8)) else None
  end.

(* names of visible objects (or their fields / elements) that have type t *)
Definition obj_names (c : gctx) (t : sty) : list (name * sty) :=
  flat_map (fun x =>
    let n := ref_name (go_ref x) (go_id x) in
    (if sty_eqb (go_ty x) t then [(n, go_ty x)] else []) ++
    match go_ty x with
    | SRec _ _ fs => flat_map (fun f => if sty_eqb (snd f) t then [(NFld n (o (fst f)), snd f)] else []) fs
    | SArr _ _ len el => if sty_eqb el t then [(NIdx n (EInt 0 (len - 1)), el); (NIdx n (EInt 0 0), el)] else []
    | _ => []
    end) (c_objs c).
Definition obj_fit (G : env) (c : gctx) (t : sty) (k : N) : option (tfit G t) :=
  let ns := obj_names c t in
  match nth_error ns (N.to_nat k mod (Nat.max 1 (length ns))) with
  | Some (n, a) => match t_nam G n a with Some e => fit_of G t a e | None => None end
  | None => None
  end.

Definition first_some {A} (x y : option A) : option A := match x with Some _ => x | None => y end.

(* ---------- complete contexts (with aggregates) ---------- *)
Definition ok_tt (r : res unit) : option (r = Ok tt) :=
  match r as r' return option (r' = Ok tt) with
  | Ok tt => Some eq_refl
  | Bad _ _ => None
  end.
Definition not_single (els : args) : bool := match els with ACons ChPos _ ANil => false | _ => true end.

Definition tfields (G : env) (all fs : list (ident * sty)) : Type := { a : args | FieldsOk MD GE G all fs a }.
Definition telems (G : env) (el : sty) (n : nat) : Type := { a : args | ElemsOk MD GE G el n a }.

Section WithRootGen.
Variable G : env.
Variable gr : forall t : sty, gen (option (troot G t)).

Fixpoint gen_fields_pos (all fs : list (ident * sty)) : gen (option (tfields G all fs)) :=
  match fs as fs0 return gen (option (tfields G all fs0)) with
  | [] => gret (Some (exist _ ANil (FO_Nil MD GE G all)))
  | ft :: r =>
      x <= gr (snd ft) ;;
      rest <= gen_fields_pos all r ;;
      gret (match x, rest with
            | Some e, Some rs =>
                Some (exist _ (ACons ChPos (proj1_sig e) (proj1_sig rs))
                            (FO_Pos MD GE G all ft r _ _ (proj2_sig e) (proj2_sig rs)))
            | _, _ => None
            end)
  end.
(* named, in the order of the remaining fields, possibly closed by `others` when the remaining fields are of one
   type; n bounds the number of steps *)
Fixpoint gen_fields_named (n : nat) (all fs : list (ident * sty)) : gen (option (tfields G all fs)) :=
  match n with
  | O => gret (match fs as fs0 return option (tfields G all fs0) with
               | [] => Some (exist _ ANil (FO_Nil MD GE G all))
               | _ => None end)
  | S n' =>
      match fs as fs0 return gen (option (tfields G all fs0)) with
      | [] => gret (Some (exist _ ANil (FO_Nil MD GE G all)))
      | ft :: r =>
          oth <= pick 3 ;;
          match (if oth =? 0 then dec_true (forallb (fun y => sty_eqb (snd y) (snd ft)) r) else None) with
          | Some same =>
              e <= gr (snd ft) ;;
              gret (match e with
                    | Some e => Some (exist _ (ACons ChOthers (proj1_sig e) ANil)
                                            (FO_Others MD GE G all ft r _ same (proj2_sig e)))
                    | None => None end)
          | None =>
          let f := o (fst ft) in
          match some_dec (find_field all f), dec_true (existsb (fun y => fst y =? o_id f) (ft :: r)) with
          | Some (exist _ x px), Some pe =>
              e <= gr (snd x) ;;
              rest <= gen_fields_named n' all (filter (fun y => negb (fst y =? o_id f)) (ft :: r)) ;;
              gret (match e, rest with
                    | Some e, Some rs =>
                        match dec_false (args_has_pos (proj1_sig rs)) with
                        | Some np =>
                            Some (exist _ (ACons (ChName f) (proj1_sig e) (proj1_sig rs))
                                        (FO_Named MD GE G all (ft :: r) f x _ _ px pe np (proj2_sig e) (proj2_sig rs)))
                        | None => None
                        end
                    | _, _ => None
                    end)
          | _, _ => gret None
          end
          end
      end
  end.
(* the first k fields positionally, the others named / `others` *)
Fixpoint gen_fields_mixed (k : nat) (all fs : list (ident * sty)) : gen (option (tfields G all fs)) :=
  match k, fs as fs0 return gen (option (tfields G all fs0)) with
  | S k', ft :: r =>
      x <= gr (snd ft) ;;
      rest <= gen_fields_mixed k' all r ;;
      gret (match x, rest with
            | Some e, Some rs =>
                Some (exist _ (ACons ChPos (proj1_sig e) (proj1_sig rs))
                            (FO_Pos MD GE G all ft r _ _ (proj2_sig e) (proj2_sig rs)))
            | _, _ => None
            end)
  | _, fs0 => gen_fields_named (length fs0) all fs0
  end.
Fixpoint gen_elems_pos (el : sty) (n : nat) : gen (option (telems G el n)) :=
  match n as n0 return gen (option (telems G el n0)) with
  | O => gret (Some (exist _ ANil (EO_Nil MD GE G el)))
  | S n' =>
      x <= gr el ;;
      rest <= gen_elems_pos el n' ;;
      gret (match x, rest with
            | Some e, Some rs =>
                Some (exist _ (ACons ChPos (proj1_sig e) (proj1_sig rs))
                            (EO_Pos MD GE G el n' _ _ (proj2_sig e) (proj2_sig rs)))
            | _, _ => None
            end)
  end.
Definition gen_elems_others (el : sty) (n : nat) : gen (option (telems G el n)) :=
  x <= gr el ;;
  gret (match x with
        | Some e => Some (exist _ (ACons ChOthers (proj1_sig e) ANil) (EO_Others MD GE G el n _ (proj2_sig e)))
        | None => None
        end).
End WithRootGen.

Definition root_of_fit (G : env) (t : sty) (x : option (tfit G t)) : option (troot G t) :=
  match x with Some x => t_root G t x | None => None end.

(* operand type for a comparison: a type some visible object has *)
Definition some_scalar (c : gctx) (k : N) : sty :=
  let ts := SInt :: SBool :: SBit ::
            flat_map (fun x => match go_ty x with SEnum _ _ _ | SIntT _ _ | SRec _ _ _ | SArr _ _ _ _ => [go_ty x] | _ => [] end) (c_objs c) in
  nth (N.to_nat k mod length ts) ts SInt.

Definition gen_leaf (G : env) (c : gctx) (t : sty) : gen (option (tfit G t)) :=
  k <= pick 1000 ;;
  gret (first_some (if k mod 3 =? 0 then lit_fit G c t k else obj_fit G c t k)
                   (first_some (obj_fit G c t k) (lit_fit G c t k))).

Fixpoint gen_e (fuel : nat) (G : env) (c : gctx) (t : sty) {struct fuel} : gen (option (tfit G t)) :=
  k <= pick 1000 ;;
  let leaf := first_some (if k mod 3 =? 0 then lit_fit G c t k else obj_fit G c t k)
                         (first_some (obj_fit G c t k) (lit_fit G c t k)) in
  match fuel with
  | O => gret leaf
  | S f =>
      w <= pick 10 ;;
      if w <? 4 then gret leaf
      else if w <? 7 then
        (* function call *)
        let cands := filter (fun x => match gf_ret x with Some r => fits t r | None => false end) (c_subs c) in
        fx <= pick_from cands ;;
        match fx with
        | None => gret leaf
        | Some fx =>
            let fn := ref_fname (gf_ref fx) (gf_id fx) in
            match ok_dec (callee_bindings GE G fn) with
            | None => gret leaf
            | Some (exist _ bs pf) =>
                i <= pick_nat (length (funs_of bs)) ;;
                match some_dec (nth_error (funs_of bs) i) with
                | Some (exist _ (ps, r) pk) =>
                    npos <= pick_nat (S (length ps)) ;;
                    a <= gen_args G (gen_e f G c) npos ps ;;
                    gret (match a with
                          | Some a => first_some (fit_of G t r (t_call G fn bs pf i ps r pk a)) leaf
                          | None => leaf
                          end)
                | None => gret leaf
                end
            end
        end
      else if w <? 9 then
        (* operator *)
        match t with
        | SBool =>
            opk <= pick 8 ;;
            if 5 <=? opk then
              (* a composite object compared with an aggregate (either side) *)
              ox <= pick_from (filter (fun x => is_composite (go_ty x)) (c_objs c)) ;;
              eqk <= pick 3 ;; side <= flip ;;
              let op := if eqk =? 0 then OEq else if eqk =? 1 then ONe else OLt in
              match ox with
              | None => gret leaf
              | Some ox =>
                  let ln := ENam (ref_name (go_ref ox) (go_id ox)) in
                  match ok_dec (interp MD GE G ln) with
                  | Some (exist _ li pl) =>
                      match some_dec (agg_type G op li) with
                      | Some (exist _ ta pt) =>
                          r <= gen_r f G c ta ;;
                          gret (match r with
                                | Some r =>
                                    match dec_true (is_aggregate (proj1_sig r)) with
                                    | Some pa =>
                                        let e : texpr G (op_result op ta) :=
                                          if side
                                          then exist _ (EBin 0 op ln (proj1_sig r))
                                                       (HT_BinAggR MD GE G 0 op ln _ li ta eq_refl pa pl pt (proj2_sig r))
                                          else exist _ (EBin 0 op (proj1_sig r) ln)
                                                       (HT_BinAggL MD GE G 0 op _ ln li ta pa eq_refl pl pt (proj2_sig r)) in
                                        first_some (fit_of G t _ e) leaf
                                    | None => leaf
                                    end
                                | None => leaf end)
                      | None => gret leaf
                      end
                  | None => gret leaf
                  end
              end
            else if opk <? 2 then
              l <= gen_e f G c SBool ;; r <= gen_e f G c SBool ;;
              gret (match l, r with
                    | Some (existT _ al (el, _)), Some (existT _ ar (er, _)) =>
                        match t_bin G (if opk =? 0 then OAnd else OOr) SBool al ar el er with
                        | Some e => first_some (fit_of G t _ e) leaf | None => leaf end
                    | _, _ => leaf end)
            else
              tk <= pick 1000 ;;
              let ot := some_scalar c tk in
              l <= gen_e f G c ot ;; r <= gen_e f G c ot ;;
              gret (match l, r with
                    | Some (existT _ al (el, _)), Some (existT _ ar (er, _)) =>
                        match t_bin G (if opk =? 2 then OEq else if opk =? 3 then ONe else OLt) ot al ar el er with
                        | Some e => first_some (fit_of G t _ e) leaf
                        | None =>
                            match (if ord_array OLt ot then t_ordarr G (proj1_sig el) (proj1_sig er) else None) with
                            | Some e => first_some (fit_of G t _ e) leaf
                            | None => leaf
                            end
                        end
                    | _, _ => leaf end)
        | SBit =>
            opk <= pick 2 ;;
            l <= gen_e f G c SBit ;; r <= gen_e f G c SBit ;;
            gret (match l, r with
                  | Some (existT _ al (el, _)), Some (existT _ ar (er, _)) =>
                      match t_bin G (if opk =? 0 then OAnd else OOr) SBit al ar el er with
                      | Some e => first_some (fit_of G t _ e) leaf | None => leaf end
                  | _, _ => leaf end)
        | _ =>
            if is_int t then
              opk <= pick 3 ;;
              l <= gen_e f G c t ;; r <= gen_e f G c t ;;
              gret (match l, r with
                    | Some (existT _ al (el, _)), Some (existT _ ar (er, _)) =>
                        match t_bin G (if opk =? 0 then OAdd else if opk =? 1 then OSub else OMul) t al ar el er with
                        | Some e => first_some (fit_of G t _ e) leaf | None => leaf end
                    | _, _ => leaf end)
            else gret leaf
        end
      else
        (* not / qualified expression *)
        match t with
        | SBool | SBit =>
            x <= gen_e f G c t ;;
            gret (match x with
                  | Some (existT _ a (e, _)) =>
                      match t_not G a e with Some e' => first_some (fit_of G t a e') leaf | None => leaf end
                  | None => leaf end)
        | _ =>
            match tmark_of c t with
            | Some tm =>
                match ok_dec (resolve_tmark GE G tm) with
                | Some (exist _ t' pf) =>
                    x <= gen_e f G c t' ;;
                    gret (match x with
                          | Some x => match t_root G t' x with
                                      | Some rt => first_some (fit_of G t t' (t_qual G tm t' pf rt)) leaf
                                      | None => leaf end
                          | None => leaf end)
                | None => gret leaf
                end
            | None => gret leaf
            end
        end
  end
with gen_r (fuel : nat) (G : env) (c : gctx) (t : sty) {struct fuel} : gen (option (troot G t)) :=
  (* elements of an aggregate: smaller fuel; without fuel, leaves (so that flat aggregates exist at every depth) *)
  let gr : forall t' : sty, gen (option (troot G t')) :=
    match fuel with
    | O => fun t' => y <= gen_leaf G c t' ;; gret (root_of_fit G t' y)
    | S f => gen_r f G c
    end in
  (
      w <= pick 4 ;;
      x <= (match fuel with O => gen_leaf G c t | S f => gen_e f G c t end) ;;
      leaf <= gen_leaf G c t ;;
      let plain := first_some (root_of_fit G t x) (root_of_fit G t leaf) in
      match t as t0 return gen (option (troot G t0)) -> gen (option (troot G t0)) with
      | SRec u n fs => fun dflt =>
          if w =? 0 then dflt else
          km <= pick_nat (length fs) ;;
          a <= (if w =? 1 then gen_fields_pos G gr fs fs
                else if w =? 2 then gen_fields_named G gr (length fs) fs fs
                else gen_fields_mixed G gr km fs fs) ;;
          match a with
          | Some a =>
              match dec_true (not_single (proj1_sig a)) with
              | Some ns => gret (Some (exist _ (EAgg 0 (proj1_sig a)) (RO_Rec MD GE G u n fs 0 _ ns (proj2_sig a))))
              | None => dflt
              end
          | None => dflt
          end
      | SArr u n len el => fun dflt =>
          if w =? 0 then dflt else
          a <= (if (w =? 1) && (len <=? 4) then gen_elems_pos G gr el (N.to_nat len)
                else gen_elems_others G gr el (N.to_nat len)) ;;
          match a with
          | Some a =>
              match dec_true (not_single (proj1_sig a)) with
              | Some ns => gret (Some (exist _ (EAgg 0 (proj1_sig a)) (RO_Arr MD GE G u n len el 0 _ ns (proj2_sig a))))
              | None => dflt
              end
          | None => dflt
          end
      | _ => fun dflt => dflt
      end (gret plain)
  ).

(* ---------- sequential statements ---------- *)
(* names of objects of class k (and their fields / elements) that can be assigned *)
Definition target_names (c : gctx) (k : ocls) : list name :=
  flat_map (fun x =>
    if ocls_eqb (go_cls x) k && writable (go_mode x) then
      let n := ref_name (go_ref x) (go_id x) in
      n :: match go_ty x with
           | SRec _ _ fs => map (fun f => NFld n (o (fst f))) fs
           | SArr _ _ len _ => [NIdx n (EInt 0 0)]
           | _ => []
           end
    else []) (c_objs c).

Definition t_snil (G : env) : tstmts G := exist _ SNil (SSO_Nil MD GE G).
Definition t_scons (G : env) (s : tstmt G) (r : tstmts G) : tstmts G :=
  exist _ (SCons (proj1_sig s) (proj1_sig r)) (SSO_Cons MD GE G _ _ (proj2_sig s) (proj2_sig r)).
Definition t_snull (G : env) : tstmt G := exist _ (SNull 0) (SO_Null MD GE G 0).
Definition ocons (G : env) (s : option (tstmt G)) (r : tstmts G) : tstmts G :=
  match s with Some s => t_scons G s r | None => r end.

(* raw actuals of a procedure call: expressions for constants, object names for out/inout parameters *)
Fixpoint gen_proc_args (G : env) (c : gctx) (named : bool) (ps : list psig) : gen (option args) :=
  match ps with
  | [] => gret (Some ANil)
  | p :: r =>
      k <= pick 1000 ;;
      e <= (match ps_cls p with
            | KConst => x <= gen_e 1 G c (ps_ty p) ;;
                        gret (match x with Some (existT _ _ (e, _)) => Some (proj1_sig e) | None => None end)
            | cl =>
                let ns := filter (fun x => ocls_eqb (go_cls x) cl && writable (go_mode x) && sty_eqb (go_ty x) (ps_ty p)) (c_objs c) in
                gret (match nth_error ns (N.to_nat k mod (Nat.max 1 (length ns))) with
                      | Some x => Some (ENam (ref_name (go_ref x) (go_id x)))
                      | None => None end)
            end) ;;
      rest <= gen_proc_args G c named r ;;
      gret (match e, rest with
            | Some e, Some rs => Some (ACons (if named then ChName (o (ps_name p)) else ChPos) e rs)
            | _, _ => None
            end)
  end.

Definition tcalts (G : env) (t : sty) : Type := { a : calts | AltsOk MD GE G t a }.

Fixpoint gen_ss (fuel : nat) (G : env) (c : gctx) (n : nat) (tl : tstmts G) {struct fuel} : gen (tstmts G) :=
  match fuel with
  | O => gret tl
  | S f =>
      match n with
      | O => gret tl
      | S n' =>
          w <= pick 12 ;;
          s <= (
            if w <? 5 then
              (* assignment *)
              sg <= flip ;;
              let k := if sg then KSig else KVar in
              let k := match target_names c k with [] => (if sg then KVar else KSig) | _ => k end in
              tn <= pick_from (target_names c k) ;;
              match tn with
              | None => gret (Some (t_snull G))
              | Some tn =>
                  match k as k0 return gen (option (tstmt G)) with
                  | KSig =>
                      match ok_dec (check_target MD GE G KSig tn) with
                      | Some (exist _ ty pf) =>
                          e <= gen_r f G c ty ;;
                          gret (match e with
                                | Some e => Some (exist _ (SSig 0 tn (proj1_sig e)) (SO_Sig MD GE G 0 tn _ ty pf (proj2_sig e)))
                                | None => None end)
                      | None => gret None
                      end
                  | _ =>
                      match ok_dec (check_target MD GE G KVar tn) with
                      | Some (exist _ ty pf) =>
                          e <= gen_r f G c ty ;;
                          gret (match e with
                                | Some e => Some (exist _ (SVar 0 tn (proj1_sig e)) (SO_Var MD GE G 0 tn _ ty pf (proj2_sig e)))
                                | None => None end)
                      | None => gret None
                      end
                  end
              end
            else if w <? 7 then
              cnd <= gen_r f G c SBool ;;
              nt <= pick_nat 3 ;; ne <= pick_nat 2 ;;
              th <= gen_ss f G c nt (t_snil G) ;;
              el <= gen_ss f G c ne (t_snil G) ;;
              gret (match cnd with
                    | Some cnd => Some (exist _ (SIf 0 (proj1_sig cnd) (proj1_sig th) (proj1_sig el))
                                              (SO_If MD GE G 0 _ _ _ (proj2_sig cnd) (proj2_sig th) (proj2_sig el)))
                    | None => None end)
            else if w <? 8 then
              cnd <= gen_r f G c SBool ;;
              nb <= pick_nat 2 ;;
              b <= gen_ss f G c nb (t_snil G) ;;
              gret (match cnd with
                    | Some cnd => Some (exist _ (SWhile 0 (proj1_sig cnd) (proj1_sig b))
                                              (SO_While MD GE G 0 _ _ (proj2_sig cnd) (proj2_sig b)))
                    | None => None end)
            else if w <? 9 then
              v <= fresh_id ;;
              hi <= pick 4 ;;
              match ok_dec (declare (push G) (o v) (BObj KConst MNone SInt)) with
              | Some (exist _ G' pf) =>
                  nb <= pick_nat 3 ;;
                  b <= gen_ss f G' (add_obj c (GObj RSimple v KConst MNone SInt)) nb (t_snil G') ;;
                  gret (Some (exist _ (SFor 0 (o v) 0 hi (proj1_sig b)) (SO_For MD GE G 0 (o v) 0 hi _ G' pf (proj2_sig b))))
              | None => gret None
              end
            else if w <? 10 then
              (* case on an object of enumeration or integer type *)
              let sels := filter (fun x => match go_ty x with SEnum _ _ _ | SInt | SIntT _ _ => true | _ => false end) (c_objs c) in
              sx <= pick_from sels ;;
              match sx with
              | None => gret (Some (t_snull G))
              | Some sx =>
                  let sel := ref_name (go_ref sx) (go_id sx) in
                  match ok_dec (obj_name MD GE G sel) with
                  | Some (exist _ ob pf) =>
                      match dec_true (match snd ob with SEnum _ _ _ | SInt | SIntT _ _ | SBool | SBit => true | _ => false end) with
                      | Some pk =>
                          (* one or two alternatives with distinct choices *)
                          k1 <= pick 1000 ;;
                          let lits := filter (fun x => sty_eqb (go_ty x) (snd ob)) (c_lits c) in
                          let ch (j : nat) : list cchoice :=
                            match snd ob with
                            | SEnum _ _ _ => match nth_error lits j with Some l => [CCLit (o (go_id l))] | None => [] end
                            | _ => [CCInt 0 (N.of_nat j)]
                            end in
                          let cs1 := ch 0%nat ++ (if k1 mod 2 =? 0 then ch 2%nat else []) in
                          let cs2 := ch 1%nat in
                          b1 <= gen_ss f G c 1 (t_snil G) ;;
                          b2 <= gen_ss f G c 1 (t_snil G) ;;
                          oth <= gen_ss f G c 1 (t_snil G) ;;
                          let mk (cs : list cchoice) (b : tstmts G) (r : option (tcalts G (snd ob))) : option (tcalts G (snd ob)) :=
                            match cs, r with
                            | [], _ => r
                            | _, Some r =>
                                match ok_tt (check_list (check_cchoice G (snd ob)) cs) with
                                | Some pc => Some (exist _ (CACons cs (proj1_sig b) (proj1_sig r))
                                                         (AL_Cons MD GE G _ cs _ _ pc (proj2_sig b) (proj2_sig r)))
                                | None => None
                                end
                            | _, None => None
                            end in
                          let alts := mk cs1 b1 (mk cs2 b2 (Some (exist _ CANil (AL_Nil MD GE G (snd ob))))) in
                          gret (match alts with
                                | Some alts =>
                                    match dec_true (nodup_keys (map cchoice_key (calts_choices (proj1_sig alts)))) with
                                    | Some nd => Some (exist _ (SCase 0 sel (proj1_sig alts) (proj1_sig oth))
                                                             (SO_Case MD GE G 0 sel _ _ ob pf pk nd (proj2_sig alts) (proj2_sig oth)))
                                    | None => None
                                    end
                                | None => None end)
                      | None => gret None
                      end
                  | None => gret None
                  end
              end
            else if w <? 11 then
              (* procedure call *)
              px <= pick_from (filter (fun x => match gf_ret x with None => true | Some _ => false end) (c_subs c)) ;;
              match px with
              | None => gret (Some (t_snull G))
              | Some px =>
                  named <= flip ;;
                  a <= gen_proc_args G c named (gf_ps px) ;;
                  gret (match a with
                        | Some a =>
                            let fn := ref_fname (gf_ref px) (gf_id px) in
                            match ok_tt (check_stmt MD GE G (SCall fn a)) with
                            | Some pf => Some (exist _ (SCall fn a) (SO_Call MD GE G fn a pf))
                            | None => None
                            end
                        | None => None end)
              end
            else gret (Some (t_snull G))) ;;
          r <= gen_ss f G c n' tl ;;
          gret (ocons G s r)
      end
  end.

(* the closing return of a function body *)
Definition gen_return (G : env) (c : gctx) : gen (option (tstmt G)) :=
  match some_dec (e_ret G) with
  | Some (exist _ (Some t) pf) =>
      e <= gen_r 2 G c t ;;
      gret (match e with
            | Some e => Some (exist _ (SRet 0 (Some (proj1_sig e))) (SO_RetF MD GE G 0 _ t pf (proj2_sig e)))
            | None => None end)
  | _ => gret None
  end.
Fixpoint t_sapp (G : env) (a : list (tstmt G)) (b : tstmts G) : tstmts G :=
  match a with [] => b | s :: r => t_scons G s (t_sapp G r b) end.

End Exprs.

(* ------------------------------------------------------------------------------------------ *)
(* declarations: raw, stepped through the reference checker                                     *)
(* ------------------------------------------------------------------------------------------ *)
Section Decls.
Variable GE : genv.
Variable PA : list ident.        (* the pool of parameter names shared by all subprograms *)

Record dstate := DSt { d_env : env; d_ctx : gctx; d_out : list decl }.   (* d_out reversed *)

Definition try_decl (rg : region) (obl : list obligation) (st : dstate) (d : decl) (upd : gctx -> gctx) : dstate :=
  match check_decl MD GE rg obl (d_env st) d with
  | Ok G' => DSt G' (upd (d_ctx st)) (d :: d_out st)
  | Bad _ _ => st
  end.

(* a type the context can name *)
Definition pick_type (c : gctx) : gen (tmark * sty) :=
  let l := [(TMBool, SBool); (TMInt, SInt); (TMBit, SBit); (TMInt, SInt)] ++
           map (fun x => (ref_tmark (gt_ref x) (gt_id x), gt_ty x)) (c_types c) in
  k <= pick_nat (length l) ;; gret (nth k l (TMInt, SInt)).
Definition pick_scalar_type (c : gctx) : gen (tmark * sty) :=
  let l := [(TMBool, SBool); (TMInt, SInt); (TMBit, SBit)] ++
           flat_map (fun x => match gt_ty x with SEnum _ _ _ | SIntT _ _ => [(ref_tmark (gt_ref x) (gt_id x), gt_ty x)] | _ => [] end) (c_types c) in
  k <= pick_nat (length l) ;; gret (nth k l (TMInt, SInt)).

Fixpoint fresh_ids (n : nat) : gen (list ident) :=
  match n with O => gret [] | S n' => x <= fresh_id ;; r <= fresh_ids n' ;; gret (x :: r) end.

Definition erase_opt {G t} (e : option (troot MD GE G t)) : option expr :=
  match e with Some e => Some (proj1_sig e) | None => None end.

(* all the type marks the context has for type t (the type itself and its subtypes) *)
Definition marks_of (c : gctx) (t : sty) : list tmark :=
  (match t with SBool => [TMBool] | SInt => [TMInt] | SBit => [TMBit] | _ => [] end) ++
  flat_map (fun x => if sty_eqb (gt_ty x) t then [ref_tmark (gt_ref x) (gt_id x)] else []) (c_types c).

Definition gen_type_decl (st : dstate) : gen (decl * (gctx -> gctx)) :=
  let G := d_env st in let c := d_ctx st in
  x <= fresh_id ;;
  w <= pick 8 ;;
  if w <? 2 then
    n <= pick_nat 3 ;; lits <= fresh_ids (2 + n) ;;
    let td := TDEnum (map o lits) in
    let t := mk_tydef GE G (o x) td in
    gret (DType (o x) td, fun c => fold_left (fun c l => add_lit c (GObj RSimple l KConst MNone t)) lits (add_type c (GTy RSimple x t)))
  else if w <? 3 then
    hi <= pick 100 ;;
    let td := TDInt 0 (hi + 1) in
    gret (DType (o x) td, fun c => add_type c (GTy RSimple x (mk_tydef GE G (o x) td)))
  else if w <? 5 then
    (* subtype *)
    tt <= pick_type c ;;
    hi <= pick 8 ;;
    let rng := if is_int (snd tt) then Some (0, hi) else None in
    gret (DSubtype (o x) (fst tt) rng, fun c => add_type c (GTy RSimple x (snd tt)))
  else if w <? 7 then
    (* record; later fields often get (another mark of) the type of the first field *)
    n <= pick_nat 3 ;; fs <= fresh_ids (1 + n) ;;
    t0 <= pick_type c ;;
    fts <= (fix go (l : list ident) : gen (list (occ * tmark)) :=
              match l with
              | [] => gret []
              | f :: r =>
                  same <= pick 2 ;;
                  mk <= pick_from (marks_of c (snd t0)) ;;
                  tt <= pick_type c ;;
                  rest <= go r ;;
                  gret ((o f, match same, mk with 0, Some m => m | _, _ => fst tt end) :: rest)
              end) fs ;;
    let td := TDRec fts in
    gret (DType (o x) td, fun c => add_type c (GTy RSimple x (mk_tydef GE G (o x) td)))
  else
    len <= pick 4 ;; tt <= pick_type c ;;
    let td := TDArr (len + 1) (fst tt) in
    gret (DType (o x) td, fun c => add_type c (GTy RSimple x (mk_tydef GE G (o x) td))).

Definition gen_obj_decl (fuel : nat) (k : ocls) (deferred : bool) (st : dstate) : gen (decl * (gctx -> gctx)) :=
  let G := d_env st in let c := d_ctx st in
  x <= fresh_id ;;
  tt <= pick_type c ;;
  e <= gen_r GE fuel G c (snd tt) ;;
  noinit <= flip ;;
  let upd := fun c => add_obj c (GObj RSimple x k MNone (snd tt)) in
  match k with
  | KConst =>
      if deferred then gret (DConst (o x) (fst tt) None, upd)
      else gret (match e with
                 | Some e => (DConst (o x) (fst tt) (Some (proj1_sig e)), upd)
                 | None => (DSignal (o x) (fst tt) None, fun c => add_obj c (GObj RSimple x KSig MNone (snd tt)))
                 end)
  | _ => gret (DSignal (o x) (fst tt) (if noinit then None else erase_opt e), fun c => add_obj c (GObj RSimple x KSig MNone (snd tt)))
  end.

(* parameters: names from the pool, in pool order *)
Fixpoint gen_params (isfun : bool) (c : gctx) (names : list ident) (n : nat) : gen (list (param * psig)) :=
  match n, names with
  | S n', x :: r =>
      tt <= pick_type c ;;
      w <= pick 4 ;;
      let cm := if isfun || (w <? 2) then (KConst, MIn) else if w =? 2 then (KVar, MOut) else (KVar, MInOut) in
      rest <= gen_params isfun c r n' ;;
      gret ((Param (o x) (fst cm) (snd cm) (fst tt), PSig x (fst cm) (snd cm) (snd tt)) :: rest)
  | _, _ => gret []
  end.

Definition gen_sub_decl (st : dstate) : gen (decl * (gctx -> gctx)) :=
  let c := d_ctx st in
  isfun <= flip ;;
  reuse <= pick 3 ;;
  let same := filter (fun x => match gf_ret x, isfun with Some _, true | None, false => true | _, _ => false end) (c_subs c) in
  old <= pick_from same ;;
  nx <= fresh_id ;;
  let x := match old, reuse with Some f, 0 => nx | Some f, _ => gf_id f | None, _ => nx end in
  n <= pick_nat 3 ;;
  ps <= gen_params isfun c PA (S n) ;;
  rt <= pick_type c ;;
  if isfun
  then gret (DFunDecl (o x) (map fst ps) (fst rt), fun c => add_sub c (GFun RSimple x (map snd ps) (Some (snd rt))))
  else gret (DProcDecl (o x) (map fst ps), fun c => add_sub c (GFun RSimple x (map snd ps) None)).

(* locals and statements of a subprogram body whose parameters are ps, in the environment the reference uses *)
Fixpoint gen_locals (fuel : nat) (n : nat) (G : env) (c : gctx) (acc : list ldecl) : gen (env * gctx * list ldecl) :=
  match n with
  | O => gret (G, c, rev acc)
  | S n' =>
      x <= fresh_id ;;
      tt <= pick_type c ;;
      e <= gen_r GE fuel G c (snd tt) ;;
      isc <= pick 3 ;;
      let d := match e, isc with
               | Some e, 0 => LConst (o x) (fst tt) (proj1_sig e)
               | Some e, 1 => LVar (o x) (fst tt) (Some (proj1_sig e))
               | _, _ => LVar (o x) (fst tt) None
               end in
      let k := match d with LConst _ _ _ => KConst | _ => KVar end in
      match check_ldecl MD GE G d with
      | Ok G' => gen_locals fuel n' G' (add_obj c (GObj RSimple x k MNone (snd tt))) (d :: acc)
      | Bad _ _ => gen_locals fuel n' G c acc
      end
  end.
Definition pure_ctx (c : gctx) : gctx :=
  GCtx_ (filter (fun x => ocls_eqb (go_cls x) KConst) (c_objs c)) (c_subs c) (c_lits c) (c_types c) (c_comps c).

Definition gen_body_of (fuel : nat) (rg : region) (obl : list obligation) (st : dstate)
    (x : ident) (ps : list param) (sg : list psig) (ret : option (tmark * sty)) : gen (option decl) :=
  (* the environment after the subprogram itself is declared / completed does not depend on its body *)
  let empty := match ret with
               | Some rt => DFunBody (o x) ps (fst rt) [] SNil
               | None => DProcBody (o x) ps [] SNil
               end in
  match check_decl MD GE rg obl (d_env st) empty with
  | Bad _ _ =>
      (* a function body without statements is fine for the reference, so this is a real rejection *)
      gret None
  | Ok G' =>
      match declare_params GE (set_ret (push (pure_view G')) (Some (match ret with Some rt => Some (snd rt) | None => None end))) ps with
      | Bad _ _ => gret None
      | Ok G1 =>
          let c1 := fold_left (fun c p => add_obj c (GObj RSimple (ps_name p) (ps_cls p) (ps_mode p) (ps_ty p))) sg (pure_ctx (d_ctx st)) in
          nl <= pick_nat 3 ;;
          lc <= gen_locals fuel nl G1 c1 [] ;;
          match lc with
          | (G2, c2, ls) =>
              ns <= pick_nat 4 ;;
              rt <= gen_return GE G2 c2 ;;
              let tl := match rt with Some r => t_scons GE G2 r (t_snil GE G2) | None => t_snil GE G2 end in
              b <= gen_ss GE fuel G2 c2 ns tl ;;
              gret (match ret, rt with
                    | Some r, Some _ => Some (DFunBody (o x) ps (fst r) ls (proj1_sig b))
                    | Some _, None => None
                    | None, _ => Some (DProcBody (o x) ps ls (proj1_sig b))
                    end)
          end
      end
  end.

Definition gen_local_sub (fuel : nat) (rg : region) (st : dstate) : gen (option (decl * (gctx -> gctx))) :=
  let c := d_ctx st in
  isfun <= flip ;;
  x <= fresh_id ;;
  n <= pick_nat 2 ;;
  ps <= gen_params isfun c PA (S n) ;;
  rt <= pick_type c ;;
  d <= gen_body_of fuel rg [] st x (map fst ps) (map snd ps) (if isfun then Some rt else None) ;;
  gret (match d with
        | Some d => Some (d, fun c => add_sub c (GFun RSimple x (map snd ps) (if isfun then Some (snd rt) else None)))
        | None => None end).

Definition gen_iface (fuel : nat) (G : env) (c : gctx) (isport : bool) : gen iface :=
  x <= fresh_id ;;
  tt <= (if isport then pick_type c else pick_scalar_type c) ;;
  w <= pick 4 ;;
  e <= gen_e GE 0 G ctx_empty (snd tt) ;;   (* defaults: literals only *)
  let m := if isport then (if w <? 2 then MIn else if w =? 2 then MOut else MInOut) else MIn in
  let d := match e, (if isport then w =? 0 else w <? 3) with
           | Some (existT _ _ (e, _)), true => Some (proj1_sig e)
           | _, _ => None end in
  gret (IFace (o x) m (fst tt) d).
Fixpoint gen_ifaces (fuel : nat) (G : env) (c : gctx) (isport : bool) (n : nat) : gen (list iface) :=
  match n with O => gret [] | S n' => i <= gen_iface fuel G c isport ;; r <= gen_ifaces fuel G c isport n' ;; gret (i :: r) end.

Definition gen_comp_decl (fuel : nat) (st : dstate) : gen (decl * (gctx -> gctx)) :=
  let G := d_env st in let c := d_ctx st in
  x <= fresh_id ;;
  ng <= pick_nat 2 ;; np <= pick_nat 3 ;;
  gs <= gen_ifaces fuel G c false ng ;;
  ps <= gen_ifaces fuel G c true (S np) ;;
  gret (DComp (o x) gs ps, fun c => add_comp c (GComp x (map (iface_sig GE G) gs) (map (iface_sig GE G) ps))).

(* n random declarations of a declarative part *)
Fixpoint gen_decls (fuel : nat) (rg : region) (n : nat) (st : dstate) : gen dstate :=
  match n with
  | O => gret st
  | S n' =>
      w <= pick 12 ;;
      st' <= (
        match rg with
        | RGen =>
            if w <? 6 then du <= gen_obj_decl fuel KConst (w =? 0) st ;; gret (try_decl rg [] st (fst du) (snd du))
            else du <= gen_sub_decl st ;; gret (try_decl rg [] st (fst du) (snd du))
        | RPkg =>
            if w <? 3 then du <= gen_type_decl st ;; gret (try_decl rg [] st (fst du) (snd du))
            else if w <? 6 then du <= gen_obj_decl fuel KConst (w =? 3) st ;; gret (try_decl rg [] st (fst du) (snd du))
            else if w <? 7 then du <= gen_obj_decl fuel KSig false st ;; gret (try_decl rg [] st (fst du) (snd du))
            else if w <? 11 then du <= gen_sub_decl st ;; gret (try_decl rg [] st (fst du) (snd du))
            else du <= gen_comp_decl fuel st ;; gret (try_decl rg [] st (fst du) (snd du))
        | RBody =>
            if w <? 3 then du <= gen_type_decl st ;; gret (try_decl rg [] st (fst du) (snd du))
            else if w <? 8 then du <= gen_obj_decl fuel KConst false st ;; gret (try_decl rg [] st (fst du) (snd du))
            else du <= gen_local_sub fuel rg st ;;
                 gret (match du with Some du => try_decl rg [] st (fst du) (snd du) | None => st end)
        | RArch =>
            if w <? 2 then du <= gen_type_decl st ;; gret (try_decl rg [] st (fst du) (snd du))
            else if w <? 4 then du <= gen_obj_decl fuel KConst false st ;; gret (try_decl rg [] st (fst du) (snd du))
            else if w <? 9 then du <= gen_obj_decl fuel KSig false st ;; gret (try_decl rg [] st (fst du) (snd du))
            else if w <? 11 then du <= gen_local_sub fuel rg st ;;
                 gret (match du with Some du => try_decl rg [] st (fst du) (snd du) | None => st end)
            else du <= gen_comp_decl fuel st ;; gret (try_decl rg [] st (fst du) (snd du))
        end) ;;
      gen_decls fuel rg n' st'
  end.

(* bodies for the obligations of a package: declarations of the package in order *)
Fixpoint gen_obl_bodies (fuel : nat) (obl : list obligation) (pkg_decls : list decl) (st : dstate) : gen dstate :=
  match pkg_decls with
  | [] => gret st
  | d :: r =>
      st' <= (match d with
              | DConst x t None =>
                  let ty := tmark_ty GE (d_env st) t in
                  e <= gen_r GE fuel (d_env st) (d_ctx st) ty ;;
                  gret (match e with
                        | Some e => try_decl RBody obl st (DConst (o (o_id x)) t (Some (proj1_sig e))) (fun c => c)
                        | None => st end)
              | DFunDecl x ps rt =>
                  let G := d_env st in
                  b <= gen_body_of fuel RBody obl st (o_id x) ps (map (param_sig GE G) ps) (Some (rt, tmark_ty GE G rt)) ;;
                  gret (match b with Some b => try_decl RBody obl st b (fun c => c) | None => st end)
              | DProcDecl x ps =>
                  let G := d_env st in
                  b <= gen_body_of fuel RBody obl st (o_id x) ps (map (param_sig GE G) ps) None ;;
                  gret (match b with Some b => try_decl RBody obl st b (fun c => c) | None => st end)
              | _ => gret st
              end) ;;
      gen_obl_bodies fuel obl r st'
  end.

(* ------------------------------------------------------------------------------------------ *)
(* concurrent statements                                                                        *)
(* ------------------------------------------------------------------------------------------ *)
Definition sig_names (c : gctx) (t : sty) (need_write : bool) : list name :=
  flat_map (fun x => if ocls_eqb (go_cls x) KSig && sty_eqb (go_ty x) t && (negb need_write || writable (go_mode x))
                     then [ref_name (go_ref x) (go_id x)] else []) (c_objs c).

(* association list for the formals fs: named or positional; defaulted / out formals may be left out when named *)
Fixpoint gen_amap (fuel : nat) (G : env) (c : gctx) (isport : bool) (named : bool) (fs : list isig) : gen (option amap) :=
  match fs with
  | [] => gret (Some [])
  | f :: r =>
      k <= pick 1000 ;;
      skip <= pick 3 ;;
      a <= (if isport then
              let ns := sig_names c (is_ty f) (negb (omode_eqb (is_mode f) MIn)) in
              gret (match nth_error ns (N.to_nat k mod (Nat.max 1 (length ns))) with
                    | Some n => Some (AExpr (ENam n))
                    | None => if omode_eqb (is_mode f) MOut || is_def f then Some (AOpen 0) else None
                    end)
            else
              e <= gen_r GE fuel G c (is_ty f) ;;
              gret (match e with Some e => Some (AExpr (proj1_sig e)) | None => if is_def f then Some (AOpen 0) else None end)) ;;
      rest <= gen_amap fuel G c isport named r ;;
      gret (match a, rest with
            | Some a, Some rs =>
                if named && (skip =? 0) && (is_def f || (isport && omode_eqb (is_mode f) MOut)) then Some rs
                else Some ((if named then Some (o (is_name f)) else None, a) :: rs)
            | _, _ => None
            end)
  end.

Definition try_conc (G : env) (c : conc) (acc : list conc) : list conc :=
  match check_conc MD GE G c with Ok _ => c :: acc | Bad _ _ => acc end.

(* entities that can be instantiated: (lib, entity, architectures, generics, ports) *)
Definition ginst := (ident * ident * list ident * list isig * list isig)%type.

Fixpoint gen_concs (fuel : nat) (G : env) (c : gctx) (ents : list ginst) (n : nat) (acc : list conc) {struct fuel} : gen (list conc) :=
  match fuel with
  | O => gret (rev acc)
  | S f =>
  match n with
  | O => gret (rev acc)
  | S n' =>
      w <= pick 12 ;;
      lbl <= fresh_id ;;
      acc' <= (
        if w <? 4 then
          (* process *)
          nl <= pick_nat 3 ;;
          lc <= gen_locals 2 nl (push G) c [] ;;
          match lc with
          | (G2, c2, ls) =>
              ns <= pick_nat 5 ;;
              b <= gen_ss GE 3 G2 c2 ns (t_snil GE G2) ;;
              nsens <= pick_nat 3 ;;
              sens <= grepeat nsens (pick_from (flat_map (fun x => if ocls_eqb (go_cls x) KSig then [ref_name (go_ref x) (go_id x)] else []) (c_objs c))) ;;
              gret (try_conc G (CProc (o lbl) sens ls (proj1_sig b)) acc)
          end
        else if w <? 6 then
          tn <= pick_from (target_names c KSig) ;;
          match tn with
          | Some tn =>
              match check_target MD GE G KSig tn with
              | Ok ty => e <= gen_r GE 2 G c ty ;;
                         gret (match e with Some e => try_conc G (CAssign (o lbl) tn (proj1_sig e)) acc | None => acc end)
              | Bad _ _ => gret acc
              end
          | None => gret acc
          end
        else if w <? 7 then
          (* block with declarations *)
          nd <= pick_nat 3 ;;
          st <= gen_decls 2 RArch nd (DSt (push G) c []) ;;
          nc <= pick_nat 3 ;;
          inner <= gen_concs f (d_env st) (d_ctx st) ents nc [] ;;
          gret (try_conc G (CBlock (o lbl) (rev (d_out st)) (concs_of_list inner)) acc)
        else if w <? 10 then
          (* entity instantiation *)
          ex <= pick_from ents ;;
          match ex with
          | Some (l, e, archs, gs, ps) =>
              named <= flip ;; named2 <= flip ;;
              warch <= pick_from (archs ++ archs) ;;
              noarch <= pick 3 ;;
              gm <= gen_amap 1 G c false named gs ;;
              pm <= gen_amap 1 G c true named2 ps ;;
              gret (match gm, pm with
                    | Some gm, Some pm =>
                        try_conc G (CInstE (o lbl) (o l) (o e) (if noarch =? 0 then None else match warch with Some a => Some (o a) | None => None end) gm pm) acc
                    | _, _ => acc end)
          | None => gret acc
          end
        else
          (* component instantiation *)
          cx <= pick_from (c_comps c) ;;
          match cx with
          | Some cx =>
              named <= flip ;; named2 <= flip ;;
              gm <= gen_amap 1 G c false named (gc_gens cx) ;;
              pm <= gen_amap 1 G c true named2 (gc_ports cx) ;;
              gret (match gm, pm with
                    | Some gm, Some pm => try_conc G (CInstC (o lbl) (o (gc_id cx)) gm pm) acc
                    | _, _ => acc end)
          | None => gret acc
          end) ;;
      gen_concs f G c ents n' acc'
  end
  end.

End Decls.

(* ------------------------------------------------------------------------------------------ *)
(* design units and the program                                                                 *)
(* ------------------------------------------------------------------------------------------ *)
Record pkgsum := PkgSum { ps_lib : ident; ps_pkg : ident; ps_exports : gctx }.
Record entsum := EntSum { es_lib : ident; es_ent : ident; es_archs : list ident; es_gens : list isig; es_ports : list isig;
                          es_rgens : list iface; es_rports : list iface; es_ctx : list ctx_item; es_inner : gctx }.
Record pstate := PSt {
  p_GE : genv; p_uid : N;
  p_units : list (ident * dunit);        (* reversed *)
  p_pkgs : list pkgsum;
  p_ents : list entsum;
  p_ctxs : list (ident * ident * list pkgsum) }.

Section Units.
Variable LIBS : list ident.
Variable PA : list ident.

Definition try_unit (lib : ident) (st : pstate) (u : dunit) : option (pstate * gentry) :=
  match check_unit MD (p_GE st) LIBS lib (p_uid st) u with
  | Ok g => Some (PSt (p_GE st ++ [g]) (p_uid st + 1) ((lib, u) :: p_units st) (p_pkgs st) (p_ents st) (p_ctxs st), g)
  | Bad _ _ => None
  end.

Definition ctx_diff (final initial : gctx) : gctx :=
  GCtx_ (firstn (length (c_objs final) - length (c_objs initial)) (c_objs final))
        (firstn (length (c_subs final) - length (c_subs initial)) (c_subs final))
        (firstn (length (c_lits final) - length (c_lits initial)) (c_lits final))
        (firstn (length (c_types final) - length (c_types initial)) (c_types final))
        (firstn (length (c_comps final) - length (c_comps initial)) (c_comps final)).

Definition mem (x : ident) (l : list ident) : bool := existsb (N.eqb x) l.
(* the exports of a package as seen with `use l.p.x` for x in xs (types bring their literals) *)
Definition itemwise (l p : ident) (xs : list ident) (ex : gctx) : gctx :=
  let r := RSel l p in
  let tys := flat_map (fun t => if mem (gt_id t) xs then [gt_ty t] else []) (c_types ex) in
  GCtx_ (map (fun x => GObj (if mem (go_id x) xs then RSimple else r) (go_id x) (go_cls x) (go_mode x) (go_ty x)) (c_objs ex))
        (map (fun x => GFun (if mem (gf_id x) xs then RSimple else r) (gf_id x) (gf_ps x) (gf_ret x)) (c_subs ex))
        (map (fun x => GObj (if mem (go_id x) xs || existsb (sty_eqb (go_ty x)) tys then RSimple else r)
                            (go_id x) (go_cls x) (go_mode x) (go_ty x)) (c_lits ex))
        (map (fun x => GTy (if mem (gt_id x) xs then RSimple else r) (gt_id x) (gt_ty x)) (c_types ex))
        [].
Definition item_ids (ex : gctx) : list ident :=
  map go_id (c_objs ex) ++ map gf_id (c_subs ex) ++ map gt_id (c_types ex).
Fixpoint choose_some (l : list ident) : gen (list ident) :=
  match l with
  | [] => gret []
  | x :: r => b <= pick 3 ;; rest <= choose_some r ;; gret (if b =? 0 then rest else if mem x rest then rest else x :: rest)
  end.

(* context clause over the packages known so far, and what it makes nameable *)
Fixpoint gen_imports (pkgs : list pkgsum) (libs_done : list ident) : gen (list ctx_item * gctx) :=
  match pkgs with
  | [] => gret ([], ctx_empty)
  | pk :: r =>
      style <= pick 5 ;;
      let l := ps_lib pk in let p := ps_pkg pk in
      let libc := if mem l libs_done then [] else [XLib (o l)] in
      if style =? 0 then gen_imports r libs_done
      else
        xs <= choose_some (item_ids (ps_exports pk)) ;;
        rest <= gen_imports r (l :: libs_done) ;;
        let here :=
          if style <? 3 then ([XUseAll (o l) (o p)], reref RSimple (ps_exports pk))
          else if style =? 3 then ([], reref (RSel l p) (ps_exports pk))
          else (map (fun x => XUseItem (o l) (o p) (o x)) xs, itemwise l p xs (ps_exports pk)) in
        gret (libc ++ fst here ++ fst rest, ctx_app (snd here) (snd rest))
  end.

Definition env_after_ctx (st : pstate) (G0 : env) (items : list ctx_item) : option env :=
  match check_ctx (p_GE st) LIBS G0 items with Ok G => Some G | Bad _ _ => None end.

Definition add_pkg (st : pstate) (s : pkgsum) : pstate :=
  PSt (p_GE st) (p_uid st) (p_units st) (s :: p_pkgs st) (p_ents st) (p_ctxs st).

(* package (ordinary: gens = None) with its body when it has obligations; all or nothing *)
Definition gen_package (fuel : nat) (lib : ident) (isgen : bool) (st : pstate) : gen (pstate * option (ident * list isig * gctx)) :=
  u <= fresh_id ;;
  imp <= gen_imports (p_pkgs st) [] ;;
  nd <= pick_nat 10 ;;
  match env_after_ctx st (env0 (p_uid st)) (fst imp) with
  | None => gret (st, None)
  | Some G0 =>
      let GE := p_GE st in
      let Gh := set_home G0 (Some (lib, u)) in
      ng <= pick_nat 2 ;;
      gs <= (if isgen then gen_ifaces GE 1 Gh (snd imp) false (S ng) else gret []) ;;
      match declare_ifaces MD GE KConst Gh gs with
      | Bad _ _ => gret (st, None)
      | Ok Gg =>
          let c0 := fold_left (fun c i => add_obj c (GObj RSimple (o_id (i_occ i)) KConst MIn (tmark_ty GE Gh (i_ty i)))) gs (snd imp) in
          ds <= gen_decls GE PA fuel (if isgen then RGen else RPkg) (3 + nd) (DSt Gg c0 []) ;;
          let decls := rev (d_out ds) in
          let unit := DUnit (fst imp) (if isgen then UGen (o u) gs decls else UPkg (o u) decls) in
          match try_unit lib st unit with
          | None => gret (st, None)
          | Some (st1, g) =>
              let exports := ctx_diff (d_ctx ds) c0 in
              let done := fun s => (if isgen then s else add_pkg s (PkgSum lib u exports),
                                    Some (u, map (iface_sig GE Gg) gs, exports)) in
              match g_kind g with
              | GPkg _ inner obl | GGen _ _ inner obl =>
                  match obl with
                  | [] => nb <= pick 3 ;;
                          if nb =? 0 then gret (done st1)
                          else
                            (* a body although none is needed *)
                            let Gb := set_done (set_home (set_uid inner (p_uid st1)) None) [] in
                            bs <= gen_decls (p_GE st1) PA fuel RBody 2 (DSt Gb (d_ctx ds) []) ;;
                            match try_unit lib st1 (DUnit [] (UBody (o u) (rev (d_out bs)))) with
                            | Some (st2, _) => gret (done st2)
                            | None => gret (done st1)
                            end
                  | _ =>
                      let Gb := set_done (set_home (set_uid inner (p_uid st1)) None) [] in
                      b1 <= gen_obl_bodies (p_GE st1) fuel obl decls (DSt Gb (d_ctx ds) []) ;;
                      nx <= pick_nat 3 ;;
                      b2 <= gen_decls (p_GE st1) PA fuel RBody nx b1 ;;
                      match try_unit lib st1 (DUnit [] (UBody (o u) (rev (d_out b2)))) with
                      | Some (st2, _) => gret (done st2)
                      | None => gret (st, None)
                      end
                  end
              | _ => gret (st, None)
              end
          end
      end
  end.

(* instance of a generic package *)
Definition gen_instance (lib : ident) (gl gp : ident) (gs : list isig) (ex : gctx) (st : pstate) : gen pstate :=
  u <= fresh_id ;;
  named <= flip ;;
  let ctx := [XLib (o gl)] in
  match env_after_ctx st (env0 (p_uid st)) ctx with
  | None => gret st
  | Some G0 =>
      gm <= gen_amap (p_GE st) 1 G0 ctx_empty false named gs ;;
      match gm with
      | Some gm =>
          match try_unit lib st (DUnit ctx (UInst (o u) (o gl) (o gp) gm)) with
          | Some (st1, _) => gret (add_pkg st1 (PkgSum lib u ex))
          | None => gret st
          end
      | None => gret st
      end
  end.

Definition gen_entity (fuel : nat) (lib : ident) (st : pstate) : gen pstate :=
  u <= fresh_id ;;
  imp <= gen_imports (p_pkgs st) [] ;;
  (* optionally through a context declaration *)
  cx <= pick_from (p_ctxs st) ;;
  usec <= pick 3 ;;
  let imp := match cx, usec with
             | Some (cl, cn, pks), 0 =>
                 ([XLib (o cl); XCtxRef (o cl) (o cn)],
                  fold_right (fun pk c => ctx_app (reref RSimple (ps_exports pk)) c) ctx_empty pks)
             | _, _ => imp
             end in
  match env_after_ctx st (env0 (p_uid st)) (fst imp) with
  | None => gret st
  | Some G0 =>
      let GE := p_GE st in
      ng <= pick_nat 3 ;; np <= pick_nat 4 ;;
      gs <= gen_ifaces GE 1 G0 (snd imp) false ng ;;
      ps <= gen_ifaces GE 1 G0 (snd imp) true (2 + np) ;;
      match try_unit lib st (DUnit (fst imp) (UEnt (o u) gs ps)) with
      | Some (st1, g) =>
          match g_kind g with
          | GEnt gsig psig inner =>
              let c1 := fold_left (fun c i => add_obj c (GObj RSimple (is_name i) KConst MIn (is_ty i))) gsig (snd imp) in
              let c2 := fold_left (fun c i => add_obj c (GObj RSimple (is_name i) KSig (is_mode i) (is_ty i))) psig c1 in
              gret (PSt (p_GE st1) (p_uid st1) (p_units st1) (p_pkgs st1)
                        (EntSum lib u [] gsig psig gs ps (fst imp) c2 :: p_ents st1) (p_ctxs st1))
          | _ => gret st1
          end
      | None => gret st
      end
  end.

Definition ginsts (st : pstate) : list ginst :=
  map (fun e => (es_lib e, es_ent e, es_archs e, es_gens e, es_ports e)) (p_ents st).

(* architecture of the most recent entity of lib; components mirror known entities *)
Definition gen_arch (fuel : nat) (lib : ident) (st : pstate) : gen pstate :=
  match p_ents st with
  | [] => gret st
  | en :: others =>
      if negb (es_lib en =? lib) then gret st else
      match find_unit (p_GE st) lib (es_ent en) with
      | Some (GEnt _ _ inner) =>
          a <= fresh_id ;;
          let GE := p_GE st in
          let G0 := set_uid inner (p_uid st) in
          (* component declarations for other entities, with the libraries they need *)
          ncomp <= pick_nat 3 ;;
          comps <= grepeat ncomp (pick_from others) ;;
          let libs := flat_map (fun e => if mem (es_lib e) (map (fun x => match x with XLib l => o_id l | _ => 0 end) (es_ctx en)) then [] else [XLib (o (es_lib e))]) others in
          let ctx := match libs with l :: _ => [l] | [] => [] end in
          match env_after_ctx st G0 ctx with
          | None => gret st
          | Some G1 =>
              st0 <= (fix go (cs : list entsum) (ds : dstate) : gen dstate :=
                        match cs with
                        | [] => gret ds
                        | e :: r =>
                            x <= fresh_id ;;
                            go r (try_decl GE RArch [] ds (DComp (o x) (es_rgens e) (es_rports e))
                                           (fun c => add_comp c (GComp x (es_gens e) (es_ports e))))
                        end) comps (DSt G1 (es_inner en) []) ;;
              nd <= pick_nat 8 ;;
              ds <= gen_decls GE PA fuel RArch (2 + nd) st0 ;;
              nc <= pick_nat 6 ;;
              body <= gen_concs GE PA 3 (d_env ds) (d_ctx ds) (ginsts (PSt (p_GE st) 0 [] [] others [])) (2 + nc) [] ;;
              match try_unit lib st (DUnit ctx (UArch (o a) (o (es_ent en)) (rev (d_out ds)) (concs_of_list body))) with
              | Some (st1, _) =>
                  let en' := EntSum (es_lib en) (es_ent en) (a :: es_archs en) (es_gens en) (es_ports en)
                                    (es_rgens en) (es_rports en) (es_ctx en) (es_inner en) in
                  gret (PSt (p_GE st1) (p_uid st1) (p_units st1) (p_pkgs st1) (en' :: others) (p_ctxs st1))
              | None => gret st
              end
          end
      | _ => gret st
      end
  end.

Definition gen_context (lib : ident) (st : pstate) : gen pstate :=
  u <= fresh_id ;;
  n <= pick_nat 2 ;;
  pks <= grepeat (S n) (pick_from (p_pkgs st)) ;;
  let pks := fold_right (fun pk acc => if existsb (fun q => (ps_lib q =? ps_lib pk) && (ps_pkg q =? ps_pkg pk)) acc then acc else pk :: acc) [] pks in
  let items := fold_right (fun pk acc =>
                 (if existsb (fun x => match x with XLib l => o_id l =? ps_lib pk | _ => false end) acc then [] else [XLib (o (ps_lib pk))])
                 ++ XUseAll (o (ps_lib pk)) (o (ps_pkg pk)) :: acc) [] pks in
  (* library clauses first *)
  let items := filter (fun x => match x with XLib _ => true | _ => false end) items ++
               filter (fun x => match x with XLib _ => false | _ => true end) items in
  match try_unit lib st (DUnit [] (UCtx (o u) items)) with
  | Some (st1, _) => gret (PSt (p_GE st1) (p_uid st1) (p_units st1) (p_pkgs st1) (p_ents st1) ((lib, u, pks) :: p_ctxs st1))
  | None => gret st
  end.

Definition gen_config (lib : ident) (st : pstate) : gen pstate :=
  match p_ents st with
  | en :: _ =>
      match es_archs en with
      | a :: _ =>
          if es_lib en =? lib then
            u <= fresh_id ;;
            match try_unit lib st (DUnit [] (UCfg (o u) (o (es_ent en)) (o a))) with
            | Some (st1, _) => gret st1
            | None => gret st
            end
          else gret st
      | [] => gret st
      end
  | [] => gret st
  end.

(* a generic package with body and one instance of it *)
Definition gen_generic (fuel : nat) (lib ilib : ident) (st : pstate) : gen pstate :=
  r <= gen_package fuel lib true st ;;
  match r with
  | (st1, Some (gp, gs, ex)) => gen_instance ilib lib gp gs ex st1
  | (st1, None) => gret st1
  end.

Definition gen_pkg (fuel : nat) (lib : ident) (st : pstate) : gen pstate :=
  r <= gen_package fuel lib false st ;; gret (fst r).

(* further units, all in library `lib` *)
Fixpoint gen_plan (fuel : nat) (lib : ident) (n : nat) (st : pstate) : gen pstate :=
  match n with
  | O => gret st
  | S n' =>
      w <= pick 10 ;;
      st' <= (if w <? 2 then gen_pkg fuel lib st
              else if w <? 4 then s1 <= gen_entity fuel lib st ;; gen_arch fuel lib s1
              else if w <? 6 then gen_arch fuel lib st
              else if w <? 7 then gen_context lib st
              else if w <? 8 then gen_generic fuel lib lib st
              else gen_config lib st) ;;
      gen_plan fuel lib n' st'
  end.
End Units.

(* the program: two libraries; library 1: package (+ body), entity + architecture, context declaration,
   generic package (+ body) and random further units; library 2 (may refer to library 1): an instance of the
   generic package, package, entity + architecture, configuration and random further units *)
Definition gen_state (choices : list N) : pstate :=
  let l1 := 1 in let l2 := 2 in
  let LIBS := [l1; l2] in
  let PA := [first_user_ident; first_user_ident + 1; first_user_ident + 2; first_user_ident + 3] in
  let s0 := GSt choices (first_user_ident + 4) in
  let st0 := PSt [] 0 [] [] [] [] in
  let m :=
    st <= gen_pkg LIBS PA 2 l1 st0 ;;
    st <= gen_entity LIBS 2 l1 st ;;
    st <= gen_arch LIBS PA 2 l1 st ;;
    st <= gen_context LIBS l1 st ;;
    extra1 <= pick_nat 4 ;;
    st <= gen_plan LIBS PA 2 l1 extra1 st ;;
    st <= gen_generic LIBS PA 2 l1 l2 st ;;
    st <= gen_pkg LIBS PA 2 l2 st ;;
    st <= gen_entity LIBS 2 l2 st ;;
    st <= gen_arch LIBS PA 2 l2 st ;;
    st <= gen_config LIBS l2 st ;;
    extra2 <= pick_nat 4 ;;
    gen_plan LIBS PA 2 l2 extra2 st in
  fst (m s0).

Definition program_of (st : pstate) : program :=
  let us := rev (p_units st) in
  [Lib 1 (flat_map (fun x => if fst x =? 1 then [snd x] else []) us);
   Lib 2 (flat_map (fun x => if fst x =? 2 then [snd x] else []) us)].

Definition fallback : program := [Lib 1 [DUnit [] (UPkg (Occ 1 1) [])]; Lib 2 []].
Definition gen_raw (choices : list N) : program := renumber (program_of (gen_state choices)).
Definition gen_program (choices : list N) : program :=
  let p := gen_raw choices in if valid_b p then p else fallback.
Definition gen_fell_back (choices : list N) : bool := negb (valid_b (gen_raw choices)).
