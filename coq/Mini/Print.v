(* Mini/Print.v — rendering of MiniVHDL to VHDL text (definitions only).

   `print_program tag p` gives one file per design unit: (library name, file name, tokens); a token carries
   the node id of the syntax node it renders (identifier occurrences, literals, operators, statement
   keywords).  `layout` turns a token list into text and the table  node id -> (line, column, length)
   (0-based, columns in characters; all text is ASCII).  The harness uses the EXTRACTED `print_program` and
   `layout`, so the text the analyser sees and the sites the model speaks about cannot drift apart.

   Name classes are rendered apart: library `lib<tag>_<k>`, design unit `u<k>`, label `lb<k>`, everything
   else `n<k>` (1 = true, 2 = false); identifier 0 is `undeclared_0` in every class. *)
From Coq Require Import List NArith Bool String Ascii.
Import ListNotations.
From RH Require Import Mini.Syntax.
Open Scope N_scope.
Definition sapp (a b : string) : string := String.append a b.
Infix "+++" := sapp (at level 60, right associativity).

(* ---------- numbers ---------- *)
Definition digit (d : N) : string :=
  String (ascii_of_N (48 + d)) EmptyString.
Fixpoint dec_fuel (fuel : nat) (n : N) (acc : string) : string :=
  match fuel with
  | O => acc
  | S f => let acc' := digit (n mod 10) +++ acc in
           if n / 10 =? 0 then acc' else dec_fuel f (n / 10) acc'
  end.
Definition dec (n : N) : string := dec_fuel 40 n ""%string.

(* ---------- tokens ---------- *)
Inductive glue := GNone | GLeft | GRight | GBoth.   (* no space on that side *)
Record tok := Tok { t_nid : option nid; t_text : string; t_glue : glue }.
Definition kw (s : string) : tok := Tok None s GNone.
Definition kwn (i : nid) (s : string) : tok := Tok (Some i) s GNone.
Definition sym_l (s : string) : tok := Tok None s GLeft.     (* ; , ) *)
Definition sym_r (s : string) : tok := Tok None s GRight.    (* ( *)
Definition sym_b (s : string) : tok := Tok None s GBoth.     (* . ' *)
Definition nl : tok := Tok None "\n" GBoth.

Inductive ncls := NLib | NUnit | NLabel | NOther.
Definition ident_text (tag : N) (c : ncls) (x : ident) : string :=
  if x =? 0 then "undeclared_0" else
  match c with
  | NLib => "lib" +++ dec tag +++ "_" +++ dec x
  | NUnit => "u" +++ dec x
  | NLabel => "lb" +++ dec x
  | NOther => if x =? id_true then "true" else if x =? id_false then "false" else "n" +++ dec x
  end.

Section Printer.
Variable tag : N.

Definition pocc (c : ncls) (o : occ) : tok := Tok (Some (o_nid o)) (ident_text tag c (o_id o)) GNone.
Definition p_sel (l p o : occ) : list tok :=
  [pocc NLib l; sym_b "."; pocc NUnit p; sym_b "."; pocc NOther o].

Definition p_tmark (t : tmark) : list tok :=
  match t with
  | TMBool => [kw "boolean"]
  | TMInt => [kw "integer"]
  | TMBit => [kw "bit"]
  | TMName o => [pocc NOther o]
  | TMSel l p o => p_sel l p o
  end.
Definition op_text (op : binop) : string :=
  match op with
  | OAnd => "and" | OOr => "or" | OAdd => "+" | OSub => "-" | OMul => "*"
  | OEq => "=" | ONe => "/=" | OLt => "<"
  end.
Definition p_fname (f : fname) : list tok :=
  match f with FId o => [pocc NOther o] | FSel l p o => p_sel l p o end.
Definition p_choice (c : choice) : list tok :=
  match c with
  | ChPos => []
  | ChName o => [pocc NOther o; kw "=>"]
  | ChOthers => [kw "others"; kw "=>"]
  end.

Fixpoint p_expr (e : expr) : list tok :=
  match e with
  | EInt i v => [Tok (Some i) (dec v) GNone]
  | EBit i b => [Tok (Some i) (if b then "'1'" else "'0'") GNone]
  | ENam n => p_name n
  | ECall f a => p_fname f ++ [sym_r "("] ++ p_args a ++ [sym_l ")"]
  | EBin i op l r => [sym_r "("] ++ p_expr l ++ [kwn i (op_text op)] ++ p_expr r ++ [sym_l ")"]
  | ENot i e => [sym_r "("; kwn i "not"] ++ p_expr e ++ [sym_l ")"]
  | EAgg i els => [Tok (Some i) "(" GRight] ++ p_args els ++ [sym_l ")"]
  | EQual t e => p_tmark t ++ [sym_b "'"; sym_r "("] ++ p_expr e ++ [sym_l ")"]
  end
with p_name (n : name) : list tok :=
  match n with
  | NId o => [pocc NOther o]
  | NSel l p o => p_sel l p o
  | NFld n f => p_name n ++ [sym_b "."; pocc NOther f]
  | NIdx n e => p_name n ++ [sym_r "("] ++ p_expr e ++ [sym_l ")"]
  end
with p_args (a : args) : list tok :=
  match a with
  | ANil => []
  | ACons c e ANil => p_choice c ++ p_expr e
  | ACons c e r => p_choice c ++ p_expr e ++ [sym_l ","] ++ p_args r
  end.

Definition p_oinit (e : option expr) : list tok :=
  match e with Some e => kw ":=" :: p_expr e | None => [] end.
Definition p_cchoice (c : cchoice) : list tok :=
  match c with CCLit o => [pocc NOther o] | CCInt i v => [Tok (Some i) (dec v) GNone] end.
Fixpoint sep_by {A} (sep : list tok) (f : A -> list tok) (l : list A) : list tok :=
  match l with
  | [] => []
  | [x] => f x
  | x :: r => f x ++ sep ++ sep_by sep f r
  end.

Fixpoint p_stmt (s : stmt) : list tok :=
  match s with
  | SSig i t e => p_name t ++ [kwn i "<="] ++ p_expr e ++ [sym_l ";"; nl]
  | SVar i t e => p_name t ++ [kwn i ":="] ++ p_expr e ++ [sym_l ";"; nl]
  | SIf i c th el =>
      [kwn i "if"] ++ p_expr c ++ [kw "then"; nl] ++ p_stmts th ++
      (match el with SNil => [] | _ => [kw "else"; nl] ++ p_stmts el end) ++
      [kw "end"; kw "if"; sym_l ";"; nl]
  | SCase i sel alts oth =>
      [kwn i "case"] ++ p_name sel ++ [kw "is"; nl] ++ p_calts alts ++
      [kw "when"; kw "others"; kw "=>"; nl] ++ p_stmts oth ++ [kw "end"; kw "case"; sym_l ";"; nl]
  | SFor i v lo hi b =>
      [kwn i "for"; pocc NOther v; kw "in"; kw (dec lo); kw "to"; kw (dec hi); kw "loop"; nl] ++
      p_stmts b ++ [kw "end"; kw "loop"; sym_l ";"; nl]
  | SWhile i c b =>
      [kwn i "while"] ++ p_expr c ++ [kw "loop"; nl] ++ p_stmts b ++ [kw "end"; kw "loop"; sym_l ";"; nl]
  | SCall f a =>
      p_fname f ++ (match a with ANil => [] | _ => [sym_r "("] ++ p_args a ++ [sym_l ")"] end) ++ [sym_l ";"; nl]
  | SRet i e => [kwn i "return"] ++ (match e with Some e => p_expr e | None => [] end) ++ [sym_l ";"; nl]
  | SNull i => [kwn i "null"; sym_l ";"; nl]
  end
with p_stmts (s : stmts) : list tok :=
  match s with SNil => [] | SCons x r => p_stmt x ++ p_stmts r end
with p_calts (a : calts) : list tok :=
  match a with
  | CANil => []
  | CACons cs b r =>
      [kw "when"] ++ sep_by [kw "|"] p_cchoice cs ++ [kw "=>"; nl] ++ p_stmts b ++ p_calts r
  end.

Definition cls_text (c : ocls) : string :=
  match c with KConst => "constant" | KSig => "signal" | KVar => "variable" end.
Definition mode_text (m : omode) : list tok :=
  match m with MIn => [kw "in"] | MOut => [kw "out"] | MInOut => [kw "inout"] | MNone => [] end.
Definition p_param (p : param) : list tok :=
  [kw (cls_text (p_cls p)); pocc NOther (p_occ p); kw ":"] ++ mode_text (p_mode p) ++ p_tmark (p_ty p).
Definition p_params (ps : list param) : list tok :=
  match ps with [] => [] | _ => [sym_r "("] ++ sep_by [sym_l ";"] p_param ps ++ [sym_l ")"] end.
Definition p_iface (i : iface) : list tok :=
  [pocc NOther (i_occ i); kw ":"] ++ mode_text (i_mode i) ++ p_tmark (i_ty i) ++ p_oinit (i_def i).
Definition p_ifaces (what : string) (l : list iface) : list tok :=
  match l with
  | [] => []
  | _ => [kw what; sym_r "("] ++ sep_by [sym_l ";"] p_iface l ++ [sym_l ")"; sym_l ";"; nl]
  end.
Definition p_ldecl (d : ldecl) : list tok :=
  match d with
  | LVar o t i => [kw "variable"; pocc NOther o; kw ":"] ++ p_tmark t ++ p_oinit i ++ [sym_l ";"; nl]
  | LConst o t i => [kw "constant"; pocc NOther o; kw ":"] ++ p_tmark t ++ [kw ":="] ++ p_expr i ++ [sym_l ";"; nl]
  end.
Definition p_tydef (d : tydef) : list tok :=
  match d with
  | TDEnum lits => [sym_r "("] ++ sep_by [sym_l ","] (fun o => [pocc NOther o]) lits ++ [sym_l ")"]
  | TDInt lo hi => [kw "range"; kw (dec lo); kw "to"; kw (dec hi)]
  | TDRec fs =>
      [kw "record"; nl] ++ flat_map (fun f => [pocc NOther (fst f); kw ":"] ++ p_tmark (snd f) ++ [sym_l ";"; nl]) fs ++
      [kw "end"; kw "record"]
  | TDArr len t => [kw "array"; sym_r "("; kw "0"; kw "to"; kw (dec (len - 1)); sym_l ")"; kw "of"] ++ p_tmark t
  end.
Definition p_decl (d : decl) : list tok :=
  match d with
  | DType o td => [kw "type"; pocc NOther o; kw "is"] ++ p_tydef td ++ [sym_l ";"; nl]
  | DSubtype o t rng =>
      [kw "subtype"; pocc NOther o; kw "is"] ++ p_tmark t ++
      (match rng with Some (lo, hi) => [kw "range"; kw (dec lo); kw "to"; kw (dec hi)] | None => [] end) ++ [sym_l ";"; nl]
  | DConst o t i => [kw "constant"; pocc NOther o; kw ":"] ++ p_tmark t ++ p_oinit i ++ [sym_l ";"; nl]
  | DSignal o t i => [kw "signal"; pocc NOther o; kw ":"] ++ p_tmark t ++ p_oinit i ++ [sym_l ";"; nl]
  | DFunDecl o ps r => [kw "function"; pocc NOther o] ++ p_params ps ++ [kw "return"] ++ p_tmark r ++ [sym_l ";"; nl]
  | DProcDecl o ps => [kw "procedure"; pocc NOther o] ++ p_params ps ++ [sym_l ";"; nl]
  | DFunBody o ps r ls b =>
      [kw "function"; pocc NOther o] ++ p_params ps ++ [kw "return"] ++ p_tmark r ++ [kw "is"; nl] ++
      flat_map p_ldecl ls ++ [kw "begin"; nl] ++ p_stmts b ++ [kw "end"; kw "function"; sym_l ";"; nl]
  | DProcBody o ps ls b =>
      [kw "procedure"; pocc NOther o] ++ p_params ps ++ [kw "is"; nl] ++
      flat_map p_ldecl ls ++ [kw "begin"; nl] ++ p_stmts b ++ [kw "end"; kw "procedure"; sym_l ";"; nl]
  | DComp o gs ps =>
      [kw "component"; pocc NOther o; kw "is"; nl] ++ p_ifaces "generic" gs ++ p_ifaces "port" ps ++
      [kw "end"; kw "component"; sym_l ";"; nl]
  end.

Definition p_actual (a : actual) : list tok :=
  match a with AExpr e => p_expr e | AOpen i => [kwn i "open"] end.
Definition p_assoc (a : option occ * actual) : list tok :=
  match fst a with Some o => [pocc NOther o; kw "=>"] | None => [] end ++ p_actual (snd a).
Definition p_amap (what : string) (m : amap) : list tok :=
  match m with
  | [] => []
  | _ => [kw what; kw "map"; sym_r "("] ++ sep_by [sym_l ","] p_assoc m ++ [sym_l ")"]
  end.

Fixpoint p_conc (c : conc) : list tok :=
  match c with
  | CProc lbl sens ls b =>
      [pocc NLabel lbl; kw ":"; kw "process"] ++
      (match sens with [] => [] | _ => [sym_r "("] ++ sep_by [sym_l ","] p_name sens ++ [sym_l ")"] end) ++ [nl] ++
      flat_map p_ldecl ls ++ [kw "begin"; nl] ++ p_stmts b ++ [kw "end"; kw "process"; sym_l ";"; nl]
  | CAssign lbl t e => [pocc NLabel lbl; kw ":"] ++ p_name t ++ [kw "<="] ++ p_expr e ++ [sym_l ";"; nl]
  | CBlock lbl ds b =>
      [pocc NLabel lbl; kw ":"; kw "block"; nl] ++ flat_map p_decl ds ++ [kw "begin"; nl] ++ p_concs b ++
      [kw "end"; kw "block"; sym_l ";"; nl]
  | CInstE lbl l e a gm pm =>
      [pocc NLabel lbl; kw ":"; kw "entity"; pocc NLib l; sym_b "."; pocc NUnit e] ++
      (match a with Some a => [sym_b "("; pocc NUnit a; sym_l ")"] | None => [] end) ++
      p_amap "generic" gm ++ p_amap "port" pm ++ [sym_l ";"; nl]
  | CInstC lbl c gm pm =>
      [pocc NLabel lbl; kw ":"; pocc NOther c] ++ p_amap "generic" gm ++ p_amap "port" pm ++ [sym_l ";"; nl]
  end
with p_concs (c : concs) : list tok :=
  match c with CNil => [] | CCons x r => p_conc x ++ p_concs r end.

Definition p_ctx_item (x : ctx_item) : list tok :=
  match x with
  | XLib l => [kw "library"; pocc NLib l; sym_l ";"; nl]
  | XUseAll l p => [kw "use"; pocc NLib l; sym_b "."; pocc NUnit p; sym_b "."; kw "all"; sym_l ";"; nl]
  | XUseItem l p x => [kw "use"] ++ p_sel l p x ++ [sym_l ";"; nl]
  | XCtxRef l c => [kw "context"; pocc NLib l; sym_b "."; pocc NUnit c; sym_l ";"; nl]
  end.

Definition p_ubody (u : ubody) : list tok :=
  match u with
  | UPkg o ds =>
      [kw "package"; pocc NUnit o; kw "is"; nl] ++ flat_map p_decl ds ++ [kw "end"; kw "package"; sym_l ";"; nl]
  | UGen o gs ds =>
      [kw "package"; pocc NUnit o; kw "is"; nl] ++ p_ifaces "generic" gs ++ flat_map p_decl ds ++
      [kw "end"; kw "package"; sym_l ";"; nl]
  | UBody o ds =>
      [kw "package"; kw "body"; pocc NUnit o; kw "is"; nl] ++ flat_map p_decl ds ++
      [kw "end"; kw "package"; kw "body"; sym_l ";"; nl]
  | UEnt o gs ps =>
      [kw "entity"; pocc NUnit o; kw "is"; nl] ++ p_ifaces "generic" gs ++ p_ifaces "port" ps ++
      [kw "end"; kw "entity"; sym_l ";"; nl]
  | UArch o e ds b =>
      [kw "architecture"; pocc NUnit o; kw "of"; pocc NUnit e; kw "is"; nl] ++ flat_map p_decl ds ++
      [kw "begin"; nl] ++ p_concs b ++ [kw "end"; kw "architecture"; sym_l ";"; nl]
  | UCfg o e a =>
      [kw "configuration"; pocc NUnit o; kw "of"; pocc NUnit e; kw "is"; nl; kw "for"; pocc NUnit a; nl;
       kw "end"; kw "for"; sym_l ";"; nl; kw "end"; kw "configuration"; sym_l ";"; nl]
  | UCtx o items =>
      [kw "context"; pocc NUnit o; kw "is"; nl] ++ flat_map p_ctx_item items ++ [kw "end"; kw "context"; sym_l ";"; nl]
  | UInst o l g gm =>
      [kw "package"; pocc NUnit o; kw "is"; kw "new"; pocc NLib l; sym_b "."; pocc NUnit g] ++
      p_amap "generic" gm ++ [sym_l ";"; nl]
  end.
Definition p_dunit (u : dunit) : list tok := flat_map p_ctx_item (u_ctx u) ++ p_ubody (u_body u).

Fixpoint p_units (lib : ident) (k : N) (us : list dunit) : list (string * string * list tok) :=
  match us with
  | [] => []
  | u :: r => (ident_text tag NLib lib, ident_text tag NLib lib +++ "_" +++ dec k +++ ".vhd", p_dunit u) :: p_units lib (k + 1) r
  end.
Definition print_program (p : program) : list (string * string * list tok) :=
  flat_map (fun l => p_units (l_name l) 0 (l_units l)) p.
End Printer.

(* ---------- layout: text and site table ---------- *)
Definition glue_left (g : glue) : bool := match g with GLeft | GBoth => true | _ => false end.
Definition glue_right (g : glue) : bool := match g with GRight | GBoth => true | _ => false end.
Definition is_nl (t : tok) : bool := match t_text t with "\n"%string => true | _ => false end.

Record lstate := LState { ls_out : list string; ls_line : N; ls_col : N; ls_tight : bool;
                          ls_sites : list (nid * (N * N * N)) }.
Definition layout_tok (s : lstate) (t : tok) : lstate :=
  if is_nl t then LState (String "010"%char EmptyString :: ls_out s) (ls_line s + 1) 0 true (ls_sites s)
  else
    let space := negb (ls_tight s || glue_left (t_glue t)) in
    let col := if space then ls_col s + 1 else ls_col s in
    let len := N.of_nat (String.length (t_text t)) in
    LState (t_text t :: (if space then " "%string :: ls_out s else ls_out s)) (ls_line s) (col + len) (glue_right (t_glue t))
           (match t_nid t with Some i => (i, (ls_line s, col, len)) :: ls_sites s | None => ls_sites s end).
Definition layout (ts : list tok) : string * list (nid * (N * N * N)) :=
  let s := fold_left layout_tok ts (LState [] 0 0 true []) in
  (String.concat ""%string (rev (ls_out s)), rev (ls_sites s)).
