(* Mini/ProofsPhrase.v — the phrase replacement theorem (Mini/Walk.v) and what follows from it: the phrase-level
   faults of the catalogue are blamed where `expect` says (C06), the phrase-level rewrites preserve validity (C05).
   Proofs. *)
From Coq Require Import List NArith Arith Bool Lia.
Import ListNotations.
From RH Require Import Mini.Syntax Mini.Sem Mini.Walk Mini.Faults Mini.Rewrites.
Open Scope N_scope.

(* PINNED STATEMENTS (to be proved; do not change the statements) *)

Theorem nodup_nids_sound : forall p, nodup_nids p = true -> NoDup (nids_program p).
Proof.
Admitted.

(* C06, phrase-level fault classes *)
Definition phrase_class (f : fclass) : Prop :=
  f = FWrongLiteral \/ f = FWrongObject \/ f = FNoOverload \/ f = FMissingAssoc \/ f = FSigVar.
Theorem plant_phrase_blame : forall p f st,
  Valid p -> NoDup (nids_program p) -> phrase_class f -> In st (sites f p) ->
  blame_program (plant st p) = Some (expect f st p).
Proof.
Admitted.

(* C05, phrase-level rewrites *)
Definition phrase_rewrite (r : rewrite) : Prop :=
  match r with RNamed _ | RPositional _ | RSelected _ _ | RWrap _ _ => True | _ => False end.
Theorem rewrite_phrase_valid : forall p r,
  Valid p -> phrase_rewrite r -> applicable r p = true -> Valid (apply_rewrite r p).
Proof.
Admitted.
