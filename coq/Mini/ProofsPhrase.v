(* Mini/ProofsPhrase.v — the phrase replacement theorem (Mini/Walk.v) and what follows from it: the phrase-level
   faults of the catalogue are blamed where `expect` says (C06), the phrase-level rewrites preserve validity (C05).
   Proofs.  The replacement theorem itself (`replace_general`) is in Mini/ProofsPhraseRepl.v. *)
From Coq Require Import List NArith Arith Bool Lia.
Import ListNotations.
From RH Require Import Mini.Syntax Mini.Sem Mini.Walk Mini.Faults Mini.Rewrites Mini.ProofsPhraseRepl.
Open Scope N_scope.

(* ------------------------------------------------------------------------------------------ *)
(* sub_phrase as an instance of sub_program                                                     *)
(* ------------------------------------------------------------------------------------------ *)
Definition fs_of (f : phrase -> phrase) (x : stmt) : stmt := match f (PStmt x) with PStmt y => y | _ => x end.
Definition fc_of (f : phrase -> phrase) (x : conc) : conc := match f (PConc x) with PConc y => y | _ => x end.
Definition fe_of (f : phrase -> phrase) (e : expr) : expr := match f (PInit SErr e) with PInit _ y => y | _ => e end.
Lemma sub_phrase_eq s f p : sub_phrase s f p = sub_program s (fs_of f) (fc_of f) (fe_of f) p.
Proof. reflexivity. Qed.
Lemma all_labels_eq p : all_labels p = prog_labels p.
Proof. reflexivity. Qed.

Ltac in_inv :=
  repeat (match goal with
          | H : In _ (flat_map _ _) |- _ => apply in_flat_map in H; destruct H as [? [? ?]]
          | H : In _ (map _ _) |- _ => apply in_map_iff in H; destruct H as [? [? ?]]
          | H : In _ (_ ++ _) |- _ => apply in_app_or in H; destruct H as [H|H]
          | H : In _ [] |- _ => destruct H
          | H : In _ (_ :: _) |- _ => destruct H as [H|H]
          | H : In _ (match ?x with _ => _ end) |- _ => destruct x
          end; subst).

(* ------------------------------------------------------------------------------------------ *)
(* PINNED STATEMENTS                                                                            *)
(* ------------------------------------------------------------------------------------------ *)

Theorem nodup_nids_sound : forall p, nodup_nids p = true -> NoDup (nids_program p).
Proof. intros p H. apply nodup_list_sound. exact H. Qed.

(* C06, phrase-level fault classes *)
Definition phrase_class (f : fclass) : Prop :=
  f = FWrongLiteral \/ f = FWrongObject \/ f = FNoOverload \/ f = FMissingAssoc \/ f = FSigVar.

(* plant_phrase keeps the kind of a phrase, the expected type of an initial value and the labels *)
Lemma set_root_stmt e x : exists y, set_root e (PStmt x) = PStmt y.
Proof. destruct x as [| | | | | | |i [e0|]|]; cbn [set_root]; eauto. Qed.
Lemma set_root_conc e c : exists y, set_root e (PConc c) = PConc y /\ labels_conc y = labels_conc c.
Proof. destruct c; cbn [set_root]; eauto. Qed.
Lemma plant_stmt st x : exists y, plant_phrase st (PStmt x) = PStmt y.
Proof.
  destruct st; cbn [plant_phrase]; eauto using set_root_stmt.
  - destruct (phrase_root (PStmt x)) as [[]|]; eauto using set_root_stmt.
  - destruct x; eauto.
Qed.
Lemma plant_conc st c : exists y, plant_phrase st (PConc c) = PConc y /\ labels_conc y = labels_conc c.
Proof.
  destruct st; cbn [plant_phrase]; eauto using set_root_conc.
  - destruct (phrase_root (PConc c)) as [[]|]; eauto using set_root_conc.
  - destruct c; eauto; destruct port; eauto.
Qed.
Lemma plant_init st e : exists e', forall ty, plant_phrase st (PInit ty e) = PInit ty e'.
Proof.
  destruct st; cbn [plant_phrase set_root phrase_root]; eauto.
  destruct e; cbn [set_root]; eauto.
Qed.
Lemma plant_app st ph :
  app_ph (fs_of (plant_phrase st)) (fc_of (plant_phrase st)) (fe_of (plant_phrase st)) ph = plant_phrase st ph.
Proof.
  destruct ph as [x|c|ty e]; cbn [app_ph]; unfold fs_of, fc_of, fe_of.
  - destruct (plant_stmt st x) as [y Hy]. rewrite Hy. reflexivity.
  - destruct (plant_conc st c) as [y [Hy _]]. rewrite Hy. reflexivity.
  - destruct (plant_init st e) as [e' He']. rewrite (He' SErr), (He' ty). reflexivity.
Qed.
Lemma plant_lab_ok st j L : lab_ok (fc_of (plant_phrase st)) j L.
Proof.
  intros c0 _. exists []. unfold fc_of. destruct (plant_conc st c0) as [y [Hy Hl]]. rewrite Hy.
  split; [exact Hl|]. split; [constructor|]. intros x [].
Qed.

Lemma cls_eqb_eq a b : cls_eqb a b = true -> a = b.
Proof. destruct a, b; cbn [cls_eqb]; intros H; try reflexivity; discriminate H. Qed.

Lemma phrase_candidates f st p :
  phrase_class f -> In st (site_candidates f p) -> plant st p = sub_phrase (site_nid st) (plant_phrase st) p.
Proof.
  intros [Hf|[Hf|[Hf|[Hf|Hf]]]] H; subst f; cbn [site_candidates] in H; in_inv; try reflexivity;
    try (match goal with H : In _ (call_candidates _ _) |- _ => unfold call_candidates in H end; in_inv; reflexivity);
    try (match goal with H : In _ (agg_candidates _ _) |- _ => unfold agg_candidates in H end; in_inv; reflexivity);
    match goal with H : In _ (choice_candidates _ _ _) |- _ => unfold choice_candidates in H end; in_inv; reflexivity.
Qed.
Lemma phrase_eligible f st p : phrase_class f -> eligible f st p = eligible_phrase f st p.
Proof. intros [Hf|[Hf|[Hf|[Hf|Hf]]]]; subst f; reflexivity. Qed.

Theorem plant_phrase_blame : forall p f st,
  Valid p -> NoDup (nids_program p) -> phrase_class f -> In st (sites f p) ->
  blame_program (plant st p) = Some (expect f st p).
Proof.
  intros p f st Hv Hn Hf Hs. unfold sites in Hs. apply filter_In in Hs. destruct Hs as [Hc He].
  rewrite (phrase_eligible _ _ _ Hf) in He. rewrite (phrase_candidates _ _ _ Hf Hc).
  unfold eligible_phrase in He. destruct (find_phrase p (site_nid st)) as [i|] eqn:Hfind; [|discriminate He].
  unfold eligible_at, local_blame in He. apply andb_true_iff in He. destruct He as [_ He].
  destruct (check_phrase Exactly (pi_GE i) (pi_G i) (plant_phrase st (pi_ph i))) as [u|n c] eqn:Hchk; [discriminate He|].
  apply andb_true_iff in He. destruct He as [He1 He2]. apply N.eqb_eq in He1. apply cls_eqb_eq in He2.
  unfold blame_program. rewrite sub_phrase_eq.
  rewrite (replace_general _ _ _ _ p i Hv Hn Hfind (plant_lab_ok st i _)).
  unfold Vf. rewrite plant_app, Hchk.
  unfold expect, expect_nid. rewrite Hfind, He1, He2. reflexivity.
Qed.

(* C05, phrase-level rewrites *)
Definition phrase_rewrite (r : rewrite) : Prop :=
  match r with RNamed _ | RPositional _ | RSelected _ _ | RWrap _ _ => True | _ => False end.

(* the new phrase is of the kind of the old one, expects the same type, and has its labels and possibly new ones *)
Definition ph_compat (L : list ident) (a ph : phrase) : Prop :=
  match a, ph with
  | PStmt _, PStmt _ => True
  | PConc c, PConc y =>
      exists pre, labels_conc y = pre ++ labels_conc c /\ NoDup pre /\ forall x, In x pre -> ~ In x L
  | PInit t _, PInit t' _ => t = t'
  | _, _ => False
  end.
Lemma ph_compat_same_labels L c y : labels_conc y = labels_conc c -> ph_compat L (PConc c) (PConc y).
Proof. intros H. exists []. split; [exact H|]. split; [constructor|]. intros x []. Qed.
Lemma set_root_compat L e a : ph_compat L a (set_root e a).
Proof.
  destruct a as [x|c|ty e0].
  - destruct (set_root_stmt e x) as [y Hy]. rewrite Hy. exact I.
  - destruct (set_root_conc e c) as [y [Hy Hl]]. rewrite Hy. apply ph_compat_same_labels. exact Hl.
  - reflexivity.
Qed.
Lemma compat_app L a ph :
  ph_compat L a ph -> app_ph (fs_of (fun _ => ph)) (fc_of (fun _ => ph)) (fe_of (fun _ => ph)) a = ph.
Proof.
  destruct a as [x|c|ty e], ph as [x'|c'|ty' e']; cbn [ph_compat]; intros H; try contradiction; cbn [app_ph]; unfold fs_of, fc_of, fe_of.
  - reflexivity.
  - reflexivity.
  - subst ty'. reflexivity.
Qed.
Lemma compat_lab_ok L j ph : ph_compat L (pi_ph j) ph -> lab_ok (fc_of (fun _ => ph)) j L.
Proof.
  intros H c0 Hc0. rewrite Hc0 in H. unfold fc_of. destruct ph as [x'|c'|ty' e']; cbn [ph_compat] in H; try contradiction.
  exact H.
Qed.

Lemma assoc_candidates_compat L named m i ph : In ph (assoc_candidates named m i) -> ph_compat L (pi_ph i) ph.
Proof.
  unfold assoc_candidates. intros H.
  destruct (pi_ph i) as [x|c|ty e] eqn:Hph.
  - destruct x; cbn [phrase_root] in H; in_inv; try exact I; try apply set_root_compat.
  - destruct c; cbn [phrase_root] in H; in_inv; try (apply ph_compat_same_labels; reflexivity); try apply set_root_compat.
  - cbn [phrase_root] in H. in_inv; apply set_root_compat.
Qed.

Lemma filter_head {A} (f : A -> bool) l x r : filter f l = x :: r -> In x l /\ f x = true.
Proof. intros H. apply filter_In. rewrite H. left. reflexivity. Qed.

Lemma rewrite_phrase_spec r p s ph :
  rewrite_phrase r p = Some (s, ph) ->
  exists i, find_phrase p s = Some i /\ phrase_ok i ph = true /\ ph_compat (prog_labels p) (pi_ph i) ph.
Proof.
  destruct r as [s0|s0|s0|s0 x|s0|s0 lbl|s0 x k|s0 x k y]; cbn [rewrite_phrase]; cbv zeta; try discriminate.
  - destruct (find_phrase p s0) as [i|] eqn:Hfind; [|discriminate].
    destruct (filter (phrase_ok i) (assoc_candidates true (max_nid p + 1) i)) as [|ph0 rest] eqn:Hflt; [discriminate|].
    intros H. injection H as H1 H2. subst s0 ph0. apply filter_head in Hflt. destruct Hflt as [Hin Hok].
    exists i. split; [exact Hfind|]. split; [exact Hok|]. eapply assoc_candidates_compat. exact Hin.
  - destruct (find_phrase p s0) as [i|] eqn:Hfind; [|discriminate].
    destruct (filter (phrase_ok i) (assoc_candidates false (max_nid p + 1) i)) as [|ph0 rest] eqn:Hflt; [discriminate|].
    intros H. injection H as H1 H2. subst s0 ph0. apply filter_head in Hflt. destruct Hflt as [Hin Hok].
    exists i. split; [exact Hfind|]. split; [exact Hok|]. eapply assoc_candidates_compat. exact Hin.
  - destruct (find_phrase p s0) as [i|] eqn:Hfind; [|discriminate].
    destruct (selected_phrase (max_nid p + 1) i x) as [ph0|] eqn:Hsel; [|discriminate].
    destruct (phrase_ok i ph0) eqn:Hok; [|discriminate].
    intros H. injection H as H1 H2. subst s0 ph0.
    exists i. split; [exact Hfind|]. split; [exact Hok|].
    unfold selected_phrase in Hsel. destruct (phrase_root (pi_ph i)) as [e|]; [|discriminate Hsel].
    destruct (home_of i x) as [[l q]|]; [|discriminate Hsel]. injection Hsel as Hsel. subst ph. apply set_root_compat.
  - destruct (find_phrase p s0) as [i|] eqn:Hfind; [|discriminate].
    destruct (pi_ph i) as [x|c|ty e] eqn:Hph; try discriminate.
    destruct (phrase_ok i _ && negb (memb lbl (all_labels p)) && negb (lbl =? id_undeclared)) eqn:Hcond; [|discriminate].
    intros H. injection H as H1 H2. subst s0 ph.
    apply andb_true_iff in Hcond. destruct Hcond as [Hcond _]. apply andb_true_iff in Hcond. destruct Hcond as [Hok Hfresh].
    exists i. split; [exact Hfind|]. split; [exact Hok|]. rewrite Hph. cbn [ph_compat].
    exists [lbl]. split; [cbn [labels_conc labels_concs app]; rewrite app_nil_r; reflexivity|].
    split; [constructor; [intros []|constructor]|].
    intros y [Hy|[]] Hin. subst y. apply negb_true_iff in Hfresh. rewrite all_labels_eq in Hfresh.
    assert (E : memb lbl (prog_labels p) = true).
    { unfold memb. apply existsb_exists. exists lbl. split; [exact Hin|apply N.eqb_refl]. }
    rewrite E in Hfresh. discriminate Hfresh.
Qed.

Theorem rewrite_phrase_valid : forall p r,
  Valid p -> phrase_rewrite r -> applicable r p = true -> Valid (apply_rewrite r p).
Proof.
  intros p r Hv Hr Ha.
  assert (Hn : NoDup (nids_program p)).
  { apply nodup_nids_sound. unfold applicable in Ha. apply andb_true_iff in Ha. exact (proj1 Ha). }
  assert (Hrp : exists s ph, rewrite_phrase r p = Some (s, ph) /\ apply_rewrite r p = sub_phrase s (fun _ => ph) p).
  { unfold applicable in Ha. apply andb_true_iff in Ha. destruct Ha as [_ Ha].
    destruct r; cbn [phrase_rewrite] in Hr; try contradiction; unfold apply_rewrite; cbv zeta;
      destruct (rewrite_phrase _ p) as [[s0 ph]|]; try discriminate Ha; exists s0, ph; split; reflexivity. }
  destruct Hrp as [s [ph [Hrw Happ]]]. rewrite Happ.
  destruct (rewrite_phrase_spec _ _ _ _ Hrw) as [i [Hfind [Hok Hcomp]]].
  unfold Valid. rewrite sub_phrase_eq.
  rewrite (replace_general _ _ _ _ p i Hv Hn Hfind (compat_lab_ok _ _ _ Hcomp)).
  unfold Vf. rewrite (compat_app _ _ _ Hcomp).
  unfold phrase_ok in Hok. destruct (check_phrase Exactly (pi_GE i) (pi_G i) ph) as [[]|n c]; [reflexivity|discriminate Hok].
Qed.
