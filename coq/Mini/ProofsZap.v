(* Mini/ProofsZap.v — the syntactic faults of the catalogue: an occurrence whose identifier is replaced by the
   never-declared identifier is blamed with the class of its position; a repeated declaration is blamed at the
   copy; the design units that do not contain the plant site are unchanged and the units before the faulty one are
   accepted as before (C06).  Proofs. *)
From Coq Require Import List NArith Arith Bool Lia.
Import ListNotations.
From RH Require Import Mini.Syntax Mini.Sem Mini.Walk Mini.Faults.
Open Scope N_scope.

(* PINNED STATEMENTS (to be proved; do not change the statements) *)

Theorem zap_blame : forall p s k x c,
  Valid p -> NoDup (nids_program p) -> In (s, k, x) (occs_program p) -> cls_of_okind k = Some c ->
  blame_program (zap s p) = Some (s, c).
Proof.
Admitted.

Theorem dup_blame : forall p s,
  Valid p -> NoDup (nids_program p) -> In s (dup_sites p) ->
  blame_program (dup s p) = Some (s + (max_nid p + 1), Duplicate).
Proof.
Admitted.

(* no plant adds, removes or moves design units; units that do not contain the site are textually unchanged *)
Theorem plant_other_units_unchanged : forall p st k l u,
  nth_error (flat_units p) k = Some (l, u) -> ~ In (site_nid st) (nids_dunit u) ->
  nth_error (flat_units (plant st p)) k = Some (l, u).
Proof.
Admitted.

(* the units before the (first) unit that contains the site are accepted in the planted program as in the original *)
Theorem plant_prefix_ok : forall p st k,
  Valid p ->
  (forall j l u, (j < k)%nat -> nth_error (flat_units p) j = Some (l, u) -> ~ In (site_nid st) (nids_dunit u)) ->
  prefix_ok (plant st p) k.
Proof.
Admitted.
