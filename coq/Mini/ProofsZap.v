(* Mini/ProofsZap.v — the syntactic faults of the catalogue: an occurrence whose identifier is replaced by the
   never-declared identifier is blamed with the class of its position; a repeated declaration is blamed at the
   copy; the design units that do not contain the plant site are unchanged and the units before the faulty one are
   accepted as before (C06).  Proofs.

   Helper files (all Qed, no axioms):
     Mini/ProofsZapSyn.v    syntactic lemmas: the plants are maps over design units, om/dup/sub leave phrases without
                            the node id unchanged, classified occurrences carry node ids of the phrase
     Mini/ProofsZapEq.v     unfolding equations of the mutual fixpoints of Sem.v / Faults.v
     Mini/ProofsZapSem.v    zap: expressions, statements, declarations     (first-error argument along the checker)
     Mini/ProofsZapSem2.v   zap: association lists, concurrent statements, context clauses
     Mini/ProofsZapSem3.v   zap: design units, unit lists, libraries
     Mini/ProofsZapAgree.v  an accepted expression stays accepted under a node-id shift and a change of the
                            environment at names it cannot have used
     Mini/ProofsZapDup.v    dup: the copy of a declaration passes the checks that precede its `declare`, then clashes;
                            the copy of a subprogram body (a second, empty body) finds the obligation of the package
                            already completed (e_done) or clashes with the binding of the first body

   History: the statements zap_blame and dup_blame were false for the first version of the definitions (found while
   proving them; see the regression examples at the end): a named association whose formal was already associated
   positionally was never checked (Sem.check_amap now rejects it), and the copy of a component with a port named
   like the component hit the no-hiding guard first (Faults.sh_decl no longer duplicates components).  Reflexivity
   of Sem.sty_eqb on SErr is used for the copies of subprogram declarations. *)
From Coq Require Import List NArith Arith Bool Lia.
Import ListNotations.
From RH Require Import Mini.Syntax Mini.Sem Mini.Walk Mini.Faults Mini.ProofsZapSyn Mini.ProofsZapSem Mini.ProofsZapSem3 Mini.ProofsZapDup.
Open Scope N_scope.

(* PINNED STATEMENTS (to be proved; do not change the statements) *)

Theorem zap_blame : forall p s k x c,
  Valid p -> NoDup (nids_program p) -> In (s, k, x) (occs_program p) -> cls_of_okind k = Some c ->
  blame_program (zap s p) = Some (s, c).
Proof.
  intros p s k x c HV Hnd Hin Hc.
  unfold Valid, blame_program, check_program, check_program_md in *.
  assert (HL : map l_name (zap s p) = map l_name p) by (unfold zap, om_program; rewrite map_map; reflexivity).
  rewrite HL.
  destruct (guard (nodup_idents (map l_name p) && negb (existsb (N.eqb id_undeclared) (map l_name p))) 0 Other)
    as [a|n cl]; cbn [bind] in *; [|discriminate HV].
  destruct (check_libs Exactly [] (map l_name p) 0 p) as [GE|n cl] eqn:E; cbn [bind] in HV; [|discriminate HV].
  rewrite (check_libs_zap Exactly s c (map l_name p) p [] 0 GE Hnd); [reflexivity | | exact E].
  exists k, x. split; assumption.
Qed.

Theorem dup_blame : forall p s,
  Valid p -> NoDup (nids_program p) -> In s (dup_sites p) ->
  blame_program (dup s p) = Some (s + (max_nid p + 1), Duplicate).
Proof.
  intros p s HV Hnd Hin.
  unfold Valid, blame_program, check_program, check_program_md in *.
  assert (HL : map l_name (dup s p) = map l_name p) by (unfold dup; rewrite map_map; reflexivity).
  rewrite HL.
  destruct (guard (nodup_idents (map l_name p) && negb (existsb (N.eqb id_undeclared) (map l_name p))) 0 Other)
    as [a|n cl]; cbn [bind] in *; [|discriminate HV].
  destruct (check_libs Exactly [] (map l_name p) 0 p) as [GE|n cl] eqn:E; cbn [bind] in HV; [|discriminate HV].
  change (dup s p) with (map (fun l => Lib (l_name l) (map (dupu s (max_nid p + 1)) (l_units l))) p).
  rewrite (check_libs_dup Exactly s (max_nid p + 1) (map l_name p) p [] 0 GE Hnd Hin E). reflexivity.
Qed.

(* no plant adds, removes or moves design units; units that do not contain the site are textually unchanged *)
Theorem plant_other_units_unchanged : forall p st k l u,
  nth_error (flat_units p) k = Some (l, u) -> ~ In (site_nid st) (nids_dunit u) ->
  nth_error (flat_units (plant st p)) k = Some (l, u).
Proof.
  intros p st k l u Hn Hs. rewrite plant_as_map, flat_units_map.
  rewrite (map_nth_error _ _ _ Hn). cbn [fst snd]. rewrite plant_unit_id by exact Hs. reflexivity.
Qed.

(* the checker accepts every prefix of an accepted unit list *)
Lemma check_units_app : forall md LIBS lib us1 us2 GE uid x,
  check_units md GE LIBS lib uid (us1 ++ us2) = Ok x ->
  exists x1, check_units md GE LIBS lib uid us1 = Ok x1.
Proof.
  intros md LIBS lib. induction us1 as [|u r IH]; intros us2 GE uid x H; cbn [app check_units] in *.
  - eexists; reflexivity.
  - destruct (check_unit md GE LIBS lib uid u) as [g|n c]; cbn [bind] in *; [|discriminate].
    eapply IH. exact H.
Qed.
Lemma check_libs_truncate0 : forall md LIBS r GE uid,
  exists GE', check_libs md GE LIBS uid (truncate 0 r) = Ok GE'.
Proof.
  intros md LIBS. induction r as [|l r IH]; intros GE uid; cbn [truncate check_libs].
  - eexists; reflexivity.
  - cbn [firstn l_units l_name check_units bind fst snd Nat.sub]. apply IH.
Qed.
Lemma check_libs_truncate : forall md LIBS p k GE uid GE1,
  check_libs md GE LIBS uid p = Ok GE1 ->
  exists GE', check_libs md GE LIBS uid (truncate k p) = Ok GE'.
Proof.
  intros md LIBS. induction p as [|l r IH]; intros k GE uid GE1 H; cbn [truncate check_libs] in *.
  - eexists; reflexivity.
  - cbn [l_units l_name].
    destruct (check_units md GE LIBS (l_name l) uid (l_units l)) as [x|n c] eqn:E; cbn [bind] in H; [|discriminate].
    destruct (Nat.le_gt_cases (length (l_units l)) k) as [Hk|Hk].
    + rewrite firstn_all2 by exact Hk. rewrite E. cbn [bind]. eapply IH. exact H.
    + replace (k - length (l_units l))%nat with 0%nat by lia.
      rewrite <- (firstn_skipn k (l_units l)) in E.
      destruct (check_units_app _ _ _ _ _ _ _ _ E) as (x1 & E1). rewrite E1. cbn [bind].
      apply check_libs_truncate0.
Qed.

Theorem plant_prefix_ok : forall p st k,
  Valid p ->
  (forall j l u, (j < k)%nat -> nth_error (flat_units p) j = Some (l, u) -> ~ In (site_nid st) (nids_dunit u)) ->
  prefix_ok (plant st p) k.
Proof.
  intros p st k HV Hpre. unfold prefix_ok. rewrite plant_libs. rewrite plant_as_map.
  rewrite truncate_map_units.
  2:{ intros j l u Hj Hn. apply plant_unit_id. eapply Hpre; eassumption. }
  unfold Valid, check_program, check_program_md in HV.
  destruct (guard (nodup_idents (map l_name p) && negb (existsb (N.eqb id_undeclared) (map l_name p))) 0 Other)
    as [a|n c]; cbn [bind] in HV; [|discriminate].
  destruct (check_libs Exactly [] (map l_name p) 0 p) as [GE|n c] eqn:E; cbn [bind] in HV; [|discriminate].
  eapply check_libs_truncate. exact E.
Qed.

(* ------------------------------------------------------------------------------------------ *)
(* regression examples: the two programs that refuted the first version of the definitions      *)
(* ------------------------------------------------------------------------------------------ *)
(* generic map (1, g => xyz): g is associated positionally and by name; the named actual was never looked at *)
Definition zap_cex : program :=
  [Lib 8 [ DUnit [] (UEnt (Occ 1 9) [IFace (Occ 2 10) MIn TMInt None] []);
           DUnit [XLib (Occ 3 8)] (UArch (Occ 4 11) (Occ 5 9) []
             (CCons (CInstE (Occ 6 12) (Occ 7 8) (Occ 8 9) None
                      [(None, AExpr (EInt 9 1)); (Some (Occ 10 10), AExpr (ENam (NId (Occ 11 13))))] []) CNil)) ]].
Example zap_cex_now_rejected : check_program zap_cex = Bad 8 Other.
Proof. vm_compute. reflexivity. Qed.
(* component c with a port named c: valid, but its copy is rejected at the port, not at the component name *)
Definition dup_cex : program :=
  [Lib 8 [ DUnit [] (UPkg (Occ 1 9) [DComp (Occ 2 10) [] [IFace (Occ 3 10) MIn TMBit None]]) ]].
Example dup_cex_no_site : check_program dup_cex = Ok tt /\ dup_sites dup_cex = [].
Proof. vm_compute. split; reflexivity. Qed.
(* second body of a subprogram: f is declared in package 9 and completed in its body (the copy finds the obligation
   in e_done); g is local to the package body, q to the architecture (the copy clashes with the first body) *)
Definition dup_body_ex : program :=
  [Lib 8 [ DUnit [] (UPkg (Occ 1 9) [DFunDecl (Occ 2 10) [Param (Occ 3 11) KConst MIn TMInt] TMInt]);
           DUnit [] (UBody (Occ 4 9)
             [DFunBody (Occ 5 10) [Param (Occ 6 11) KConst MIn TMInt] TMInt [] (SCons (SRet 7 (Some (ENam (NId (Occ 8 11))))) SNil);
              DFunBody (Occ 9 12) [Param (Occ 10 11) KConst MIn TMBit] TMBit [] (SCons (SRet 11 (Some (ENam (NId (Occ 12 11))))) SNil)]);
           DUnit [] (UEnt (Occ 13 13) [] []);
           DUnit [] (UArch (Occ 14 14) (Occ 15 13) [DProcBody (Occ 16 15) [] [] SNil] CNil) ]].
Example dup_body_ex_sites :
  check_program dup_body_ex = Ok tt /\ dup_sites dup_body_ex = [2; 5; 9; 16] /\
  map (fun s => blame_program (dup s dup_body_ex)) [5; 9; 16] =
    [Some (5 + 17, Duplicate); Some (9 + 17, Duplicate); Some (16 + 17, Duplicate)].
Proof. vm_compute. repeat split; reflexivity. Qed.
