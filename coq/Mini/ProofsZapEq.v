(* Mini/ProofsZapEq.v — unfolding equations (all by computation) of the mutually recursive functions of Mini/Sem.v and
   of the occurrence map of Mini/Faults.v, as rewrite rules: `cbn` does not fold the sibling functions of a mutual
   fixpoint defined in a section back.  Used by Mini/ProofsZapSem.v. *)
From Coq Require Import List NArith Arith Bool.
Import ListNotations.
From RH Require Import Mini.Syntax Mini.Sem Mini.Walk Mini.Faults.
Open Scope N_scope.

Section OmEq.
Variable f : occ -> occ.
Lemma om_EInt : forall i v, om_expr f (EInt i v) = EInt i v. Proof. reflexivity. Qed.
Lemma om_EBit : forall i v, om_expr f (EBit i v) = EBit i v. Proof. reflexivity. Qed.
Lemma om_ENam : forall n, om_expr f (ENam n) = ENam (om_name f n). Proof. reflexivity. Qed.
Lemma om_ECall : forall g a, om_expr f (ECall g a) = ECall (om_fname f g) (om_args f a). Proof. reflexivity. Qed.
Lemma om_EBin : forall i op l r, om_expr f (EBin i op l r) = EBin i op (om_expr f l) (om_expr f r). Proof. reflexivity. Qed.
Lemma om_ENot : forall i e, om_expr f (ENot i e) = ENot i (om_expr f e). Proof. reflexivity. Qed.
Lemma om_EAgg : forall i a, om_expr f (EAgg i a) = EAgg i (om_args f a). Proof. reflexivity. Qed.
Lemma om_EQual : forall t e, om_expr f (EQual t e) = EQual (om_tmark f t) (om_expr f e). Proof. reflexivity. Qed.
Lemma om_NId : forall o, om_name f (NId o) = NId (f o). Proof. reflexivity. Qed.
Lemma om_NSel : forall l p o, om_name f (NSel l p o) = NSel (f l) (f p) (f o). Proof. reflexivity. Qed.
Lemma om_NFld : forall n x, om_name f (NFld n x) = NFld (om_name f n) (f x). Proof. reflexivity. Qed.
Lemma om_NIdx : forall n e, om_name f (NIdx n e) = NIdx (om_name f n) (om_expr f e). Proof. reflexivity. Qed.
Lemma om_ANil : om_args f ANil = ANil. Proof. reflexivity. Qed.
Lemma om_ACons : forall c e r, om_args f (ACons c e r) = ACons (om_choice f c) (om_expr f e) (om_args f r). Proof. reflexivity. Qed.

Lemma om_SSig : forall i t e, om_stmt f (SSig i t e) = SSig i (om_name f t) (om_expr f e). Proof. reflexivity. Qed.
Lemma om_SVar : forall i t e, om_stmt f (SVar i t e) = SVar i (om_name f t) (om_expr f e). Proof. reflexivity. Qed.
Lemma om_SIf : forall i c th el, om_stmt f (SIf i c th el) = SIf i (om_expr f c) (om_stmts f th) (om_stmts f el). Proof. reflexivity. Qed.
Lemma om_SCase : forall i sel alts oth, om_stmt f (SCase i sel alts oth) = SCase i (om_name f sel) (om_calts f alts) (om_stmts f oth). Proof. reflexivity. Qed.
Lemma om_SFor : forall i v lo hi b, om_stmt f (SFor i v lo hi b) = SFor i (f v) lo hi (om_stmts f b). Proof. reflexivity. Qed.
Lemma om_SWhile : forall i c b, om_stmt f (SWhile i c b) = SWhile i (om_expr f c) (om_stmts f b). Proof. reflexivity. Qed.
Lemma om_SCall : forall g a, om_stmt f (SCall g a) = SCall (om_fname f g) (om_args f a). Proof. reflexivity. Qed.
Lemma om_SRet : forall i e, om_stmt f (SRet i e) = SRet i (om_oexpr f e). Proof. reflexivity. Qed.
Lemma om_SNull : forall i, om_stmt f (SNull i) = SNull i. Proof. reflexivity. Qed.
Lemma om_SNil : om_stmts f SNil = SNil. Proof. reflexivity. Qed.
Lemma om_SCons : forall x r, om_stmts f (SCons x r) = SCons (om_stmt f x) (om_stmts f r). Proof. reflexivity. Qed.
Lemma om_CANil : om_calts f CANil = CANil. Proof. reflexivity. Qed.
Lemma om_CACons : forall cs b r, om_calts f (CACons cs b r) = CACons (map (om_cchoice f) cs) (om_stmts f b) (om_calts f r). Proof. reflexivity. Qed.

Lemma om_CProc : forall l sens ls b, om_conc f (CProc l sens ls b) = CProc (f l) (map (om_name f) sens) (map (om_ldecl f) ls) (om_stmts f b). Proof. reflexivity. Qed.
Lemma om_CAssign : forall l t e, om_conc f (CAssign l t e) = CAssign (f l) (om_name f t) (om_expr f e). Proof. reflexivity. Qed.
Lemma om_CBlock : forall l ds b, om_conc f (CBlock l ds b) = CBlock (f l) (map (om_decl f) ds) (om_concs f b). Proof. reflexivity. Qed.
Lemma om_CInstE : forall l lb e a gm pm, om_conc f (CInstE l lb e a gm pm) =
  CInstE (f l) (f lb) (f e) (match a with Some a => Some (f a) | None => None end) (map (om_assoc f) gm) (map (om_assoc f) pm).
Proof. reflexivity. Qed.
Lemma om_CInstC : forall l c gm pm, om_conc f (CInstC l c gm pm) = CInstC (f l) (f c) (map (om_assoc f) gm) (map (om_assoc f) pm). Proof. reflexivity. Qed.
Lemma om_CNil : om_concs f CNil = CNil. Proof. reflexivity. Qed.
Lemma om_CCons : forall x r, om_concs f (CCons x r) = CCons (om_conc f x) (om_concs f r). Proof. reflexivity. Qed.
End OmEq.
#[export] Hint Rewrite om_EInt om_EBit om_ENam om_ECall om_EBin om_ENot om_EAgg om_EQual om_NId om_NSel om_NFld om_NIdx
  om_ANil om_ACons om_SSig om_SVar om_SIf om_SCase om_SFor om_SWhile om_SCall om_SRet om_SNull om_SNil om_SCons
  om_CANil om_CACons om_CProc om_CAssign om_CBlock om_CInstE om_CInstC om_CNil om_CCons : omeq.

Section ChkEq.
Variable md : mode.
Variable GE : genv.
Variable G : env.

Lemma interp_EInt : forall i v, interp md GE G (EInt i v) = Ok [SUInt]. Proof. reflexivity. Qed.
Lemma interp_EBit : forall i v, interp md GE G (EBit i v) = Ok [SBit; SChar]. Proof. reflexivity. Qed.
Lemma interp_ENam : forall n, interp md GE G (ENam n) = interp_name md GE G n. Proof. reflexivity. Qed.
Lemma interp_ECall : forall f a, interp md GE G (ECall f a) =
  (bs <- callee_bindings GE G f ;; al <- interp_args md GE G a ;;
   Ok (flat_map (fun c => repeat (snd c) (call_ways (fst c) al)) (funs_of bs))).
Proof. reflexivity. Qed.
Lemma interp_EBin : forall i op l r, interp md GE G (EBin i op l r) =
  (if is_aggregate r then
     if is_aggregate l then Ok [] else
     li <- interp md GE G l ;;
     match agg_type G op li with
     | Some t => root md GE G t r ;;; Ok [op_result op t]
     | None => Ok []
     end
   else if is_aggregate l then
     ri <- interp md GE G r ;;
     match agg_type G op ri with
     | Some t => root md GE G t l ;;; Ok [op_result op t]
     | None => Ok []
     end
   else li <- interp md GE G l ;; ri <- interp md GE G r ;; Ok (op_interps G op li ri)).
Proof. reflexivity. Qed.
Lemma interp_ENot : forall i e, interp md GE G (ENot i e) =
  (li <- interp md GE G e ;; Ok (filter (fun t => match t with SBool | SBit => true | _ => false end) li)).
Proof. reflexivity. Qed.
Lemma interp_EAgg : forall i els, interp md GE G (EAgg i els) = Ok []. Proof. reflexivity. Qed.
Lemma interp_EQual : forall t e, interp md GE G (EQual t e) =
  (ty <- resolve_tmark GE G t ;; root md GE G ty e ;;; Ok [ty]).
Proof. reflexivity. Qed.

Lemma interp_NId : forall o, interp_name md GE G (NId o) =
  (bs <- vis_occ G o ;; guard (negb (existsb is_deferred bs)) (o_nid o) Other ;;; Ok (value_types bs)).
Proof. reflexivity. Qed.
Lemma interp_NSel : forall l p o, interp_name md GE G (NSel l p o) =
  (bs <- sel_item GE G l p o ;; guard (negb (existsb is_deferred bs)) (o_nid o) Other ;;; Ok (value_types bs)).
Proof. reflexivity. Qed.
Lemma interp_NFld : forall n f, interp_name md GE G (NFld n f) =
  (o <- obj_name md GE G n ;;
   match snd o with
   | SRec _ _ fs => match find_field fs f with Some x => Ok [snd x] | None => Bad (o_nid f) UnknownField end
   | _ => Bad (o_nid f) Other
   end).
Proof. reflexivity. Qed.
Lemma interp_NIdx : forall n e, interp_name md GE G (NIdx n e) =
  (o <- obj_name md GE G n ;;
   match snd o with
   | SArr _ _ _ el => root md GE G SInt e ;;; Ok [el]
   | _ => Bad (root_nid_name n) Other
   end).
Proof. reflexivity. Qed.

Lemma obj_NId : forall o, obj_name md GE G (NId o) =
  (bs <- vis_occ G o ;; match obj_of_bindings bs with Some x => Ok x | None => Bad (o_nid o) Other end).
Proof. reflexivity. Qed.
Lemma obj_NSel : forall l p o, obj_name md GE G (NSel l p o) =
  (bs <- sel_item GE G l p o ;; match obj_of_bindings bs with Some x => Ok x | None => Bad (o_nid o) Other end).
Proof. reflexivity. Qed.
Lemma obj_NFld : forall n f, obj_name md GE G (NFld n f) =
  (o <- obj_name md GE G n ;;
   match snd o with
   | SRec _ _ fs => match find_field fs f with Some x => Ok (fst o, snd x) | None => Bad (o_nid f) UnknownField end
   | _ => Bad (o_nid f) Other
   end).
Proof. reflexivity. Qed.
Lemma obj_NIdx : forall n e, obj_name md GE G (NIdx n e) =
  (o <- obj_name md GE G n ;;
   match snd o with
   | SArr _ _ _ el => root md GE G SInt e ;;; Ok (fst o, el)
   | _ => Bad (root_nid_name n) Other
   end).
Proof. reflexivity. Qed.

Lemma iargs_ANil : interp_args md GE G ANil = Ok []. Proof. reflexivity. Qed.
Lemma iargs_ACons : forall c e r, interp_args md GE G (ACons c e r) =
  (x <- interp md GE G e ;; y <- interp_args md GE G r ;; Ok ((c, x) :: y)).
Proof. reflexivity. Qed.

Lemma rf_ANil : forall i all fs, root_fields md GE G i all fs ANil =
  guard (match fs with [] => true | _ => false end) i Other.
Proof. reflexivity. Qed.
Lemma rf_Pos : forall i all fs e r, root_fields md GE G i all fs (ACons ChPos e r) =
  match fs with
  | ft :: fs' => root md GE G (snd ft) e ;;; root_fields md GE G i all fs' r
  | [] => Bad (head_nid e) Other
  end.
Proof. reflexivity. Qed.
Lemma rf_Name : forall i all fs f e r, root_fields md GE G i all fs (ACons (ChName f) e r) =
  match find_field all f with
  | Some x =>
      guard (existsb (fun y => fst y =? o_id f) fs) (o_nid f) Other ;;;
      guard (negb (args_has_pos r)) (o_nid f) Conservative ;;;
      root md GE G (snd x) e ;;;
      root_fields md GE G i all (filter (fun y => negb (fst y =? o_id f)) fs) r
  | None => Bad (o_nid f) UnknownField
  end.
Proof. reflexivity. Qed.
Lemma rf_Others1 : forall i all fs e, root_fields md GE G i all fs (ACons ChOthers e ANil) =
  match fs with
  | ft :: fs' => guard (forallb (fun y => sty_eqb (snd y) (snd ft)) fs') (head_nid e) Other ;;; root md GE G (snd ft) e
  | [] => Bad (head_nid e) Other
  end.
Proof. reflexivity. Qed.
Lemma rf_Others2 : forall i all fs e c' e' r', root_fields md GE G i all fs (ACons ChOthers e (ACons c' e' r')) = Bad (head_nid e) Conservative.
Proof. reflexivity. Qed.

Lemma re_ANil : forall i el n, root_elems md GE G i el n ANil =
  guard (match n with O => true | _ => false end) i Other.
Proof. reflexivity. Qed.
Lemma re_Pos : forall i el n e r, root_elems md GE G i el n (ACons ChPos e r) =
  match n with
  | S n' => root md GE G el e ;;; root_elems md GE G i el n' r
  | O => Bad (head_nid e) Other
  end.
Proof. reflexivity. Qed.
Lemma re_Others1 : forall i el n e, root_elems md GE G i el n (ACons ChOthers e ANil) = root md GE G el e.
Proof. reflexivity. Qed.
Lemma re_Others2 : forall i el n e c' e' r', root_elems md GE G i el n (ACons ChOthers e (ACons c' e' r')) = Bad (head_nid e) Conservative.
Proof. reflexivity. Qed.
Lemma re_Name : forall i el n f e r, root_elems md GE G i el n (ACons (ChName f) e r) = Bad (head_nid e) Conservative.
Proof. reflexivity. Qed.

(* statements *)
Lemma cs_SSig : forall i t e, check_stmt md GE G (SSig i t e) = (ty <- check_target md GE G KSig t ;; root md GE G ty e).
Proof. reflexivity. Qed.
Lemma cs_SVar : forall i t e, check_stmt md GE G (SVar i t e) = (ty <- check_target md GE G KVar t ;; root md GE G ty e).
Proof. reflexivity. Qed.
Lemma cs_SIf : forall i c th el, check_stmt md GE G (SIf i c th el) =
  (root md GE G SBool c ;;; check_stmts md GE G th ;;; check_stmts md GE G el).
Proof. reflexivity. Qed.
Lemma cs_SCase : forall i sel alts oth, check_stmt md GE G (SCase i sel alts oth) =
  (o <- obj_name md GE G sel ;;
   guard (match snd o with SEnum _ _ _ | SInt | SIntT _ _ | SBool | SBit => true | _ => false end) (root_nid_name sel) Other ;;;
   guard (nodup_keys (map cchoice_key (calts_choices alts))) i Conservative ;;;
   check_calts md GE G (snd o) alts ;;;
   check_stmts md GE G oth).
Proof. reflexivity. Qed.
Lemma cs_SFor : forall i v lo hi b, check_stmt md GE G (SFor i v lo hi b) =
  (G' <- declare (push G) v (BObj KConst MNone SInt) ;; check_stmts md GE G' b).
Proof. reflexivity. Qed.
Lemma cs_SWhile : forall i c b, check_stmt md GE G (SWhile i c b) = (root md GE G SBool c ;;; check_stmts md GE G b).
Proof. reflexivity. Qed.
Lemma cs_SCall : forall f a, check_stmt md GE G (SCall f a) =
  (bs <- callee_bindings GE G f ;;
   al <- interp_args md GE G a ;;
   match filter (fun ps => negb (Nat.eqb (call_ways ps al) 0)) (procs_of bs) with
   | [] => Bad (o_nid (fname_occ f)) NoOverload
   | [ps] =>
       guard (crit md (call_ways ps al)) (o_nid (fname_occ f)) Ambiguous ;;;
       match assoc (map ps_name ps) (args_list a) with
       | Some es => guard (forallb (fun pe => actual_obj_ok md GE G (fst pe) (snd pe)) (combine ps es))
                          (o_nid (fname_occ f)) Other
       | None => Bad (o_nid (fname_occ f)) Other
       end
   | ps :: _ => if crit md 2 then Ok tt else Bad (o_nid (fname_occ f)) Ambiguous
   end).
Proof. intros [o|l p o] a; reflexivity. Qed.
Lemma cs_SRet : forall i e, check_stmt md GE G (SRet i e) =
  match e_ret G, e with
  | Some (Some t), Some e => root md GE G t e
  | Some None, None => Ok tt
  | _, _ => Bad i Other
  end.
Proof. reflexivity. Qed.
Lemma cs_SNull : forall i, check_stmt md GE G (SNull i) = Ok tt. Proof. reflexivity. Qed.
Lemma css_SNil : check_stmts md GE G SNil = Ok tt. Proof. reflexivity. Qed.
Lemma css_SCons : forall x r, check_stmts md GE G (SCons x r) = (check_stmt md GE G x ;;; check_stmts md GE G r).
Proof. reflexivity. Qed.
Lemma cca_CANil : forall t, check_calts md GE G t CANil = Ok tt. Proof. reflexivity. Qed.
Lemma cca_CACons : forall t cs b r, check_calts md GE G t (CACons cs b r) =
  (check_list (check_cchoice G t) cs ;;; check_stmts md GE G b ;;; check_calts md GE G t r).
Proof. reflexivity. Qed.

(* concurrent statements *)
Lemma cc_CProc : forall lbl sens ls b, check_conc md GE G (CProc lbl sens ls b) =
  (check_list (check_sens md GE G) sens ;;; G' <- check_ldecls md GE (push G) ls ;; check_stmts md GE G' b).
Proof. reflexivity. Qed.
Lemma cc_CAssign : forall lbl t e, check_conc md GE G (CAssign lbl t e) =
  (ty <- check_target md GE G KSig t ;; root md GE G ty e).
Proof. reflexivity. Qed.
Lemma cc_CBlock : forall lbl ds b, check_conc md GE G (CBlock lbl ds b) =
  (G' <- check_decls md GE RArch [] (push G) ds ;; check_concs md GE G' b).
Proof. reflexivity. Qed.
Lemma cc_CInstE : forall lbl l e a gm pm, check_conc md GE G (CInstE lbl l e a gm pm) =
  (guard (negb (o_id l =? id_undeclared) && e_libs G (o_id l)) (o_nid l) Undeclared ;;;
   match find_unit GE (o_id l) (o_id e) with
   | Some (GEnt gs ps _) =>
       match a with
       | Some a => guard (negb (o_id a =? id_undeclared) && find_arch GE (o_id l) (o_id e) (o_id a)) (o_nid a) UnknownArch
       | None => Ok tt
       end ;;;
       check_amap (check_generic_actual md GE G) (o_nid e) gs gm ;;;
       check_amap (check_port_actual md GE G) (o_nid e) ps pm
   | _ => Bad (o_nid e) UnknownUnit
   end).
Proof. reflexivity. Qed.
Lemma cc_CInstC : forall lbl c gm pm, check_conc md GE G (CInstC lbl c gm pm) =
  (bs <- vis_occ G c ;;
   match bs with
   | [b] => match b_kind b with
            | BComp gs ps =>
                check_amap (check_generic_actual md GE G) (o_nid c) gs gm ;;;
                check_amap (check_port_actual md GE G) (o_nid c) ps pm
            | _ => Bad (o_nid c) Other
            end
   | _ => Bad (o_nid c) Other
   end).
Proof. reflexivity. Qed.
Lemma ccs_CNil : check_concs md GE G CNil = Ok tt. Proof. reflexivity. Qed.
Lemma ccs_CCons : forall x r, check_concs md GE G (CCons x r) = (check_conc md GE G x ;;; check_concs md GE G r).
Proof. reflexivity. Qed.
End ChkEq.
#[export] Hint Rewrite interp_EInt interp_EBit interp_ENam interp_ECall interp_EBin interp_ENot interp_EAgg interp_EQual
  interp_NId interp_NSel interp_NFld interp_NIdx obj_NId obj_NSel obj_NFld obj_NIdx iargs_ANil iargs_ACons
  rf_ANil rf_Pos rf_Name rf_Others1 rf_Others2 re_ANil re_Pos re_Others1 re_Others2 re_Name
  cs_SSig cs_SVar cs_SIf cs_SCase cs_SFor cs_SWhile cs_SCall cs_SRet cs_SNull css_SNil css_SCons cca_CANil cca_CACons
  cc_CProc cc_CAssign cc_CBlock cc_CInstE cc_CInstC ccs_CNil ccs_CCons : chkeq.
