(* Mini/Rewrites.v — the validity-preserving rewrites of C05 as program transformers with a decidable
   `applicable` (definitions only).

   R1 RSwap s        the declaration whose declared name has node id s is exchanged with the one after it
                     (applicable: the two are independent — neither mentions an identifier the other declares,
                     they declare different identifiers, at most one of them is a subprogram / deferred constant)
   R2 RNamed s       positional association -> named association, and
      RPositional s  named -> positional, in the call that is the root expression of phrase s, in the procedure
                     call s, or in the generic and port maps of instantiation s
   R3 RSelected s x  in the root expression of phrase s the simple name / callee with node id x becomes the
                     selected name lib.pkg.x of the package it is exported from
      RUseItems s    `use l.p.all` (node id of p is s) becomes `use l.p.x` for every name x declared in package p
   R4 RWrap s lbl    concurrent statement s is wrapped into `lbl : block begin ... end block`
   R5 RAddDecl s x k an unused declaration of the fresh identifier x is inserted after the declaration named at s
                     (architecture, block and package-body declarative parts; x occurs nowhere in the program and is
                     not a predefined literal; the variant that mentions `true` needs `true` not to be redeclared)

      RAddLocal s x k y  at the head of the declarative part of the block labelled at s: an unused enumeration type x
                     one of whose literals is the existing identifier y (k = 0), an unused integer type x (k = 1), an
                     unused function (k = 2) / procedure named like the existing subprogram y with a profile of its own;
                     such a declaration OVERLOADS a designator of an enclosing region (the integer type through its
                     implicit operators), so whether the program stays valid is decided by re-running the reference

   R2, R3 (RSelected) and R4 are phrase replacements (Mini/Walk.v): `applicable` = the new phrase is accepted by the
   reference in the environment recorded for the ORIGINAL phrase (+ label freshness for R4); that the whole
   program stays valid is the theorem.  R1 and R5 have purely syntactic side conditions.  RUseItems is validated by
   re-running the reference on the result (its preservation theorem is therefore immediate; see Props/C05.v). *)
From Coq Require Import List NArith Arith Bool.
Import ListNotations.
From RH Require Import Mini.Syntax Mini.Sem Mini.Walk Mini.Faults.
Open Scope N_scope.

Inductive rewrite :=
| RSwap (s : nid)
| RNamed (s : nid)
| RPositional (s : nid)
| RSelected (s : nid) (x : nid)
| RUseItems (s : nid)
| RWrap (s : nid) (lbl : ident)
| RAddDecl (s : nid) (x : ident) (k : N)
| RAddLocal (s : nid) (x : ident) (k : N) (y : ident).

(* ------------------------------------------------------------------------------------------ *)
(* identifiers of a phrase                                                                      *)
(* ------------------------------------------------------------------------------------------ *)
Definition idents_of (l : list (nid * okind * ident)) : list ident := map snd l.
Definition idents_decl (d : decl) : list ident := idents_of (oc_decl d).
Definition idents_program (p : program) : list ident :=
  idents_of (occs_program p) ++ map l_name p.
Definition declared_idents (d : decl) : list ident :=
  match d with
  | DType o (TDEnum lits) => o_id o :: map o_id lits
  | _ => [o_id (decl_occ d)]
  end.
Definition memb (x : ident) (l : list ident) : bool := existsb (N.eqb x) l.
Definition disjoint (a b : list ident) : bool := forallb (fun x => negb (memb x b)) a.

(* ------------------------------------------------------------------------------------------ *)
(* R1: swap two adjacent independent declarations                                               *)
(* ------------------------------------------------------------------------------------------ *)
Definition obl_related (in_body : bool) (d : decl) : bool :=
  match d with
  | DFunDecl _ _ _ | DProcDecl _ _ | DFunBody _ _ _ _ _ | DProcBody _ _ _ _ | DConst _ _ None => true
  | DConst _ _ (Some _) => in_body
  | _ => false
  end.
Definition independent (in_body : bool) (d1 d2 : decl) : bool :=
  disjoint (declared_idents d1) (idents_decl d2) &&
  disjoint (declared_idents d2) (idents_decl d1) &&
  negb (obl_related in_body d1 && obl_related in_body d2).
Fixpoint swap_decls (s : nid) (ds : list decl) : list decl :=
  match ds with
  | d1 :: ((d2 :: r) as tl) => if o_nid (decl_occ d1) =? s then d2 :: d1 :: r else d1 :: swap_decls s tl
  | _ => ds
  end.
Fixpoint swap_ok (in_body : bool) (s : nid) (ds : list decl) : bool :=
  match ds with
  | d1 :: ((d2 :: _) as r) => if o_nid (decl_occ d1) =? s then independent in_body d1 d2 else swap_ok in_body s r
  | _ => false
  end.
Fixpoint swap_conc (s : nid) (c : conc) : conc :=
  match c with CBlock l ds b => CBlock l (swap_decls s ds) (swap_concs s b) | _ => c end
with swap_concs (s : nid) (c : concs) : concs :=
  match c with CNil => CNil | CCons x r => CCons (swap_conc s x) (swap_concs s r) end.
Fixpoint swap_ok_conc (s : nid) (c : conc) : bool :=
  match c with CBlock _ ds b => swap_ok false s ds || swap_ok_concs s b | _ => false end
with swap_ok_concs (s : nid) (c : concs) : bool :=
  match c with CNil => false | CCons x r => swap_ok_conc s x || swap_ok_concs s r end.
Definition swap_ubody (s : nid) (u : ubody) : ubody :=
  match u with
  | UPkg o ds => UPkg o (swap_decls s ds)
  | UBody o ds => UBody o (swap_decls s ds)
  | UArch o e ds b => UArch o e (swap_decls s ds) (swap_concs s b)
  | UGen o gs ds => UGen o gs (swap_decls s ds)
  | _ => u
  end.
Definition swap_ok_ubody (s : nid) (u : ubody) : bool :=
  match u with
  | UPkg _ ds | UGen _ _ ds => swap_ok false s ds
  | UBody _ ds => swap_ok true s ds
  | UArch _ _ ds b => swap_ok false s ds || swap_ok_concs s b
  | _ => false
  end.
Definition map_units (f : dunit -> dunit) (p : program) : program :=
  map (fun l => Lib (l_name l) (map f (l_units l))) p.
Definition exists_unit (f : dunit -> bool) (p : program) : bool :=
  existsb (fun l => existsb f (l_units l)) p.

(* ------------------------------------------------------------------------------------------ *)
(* R2: positional <-> named association                                                         *)
(* ------------------------------------------------------------------------------------------ *)
(* m: a node id beyond the program for the formal names that are written out *)
Fixpoint name_args (m : nid) (ns : list ident) (a : args) : args :=
  match a, ns with
  | ACons ChPos e r, x :: ns' => ACons (ChName (Occ m x)) e (name_args (m + 1) ns' r)
  | _, _ => a
  end.
Definition arg_named (x : ident) (a : args) : option expr :=
  match named_for x (args_list a) with [e] => Some e | _ => None end.
(* all actuals in the order of the formals ns, positionally (None if a formal has no actual) *)
Fixpoint unname_args (ns : list ident) (a : args) (k : nat) : option args :=
  match ns with
  | [] => Some ANil
  | x :: ns' =>
      let (p, n) := split_pos (args_list a) in
      match (match nth_error p k with Some e => Some e | None => arg_named x a end), unname_args ns' a (S k) with
      | Some e, Some r => Some (ACons ChPos e r)
      | _, _ => None
      end
  end.
Fixpoint name_amap (m : nid) (ns : list ident) (a : amap) : amap :=
  match a, ns with
  | (None, x) :: r, n :: ns' => (Some (Occ m n), x) :: name_amap (m + 1) ns' r
  | _, _ => a
  end.
Fixpoint unname_amap (ns : list ident) (a : amap) (k : nat) : option amap :=
  match ns with
  | [] => Some []
  | x :: ns' =>
      match actual_for a k x, unname_amap ns' a (S k) with
      | [e], Some r => Some ((None, e) :: r)
      | _, _ => None
      end
  end.
Definition formals_of_bindings (bs : list binding) : list (list ident) :=
  flat_map (fun b => match b_kind b with
                     | BFun ps _ | BProc ps => [map ps_name ps]
                     | _ => [] end) bs.
Definition inst_formals (i : pinfo) : option (list ident * list ident) :=
  match pi_ph i with
  | PConc (CInstE _ l e _ _ _) =>
      match find_unit (pi_GE i) (o_id l) (o_id e) with
      | Some (GEnt gs ps _) => Some (map is_name gs, map is_name ps)
      | _ => None
      end
  | PConc (CInstC _ c _ _) =>
      match vis (pi_G i) (o_id c) with
      | [b] => match b_kind b with BComp gs ps => Some (map is_name gs, map is_name ps) | _ => None end
      | _ => None
      end
  | _ => None
  end.
(* candidate new phrases; the first one the reference accepts is taken *)
Definition assoc_candidates (named : bool) (m : nid) (i : pinfo) : list phrase :=
  let ph := pi_ph i in
  let cands (g : fname) :=
    match callee_bindings (pi_GE i) (pi_G i) g with Ok bs => formals_of_bindings bs | Bad _ _ => [] end in
  let conv (ns : list ident) (a : args) : list args :=
    if named then [name_args m ns a] else match unname_args ns a 0 with Some a' => [a'] | None => [] end in
  match ph with
  | PStmt (SCall g a) => flat_map (fun ns => map (fun a' => PStmt (SCall g a')) (conv ns a)) (cands g)
  | PConc (CInstE l lb e ar gm pm) =>
      match inst_formals i with
      | Some (gn, pn) =>
          if named then [PConc (CInstE l lb e ar (name_amap m gn gm) (name_amap (m + 100) pn pm))]
          else match unname_amap gn gm 0, unname_amap pn pm 0 with
               | Some gm', Some pm' => [PConc (CInstE l lb e ar gm' pm')]
               | Some gm', None => [PConc (CInstE l lb e ar gm' pm)]
               | None, Some pm' => [PConc (CInstE l lb e ar gm pm')]
               | None, None => []
               end
      | None => []
      end
  | PConc (CInstC l c gm pm) =>
      match inst_formals i with
      | Some (gn, pn) =>
          if named then [PConc (CInstC l c (name_amap m gn gm) (name_amap (m + 100) pn pm))]
          else match unname_amap gn gm 0, unname_amap pn pm 0 with
               | Some gm', Some pm' => [PConc (CInstC l c gm' pm')]
               | Some gm', None => [PConc (CInstC l c gm' pm)]
               | None, Some pm' => [PConc (CInstC l c gm pm')]
               | None, None => []
               end
      | None => []
      end
  | _ =>
      match phrase_root ph with
      | Some (ECall g a) => flat_map (fun ns => map (fun a' => set_root (ECall g a') ph) (conv ns a)) (cands g)
      | _ => []
      end
  end.
Definition phrase_ok (i : pinfo) (ph : phrase) : bool :=
  match check_phrase Exactly (pi_GE i) (pi_G i) ph with Ok _ => true | Bad _ _ => false end.


(* ------------------------------------------------------------------------------------------ *)
(* R3: simple name -> selected name                                                             *)
(* ------------------------------------------------------------------------------------------ *)
Section Sel.
Variable x : nid.            (* the occurrence *)
Variable l p : occ.          (* the prefix lib.pkg to put in front of it *)
Fixpoint sel_expr (e : expr) : expr :=
  match e with
  | EInt _ _ | EBit _ _ => e
  | ENam n => ENam (sel_name n)
  | ECall g a =>
      ECall (match g with FId o => if o_nid o =? x then FSel l p o else g | _ => g end) (sel_args a)
  | EBin i op a b => EBin i op (sel_expr a) (sel_expr b)
  | ENot i e => ENot i (sel_expr e)
  | EAgg i els => EAgg i (sel_args els)
  | EQual t e =>
      EQual (match t with TMName o => if o_nid o =? x then TMSel l p o else t | _ => t end) (sel_expr e)
  end
with sel_name (n : name) : name :=
  match n with
  | NId o => if o_nid o =? x then NSel l p o else n
  | NSel _ _ _ => n
  | NFld n f => NFld (sel_name n) f
  | NIdx n e => NIdx (sel_name n) (sel_expr e)
  end
with sel_args (a : args) : args :=
  match a with ANil => ANil | ACons c e r => ACons c (sel_expr e) (sel_args r) end.
End Sel.
Fixpoint occ_ident_expr (x : nid) (l : list (nid * okind * ident)) : option ident :=
  match l with
  | [] => None
  | (n, _, i) :: r => if n =? x then Some i else occ_ident_expr x r
  end.
(* the home package of the declarations visible under the identifier of occurrence x *)
Definition home_of (i : pinfo) (x : nid) : option (ident * ident) :=
  match phrase_root (pi_ph i) with
  | Some e =>
      match occ_ident_expr x (oc_expr e) with
      | Some id =>
          match vis (pi_G i) id with
          | b :: _ => match b_home b with
                      | Some (l, p) => if e_libs (pi_G i) l then Some (l, p) else None
                      | None => None end
          | [] => None
          end
      | None => None
      end
  | None => None
  end.
Definition selected_phrase (m : nid) (i : pinfo) (x : nid) : option phrase :=
  match phrase_root (pi_ph i), home_of i x with
  | Some e, Some (l, p) => Some (set_root (sel_expr x (Occ m l) (Occ (m + 1) p) e) (pi_ph i))
  | _, _ => None
  end.

(* `use l.p.all` -> item-wise: the names package p declares, literals and other names before type names *)
Definition pkg_item_names (ds : list decl) : list ident :=
  let tys := flat_map (fun d => match d with DType o _ | DSubtype o _ _ => [o_id o] | _ => [] end) ds in
  let oth := flat_map (fun d => match d with
                                | DType _ (TDEnum lits) => map o_id lits
                                | DType _ _ | DSubtype _ _ _ => []
                                | _ => [o_id (decl_occ d)] end) ds in
  (fix dd (l : list ident) : list ident :=
     match l with [] => [] | a :: r => if memb a r then dd r else a :: dd r end) (oth ++ tys).
Definition find_pkg_decls (prog : program) (l p : ident) : option (list decl) :=
  match find (fun lb => l_name lb =? l) prog with
  | Some lb =>
      match find (fun u => match u_body u with UPkg o _ => o_id o =? p | _ => false end) (l_units lb) with
      | Some u => match u_body u with UPkg _ ds => Some ds | _ => None end
      | None => None
      end
  | None => None
  end.
Fixpoint use_items_ctx (prog : program) (s m : nid) (xs : list ctx_item) : list ctx_item :=
  match xs with
  | [] => []
  | XUseAll l p :: r =>
      if o_nid p =? s then
        match find_pkg_decls prog (o_id l) (o_id p) with
        | Some ds =>
            match pkg_item_names ds with
            | [] => XUseAll l p :: r
            | ns => map (fun x => XUseItem (Occ m (o_id l)) (Occ m (o_id p)) (Occ m x)) ns ++ r
            end
        | None => XUseAll l p :: r
        end
      else XUseAll l p :: use_items_ctx prog s m r
  | x :: r => x :: use_items_ctx prog s m r
  end.

(* ------------------------------------------------------------------------------------------ *)
(* R5: add an unused declaration                                                                *)
(* ------------------------------------------------------------------------------------------ *)
Definition new_decl (m : nid) (x : ident) (k : N) (in_body : bool) : decl :=
  if k =? 0 then DConst (Occ m x) TMInt (Some (EInt (m + 1) 0))
  else if (k =? 1) && negb in_body then DSignal (Occ m x) TMBit None
  else if k =? 2 then DSubtype (Occ m x) TMInt (Some (0, 3))
  else DConst (Occ m x) TMBool (Some (ENam (NId (Occ (m + 1) id_true)))).
Fixpoint add_decls (s m : nid) (x : ident) (k : N) (in_body : bool) (ds : list decl) : list decl :=
  match ds with
  | [] => []
  | d :: r => if o_nid (decl_occ d) =? s then d :: new_decl m x k in_body :: r else d :: add_decls s m x k in_body r
  end.
Fixpoint add_conc (s m : nid) (x : ident) (k : N) (c : conc) : conc :=
  match c with CBlock l ds b => CBlock l (add_decls s m x k false ds) (add_concs s m x k b) | _ => c end
with add_concs (s m : nid) (x : ident) (k : N) (c : concs) : concs :=
  match c with CNil => CNil | CCons y r => CCons (add_conc s m x k y) (add_concs s m x k r) end.
Definition add_ubody (s m : nid) (x : ident) (k : N) (u : ubody) : ubody :=
  match u with
  | UBody o ds => UBody o (add_decls s m x k true ds)
  | UArch o e ds b => UArch o e (add_decls s m x k false ds) (add_concs s m x k b)
  | _ => u
  end.
Definition add_sites_decls (ds : list decl) : list nid := map (fun d => o_nid (decl_occ d)) ds.
Fixpoint add_sites_conc (c : conc) : list nid :=
  match c with CBlock _ ds b => add_sites_decls ds ++ add_sites_concs b | _ => [] end
with add_sites_concs (c : concs) : list nid :=
  match c with CNil => [] | CCons y r => add_sites_conc y ++ add_sites_concs r end.
Definition add_sites (p : program) : list nid :=
  flat_map (fun l => flat_map (fun u =>
    match u_body u with
    | UBody _ ds => add_sites_decls ds
    | UArch _ _ ds b => add_sites_decls ds ++ add_sites_concs b
    | _ => []
    end) (l_units l)) p.

(* R5': a local declaration that overloads a designator of an enclosing region, at the head of a block *)
Definition local_decl (m : nid) (x : ident) (k : N) (y : ident) : decl :=
  if k =? 0 then DType (Occ m x) (TDEnum [Occ (m + 1) y; Occ (m + 2) (x + 1)])
  else if k =? 1 then DType (Occ m x) (TDInt 0 7)
  else if k =? 2 then
    DFunBody (Occ m y) [Param (Occ (m + 1) x) KConst MIn TMBit] TMBit []
             (SCons (SRet (m + 2) (Some (ENam (NId (Occ (m + 3) x))))) SNil)
  else DProcBody (Occ m y) [Param (Occ (m + 1) x) KConst MIn TMBit] [] (SCons (SNull (m + 2)) SNil).
Fixpoint local_conc (s m : nid) (x : ident) (k : N) (y : ident) (c : conc) : conc :=
  match c with
  | CBlock l ds b =>
      if o_nid l =? s then CBlock l (local_decl m x k y :: ds) b
      else CBlock l ds (local_concs s m x k y b)
  | _ => c
  end
with local_concs (s m : nid) (x : ident) (k : N) (y : ident) (c : concs) : concs :=
  match c with CNil => CNil | CCons z r => CCons (local_conc s m x k y z) (local_concs s m x k y r) end.
Definition local_ubody (s m : nid) (x : ident) (k : N) (y : ident) (u : ubody) : ubody :=
  match u with UArch o e ds b => UArch o e ds (local_concs s m x k y b) | _ => u end.
Fixpoint block_ids_conc (c : conc) : list nid :=
  match c with CBlock l _ b => o_nid l :: block_ids_concs b | _ => [] end
with block_ids_concs (c : concs) : list nid :=
  match c with CNil => [] | CCons z r => block_ids_conc z ++ block_ids_concs r end.
(* identifiers of enumeration literals declared anywhere in the program (candidates for the re-used literal) *)
Definition decl_lit_idents (ds : list decl) : list ident :=
  flat_map (fun d => match d with DType _ (TDEnum lits) => map o_id lits | _ => [] end) ds.
Fixpoint conc_lit_idents (c : conc) : list ident :=
  match c with CBlock _ ds b => decl_lit_idents ds ++ concs_lit_idents b | _ => [] end
with concs_lit_idents (c : concs) : list ident :=
  match c with CNil => [] | CCons z r => conc_lit_idents z ++ concs_lit_idents r end.
Definition lit_idents (p : program) : list ident :=
  flat_map (fun l => flat_map (fun u =>
    match u_body u with
    | UPkg _ ds | UBody _ ds => decl_lit_idents ds
    | UArch _ _ ds b => decl_lit_idents ds ++ concs_lit_idents b
    | _ => []
    end) (l_units l)) p.
Definition block_ids (p : program) : list nid :=
  flat_map (fun l => flat_map (fun u => match u_body u with UArch _ _ _ b => block_ids_concs b | _ => [] end) (l_units l)) p.

(* ------------------------------------------------------------------------------------------ *)
(* apply / applicable                                                                           *)
(* ------------------------------------------------------------------------------------------ *)
Definition all_labels (p : program) : list ident :=
  flat_map (fun l => flat_map (fun u => match u_body u with UArch _ _ _ b => labels_concs b | _ => [] end) (l_units l)) p.

(* the new phrase of a phrase rewrite *)
Definition rewrite_phrase (r : rewrite) (p : program) : option (nid * phrase) :=
  let m := max_nid p + 1 in
  match r with
  | RNamed s =>
      match find_phrase p s with
      | Some i => match filter (phrase_ok i) (assoc_candidates true m i) with ph :: _ => Some (s, ph) | [] => None end
      | None => None
      end
  | RPositional s =>
      match find_phrase p s with
      | Some i => match filter (phrase_ok i) (assoc_candidates false m i) with ph :: _ => Some (s, ph) | [] => None end
      | None => None
      end
  | RSelected s x =>
      match find_phrase p s with
      | Some i => match selected_phrase m i x with
                  | Some ph => if phrase_ok i ph then Some (s, ph) else None
                  | None => None end
      | None => None
      end
  | RWrap s lbl =>
      match find_phrase p s with
      | Some i =>
          match pi_ph i with
          | PConc c =>
              let ph := PConc (CBlock (Occ m lbl) [] (CCons c CNil)) in
              if phrase_ok i ph && negb (memb lbl (all_labels p)) && negb (lbl =? id_undeclared) then Some (s, ph) else None
          | _ => None
          end
      | None => None
      end
  | _ => None
  end.

Definition apply_rewrite (r : rewrite) (p : program) : program :=
  let m := max_nid p + 1 in
  match r with
  | RSwap s => map_units (fun u => DUnit (u_ctx u) (swap_ubody s (u_body u))) p
  | RUseItems s => map_units (fun u => DUnit (use_items_ctx p s m (u_ctx u)) (u_body u)) p
  | RAddDecl s x k => map_units (fun u => DUnit (u_ctx u) (add_ubody s m x k (u_body u))) p
  | RAddLocal s x k y => map_units (fun u => DUnit (u_ctx u) (local_ubody s m x k y (u_body u))) p
  | _ => match rewrite_phrase r p with
         | Some (s, ph) => sub_phrase s (fun _ => ph) p
         | None => p
         end
  end.

(* identifier z is nowhere declared in p *)
Definition never_declared_b (z : ident) (p : program) : bool :=
  negb (existsb (fun t => match snd (fst t) with OOther => snd t =? z | _ => false end) (occs_program p)).
Definition applicable (r : rewrite) (p : program) : bool :=
  nodup_nids p &&
  match r with
  | RSwap s => exists_unit (fun u => swap_ok_ubody s (u_body u)) p
  | RUseItems s => valid_b (apply_rewrite r p)
  | RAddDecl s x k =>
      negb (memb x (idents_program p)) && negb (x =? id_undeclared) && memb s (add_sites p) &&
      (* the new name is not a predefined literal, and `true` (used by the boolean variant) has its predefined meaning *)
      (negb (x =? id_true) && negb (x =? id_false) && ((k =? 0) || (k =? 2) || never_declared_b id_true p))
  | RAddLocal s x k y =>
      negb (memb x (idents_program p)) && negb (memb (x + 1) (idents_program p)) && negb (x =? id_undeclared) &&
      memb s (block_ids p) && valid_b (apply_rewrite r p)
  | _ => match rewrite_phrase r p with Some _ => true | None => false end
  end.

Fixpoint apply_rewrites (rs : list rewrite) (p : program) : program :=
  match rs with [] => p | r :: rest => apply_rewrites rest (apply_rewrite r p) end.
Fixpoint applicable_all (rs : list rewrite) (p : program) : bool :=
  match rs with [] => true | r :: rest => applicable r p && applicable_all rest (apply_rewrite r p) end.

(* enumeration of rewrite candidates for the harness *)
Definition swap_sites (p : program) : list nid :=
  filter (fun s => applicable (RSwap s) p) (dup_sites p ++ add_sites p).
Definition phrase_ids (p : program) : list nid := map pi_id (walk_program p).
Definition use_all_sites (p : program) : list nid :=
  flat_map (fun l => flat_map (fun u =>
    flat_map (fun x => match x with XUseAll _ q => [o_nid q] | _ => [] end) (u_ctx u)) (l_units l)) p.
Definition conc_ids (p : program) : list nid :=
  flat_map (fun i => match pi_ph i with PConc _ => [pi_id i] | _ => [] end) (walk_program p).
Definition use_occs_of_phrase (i : pinfo) : list nid :=
  match phrase_root (pi_ph i) with
  | Some e => flat_map (fun t => match snd (fst t) with OUse => [fst (fst t)] | _ => [] end) (oc_expr e)
  | None => []
  end.
