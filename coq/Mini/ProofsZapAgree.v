(* Mini/ProofsZapAgree.v — an accepted expression is accepted, with the same interpretations, when its node ids are
   shifted and the environment is changed at names whose bindings the expression cannot have used (a name that was
   not visible becomes an object; a deferred constant becomes a constant).  Proofs (used by Mini/ProofsZapDup.v). *)
From Coq Require Import List NArith Arith Bool Lia.
Import ListNotations.
From RH Require Import Mini.Syntax Mini.Sem Mini.Walk Mini.Faults Mini.ProofsZapEq Mini.ProofsZapSem.
Open Scope N_scope.

Lemma sty_eqb_refl : forall t, sty_eqb t t = true.
Proof. destruct t; cbn [sty_eqb]; try reflexivity; rewrite !N.eqb_refl; reflexivity. Qed.

(* ------------------------------------------------------------------------------------------ *)
(* shifting node ids does not change what a name denotes                                        *)
(* ------------------------------------------------------------------------------------------ *)
Section Shift.
Variable GE : genv.
Variable m : N.
Notation sh := (shift_occ m).

Lemma vis_occ_sh : forall G o bs, vis_occ G o = Ok bs -> vis_occ G (sh o) = Ok bs.
Proof.
  intros G o bs H. unfold vis_occ in *. cbn [shift_occ o_id o_nid].
  destruct (vis G (o_id o)) as [|b l]; [discriminate H|]. destruct (coherent (b :: l)); [exact H|discriminate H].
Qed.
Lemma sel_pkg_sh : forall G l p ex, sel_pkg GE G l p = Ok ex -> sel_pkg GE G (sh l) (sh p) = Ok ex.
Proof.
  intros G l p ex H. unfold sel_pkg in *. cbn [shift_occ o_id o_nid]. apply bind_ok in H. destruct H as (u & E & K).
  apply guard_ok in E. rewrite E. cbn [guard bind].
  destruct (find_unit GE (o_id l) (o_id p)) as [k|]; [|discriminate K]. destruct (exports_of k); [exact K|discriminate K].
Qed.
Lemma sel_item_sh : forall G l p o bs, sel_item GE G l p o = Ok bs -> sel_item GE G (sh l) (sh p) (sh o) = Ok bs.
Proof.
  intros G l p o bs H. unfold sel_item in *. minv H. rewrite (sel_pkg_sh _ _ _ _ E). cbn [bind shift_occ o_id o_nid].
  destruct (if o_id o =? id_undeclared then [] else a (o_id o)); [discriminate K|exact K].
Qed.
(* selected names only depend on the library clauses *)
Lemma sel_item_libs : forall G G1 l p o, e_libs G1 = e_libs G -> sel_item GE G1 l p o = sel_item GE G l p o.
Proof. intros G G1 l p o H. unfold sel_item, sel_pkg. rewrite H. reflexivity. Qed.
End Shift.

(* ------------------------------------------------------------------------------------------ *)
(* association by name is by identifier                                                         *)
(* ------------------------------------------------------------------------------------------ *)
Lemma forallb_map_c : forall {A B} (f : A -> B) (P : B -> bool) l, forallb P (map f l) = forallb (fun x => P (f x)) l.
Proof. intros A B f P. induction l as [|x r IH]; [reflexivity|]. cbn [map forallb]. rewrite IH. reflexivity. Qed.
Lemma forallb_ext_c : forall {A} (P Q : A -> bool) l, (forall x, P x = Q x) -> forallb P l = forallb Q l.
Proof. intros A P Q l H. induction l as [|x r IH]; [reflexivity|]. cbn [forallb]. rewrite H, IH. reflexivity. Qed.

Section AssocShift.
Variable m : N.
Notation sh := (shift_occ m).
Definition chmap {A} (al : list (choice * A)) : list (choice * A) := map (fun ca => (om_choice sh (fst ca), snd ca)) al.

Lemma split_pos_chmap : forall {A} (al : list (choice * A)),
  split_pos (chmap al) = (fst (split_pos al), chmap (snd (split_pos al))).
Proof.
  intros A. unfold chmap. induction al as [|[ch a] r IH]; [reflexivity|].
  destruct ch; cbn [map split_pos fst snd om_choice]; try reflexivity.
  rewrite IH. destruct (split_pos r) as [p n]. reflexivity.
Qed.
Lemma named_for_chmap : forall {A} x (n : list (choice * A)), named_for x (chmap n) = named_for x n.
Proof.
  intros A x. unfold named_for, chmap. induction n as [|[ch a] r IH]; [reflexivity|].
  cbn [map flat_map fst snd]. rewrite IH. f_equal. destruct ch; reflexivity.
Qed.
Lemma named_ok_chmap : forall {A} rest (n : list (choice * A)), named_ok rest (chmap n) = named_ok rest n.
Proof.
  intros A rest n. unfold named_ok. f_equal; [f_equal|].
  - unfold chmap. rewrite forallb_map_c. apply forallb_ext_c. intros [ch a]. destruct ch; reflexivity.
  - apply forallb_ext_c. intros x. rewrite named_for_chmap. reflexivity.
  - unfold chmap. rewrite map_length. reflexivity.
Qed.
Lemma assoc_chmap : forall {A} fs (al : list (choice * A)), assoc fs (chmap al) = assoc fs al.
Proof.
  intros A fs al. unfold assoc. rewrite split_pos_chmap. destruct (split_pos al) as [p n]. cbn [fst snd].
  rewrite named_ok_chmap. destruct ((length p <=? length fs)%nat && named_ok (skipn (length p) fs) n); [|reflexivity].
  f_equal. f_equal. apply flat_map_ext. intros x. apply named_for_chmap.
Qed.
Lemma call_ways_chmap : forall ps al, call_ways ps (chmap al) = call_ways ps al.
Proof. intros. unfold call_ways. rewrite assoc_chmap. reflexivity. Qed.
Lemma args_list_sh : forall a, args_list (sh_args m a) = map (fun ce => (om_choice sh (fst ce), sh_expr m (snd ce))) (args_list a).
Proof. induction a as [|ch e r IH]; cbn [sh_args args_list map fst snd]; [reflexivity|]. rewrite IH. reflexivity. Qed.
End AssocShift.

(* ------------------------------------------------------------------------------------------ *)
(* expressions                                                                                  *)
(* ------------------------------------------------------------------------------------------ *)
Lemma undefer_kind_cases : forall b, undefer b = b \/ (is_deferred b = true /\ exists t, b_kind (undefer b) = BObj KConst MNone t).
Proof.
  intros [k h]. unfold undefer, is_deferred. cbn [b_kind b_home]. destruct k; try (left; reflexivity).
  right. split; [reflexivity|]. eexists; reflexivity.
Qed.
Lemma undefer_no_deferred : forall bs, existsb is_deferred bs = false -> map undefer bs = bs.
Proof.
  induction bs as [|b r IH]; intro H; [reflexivity|]. cbn [existsb map] in *. apply orb_false_elim in H.
  destruct H as (H1 & H2). rewrite IH by exact H2. f_equal.
  destruct (undefer_kind_cases b) as [E|(E & _)]; [exact E|]. rewrite E in H1. discriminate H1.
Qed.
Lemma funs_of_undefer : forall bs, funs_of (map undefer bs) = funs_of bs.
Proof.
  unfold funs_of. induction bs as [|b r IH]; [reflexivity|]. cbn [map flat_map]. rewrite IH. f_equal.
  destruct b as [k h]. destruct k; reflexivity.
Qed.
Lemma clash_undefer : forall b b', clash (b_kind (undefer b)) (undefer b') = clash (b_kind b) b'.
Proof. intros [k h] [k' h']. destruct k, k'; reflexivity. Qed.
Lemma existsb_clash_undefer : forall b r,
  existsb (clash (b_kind (undefer b))) (map undefer r) = existsb (clash (b_kind b)) r.
Proof. intros b. induction r as [|b' r IH]; [reflexivity|]. cbn [map existsb]. rewrite clash_undefer, IH. reflexivity. Qed.
Lemma coherent_undefer : forall bs, coherent (map undefer bs) = coherent bs.
Proof.
  induction bs as [|b r IH]; [reflexivity|]. cbn [map coherent]. rewrite existsb_clash_undefer, IH. reflexivity.
Qed.

Section Agree.
Variable md : mode.
Variable GE : genv.
Variable m : N.
Variable G G1 : env.
Notation sh := (shift_occ m).
Hypothesis HL : e_libs G1 = e_libs G.
Hypothesis HV : forall y, vis G y <> [] ->
  vis G1 y = vis G y \/ (existsb is_deferred (vis G y) = true /\ vis G1 y = map undefer (vis G y)).
Hypothesis HO : forall t, ops_visible G1 t = ops_visible G t.

Lemma vis_occ_rel : forall o bs, vis_occ G o = Ok bs ->
  exists bs1, vis_occ G1 (sh o) = Ok bs1 /\ (bs1 = bs \/ (existsb is_deferred bs = true /\ bs1 = map undefer bs)).
Proof.
  intros o bs H. unfold vis_occ in *. cbn [shift_occ o_id o_nid].
  destruct (vis G (o_id o)) as [|b l] eqn:Ev; [discriminate H|].
  destruct (coherent (b :: l)) eqn:Ec; [|discriminate H]. injection H as H. subst bs.
  assert (Hne : vis G (o_id o) <> []) by (rewrite Ev; discriminate).
  destruct (HV _ Hne) as [E|(Ed & E)]; rewrite E, Ev.
  - rewrite Ec. eexists; split; [reflexivity|left; reflexivity].
  - rewrite Ev in Ed. cbn [map]. change (undefer b :: map undefer l) with (map undefer (b :: l)).
    rewrite coherent_undefer, Ec. eexists; split; [reflexivity|right; auto].
Qed.
Lemma vis_occ_same : forall o bs, vis_occ G o = Ok bs -> existsb is_deferred bs = false -> vis_occ G1 (sh o) = Ok bs.
Proof.
  intros o bs H Hd. destruct (vis_occ_rel o bs H) as (bs1 & E & [Eb|(Ed & _)]); [subst; exact E|].
  rewrite Ed in Hd. discriminate Hd.
Qed.
Lemma type_not_deferred : forall bs t, type_of_bindings bs = Some t -> existsb is_deferred bs = false.
Proof.
  intros [|b [|]] t H; try discriminate H. cbn [type_of_bindings existsb] in *. unfold is_deferred.
  destruct (b_kind b); try discriminate H. reflexivity.
Qed.
Lemma obj_not_deferred : forall bs x, obj_of_bindings bs = Some x -> existsb is_deferred bs = false.
Proof.
  intros [|b [|]] t H; try discriminate H. cbn [obj_of_bindings existsb] in *. unfold is_deferred.
  destruct (b_kind b); try discriminate H. reflexivity.
Qed.

Lemma resolve_tmark_copy : forall t ty, resolve_tmark GE G t = Ok ty -> resolve_tmark GE G1 (om_tmark sh t) = Ok ty.
Proof.
  intros [| | |o|l p o] ty H; cbn [resolve_tmark om_tmark] in *; try exact H.
  - minv H. destruct (type_of_bindings a) as [t|] eqn:Et; [|discriminate K].
    rewrite (vis_occ_same _ _ E (type_not_deferred _ _ Et)). cbn [bind]. rewrite Et. exact K.
  - minv H. rewrite (sel_item_libs GE _ _ _ _ _ HL). rewrite (sel_item_sh GE m _ _ _ _ _ E). cbn [bind].
    destruct (type_of_bindings a); [exact K|discriminate K].
Qed.
Lemma callee_copy : forall f bs, callee_bindings GE G f = Ok bs ->
  exists bs1, callee_bindings GE G1 (om_fname sh f) = Ok bs1 /\ funs_of bs1 = funs_of bs /\ procs_of bs1 = procs_of bs.
Proof.
  intros [o|l p o] bs H; cbn [callee_bindings om_fname] in *.
  - destruct (vis_occ_rel o bs H) as (bs1 & E & [Eb|(_ & Eb)]); exists bs1; subst bs1; (split; [exact E|]).
    + split; reflexivity.
    + split; [apply funs_of_undefer|].
      unfold procs_of. clear. induction bs as [|b r IH]; [reflexivity|]. cbn [map flat_map]. rewrite IH. f_equal.
      destruct b as [k h]. destruct k; reflexivity.
  - exists bs. rewrite (sel_item_libs GE _ _ _ _ _ HL). rewrite (sel_item_sh GE m _ _ _ _ _ H). auto.
Qed.

Lemma op_interps_copy : forall op li ri, op_interps G1 op li ri = op_interps G op li ri.
Proof.
  intros. unfold op_interps, op_types. f_equal. apply filter_ext. intros t. rewrite HO. reflexivity.
Qed.
Lemma agg_type_copy : forall op li, agg_type G1 op li = agg_type G op li.
Proof. intros. unfold agg_type. destruct (dedup (filter is_composite li)) as [|t [|]]; try reflexivity. rewrite HO. reflexivity. Qed.
Lemma find_field_sh : forall fs f, find_field fs (sh f) = find_field fs f.
Proof. reflexivity. Qed.
Lemma args_has_pos_sh : forall a, args_has_pos (sh_args m a) = args_has_pos a.
Proof.
  induction a as [|ch e r IH]; [reflexivity|].
  cbn [sh_args]. destruct ch; cbn [om_choice args_has_pos]; try reflexivity; exact IH.
Qed.

Definition A_c (e : expr) : Prop := forall l, interp md GE G e = Ok l -> interp md GE G1 (sh_expr m e) = Ok l.
Definition R_c (e : expr) : Prop := forall t v, root md GE G t e = Ok v -> root md GE G1 t (sh_expr m e) = Ok v.
Definition N_c (n : name) : Prop := forall l, interp_name md GE G n = Ok l -> interp_name md GE G1 (sh_name m n) = Ok l.
Definition O_c (n : name) : Prop := forall l, obj_name md GE G n = Ok l -> obj_name md GE G1 (sh_name m n) = Ok l.
Definition I_c (a : args) : Prop := forall al, interp_args md GE G a = Ok al ->
  interp_args md GE G1 (sh_args m a) = Ok (chmap m al).
Definition F_c (a : args) : Prop := forall i i' all fs v, root_fields md GE G i all fs a = Ok v ->
  root_fields md GE G1 i' all fs (sh_args m a) = Ok v.
Definition E_c (a : args) : Prop := forall i i' el n v, root_elems md GE G i el n a = Ok v ->
  root_elems md GE G1 i' el n (sh_args m a) = Ok v.

Lemma is_agg_sh : forall e, is_agg (sh_expr m e) = is_agg e.
Proof. destruct e; reflexivity. Qed.
Lemma is_paren_sh : forall els, is_paren (sh_args m els) = is_paren els.
Proof. destruct els as [|[| |] e [|]]; reflexivity. Qed.

Lemma root_of_interp_c : forall e, is_agg e = false -> A_c e -> R_c e.
Proof.
  intros e Hna HA t v H. rewrite root_nonagg in H by exact Hna.
  rewrite root_nonagg by (rewrite is_agg_sh; exact Hna).
  apply bind_ok in H. destruct H as (l & E & K). rewrite (HA l E). cbn [bind].
  destruct (count_fits t l) as [|[|n]].
  - destruct (blame md GE G t e). discriminate K.
  - exact K.
  - destruct (crit md 2); [exact K|discriminate K].
Qed.

Lemma expr_copy :
  (forall e, A_c e /\ R_c e) /\ (forall n, N_c n /\ O_c n) /\ (forall a, I_c a /\ F_c a /\ E_c a).
Proof.
  apply expr_name_args_ind.
  - intros i v. assert (HA : A_c (EInt i v)) by (intros l H; exact H).
    split; [exact HA|apply root_of_interp_c; [reflexivity|exact HA]].
  - intros i b. assert (HA : A_c (EBit i b)) by (intros l H; exact H).
    split; [exact HA|apply root_of_interp_c; [reflexivity|exact HA]].
  - intros n [IHn _]. assert (HA : A_c (ENam n)).
    { intros l H. cbn [sh_expr]. autorewrite with chkeq in *. apply IHn. exact H. }
    split; [exact HA|apply root_of_interp_c; [reflexivity|exact HA]].
  - intros f a (IHa & _ & _). assert (HA : A_c (ECall f a)).
    { intros l H. cbn [sh_expr]. autorewrite with chkeq in *. minv H.
      destruct (callee_copy _ _ E) as (bs1 & E1 & Ef & _). rewrite E1. cbn [bind].
      rewrite (IHa _ E0). cbn [bind]. rewrite Ef. f_equal. apply flat_map_ext. intros x.
      rewrite call_ways_chmap. reflexivity. }
    split; [exact HA|apply root_of_interp_c; [reflexivity|exact HA]].
  - intros i op l [IHl IHRl] r [IHr IHRr]. assert (HA : A_c (EBin i op l r)).
    { intros li H. cbn [sh_expr]. autorewrite with chkeq in *.
      change (is_aggregate (sh_expr m r)) with (is_agg (sh_expr m r)).
      change (is_aggregate (sh_expr m l)) with (is_agg (sh_expr m l)).
      rewrite !is_agg_sh. change (is_agg r) with (is_aggregate r). change (is_agg l) with (is_aggregate l).
      destruct (is_aggregate r) eqn:Ar.
      - destruct (is_aggregate l) eqn:Al; [exact H|].
        apply bind_ok in H. destruct H as (a & E & K). rewrite (IHl _ E). cbn [bind]. rewrite agg_type_copy.
        destruct (agg_type G op a) as [t|]; [|exact K].
        apply bind_ok in K. destruct K as (u & Er & K). rewrite (IHRr _ _ Er). cbn [bind]. exact K.
      - destruct (is_aggregate l) eqn:Al.
        + apply bind_ok in H. destruct H as (a & E & K). rewrite (IHr _ E). cbn [bind]. rewrite agg_type_copy.
          destruct (agg_type G op a) as [t|]; [|exact K].
          apply bind_ok in K. destruct K as (u & El & K). rewrite (IHRl _ _ El). cbn [bind]. exact K.
        + minv H. rewrite (IHl _ E), (IHr _ E0). cbn [bind]. rewrite op_interps_copy. reflexivity. }
    split; [exact HA|apply root_of_interp_c; [reflexivity|exact HA]].
  - intros i e [IHe _]. assert (HA : A_c (ENot i e)).
    { intros li H. cbn [sh_expr]. autorewrite with chkeq in *. minv H. rewrite (IHe _ E). reflexivity. }
    split; [exact HA|apply root_of_interp_c; [reflexivity|exact HA]].
  - intros i els (_ & IHf & IHe). split.
    + intros l H. cbn [sh_expr]. autorewrite with chkeq in *. exact H.
    + intros t v H. cbn [sh_expr]. rewrite root_agg in *. rewrite is_paren_sh.
      destruct (is_paren els); [discriminate H|].
      destruct t; try discriminate H; [eapply IHf | eapply IHe]; eassumption.
  - intros t e [_ IHe]. assert (HA : A_c (EQual t e)).
    { intros li H. cbn [sh_expr]. autorewrite with chkeq in *. minv H.
      rewrite (resolve_tmark_copy _ _ E). cbn [bind]. rewrite (IHe _ _ E0). reflexivity. }
    split; [exact HA|apply root_of_interp_c; [reflexivity|exact HA]].
  - (* NId *) intros o. split.
    + intros l H. cbn [sh_name]. autorewrite with chkeq in *. minv H.
      apply negb_true_iff in E0. rewrite (vis_occ_same _ _ E E0). cbn [bind]. rewrite E0. reflexivity.
    + intros l H. cbn [sh_name]. autorewrite with chkeq in *. minv H.
      destruct (obj_of_bindings a) as [x|] eqn:Eo; [|discriminate K].
      rewrite (vis_occ_same _ _ E (obj_not_deferred _ _ Eo)). cbn [bind]. rewrite Eo. exact K.
  - (* NSel *) intros l p o. split.
    + intros li H. cbn [sh_name]. autorewrite with chkeq in *. minv H.
      rewrite (sel_item_libs GE _ _ _ _ _ HL). rewrite (sel_item_sh GE m _ _ _ _ _ E). cbn [bind].
      rewrite E0. reflexivity.
    + intros li H. cbn [sh_name]. autorewrite with chkeq in *. minv H.
      rewrite (sel_item_libs GE _ _ _ _ _ HL). rewrite (sel_item_sh GE m _ _ _ _ _ E). cbn [bind].
      destruct (obj_of_bindings a); [exact K|discriminate K].
  - (* NFld *) intros n [_ IHn] f. split.
    + intros li H. cbn [sh_name]. autorewrite with chkeq in *. minv H. rewrite (IHn _ E). cbn [bind].
      destruct (snd a); try discriminate K. rewrite find_field_sh. destruct (find_field fs f); [exact K|discriminate K].
    + intros li H. cbn [sh_name]. autorewrite with chkeq in *. minv H. rewrite (IHn _ E). cbn [bind].
      destruct (snd a); try discriminate K. rewrite find_field_sh. destruct (find_field fs f); [exact K|discriminate K].
  - (* NIdx *) intros n [_ IHn] e [_ IHe]. split.
    + intros li H. cbn [sh_name]. autorewrite with chkeq in *. minv H. rewrite (IHn _ E). cbn [bind].
      destruct (snd a); try discriminate K. minv K. rewrite (IHe _ _ E0). reflexivity.
    + intros li H. cbn [sh_name]. autorewrite with chkeq in *. minv H. rewrite (IHn _ E). cbn [bind].
      destruct (snd a); try discriminate K. minv K. rewrite (IHe _ _ E0). reflexivity.
  - (* ANil *) split; [|split].
    + intros al H. cbn [sh_args]. autorewrite with chkeq in *. injection H as H. subst al. reflexivity.
    + intros i i' all fs v H. cbn [sh_args]. autorewrite with chkeq in *. destruct fs; [exact H|discriminate H].
    + intros i i' el n v H. cbn [sh_args]. autorewrite with chkeq in *. destruct n; [exact H|discriminate H].
  - (* ACons *) intros ch e [IHe IHr] r (IHa & IHf & IHel). split; [|split].
    + intros al H. cbn [sh_args]. autorewrite with chkeq in *. minv H. rewrite (IHe _ E), (IHa _ E0). reflexivity.
    + intros i i' all fs v H. cbn [sh_args]. destruct ch as [|f|]; cbn [om_choice]; autorewrite with chkeq in *.
      * destruct fs as [|ft fs']; [discriminate H|]. minv H. rewrite (IHr _ _ E). cbn [bind]. eapply IHf; exact K.
      * rewrite find_field_sh. destruct (find_field all f) as [x|]; [|discriminate H]. minv H.
        cbn [shift_occ o_id o_nid]. rewrite E. cbn [guard bind]. rewrite args_has_pos_sh, E0. cbn [guard bind].
        match goal with Hr : root md GE G (snd x) e = Ok _ |- _ => rewrite (IHr _ _ Hr) end. cbn [bind].
        eapply IHf; eassumption.
      * destruct r as [|c' e' r']; cbn [sh_args]; autorewrite with chkeq in *; [|discriminate H].
        destruct fs as [|ft fs']; [discriminate H|].
        destruct (forallb (fun y => sty_eqb (snd y) (snd ft)) fs'); cbn [guard bind] in *; [|discriminate H].
        eapply IHr; exact H.
    + intros i i' el n v H. cbn [sh_args]. destruct ch as [|f|]; cbn [om_choice].
      * autorewrite with chkeq in *. destruct n as [|n']; [discriminate H|]. minv H.
        rewrite (IHr _ _ E). cbn [bind]. eapply IHel; exact K.
      * autorewrite with chkeq in H. discriminate H.
      * destruct r as [|c' e' r']; cbn [sh_args]; autorewrite with chkeq in *; [|discriminate H].
        eapply IHr; exact H.
Qed.
Definition root_copy e := proj2 (proj1 expr_copy e).
End Agree.
