(* Mini/Renumber.v — assigns consecutive node ids (1, 2, ...) to all nodes of a program, in print order
   (definitions only).  The generator builds syntax with node id 0 everywhere and renumbers at the end. *)
From Coq Require Import List NArith Bool.
Import ListNotations.
From RH Require Import Mini.Syntax.
Open Scope N_scope.

Definition M (A : Type) := N -> A * N.
Definition ret {A} (a : A) : M A := fun n => (a, n).
Definition bnd {A B} (m : M A) (f : A -> M B) : M B := fun n => let (a, n') := m n in f a n'.
Notation "x <~ m ;; k" := (bnd m (fun x => k)) (at level 61, m at next level, right associativity).
Definition fresh : M nid := fun n => (n, n + 1).
Fixpoint mapM {A B} (f : A -> M B) (l : list A) : M (list B) :=
  match l with
  | [] => ret []
  | x :: r => y <~ f x ;; ys <~ mapM f r ;; ret (y :: ys)
  end.
Definition optM {A B} (f : A -> M B) (o : option A) : M (option B) :=
  match o with Some x => y <~ f x ;; ret (Some y) | None => ret None end.

Definition r_occ (o : occ) : M occ := i <~ fresh ;; ret (Occ i (o_id o)).
Definition r_tmark (t : tmark) : M tmark :=
  match t with
  | TMName o => o' <~ r_occ o ;; ret (TMName o')
  | TMSel l p o => l' <~ r_occ l ;; p' <~ r_occ p ;; o' <~ r_occ o ;; ret (TMSel l' p' o')
  | _ => ret t
  end.
Definition r_fname (f : fname) : M fname :=
  match f with
  | FId o => o' <~ r_occ o ;; ret (FId o')
  | FSel l p o => l' <~ r_occ l ;; p' <~ r_occ p ;; o' <~ r_occ o ;; ret (FSel l' p' o')
  end.
Definition r_choice (c : choice) : M choice :=
  match c with ChName o => o' <~ r_occ o ;; ret (ChName o') | _ => ret c end.

Fixpoint r_expr (e : expr) : M expr :=
  match e with
  | EInt _ v => i <~ fresh ;; ret (EInt i v)
  | EBit _ b => i <~ fresh ;; ret (EBit i b)
  | ENam n => n' <~ r_name n ;; ret (ENam n')
  | ECall f a => f' <~ r_fname f ;; a' <~ r_args a ;; ret (ECall f' a')
  | EBin _ op l r => l' <~ r_expr l ;; i <~ fresh ;; r' <~ r_expr r ;; ret (EBin i op l' r')
  | ENot _ e => i <~ fresh ;; e' <~ r_expr e ;; ret (ENot i e')
  | EAgg _ els => i <~ fresh ;; els' <~ r_args els ;; ret (EAgg i els')
  | EQual t e => t' <~ r_tmark t ;; e' <~ r_expr e ;; ret (EQual t' e')
  end
with r_name (n : name) : M name :=
  match n with
  | NId o => o' <~ r_occ o ;; ret (NId o')
  | NSel l p o => l' <~ r_occ l ;; p' <~ r_occ p ;; o' <~ r_occ o ;; ret (NSel l' p' o')
  | NFld n f => n' <~ r_name n ;; f' <~ r_occ f ;; ret (NFld n' f')
  | NIdx n e => n' <~ r_name n ;; e' <~ r_expr e ;; ret (NIdx n' e')
  end
with r_args (a : args) : M args :=
  match a with
  | ANil => ret ANil
  | ACons c e r => c' <~ r_choice c ;; e' <~ r_expr e ;; r' <~ r_args r ;; ret (ACons c' e' r')
  end.

Definition r_cchoice (c : cchoice) : M cchoice :=
  match c with
  | CCLit o => o' <~ r_occ o ;; ret (CCLit o')
  | CCInt _ v => i <~ fresh ;; ret (CCInt i v)
  end.

Fixpoint r_stmt (s : stmt) : M stmt :=
  match s with
  | SSig _ t e => t' <~ r_name t ;; i <~ fresh ;; e' <~ r_expr e ;; ret (SSig i t' e')
  | SVar _ t e => t' <~ r_name t ;; i <~ fresh ;; e' <~ r_expr e ;; ret (SVar i t' e')
  | SIf _ c th el => i <~ fresh ;; c' <~ r_expr c ;; th' <~ r_stmts th ;; el' <~ r_stmts el ;; ret (SIf i c' th' el')
  | SCase _ sel alts oth =>
      i <~ fresh ;; sel' <~ r_name sel ;; alts' <~ r_calts alts ;; oth' <~ r_stmts oth ;; ret (SCase i sel' alts' oth')
  | SFor _ v lo hi b => i <~ fresh ;; v' <~ r_occ v ;; b' <~ r_stmts b ;; ret (SFor i v' lo hi b')
  | SWhile _ c b => i <~ fresh ;; c' <~ r_expr c ;; b' <~ r_stmts b ;; ret (SWhile i c' b')
  | SCall f a => f' <~ r_fname f ;; a' <~ r_args a ;; ret (SCall f' a')
  | SRet _ e => i <~ fresh ;; e' <~ optM r_expr e ;; ret (SRet i e')
  | SNull _ => i <~ fresh ;; ret (SNull i)
  end
with r_stmts (s : stmts) : M stmts :=
  match s with
  | SNil => ret SNil
  | SCons x r => x' <~ r_stmt x ;; r' <~ r_stmts r ;; ret (SCons x' r')
  end
with r_calts (a : calts) : M calts :=
  match a with
  | CANil => ret CANil
  | CACons cs b r => cs' <~ mapM r_cchoice cs ;; b' <~ r_stmts b ;; r' <~ r_calts r ;; ret (CACons cs' b' r')
  end.

Definition r_param (p : param) : M param :=
  o <~ r_occ (p_occ p) ;; t <~ r_tmark (p_ty p) ;; ret (Param o (p_cls p) (p_mode p) t).
Definition r_iface (i : iface) : M iface :=
  o <~ r_occ (i_occ i) ;; t <~ r_tmark (i_ty i) ;; d <~ optM r_expr (i_def i) ;; ret (IFace o (i_mode i) t d).
Definition r_tydef (d : tydef) : M tydef :=
  match d with
  | TDEnum lits => l' <~ mapM r_occ lits ;; ret (TDEnum l')
  | TDInt lo hi => ret d
  | TDRec fs => fs' <~ mapM (fun f => o <~ r_occ (fst f) ;; t <~ r_tmark (snd f) ;; ret (o, t)) fs ;; ret (TDRec fs')
  | TDArr len t => t' <~ r_tmark t ;; ret (TDArr len t')
  end.
Definition r_ldecl (d : ldecl) : M ldecl :=
  match d with
  | LVar o t i => o' <~ r_occ o ;; t' <~ r_tmark t ;; i' <~ optM r_expr i ;; ret (LVar o' t' i')
  | LConst o t i => o' <~ r_occ o ;; t' <~ r_tmark t ;; i' <~ r_expr i ;; ret (LConst o' t' i')
  end.
Definition r_decl (d : decl) : M decl :=
  match d with
  | DType o td => o' <~ r_occ o ;; td' <~ r_tydef td ;; ret (DType o' td')
  | DSubtype o t rng => o' <~ r_occ o ;; t' <~ r_tmark t ;; ret (DSubtype o' t' rng)
  | DConst o t i => o' <~ r_occ o ;; t' <~ r_tmark t ;; i' <~ optM r_expr i ;; ret (DConst o' t' i')
  | DSignal o t i => o' <~ r_occ o ;; t' <~ r_tmark t ;; i' <~ optM r_expr i ;; ret (DSignal o' t' i')
  | DFunDecl o ps r => o' <~ r_occ o ;; ps' <~ mapM r_param ps ;; r' <~ r_tmark r ;; ret (DFunDecl o' ps' r')
  | DProcDecl o ps => o' <~ r_occ o ;; ps' <~ mapM r_param ps ;; ret (DProcDecl o' ps')
  | DFunBody o ps r ls b =>
      o' <~ r_occ o ;; ps' <~ mapM r_param ps ;; r' <~ r_tmark r ;; ls' <~ mapM r_ldecl ls ;; b' <~ r_stmts b ;;
      ret (DFunBody o' ps' r' ls' b')
  | DProcBody o ps ls b =>
      o' <~ r_occ o ;; ps' <~ mapM r_param ps ;; ls' <~ mapM r_ldecl ls ;; b' <~ r_stmts b ;; ret (DProcBody o' ps' ls' b')
  | DComp o gs ps => o' <~ r_occ o ;; gs' <~ mapM r_iface gs ;; ps' <~ mapM r_iface ps ;; ret (DComp o' gs' ps')
  end.
Definition r_actual (a : actual) : M actual :=
  match a with
  | AExpr e => e' <~ r_expr e ;; ret (AExpr e')
  | AOpen _ => i <~ fresh ;; ret (AOpen i)
  end.
Definition r_assoc (a : option occ * actual) : M (option occ * actual) :=
  o <~ optM r_occ (fst a) ;; x <~ r_actual (snd a) ;; ret (o, x).

Fixpoint r_conc (c : conc) : M conc :=
  match c with
  | CProc lbl sens ls b =>
      lbl' <~ r_occ lbl ;; sens' <~ mapM r_name sens ;; ls' <~ mapM r_ldecl ls ;; b' <~ r_stmts b ;;
      ret (CProc lbl' sens' ls' b')
  | CAssign lbl t e => lbl' <~ r_occ lbl ;; t' <~ r_name t ;; e' <~ r_expr e ;; ret (CAssign lbl' t' e')
  | CBlock lbl ds b => lbl' <~ r_occ lbl ;; ds' <~ mapM r_decl ds ;; b' <~ r_concs b ;; ret (CBlock lbl' ds' b')
  | CInstE lbl l e a gm pm =>
      lbl' <~ r_occ lbl ;; l' <~ r_occ l ;; e' <~ r_occ e ;; a' <~ optM r_occ a ;;
      gm' <~ mapM r_assoc gm ;; pm' <~ mapM r_assoc pm ;; ret (CInstE lbl' l' e' a' gm' pm')
  | CInstC lbl c gm pm =>
      lbl' <~ r_occ lbl ;; c' <~ r_occ c ;; gm' <~ mapM r_assoc gm ;; pm' <~ mapM r_assoc pm ;; ret (CInstC lbl' c' gm' pm')
  end
with r_concs (c : concs) : M concs :=
  match c with
  | CNil => ret CNil
  | CCons x r => x' <~ r_conc x ;; r' <~ r_concs r ;; ret (CCons x' r')
  end.

Definition r_ctx_item (x : ctx_item) : M ctx_item :=
  match x with
  | XLib l => l' <~ r_occ l ;; ret (XLib l')
  | XUseAll l p => l' <~ r_occ l ;; p' <~ r_occ p ;; ret (XUseAll l' p')
  | XUseItem l p x => l' <~ r_occ l ;; p' <~ r_occ p ;; x' <~ r_occ x ;; ret (XUseItem l' p' x')
  | XCtxRef l c => l' <~ r_occ l ;; c' <~ r_occ c ;; ret (XCtxRef l' c')
  end.
Definition r_ubody (u : ubody) : M ubody :=
  match u with
  | UPkg o ds => o' <~ r_occ o ;; ds' <~ mapM r_decl ds ;; ret (UPkg o' ds')
  | UBody o ds => o' <~ r_occ o ;; ds' <~ mapM r_decl ds ;; ret (UBody o' ds')
  | UEnt o gs ps => o' <~ r_occ o ;; gs' <~ mapM r_iface gs ;; ps' <~ mapM r_iface ps ;; ret (UEnt o' gs' ps')
  | UArch o e ds b => o' <~ r_occ o ;; e' <~ r_occ e ;; ds' <~ mapM r_decl ds ;; b' <~ r_concs b ;; ret (UArch o' e' ds' b')
  | UCfg o e a => o' <~ r_occ o ;; e' <~ r_occ e ;; a' <~ r_occ a ;; ret (UCfg o' e' a')
  | UCtx o items => o' <~ r_occ o ;; items' <~ mapM r_ctx_item items ;; ret (UCtx o' items')
  | UGen o gs ds => o' <~ r_occ o ;; gs' <~ mapM r_iface gs ;; ds' <~ mapM r_decl ds ;; ret (UGen o' gs' ds')
  | UInst o l g gm => o' <~ r_occ o ;; l' <~ r_occ l ;; g' <~ r_occ g ;; gm' <~ mapM r_assoc gm ;; ret (UInst o' l' g' gm')
  end.
Definition r_dunit (u : dunit) : M dunit :=
  c <~ mapM r_ctx_item (u_ctx u) ;; b <~ r_ubody (u_body u) ;; ret (DUnit c b).
Definition r_library (l : library) : M library :=
  us <~ mapM r_dunit (l_units l) ;; ret (Lib (l_name l) us).
Definition renumber (p : program) : program := fst (mapM r_library p 1).
