(* Mini/ProofsZapSem.v — the zapped occurrence is blamed: for every syntactic category, if a phrase is accepted in an
   environment then the phrase with the occurrence at node s replaced by the never-declared identifier is rejected at
   s with the class of the occurrence's position, in the same environment.  Proofs (used by Mini/ProofsZap.v). *)
From Coq Require Import List NArith Arith Bool Lia.
Import ListNotations.
From RH Require Import Mini.Syntax Mini.Sem Mini.Walk Mini.Faults Mini.ProofsZapSyn Mini.ProofsZapEq.
Open Scope N_scope.

(* ------------------------------------------------------------------------------------------ *)
(* the error monad                                                                              *)
(* ------------------------------------------------------------------------------------------ *)
Lemma bind_ok : forall {A B} (r : res A) (f : A -> res B) v,
  bind r f = Ok v -> exists a, r = Ok a /\ f a = Ok v.
Proof. intros A B [a|n c] f v H; cbn [bind] in H; [eauto|discriminate]. Qed.
Lemma guard_ok : forall b n c (v : unit), guard b n c = Ok v -> b = true.
Proof. intros [|] n c v H; [reflexivity|discriminate]. Qed.

Ltac minv H :=
  lazymatch type of H with
  | bind _ _ = Ok _ =>
      let a := fresh "a" in let E := fresh "E" in let K := fresh "K" in
      apply bind_ok in H; destruct H as (a & E & K); cbn beta in K; minv E; minv K
  | guard _ _ _ = Ok _ => apply guard_ok in H
  | Ok _ = Ok ?y => injection H as H; try subst y
  | _ => idtac
  end.
Ltac okrw :=
  repeat match goal with
  | E : ?r = Ok _ |- context [?r] => rewrite E; cbn [bind]
  | E : ?b = true |- context [guard ?b _ _] => rewrite E; cbn [guard bind]
  end.

(* ------------------------------------------------------------------------------------------ *)
(* the occurrence at node s has a class                                                         *)
(* ------------------------------------------------------------------------------------------ *)
Definition hit (s : nid) (c : cls) (l : list (nid * okind * ident)) : Prop :=
  exists k i, In (s, k, i) l /\ cls_of_okind k = Some c.

Lemma hit_app : forall s c a b, hit s c (a ++ b) -> hit s c a \/ hit s c b.
Proof.
  intros s c a b (k & i & H & Hc). apply in_app_or in H. destruct H as [H|H]; [left|right]; exists k, i; auto.
Qed.
Lemma hit_nil : forall s c, hit s c [] -> False.
Proof. intros s c (k & i & [] & _). Qed.
Lemma hit_oc : forall s c k o, hit s c (oc k o) -> o_nid o = s /\ cls_of_okind k = Some c.
Proof. intros s c k o (k' & i & H & Hc). apply oc_inv in H. destruct H as (H1 & H2 & _). subst k'. auto. Qed.
Lemma hit_flat : forall {A} s c (f : A -> list (nid * okind * ident)) l,
  hit s c (flat_map f l) -> exists x, In x l /\ hit s c (f x).
Proof.
  intros A s c f l (k & i & H & Hc). apply in_flat_map in H. destruct H as (x & Hx & Hi).
  exists x. split; [exact Hx|]. exists k, i. auto.
Qed.
Lemma hit_cons : forall {A} s c (f : A -> list (nid * okind * ident)) x l,
  hit s c (flat_map f (x :: l)) -> hit s c (f x) \/ hit s c (flat_map f l).
Proof. intros A s c f x l H. cbn [flat_map] in H. apply hit_app. exact H. Qed.

(* In s (nids_X x) from hit (oc_X x) *)
Ltac oc2nids Hi :=
  first [ apply oc_occ_in in Hi | apply oc_sel_in in Hi | apply oc_tmark_in in Hi | apply oc_fname_in in Hi
        | apply oc_expr_in in Hi | apply oc_name_in in Hi | apply oc_args_in in Hi | apply oc_oexpr_in in Hi
        | apply oc_cchoice_in in Hi | apply oc_cchoices_in in Hi
        | apply oc_stmt_in in Hi | apply oc_stmts_in in Hi | apply oc_calts_in in Hi
        | apply oc_param_in in Hi | apply oc_params_in in Hi | apply oc_iface_in in Hi | apply oc_ifaces_in in Hi
        | apply oc_fields_in in Hi | apply oc_lits_in in Hi | apply oc_tydef_in in Hi
        | apply oc_ldecl_in in Hi | apply oc_ldecls_in in Hi | apply oc_decl_in in Hi | apply oc_decls_in in Hi
        | apply oc_actual_in in Hi | apply oc_assoc_in in Hi | apply oc_amap_in in Hi | apply oc_names_in in Hi
        | apply oc_conc_in in Hi | apply oc_concs_in in Hi | apply oc_ctx_item_in in Hi | apply oc_ctx_in in Hi
        | apply oc_ubody_in in Hi | apply oc_dunit_in in Hi | apply oc_dunits_in in Hi ].
Ltac hit_fact H :=
  let k := fresh "k" in let i := fresh "i" in let Hi := fresh "Hi" in
  pose proof H as Hi; destruct Hi as (k & i & Hi & _); oc2nids Hi.
(* split a hit on an append into cases; each case gets the membership fact *)
Ltac hit_cases H :=
  lazymatch type of H with
  | hit _ _ (_ ++ _) =>
      let H1 := fresh "Hh" in
      apply hit_app in H; destruct H as [H1|H]; [hit_cases H1 | hit_cases H]
  | hit _ _ [] => exfalso; exact (hit_nil _ _ H)
  | hit _ _ (oc OOther _) => exfalso; apply hit_oc in H; destruct H as (_ & H); discriminate H
  | _ => try hit_fact H
  end.

(* the zapped occurrence is o itself *)
Ltac hit_occ H :=
  let Hn := fresh "Hn" in let Hc := fresh "Hc" in
  apply hit_oc in H; destruct H as (Hn & Hc); cbn [cls_of_okind] in Hc; injection Hc as Hc.

(* rewriting of unchanged parts *)
Ltac unch :=
  repeat match goal with
  | |- context [zap_occ ?s ?o] => rewrite (zo_id s o) by notin
  | |- context [om_tmark (zap_occ ?s) ?o] => rewrite (om_tmark_id s o) by notin
  | |- context [om_fname (zap_occ ?s) ?o] => rewrite (om_fname_id s o) by notin
  | |- context [om_choice (zap_occ ?s) ?o] => rewrite (om_choice_id s o) by notin
  | |- context [om_expr (zap_occ ?s) ?o] => rewrite (om_expr_id s o) by notin
  | |- context [om_name (zap_occ ?s) ?o] => rewrite (om_name_id s o) by notin
  | |- context [om_args (zap_occ ?s) ?o] => rewrite (om_args_id s o) by notin
  | |- context [om_oexpr (zap_occ ?s) ?o] => rewrite (om_oexpr_id s o) by notin
  | |- context [map (om_cchoice (zap_occ ?s)) ?o] => rewrite (om_cchoices_id s o) by notin
  | |- context [om_stmt (zap_occ ?s) ?o] => rewrite (om_stmt_id s o) by notin
  | |- context [om_stmts (zap_occ ?s) ?o] => rewrite (om_stmts_id s o) by notin
  | |- context [om_calts (zap_occ ?s) ?o] => rewrite (om_calts_id s o) by notin
  | |- context [map (om_param (zap_occ ?s)) ?o] => rewrite (om_params_id s o) by notin
  | |- context [map (om_iface (zap_occ ?s)) ?o] => rewrite (om_ifaces_id s o) by notin
  | |- context [om_tydef (zap_occ ?s) ?o] => rewrite (om_tydef_id s o) by notin
  | |- context [map (om_ldecl (zap_occ ?s)) ?o] => rewrite (om_ldecls_id s o) by notin
  | |- context [map (om_decl (zap_occ ?s)) ?o] => rewrite (om_decls_id s o) by notin
  | |- context [map (om_assoc (zap_occ ?s)) ?o] => rewrite (om_amap_id s o) by notin
  | |- context [map (om_name (zap_occ ?s)) ?o] => rewrite (om_names_id s o) by notin
  | |- context [om_conc (zap_occ ?s) ?o] => rewrite (om_conc_id s o) by notin
  | |- context [om_concs (zap_occ ?s) ?o] => rewrite (om_concs_id s o) by notin
  | |- context [map (om_ctx_item (zap_occ ?s)) ?o] => rewrite (om_ctx_id s o) by notin
  | |- context [om_ldecl (zap_occ ?s) ?o] => rewrite (om_ldecl_id s o) by notin
  | |- context [om_decl (zap_occ ?s) ?o] => rewrite (om_decl_id s o) by notin
  | |- context [om_param (zap_occ ?s) ?o] => rewrite (om_param_id s o) by notin
  | |- context [om_iface (zap_occ ?s) ?o] => rewrite (om_iface_id s o) by notin
  | |- context [om_cchoice (zap_occ ?s) ?o] => rewrite (om_cchoice_id s o) by notin
  | |- context [om_actual (zap_occ ?s) ?o] => rewrite (om_actual_id s o) by notin
  | |- context [om_assoc (zap_occ ?s) ?o] => rewrite (om_assoc_id s o) by notin
  | |- context [om_ctx_item (zap_occ ?s) ?o] => rewrite (om_ctx_item_id s o) by notin
  | |- context [om_ubody (zap_occ ?s) ?o] => rewrite (om_ubody_id s o) by notin
  | |- context [om_dunit (zap_occ ?s) ?o] => rewrite (om_dunit_id s o) by notin
  end.

(* ------------------------------------------------------------------------------------------ *)
(* names, type marks                                                                            *)
(* ------------------------------------------------------------------------------------------ *)
Section Zap.
Variable md : mode.
Variable GE : genv.
Variable s : nid.
Variable c : cls.
Notation zo := (zap_occ s).
Notation hits := (hit s c).

Lemma vis_occ_zap : forall G, vis_occ G (Occ s id_undeclared) = Bad s Undeclared.
Proof. reflexivity. Qed.

Lemma sel_pkg_zap : forall G l p ex,
  NoDup (nids_occ l ++ nids_occ p) -> hits (oc OLibPrefix l ++ oc OUnit p) ->
  sel_pkg GE G l p = Ok ex -> sel_pkg GE G (zo l) (zo p) = Bad s c.
Proof.
  intros G l p ex Hnd Hh H. unfold sel_pkg in *. nd. minv H. hit_cases Hh.
  - hit_occ Hh0. rewrite (zo_hit s l Hn). rewrite <- Hc. reflexivity.
  - unch. okrw. hit_occ Hh. rewrite (zo_hit s p Hn). rewrite <- Hc. cbn [o_id o_nid].
    unfold find_unit. cbn. reflexivity.
Qed.
Lemma sel_item_zap : forall G l p o bs,
  NoDup (nids_occ l ++ nids_occ p ++ nids_occ o) -> hits (oc_sel l p o) ->
  sel_item GE G l p o = Ok bs -> sel_item GE G (zo l) (zo p) (zo o) = Bad s c.
Proof.
  intros G l p o bs Hnd Hh H. unfold sel_item in *. unfold oc_sel in Hh. minv H.
  rewrite app_assoc in Hnd, Hh. apply NoDup_app_inv in Hnd. destruct Hnd as (ND1 & ND2 & DJ).
  apply hit_app in Hh. destruct Hh as [Hh|Hh].
  - rewrite (sel_pkg_zap _ _ _ _ ND1 Hh E). reflexivity.
  - hit_fact Hh. unch. okrw. hit_occ Hh. rewrite (zo_hit s o Hn). rewrite <- Hc. reflexivity.
Qed.

Lemma resolve_tmark_zap : forall G t ty,
  NoDup (nids_tmark t) -> hits (oc_tmark t) ->
  resolve_tmark GE G t = Ok ty -> resolve_tmark GE G (om_tmark zo t) = Bad s c.
Proof.
  intros G t ty Hnd Hh H. destruct t; cbn [oc_tmark nids_tmark om_tmark resolve_tmark] in *;
    try (exfalso; exact (hit_nil _ _ Hh)).
  - hit_occ Hh. rewrite (zo_hit s o Hn). rewrite <- Hc. reflexivity.
  - minv H. rewrite (sel_item_zap _ _ _ _ _ Hnd Hh E). reflexivity.
Qed.

Lemma callee_zap : forall G f bs,
  NoDup (nids_fname f) -> hits (oc_fname f) ->
  callee_bindings GE G f = Ok bs -> callee_bindings GE G (om_fname zo f) = Bad s c.
Proof.
  intros G f bs Hnd Hh H. destruct f; cbn [oc_fname nids_fname om_fname callee_bindings] in *.
  - hit_occ Hh. rewrite (zo_hit s o Hn). rewrite <- Hc. reflexivity.
  - exact (sel_item_zap _ _ _ _ _ Hnd Hh H).
Qed.

(* ------------------------------------------------------------------------------------------ *)
(* every actual of a call that has an interpretation has interpretations                        *)
(* ------------------------------------------------------------------------------------------ *)
Lemma split_pos_spec : forall {A} (al : list (choice * A)) p n,
  split_pos al = (p, n) -> al = map (fun a => (ChPos, a)) p ++ n.
Proof.
  intros A. induction al as [|[ch a] r IH]; intros p n H; cbn [split_pos] in H.
  - inversion H; reflexivity.
  - destruct ch; try (inversion H; reflexivity).
    destruct (split_pos r) as [p' n'] eqn:E. inversion H; subst. cbn [map app]. f_equal. apply IH. reflexivity.
Qed.
Lemma assoc_covers : forall {A} fs (al : list (choice * A)) ais,
  assoc fs al = Some ais -> forall x, In x al -> In (snd x) ais.
Proof.
  intros A fs al ais H x Hx. unfold assoc in H. destruct (split_pos al) as [p n] eqn:E.
  destruct ((length p <=? length fs)%nat && named_ok (skipn (length p) fs) n) eqn:C; [|discriminate].
  inversion H; subst ais; clear H. apply split_pos_spec in E. subst al.
  apply in_app_or in Hx. apply in_or_app. destruct Hx as [Hx|Hx].
  - left. apply in_map_iff in Hx. destruct Hx as (a & <- & Ha). exact Ha.
  - right. apply andb_prop in C. destruct C as (_ & C). unfold named_ok in C.
    apply andb_prop in C. destruct C as (C & _). apply andb_prop in C. destruct C as (C & _).
    rewrite forallb_forall in C. specialize (C x Hx). destruct x as [ch a]; cbn [fst snd] in *.
    destruct ch as [|o|]; try discriminate.
    apply existsb_exists in C. destruct C as (y & Hy & Ey).
    apply in_flat_map. exists y. split; [exact Hy|]. unfold named_for. apply in_flat_map.
    exists (ChName o, a). split; [exact Hx|]. cbn [fst snd]. rewrite Ey. left; reflexivity.
Qed.
Lemma count_fits_nil : forall t, count_fits t [] = 0%nat.
Proof. reflexivity. Qed.
Lemma ways_nonempty : forall ts ais, ways ts ais <> 0%nat -> forall x, In x ais -> x <> [].
Proof.
  induction ts as [|t ts IH]; intros [|ai ais] H x Hx; cbn [ways] in H.
  - destruct Hx.
  - exfalso; apply H; reflexivity.
  - destruct Hx.
  - destruct Hx as [Hx|Hx].
    + subst x. intro E; subst ai. apply H. reflexivity.
    + apply (IH ais); [|exact Hx]. intro E. apply H. rewrite E. apply Nat.mul_0_r.
Qed.
Lemma call_ways_nonempty : forall ps (al : list (choice * list sty)),
  call_ways ps al <> 0%nat -> forall x, In x al -> snd x <> [].
Proof.
  intros ps al H x Hx. unfold call_ways in H. destruct (assoc (map ps_name ps) al) as [ais|] eqn:E.
  - eapply ways_nonempty; [exact H|]. eapply assoc_covers; eassumption.
  - exfalso; apply H; reflexivity.
Qed.
Lemma flat_map_repeat_nonnil : forall {A B} (g : A -> B) (h : A -> nat) l,
  flat_map (fun x => repeat (g x) (h x)) l <> [] -> exists x, In x l /\ h x <> 0%nat.
Proof.
  intros A B g h. induction l as [|x r IH]; intro H; cbn [flat_map] in H; [exfalso; apply H; reflexivity|].
  destruct (h x) eqn:E.
  - cbn [repeat app] in H. destruct (IH H) as (y & Hy & Hn). exists y. split; [right; exact Hy|exact Hn].
  - exists x. split; [left; reflexivity|]. rewrite E. discriminate.
Qed.

(* ------------------------------------------------------------------------------------------ *)
(* expressions                                                                                  *)
(* ------------------------------------------------------------------------------------------ *)
Definition is_paren (els : args) : bool := match els with ACons ChPos _ ANil => true | _ => false end.
Lemma root_agg : forall G t i els, root md GE G t (EAgg i els) =
  if is_paren els then Bad i Conservative else
  match t with
  | SRec _ _ fs => root_fields md GE G i fs fs els
  | SArr _ _ len el => root_elems md GE G i el (N.to_nat len) els
  | _ => Bad i TypeMismatch
  end.
Proof. intros. destruct els as [|[| |] e [|]]; reflexivity. Qed.
Lemma is_paren_om : forall els, is_paren (om_args zo els) = is_paren els.
Proof. destruct els as [|[| |] e [|]]; reflexivity. Qed.

Definition is_agg (e : expr) : bool := match e with EAgg _ _ => true | _ => false end.
Lemma root_nonagg : forall G t e, is_agg e = false ->
  root md GE G t e =
  (l <- interp md GE G e ;;
   match count_fits t l with
   | O => let (n, c) := blame md GE G t e in Bad n c
   | S O => Ok tt
   | _ => if crit md 2 then Ok tt else Bad (head_nid e) Ambiguous
   end).
Proof. intros G t e H. destruct e; try reflexivity; discriminate H. Qed.
Lemma is_agg_om : forall e, is_agg (om_expr zo e) = is_agg e.
Proof. destruct e; reflexivity. Qed.

Definition A_expr (e : expr) : Prop := forall G l,
  NoDup (nids_expr e) -> hits (oc_expr e) -> interp md GE G e = Ok l -> l <> [] ->
  interp md GE G (om_expr zo e) = Bad s c.
Definition R_expr (e : expr) : Prop := forall G t v,
  NoDup (nids_expr e) -> hits (oc_expr e) -> root md GE G t e = Ok v ->
  root md GE G t (om_expr zo e) = Bad s c.
Definition N_name (n : name) : Prop := forall G l,
  NoDup (nids_name n) -> hits (oc_name n) -> interp_name md GE G n = Ok l ->
  interp_name md GE G (om_name zo n) = Bad s c.
Definition O_name (n : name) : Prop := forall G l,
  NoDup (nids_name n) -> hits (oc_name n) -> obj_name md GE G n = Ok l ->
  obj_name md GE G (om_name zo n) = Bad s c.
Definition I_args (a : args) : Prop := forall G al,
  NoDup (nids_args a) -> hits (oc_args OOther a) -> interp_args md GE G a = Ok al ->
  (forall x, In x al -> snd x <> []) ->
  interp_args md GE G (om_args zo a) = Bad s c.
Lemma args_has_pos_om : forall a, args_has_pos (om_args zo a) = args_has_pos a.
Proof.
  induction a as [|ch e r IH]; [reflexivity|].
  autorewrite with omeq. destruct ch; cbn [om_choice args_has_pos]; try reflexivity; exact IH.
Qed.
Definition F_args (a : args) : Prop := forall G i all fs v,
  NoDup (nids_args a) -> hits (oc_args OField a) -> root_fields md GE G i all fs a = Ok v ->
  root_fields md GE G i all fs (om_args zo a) = Bad s c.
Definition E_args (a : args) : Prop := forall G i el n v,
  NoDup (nids_args a) -> hits (oc_args OField a) -> root_elems md GE G i el n a = Ok v ->
  root_elems md GE G i el n (om_args zo a) = Bad s c.

Lemma root_of_interp : forall e, is_agg e = false -> A_expr e -> R_expr e.
Proof.
  intros e Hna HA G t v Hnd Hh H. rewrite root_nonagg in H by exact Hna.
  rewrite root_nonagg by (rewrite is_agg_om; exact Hna).
  apply bind_ok in H. destruct H as (l & E & K).
  rewrite (HA G l Hnd Hh E); [reflexivity|].
  intro El. subst l. cbn [count_fits filter length] in K. destruct (blame md GE G t e). discriminate K.
Qed.

Lemma find_field_zap : forall fs, find_field fs (Occ s id_undeclared) = None.
Proof. reflexivity. Qed.

Lemma expr_zap :
  (forall e, A_expr e /\ R_expr e) /\
  (forall n, N_name n /\ O_name n) /\
  (forall a, I_args a /\ F_args a /\ E_args a).
Proof.
  apply expr_name_args_ind.
  - (* EInt *) intros i v.
    assert (HA : A_expr (EInt i v)) by (intros G l Hnd Hh; exfalso; exact (hit_nil _ _ Hh)).
    split; [exact HA | apply root_of_interp; [reflexivity|exact HA]].
  - (* EBit *) intros i b.
    assert (HA : A_expr (EBit i b)) by (intros G l Hnd Hh; exfalso; exact (hit_nil _ _ Hh)).
    split; [exact HA | apply root_of_interp; [reflexivity|exact HA]].
  - (* ENam *) intros n [IHn _].
    assert (HA : A_expr (ENam n)).
    { intros G l Hnd Hh H _. cbn [nids_expr oc_expr] in *. autorewrite with omeq chkeq in *. eapply IHn; eassumption. }
    split; [exact HA | apply root_of_interp; [reflexivity|exact HA]].
  - (* ECall *) intros f a (IHa & _ & _).
    assert (HA : A_expr (ECall f a)).
    { intros G l Hnd Hh H Hl. cbn [nids_expr oc_expr] in *. autorewrite with omeq chkeq in *. nd. minv H.
      hit_cases Hh.
      - rewrite (callee_zap _ _ _ ND Hh0 E). reflexivity.
      - unch. okrw. erewrite IHa; [reflexivity | eassumption ..|].
        apply flat_map_repeat_nonnil in Hl. destruct Hl as (x & _ & Hx).
        eapply call_ways_nonempty. exact Hx. }
    split; [exact HA | apply root_of_interp; [reflexivity|exact HA]].
  - (* EBin *) intros i op l [IHl IHRl] r [IHr IHRr].
    assert (HA : A_expr (EBin i op l r)).
    { intros G li Hnd Hh H Hl. cbn [nids_expr oc_expr] in *. autorewrite with omeq chkeq in *.
      change (is_aggregate (om_expr zo r)) with (is_agg (om_expr zo r)).
      change (is_aggregate (om_expr zo l)) with (is_agg (om_expr zo l)).
      rewrite !is_agg_om. change (is_agg r) with (is_aggregate r). change (is_agg l) with (is_aggregate l).
      nd.
      destruct (is_aggregate r) eqn:Ar.
      - destruct (is_aggregate l) eqn:Al.
        + injection H as H. exfalso. apply Hl. symmetry. exact H.
        + apply bind_ok in H. destruct H as (a & E & K).
          destruct (agg_type G op a) as [t|] eqn:Et.
          * apply bind_ok in K. destruct K as (u & Er & _).
            assert (Ha : a <> []).
            { intro Ea. subst a. unfold agg_type in Et. cbn [filter dedup] in Et. discriminate Et. }
            hit_cases Hh.
            -- erewrite IHl; [reflexivity | eassumption ..].
            -- unch. rewrite E. cbn [bind]. rewrite Et. erewrite IHRr; [reflexivity | eassumption ..].
          * injection K as K. exfalso. apply Hl. symmetry. exact K.
      - destruct (is_aggregate l) eqn:Al.
        + apply bind_ok in H. destruct H as (a & E & K).
          destruct (agg_type G op a) as [t|] eqn:Et.
          * apply bind_ok in K. destruct K as (u & El & _).
            assert (Ha : a <> []).
            { intro Ea. subst a. unfold agg_type in Et. cbn [filter dedup] in Et. discriminate Et. }
            hit_cases Hh.
            -- (* the aggregate (left operand) is checked after the right operand was interpreted *)
               assert (Hr : om_expr zo r = r) by (apply om_expr_id; notin).
               rewrite Hr, E. cbn [bind]. rewrite Et. erewrite IHRl; [reflexivity | eassumption ..].
            -- erewrite IHr; [reflexivity | eassumption ..].
          * injection K as K. exfalso. apply Hl. symmetry. exact K.
        + minv H.
          unfold op_interps in Hl. apply flat_map_repeat_nonnil in Hl.
          destruct Hl as (x & _ & Hx).
          hit_cases Hh.
          * erewrite IHl; [reflexivity | eassumption ..|]. intro El. apply Hx. subst a. reflexivity.
          * unch. okrw. erewrite IHr; [reflexivity | eassumption ..|]. intro El. apply Hx. subst a0.
            cbn [count_fits filter length]. apply Nat.mul_0_r. }
    split; [exact HA | apply root_of_interp; [reflexivity|exact HA]].
  - (* ENot *) intros i e [IHe _].
    assert (HA : A_expr (ENot i e)).
    { intros G li Hnd Hh H Hl. cbn [nids_expr oc_expr] in *. autorewrite with omeq chkeq in *. nd. minv H.
      erewrite IHe; [reflexivity | eassumption ..|]. intro El. apply Hl. subst a. reflexivity. }
    split; [exact HA | apply root_of_interp; [reflexivity|exact HA]].
  - (* EAgg *) intros i els (_ & IHf & IHe). split.
    + intros G l Hnd Hh H Hl. autorewrite with chkeq in H. injection H as H. exfalso. apply Hl. symmetry; exact H.
    + intros G t v Hnd Hh H. cbn [nids_expr oc_expr] in *. autorewrite with omeq. rewrite root_agg in *. nd.
      rewrite is_paren_om. destruct (is_paren els); [discriminate H|].
      destruct t; try discriminate H; [eapply IHf | eapply IHe]; eassumption.
  - (* EQual *) intros t e [_ IHe].
    assert (HA : A_expr (EQual t e)).
    { intros G li Hnd Hh H Hl. cbn [nids_expr oc_expr] in *. autorewrite with omeq chkeq in *. nd. minv H.
      hit_cases Hh.
      - rewrite (resolve_tmark_zap _ _ _ ND Hh0 E). reflexivity.
      - unch. okrw. erewrite IHe; [reflexivity | eassumption ..]. }
    split; [exact HA | apply root_of_interp; [reflexivity|exact HA]].
  - (* NId *) intros o. split.
    + intros G l Hnd Hh H. cbn [nids_name oc_name] in *. autorewrite with omeq chkeq in *.
      hit_occ Hh. rewrite (zo_hit s o Hn). rewrite <- Hc. reflexivity.
    + intros G l Hnd Hh H. cbn [nids_name oc_name] in *. autorewrite with omeq chkeq in *.
      hit_occ Hh. rewrite (zo_hit s o Hn). rewrite <- Hc. reflexivity.
  - (* NSel *) intros l p o. split.
    + intros G li Hnd Hh H. cbn [nids_name oc_name] in *. autorewrite with omeq chkeq in *. minv H.
      rewrite (sel_item_zap _ _ _ _ _ Hnd Hh E). reflexivity.
    + intros G li Hnd Hh H. cbn [nids_name oc_name] in *. autorewrite with omeq chkeq in *. minv H.
      rewrite (sel_item_zap _ _ _ _ _ Hnd Hh E). reflexivity.
  - (* NFld *) intros n [_ IHn] f. split.
    + intros G li Hnd Hh H. cbn [nids_name oc_name] in *. autorewrite with omeq chkeq in *. nd. minv H.
      hit_cases Hh.
      * erewrite IHn; [reflexivity | eassumption ..].
      * unch. okrw. destruct (snd a); try discriminate K.
        hit_occ Hh. rewrite (zo_hit s f Hn). rewrite find_field_zap. rewrite <- Hc. reflexivity.
    + intros G li Hnd Hh H. cbn [nids_name oc_name] in *. autorewrite with omeq chkeq in *. nd. minv H.
      hit_cases Hh.
      * erewrite IHn; [reflexivity | eassumption ..].
      * unch. okrw. destruct (snd a); try discriminate K.
        hit_occ Hh. rewrite (zo_hit s f Hn). rewrite find_field_zap. rewrite <- Hc. reflexivity.
  - (* NIdx *) intros n [_ IHn] e [_ IHe]. split.
    + intros G li Hnd Hh H. cbn [nids_name oc_name] in *. autorewrite with omeq chkeq in *. nd. minv H.
      hit_cases Hh.
      * erewrite IHn; [reflexivity | eassumption ..].
      * unch. okrw. destruct (snd a); try discriminate K. minv K.
        erewrite IHe; [reflexivity | eassumption ..].
    + intros G li Hnd Hh H. cbn [nids_name oc_name] in *. autorewrite with omeq chkeq in *. nd. minv H.
      hit_cases Hh.
      * erewrite IHn; [reflexivity | eassumption ..].
      * unch. okrw. destruct (snd a); try discriminate K. minv K.
        erewrite IHe; [reflexivity | eassumption ..].
  - (* ANil *) split; [|split]; intros G; intros; exfalso; eapply hit_nil; eassumption.
  - (* ACons *) intros ch e [IHe IHr] r (IHa & IHf & IHel). split; [|split].
    + intros G al Hnd Hh H Hne. cbn [nids_args oc_args] in *. autorewrite with omeq chkeq in *. nd. minv H.
      hit_cases Hh.
      * destruct ch; try (exfalso; exact (hit_nil _ _ Hh0)).
        exfalso. apply hit_oc in Hh0. destruct Hh0 as (_ & X). discriminate X.
      * erewrite IHe; [reflexivity | eassumption ..|]. apply (Hne (ch, a)). left; reflexivity.
      * unch. okrw. erewrite IHa; [reflexivity | eassumption ..|]. intros x Hx. apply Hne. right; exact Hx.
    + intros G i all fs v Hnd Hh H. cbn [nids_args oc_args] in *. autorewrite with omeq in *. nd.
      destruct ch as [|f|]; cbn [om_choice nids_choice] in *; autorewrite with chkeq in *; rewrite ?args_has_pos_om in *; try discriminate H.
      * destruct fs as [|ft fs']; [discriminate H|]. minv H. hit_cases Hh.
        -- erewrite IHr; [reflexivity | eassumption ..].
        -- unch. okrw. erewrite IHf; [reflexivity | eassumption ..].
      * destruct (find_field all f) as [x|] eqn:Ef; [|discriminate H]. minv H. hit_cases Hh.
        -- hit_occ Hh0. rewrite (zo_hit s f Hn). rewrite find_field_zap. rewrite <- Hc. reflexivity.
        -- unch. rewrite Ef. okrw. erewrite IHr; [reflexivity | eassumption ..].
        -- unch. rewrite Ef. okrw. erewrite IHf; [reflexivity | eassumption ..].
      * destruct r as [|c' e' r']; autorewrite with omeq chkeq in *; [|discriminate H].
        destruct fs as [|ft fs']; [discriminate H|].
        destruct (forallb (fun y => sty_eqb (snd y) (snd ft)) fs'); cbn [guard bind] in *; [|discriminate H].
        hit_cases Hh; [eapply IHr; eassumption | exfalso; exact (hit_nil _ _ Hh)].
    + intros G i el n v Hnd Hh H. cbn [nids_args oc_args] in *. autorewrite with omeq in *. nd.
      destruct ch as [|f|]; cbn [om_choice nids_choice] in *.
      * autorewrite with chkeq in *. destruct n as [|n']; [discriminate H|]. minv H. hit_cases Hh.
        -- erewrite IHr; [reflexivity | eassumption ..].
        -- unch. okrw. erewrite IHel; [reflexivity | eassumption ..].
      * autorewrite with chkeq in H. discriminate H.
      * destruct r as [|c' e' r']; autorewrite with omeq chkeq in *; [|discriminate H].
        hit_cases Hh; [eapply IHr; eassumption | exfalso; exact (hit_nil _ _ Hh)].
Qed.
Definition interp_zap e := proj1 (proj1 expr_zap e).
Definition root_zap e := proj2 (proj1 expr_zap e).
Definition interp_name_zap n := proj1 (proj1 (proj2 expr_zap) n).
Definition obj_name_zap n := proj2 (proj1 (proj2 expr_zap) n).
Definition interp_args_zap a := proj1 (proj2 (proj2 expr_zap) a).

(* ------------------------------------------------------------------------------------------ *)
(* lists checked element by element                                                             *)
(* ------------------------------------------------------------------------------------------ *)
Lemma hit_flat_in : forall {A} (nA : A -> list nid) (ocA : A -> list (nid * okind * ident)) l,
  (forall k i x, In (s, k, i) (ocA x) -> In s (nA x)) -> hits (flat_map ocA l) -> In s (flat_map nA l).
Proof.
  intros A nA ocA l Hin (k & i & H & _). apply in_flat_map in H. destruct H as (x & Hx & Hi).
  apply in_flat_map. exists x. split; [exact Hx|]. eapply Hin; exact Hi.
Qed.
Lemma hit_one_in : forall {A} (nA : A -> list nid) (ocA : A -> list (nid * okind * ident)) x,
  (forall k i x, In (s, k, i) (ocA x) -> In s (nA x)) -> hits (ocA x) -> In s (nA x).
Proof. intros A nA ocA x Hin (k & i & H & _). eapply Hin; exact H. Qed.

Lemma check_list_zap : forall {A} (nA : A -> list nid) (ocA : A -> list (nid * okind * ident)) (omA : A -> A)
    (f : A -> res unit),
  (forall x, ~ In s (nA x) -> omA x = x) ->
  (forall k i x, In (s, k, i) (ocA x) -> In s (nA x)) ->
  (forall x v, NoDup (nA x) -> hits (ocA x) -> f x = Ok v -> f (omA x) = Bad s c) ->
  forall l v, NoDup (flat_map nA l) -> hits (flat_map ocA l) -> check_list f l = Ok v ->
  check_list f (map omA l) = Bad s c.
Proof.
  intros A nA ocA omA f Hid Hin Hf. induction l as [|x r IH]; intros v Hnd Hh H; cbn [flat_map map check_list] in *.
  - exfalso; exact (hit_nil _ _ Hh).
  - nd. minv H. apply hit_app in Hh. destruct Hh as [Hh|Hh].
    + rewrite (Hf x _ ND Hh E). reflexivity.
    + pose proof (hit_flat_in nA ocA r Hin Hh) as Hi. rewrite Hid by notin. okrw. eapply IH; eassumption.
Qed.

(* ------------------------------------------------------------------------------------------ *)
(* sequential statements                                                                        *)
(* ------------------------------------------------------------------------------------------ *)
Lemma check_target_zap : forall G w t ty,
  NoDup (nids_name t) -> hits (oc_name t) -> check_target md GE G w t = Ok ty ->
  check_target md GE G w (om_name zo t) = Bad s c.
Proof.
  intros G w t ty Hnd Hh H. unfold check_target in *. minv H.
  erewrite obj_name_zap; [reflexivity | eassumption ..].
Qed.

Lemma check_oinit_zap : forall G t e v,
  NoDup (nids_oexpr e) -> hits (oc_oexpr e) -> check_oinit md GE G t e = Ok v ->
  check_oinit md GE G t (om_oexpr zo e) = Bad s c.
Proof.
  intros G t [e|] v Hnd Hh H; cbn [nids_oexpr oc_oexpr om_oexpr check_oinit] in *.
  - eapply root_zap; eassumption.
  - exfalso; exact (hit_nil _ _ Hh).
Qed.

Lemma check_cchoice_zap : forall G t x v,
  NoDup (nids_cchoice x) -> hits (oc_cchoice x) -> check_cchoice G t x = Ok v ->
  check_cchoice G t (om_cchoice zo x) = Bad s c.
Proof.
  intros G t [o|i n] v Hnd Hh H; cbn [nids_cchoice oc_cchoice om_cchoice check_cchoice] in *.
  - hit_occ Hh. rewrite (zo_hit s o Hn). rewrite <- Hc. reflexivity.
  - exfalso; exact (hit_nil _ _ Hh).
Qed.
Lemma check_cchoices_zap : forall G t l v,
  NoDup (flat_map nids_cchoice l) -> hits (flat_map oc_cchoice l) -> check_list (check_cchoice G t) l = Ok v ->
  check_list (check_cchoice G t) (map (om_cchoice zo) l) = Bad s c.
Proof.
  intros G t. apply (check_list_zap nids_cchoice oc_cchoice).
  - apply om_cchoice_id.
  - intros k i x. apply oc_cchoice_in.
  - apply check_cchoice_zap.
Qed.

(* the case choices keep distinct keys: the zapped literal gets a key no accepted choice has *)
Definition lit_ok (cc : cchoice) : Prop := match cc with CCLit o => o_id o <> id_undeclared | CCInt _ _ => True end.
Lemma check_cchoice_lit_ok : forall G t cc v, check_cchoice G t cc = Ok v -> lit_ok cc.
Proof.
  intros G t [o|i n] v H; cbn [lit_ok]; [|exact I]. cbn [check_cchoice] in H. minv H.
  intro E0. unfold vis_occ, vis in E. rewrite E0 in E. discriminate E.
Qed.
Lemma check_cchoices_lit_ok : forall G t l v, check_list (check_cchoice G t) l = Ok v -> Forall lit_ok l.
Proof.
  intros G t. induction l as [|x r IH]; intros v H; cbn [check_list] in H; constructor; minv H.
  - eapply check_cchoice_lit_ok; eassumption.
  - eapply IH; eassumption.
Qed.
Lemma check_calts_lit_ok : forall G t alts v,
  check_calts md GE G t alts = Ok v -> Forall lit_ok (calts_choices alts).
Proof.
  intros G t. induction alts as [|cs b r IH]; intros v H; cbn [calts_choices].
  - constructor.
  - autorewrite with chkeq in H. minv H. apply Forall_app. split.
    + eapply check_cchoices_lit_ok; eassumption.
    + eapply IH; eassumption.
Qed.
Lemma calts_choices_om : forall alts,
  calts_choices (om_calts zo alts) = map (om_cchoice zo) (calts_choices alts).
Proof.
  induction alts as [|cs b r IH]; autorewrite with omeq; cbn [calts_choices map]; [reflexivity|].
  rewrite map_app, IH. reflexivity.
Qed.
Notation cnt l := (count_occ N.eq_dec l s).
Lemma cnt_calts_choices : forall alts,
  (cnt (flat_map nids_cchoice (calts_choices alts)) <= cnt (nids_calts alts))%nat.
Proof.
  induction alts as [|cs b r IH]; cbn [calts_choices nids_calts flat_map]; [apply Nat.le_refl|].
  rewrite flat_map_app. rewrite !count_occ_app. apply Nat.add_le_mono_l.
  eapply Nat.le_trans; [exact IH | apply Nat.le_add_l].
Qed.
Lemma om_cchoice_cases : forall cc,
  om_cchoice zo cc = cc \/ (exists o, cc = CCLit o /\ o_nid o = s).
Proof.
  intros [o|i n]; cbn [om_cchoice]; [|left; reflexivity].
  unfold zap_occ. destruct (N.eqb_spec (o_nid o) s) as [E|E]; [right; exists o; auto|left; reflexivity].
Qed.
Lemma key00 : forall cc, lit_ok cc -> key_eqb (cchoice_key cc) (0, 0) = false /\ key_eqb (0, 0) (cchoice_key cc) = false.
Proof.
  intros [o|i n] H; cbn [lit_ok cchoice_key] in *; unfold key_eqb; cbn [fst snd]; [|split; reflexivity].
  apply N.eqb_neq in H. unfold id_undeclared in H. split; [rewrite H | rewrite (N.eqb_sym 0 (o_id o)), H]; reflexivity.
Qed.
Lemma le1_add_r : forall a b : nat, (a + b <= 1 -> b <= 1)%nat.
Proof. intros; lia. Qed.
Lemma le1_S : forall b : nat, (S b <= 1 -> b = 0)%nat.
Proof. intros; lia. Qed.
Lemma nodup_keys_zap_list : forall L,
  Forall lit_ok L -> (cnt (flat_map nids_cchoice L) <= 1)%nat ->
  nodup_keys (map cchoice_key L) = true ->
  nodup_keys (map cchoice_key (map (om_cchoice zo) L)) = true.
Proof.
  induction L as [|a r IH]; intros Hok Hc H; cbn [map nodup_keys flat_map] in *; [reflexivity|].
  inversion Hok as [|? ? Ha Hr]; subst. rewrite count_occ_app in Hc.
  apply andb_prop in H. destruct H as (H1 & H2). apply negb_true_iff in H1.
  destruct (om_cchoice_cases a) as [E|(o & E & Eo)].
  - rewrite E. rewrite IH; [|exact Hr|exact (le1_add_r _ _ Hc)|exact H2]. rewrite andb_true_r. apply negb_true_iff.
    clear - H1 Hr Ha. induction r as [|b r IHr]; cbn [map existsb] in *; [reflexivity|].
    inversion Hr; subst. apply orb_false_elim in H1. destruct H1 as (K1 & K2).
    rewrite IHr by assumption. rewrite orb_false_r.
    destruct (om_cchoice_cases b) as [Eb|(o & Eb & Eo)].
    + rewrite Eb. exact K1.
    + subst b. cbn [om_cchoice]. rewrite (zo_hit s o Eo). cbn [cchoice_key o_id]. apply key00. exact Ha.
  - subst a. cbn [nids_cchoice] in Hc. unfold nids_occ in Hc. cbn [count_occ] in Hc.
    destruct (N.eq_dec (o_nid o) s) as [_|X]; [|contradiction]. cbn [Nat.add] in Hc. apply le1_S in Hc.
    assert (Hn : ~ In s (flat_map nids_cchoice r)) by (apply (count_occ_not_In N.eq_dec); exact Hc).
    rewrite om_cchoices_id by exact Hn. rewrite H2, andb_true_r. apply negb_true_iff.
    cbn [om_cchoice]. rewrite (zo_hit s o Eo). cbn [cchoice_key o_id].
    clear - Hr. induction r as [|b r IHr]; cbn [map existsb]; [reflexivity|].
    inversion Hr; subst. rewrite IHr by assumption. rewrite orb_false_r. apply key00. assumption.
Qed.
Lemma nodup_keys_zap : forall G t alts v,
  NoDup (nids_calts alts) -> check_calts md GE G t alts = Ok v ->
  nodup_keys (map cchoice_key (calts_choices alts)) = true ->
  nodup_keys (map cchoice_key (calts_choices (om_calts zo alts))) = true.
Proof.
  intros G t alts v Hnd Hc H. rewrite calts_choices_om. apply nodup_keys_zap_list.
  - eapply check_calts_lit_ok; eassumption.
  - eapply Nat.le_trans; [apply cnt_calts_choices|]. apply (proj1 (NoDup_count_occ N.eq_dec _) Hnd).
  - exact H.
Qed.

Definition P_stmt (x : stmt) : Prop := forall G v,
  NoDup (nids_stmt x) -> hits (oc_stmt x) -> check_stmt md GE G x = Ok v ->
  check_stmt md GE G (om_stmt zo x) = Bad s c.
Definition P_stmts (x : stmts) : Prop := forall G v,
  NoDup (nids_stmts x) -> hits (oc_stmts x) -> check_stmts md GE G x = Ok v ->
  check_stmts md GE G (om_stmts zo x) = Bad s c.
Definition P_calts (x : calts) : Prop := forall G t v,
  NoDup (nids_calts x) -> hits (oc_calts x) -> check_calts md GE G t x = Ok v ->
  check_calts md GE G t (om_calts zo x) = Bad s c.

Lemma stmt_zap : (forall x, P_stmt x) /\ (forall x, P_stmts x) /\ (forall x, P_calts x).
Proof.
  apply stmt_stmts_calts_ind.
  - (* SSig *) intros i t e G v Hnd Hh H. cbn [nids_stmt oc_stmt] in *. autorewrite with omeq chkeq in *. nd. minv H.
    hit_cases Hh.
    + erewrite check_target_zap; [reflexivity | eassumption ..].
    + unch. okrw. eapply root_zap; eassumption.
  - (* SVar *) intros i t e G v Hnd Hh H. cbn [nids_stmt oc_stmt] in *. autorewrite with omeq chkeq in *. nd. minv H.
    hit_cases Hh.
    + erewrite check_target_zap; [reflexivity | eassumption ..].
    + unch. okrw. eapply root_zap; eassumption.
  - (* SIf *) intros i e th IHth el IHel G v Hnd Hh H. cbn [nids_stmt oc_stmt] in *.
    autorewrite with omeq chkeq in *. nd. minv H. hit_cases Hh.
    + erewrite root_zap; [reflexivity | eassumption ..].
    + unch. okrw. erewrite IHth; [reflexivity | eassumption ..].
    + unch. okrw. eapply IHel; eassumption.
  - (* SCase *) intros i sel alts IHa oth IHo G v Hnd Hh H. cbn [nids_stmt oc_stmt] in *.
    autorewrite with omeq chkeq in *. nd. minv H. hit_cases Hh.
    + erewrite obj_name_zap; [reflexivity | eassumption ..].
    + unch. okrw. erewrite nodup_keys_zap; [|eassumption ..]. cbn [guard bind].
      erewrite IHa; [reflexivity | eassumption ..].
    + unch. okrw. eapply IHo; eassumption.
  - (* SFor *) intros i o lo hi b IHb G v Hnd Hh H. cbn [nids_stmt oc_stmt] in *.
    autorewrite with omeq chkeq in *. nd. minv H. hit_cases Hh.
    unch. okrw. eapply IHb; eassumption.
  - (* SWhile *) intros i e b IHb G v Hnd Hh H. cbn [nids_stmt oc_stmt] in *.
    autorewrite with omeq chkeq in *. nd. minv H. hit_cases Hh.
    + erewrite root_zap; [reflexivity | eassumption ..].
    + unch. okrw. eapply IHb; eassumption.
  - (* SCall *) intros f a G v Hnd Hh H. cbn [nids_stmt oc_stmt] in *.
    autorewrite with omeq chkeq in *. nd. minv H. hit_cases Hh.
    + erewrite callee_zap; [reflexivity | eassumption ..].
    + unch. okrw. erewrite interp_args_zap; [reflexivity | eassumption ..|].
      destruct (filter (fun ps => negb (Nat.eqb (call_ways ps a1) 0)) (procs_of a0)) as [|ps r] eqn:Ef;
        [discriminate K0|].
      assert (Hps : In ps (filter (fun ps => negb (Nat.eqb (call_ways ps a1) 0)) (procs_of a0)))
        by (rewrite Ef; left; reflexivity).
      apply filter_In in Hps. destruct Hps as (_ & Hps). apply negb_true_iff in Hps. apply Nat.eqb_neq in Hps.
      eapply call_ways_nonempty. exact Hps.
  - (* SRet *) intros i e G v Hnd Hh H. cbn [nids_stmt oc_stmt] in *. autorewrite with omeq chkeq in *. nd.
    destruct e as [e|]; cbn [om_oexpr oc_oexpr nids_oexpr] in *; [|exfalso; exact (hit_nil _ _ Hh)].
    destruct (e_ret G) as [[t|]|]; try discriminate H. eapply root_zap; eassumption.
  - (* SNull *) intros i G v Hnd Hh H. exfalso; exact (hit_nil _ _ Hh).
  - (* SNil *) intros G v Hnd Hh H. exfalso; exact (hit_nil _ _ Hh).
  - (* SCons *) intros x IHx r IHr G v Hnd Hh H. cbn [nids_stmts oc_stmts] in *.
    autorewrite with omeq chkeq in *. nd. minv H. hit_cases Hh.
    + erewrite IHx; [reflexivity | eassumption ..].
    + unch. okrw. eapply IHr; eassumption.
  - (* CANil *) intros G t v Hnd Hh H. exfalso; exact (hit_nil _ _ Hh).
  - (* CACons *) intros cs b IHb r IHr G t v Hnd Hh H. cbn [nids_calts oc_calts] in *.
    autorewrite with omeq chkeq in *. nd. minv H. hit_cases Hh.
    + erewrite check_cchoices_zap; [reflexivity | eassumption ..].
    + unch. okrw. erewrite IHb; [reflexivity | eassumption ..].
    + unch. okrw. eapply IHr; eassumption.
Qed.
Definition check_stmts_zap := proj1 (proj2 stmt_zap).

(* ------------------------------------------------------------------------------------------ *)
(* declarations                                                                                 *)
(* ------------------------------------------------------------------------------------------ *)
Lemma check_ldecl_zap : forall G d G',
  NoDup (nids_ldecl d) -> hits (oc_ldecl d) -> check_ldecl md GE G d = Ok G' ->
  check_ldecl md GE G (om_ldecl zo d) = Bad s c.
Proof.
  intros G [o t i|o t e] G' Hnd Hh H; cbn [nids_ldecl oc_ldecl om_ldecl check_ldecl] in *; nd; minv H; hit_cases Hh.
  - erewrite resolve_tmark_zap; [reflexivity | eassumption ..].
  - unch. okrw. erewrite check_oinit_zap; [reflexivity | eassumption ..].
  - erewrite resolve_tmark_zap; [reflexivity | eassumption ..].
  - unch. okrw. erewrite root_zap; [reflexivity | eassumption ..].
Qed.
Lemma check_ldecls_zap : forall l G G',
  NoDup (flat_map nids_ldecl l) -> hits (flat_map oc_ldecl l) -> check_ldecls md GE G l = Ok G' ->
  check_ldecls md GE G (map (om_ldecl zo) l) = Bad s c.
Proof.
  induction l as [|d r IH]; intros G G' Hnd Hh H; cbn [flat_map map check_ldecls] in *.
  - exfalso; exact (hit_nil _ _ Hh).
  - nd. minv H. hit_cases Hh.
    + erewrite check_ldecl_zap; [reflexivity | eassumption ..].
    + unch. okrw. eapply IH; eassumption.
Qed.

Lemma check_param_types_zap : forall G ps v,
  NoDup (flat_map nids_param ps) -> hits (flat_map oc_param ps) -> check_param_types GE G ps = Ok v ->
  check_param_types GE G (map (om_param zo) ps) = Bad s c.
Proof.
  intros G. unfold check_param_types. apply (check_list_zap nids_param oc_param).
  - apply om_param_id.
  - intros k i x. apply oc_param_in.
  - intros [po pc pm pt] v Hnd Hh H. unfold nids_param, oc_param, om_param in *. cbn [p_occ p_ty] in *.
    nd. minv H. hit_cases Hh. erewrite resolve_tmark_zap; [reflexivity | eassumption ..].
Qed.

Lemma declare_ifaces_zap : forall cl l G G',
  NoDup (flat_map nids_iface l) -> hits (flat_map oc_iface l) -> declare_ifaces md GE cl G l = Ok G' ->
  declare_ifaces md GE cl G (map (om_iface zo) l) = Bad s c.
Proof.
  intros cl. induction l as [|[io im it idf] r IH]; intros G G' Hnd Hh H; cbn [flat_map map declare_ifaces] in *.
  - exfalso; exact (hit_nil _ _ Hh).
  - unfold nids_iface, oc_iface, om_iface in *. cbn [i_occ i_mode i_ty i_def] in *. nd. minv H. hit_cases Hh.
    + erewrite resolve_tmark_zap; [reflexivity | eassumption ..].
    + unch. okrw. erewrite check_oinit_zap; [reflexivity | eassumption ..].
    + unch. okrw. eapply IH; eassumption.
Qed.

Lemma hit_others : forall l, hits (flat_map (oc OOther) l) -> False.
Proof.
  intros l H. apply hit_flat in H. destruct H as (x & _ & H). apply hit_oc in H. destruct H as (_ & H). discriminate H.
Qed.
Lemma allowed_om : forall r d, allowed r (om_decl zo d) = allowed r d.
Proof. intros r [o td|o t rg|o t [e|]|o t [e|]|o ps rt|o ps|o ps rt ls b|o ps ls b|o gs ps]; reflexivity. Qed.
Lemma decl_occ_om : forall d, decl_occ (om_decl zo d) = zo (decl_occ d).
Proof. intros [o td|o t rg|o t i|o t i|o ps rt|o ps|o ps rt ls b|o ps ls b|o gs ps]; reflexivity. Qed.
Lemma decl_occ_nids : forall d, exists l, nids_decl d = nids_occ (decl_occ d) ++ l.
Proof. intros [o td|o t rg|o t i|o t i|o ps rt|o ps|o ps rt ls b|o ps ls b|o gs ps]; cbn [nids_decl decl_occ]; eexists; reflexivity. Qed.
Lemma decl_occ_hit : forall d, hits (oc_decl d) -> NoDup (nids_decl d) -> ~ In s (nids_occ (decl_occ d)).
Proof.
  intros d Hh Hnd. destruct (decl_occ_nids d) as (l & El).
  assert (Hl : hits (oc_decl d) -> In s l).
  { clear Hnd. destruct d as [o td|o t rg|o t i|o t i|o ps rt|o ps|o ps rt ls b|o ps ls b|o gs ps];
      cbn [nids_decl decl_occ oc_decl] in *; apply app_inv_head in El; subst l; intro H;
      apply hit_app in H; destruct H as [H|H];
      try (exfalso; apply hit_oc in H; destruct H as (_ & H); discriminate H);
      destruct H as (k & ii & H & _).
    - eapply oc_tydef_in; eassumption.
    - eapply oc_tmark_in; eassumption.
    - rewrite in_app_iff in *. destruct H; eauto with ocn.
    - rewrite in_app_iff in *. destruct H; eauto with ocn.
    - rewrite in_app_iff in *. destruct H; eauto with ocn.
    - eauto with ocn.
    - rewrite ?in_app_iff in *. repeat destruct H as [H|H]; eauto 8 with ocn.
    - rewrite ?in_app_iff in *. repeat destruct H as [H|H]; eauto 8 with ocn.
    - rewrite ?in_app_iff in *. repeat destruct H as [H|H]; eauto 8 with ocn. }
  rewrite El in Hnd. apply NoDup_app_inv in Hnd. destruct Hnd as (_ & _ & DJ). intro X. exact (DJ s X (Hl Hh)).
Qed.

Lemma check_fields_zap : forall G (fs : list (occ * tmark)) v,
  NoDup (flat_map (fun f => nids_occ (fst f) ++ nids_tmark (snd f)) fs) ->
  hits (flat_map (fun x => oc OOther (fst x) ++ oc_tmark (snd x)) fs) ->
  check_list (fun f => resolve_tmark GE G (snd f) ;;;
                       guard (negb (o_id (fst f) =? id_undeclared)) (o_nid (fst f)) Conservative) fs = Ok v ->
  check_list (fun f => resolve_tmark GE G (snd f) ;;;
                       guard (negb (o_id (fst f) =? id_undeclared)) (o_nid (fst f)) Conservative)
             (map (fun x => (zo (fst x), om_tmark zo (snd x))) fs) = Bad s c.
Proof.
  intros G. apply (check_list_zap (fun f : occ * tmark => nids_occ (fst f) ++ nids_tmark (snd f))
                                  (fun x : occ * tmark => oc OOther (fst x) ++ oc_tmark (snd x))).
  - intros [o t] H; cbn [fst snd] in *. f_equal; [apply zo_id; ni | apply om_tmark_id; ni].
  - intros k i [o t] H; cbn [fst snd] in *. rewrite in_app_iff in *. destruct H; eauto with ocn.
  - intros [o t] v Hnd Hh H; cbn [fst snd] in *. nd. minv H. hit_cases Hh.
    erewrite resolve_tmark_zap; [reflexivity | eassumption ..].
Qed.

Lemma check_sub_body_zap : forall G ps ret ls b v,
  NoDup (flat_map nids_ldecl ls) -> NoDup (nids_stmts b) -> disj (flat_map nids_ldecl ls) (nids_stmts b) ->
  hits (flat_map oc_ldecl ls ++ oc_stmts b) ->
  check_sub_body md GE G ps ret ls b = Ok v ->
  check_sub_body md GE G ps ret (map (om_ldecl zo) ls) (om_stmts zo b) = Bad s c.
Proof.
  intros G ps ret ls b v ND1 ND2 DJ Hh H. unfold check_sub_body in *. minv H. okrw. hit_cases Hh.
  - erewrite check_ldecls_zap; [reflexivity | eassumption ..].
  - unch. okrw. eapply check_stmts_zap; eassumption.
Qed.

Lemma nonempty_map : forall {A B} (g : A -> B) l,
  match map g l with [] => false | _ :: _ => true end = match l with [] => false | _ :: _ => true end.
Proof. intros A B g [|x l]; reflexivity. Qed.

Lemma check_decl_zap : forall r obl G d G',
  NoDup (nids_decl d) -> hits (oc_decl d) -> check_decl md GE r obl G d = Ok G' ->
  check_decl md GE r obl G (om_decl zo d) = Bad s c.
Proof.
  intros r obl G d G' Hnd Hh H. unfold check_decl in *.
  rewrite allowed_om, decl_occ_om. rewrite (zo_id s (decl_occ d)) by (apply decl_occ_hit; assumption).
  apply bind_ok in H. destruct H as (u & E0 & H). apply guard_ok in E0. rewrite E0. cbn [guard bind].
  destruct d as [o td|o t rg|o t i|o t i|o ps rt|o ps|o ps rt ls b|o ps ls b|o gs ps];
    cbn [nids_decl oc_decl om_decl] in *; nd.
  - (* DType *) destruct td as [lits|lo hi|fs|len el]; cbn [nids_tydef oc_tydef om_tydef] in *.
    + hit_cases Hh. exfalso; exact (hit_others _ Hh).
    + hit_cases Hh.
    + minv H. hit_cases Hh. rewrite nonempty_map. okrw.
      erewrite check_fields_zap; [reflexivity | eassumption ..].
    + minv H. hit_cases Hh. okrw. erewrite resolve_tmark_zap; [reflexivity | eassumption ..].
  - (* DSubtype *) minv H. hit_cases Hh. erewrite resolve_tmark_zap; [reflexivity | eassumption ..].
  - (* DConst *) destruct i as [e|]; cbn [om_oexpr oc_oexpr nids_oexpr] in *; minv H; hit_cases Hh.
    + erewrite resolve_tmark_zap; [reflexivity | eassumption ..].
    + unch. okrw. erewrite root_zap; [reflexivity | eassumption ..].
    + erewrite resolve_tmark_zap; [reflexivity | eassumption ..].
  - (* DSignal *) minv H; hit_cases Hh.
    + erewrite resolve_tmark_zap; [reflexivity | eassumption ..].
    + unch. okrw. erewrite check_oinit_zap; [reflexivity | eassumption ..].
  - (* DFunDecl *) minv H; hit_cases Hh.
    + erewrite check_param_types_zap; [reflexivity | eassumption ..].
    + unch. okrw. erewrite resolve_tmark_zap; [reflexivity | eassumption ..].
  - (* DProcDecl *) minv H; hit_cases Hh.
    erewrite check_param_types_zap; [reflexivity | eassumption ..].
  - (* DFunBody *) minv H.
    apply hit_app in Hh. destruct Hh as [Hh|Hh]; [exfalso; apply hit_oc in Hh; destruct Hh as (_ & X); discriminate X|].
    apply hit_app in Hh. destruct Hh as [Hh|Hh]; [|apply hit_app in Hh; destruct Hh as [Hh|Hh]].
    + hit_fact Hh. erewrite check_param_types_zap; [reflexivity | eassumption ..].
    + hit_fact Hh. unch. okrw. erewrite resolve_tmark_zap; [reflexivity | eassumption ..].
    + assert (Hi : In s (flat_map nids_ldecl ls ++ nids_stmts b)).
      { destruct Hh as (k & ii & Hi & _). rewrite in_app_iff in *. destruct Hi; eauto with ocn. }
      unch. okrw. erewrite check_sub_body_zap; [reflexivity | eassumption ..].
  - (* DProcBody *) minv H.
    apply hit_app in Hh. destruct Hh as [Hh|Hh]; [exfalso; apply hit_oc in Hh; destruct Hh as (_ & X); discriminate X|].
    apply hit_app in Hh. destruct Hh as [Hh|Hh].
    + hit_fact Hh. erewrite check_param_types_zap; [reflexivity | eassumption ..].
    + assert (Hi : In s (flat_map nids_ldecl ls ++ nids_stmts b)).
      { destruct Hh as (k & ii & Hi & _). rewrite in_app_iff in *. destruct Hi; eauto with ocn. }
      unch. okrw. erewrite check_sub_body_zap; [reflexivity | eassumption ..].
  - (* DComp *) minv H; hit_cases Hh.
    + erewrite declare_ifaces_zap; [reflexivity | eassumption ..].
    + unch. okrw. erewrite declare_ifaces_zap; [reflexivity | eassumption ..].
Qed.

Lemma check_decls_zap : forall r obl l G G',
  NoDup (flat_map nids_decl l) -> hits (flat_map oc_decl l) -> check_decls md GE r obl G l = Ok G' ->
  check_decls md GE r obl G (map (om_decl zo) l) = Bad s c.
Proof.
  intros r obl. induction l as [|d l IH]; intros G G' Hnd Hh H; cbn [flat_map map check_decls] in *.
  - exfalso; exact (hit_nil _ _ Hh).
  - nd. minv H. hit_cases Hh.
    + erewrite check_decl_zap; [reflexivity | eassumption ..].
    + unch. okrw. eapply IH; eassumption.
Qed.

End Zap.
