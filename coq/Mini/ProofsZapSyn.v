(* Mini/ProofsZapSyn.v — syntactic lemmas behind Mini/ProofsZap.v: the plants `zap`, `dup`, `sub_phrase` are maps over
   design units that leave a unit without the site's node id unchanged; occurrences classified by `oc_*` carry node
   ids of `nids_*`.  Proofs. *)
From Coq Require Import List NArith Arith Bool Lia.
Import ListNotations.
From RH Require Import Mini.Syntax Mini.Sem Mini.Walk Mini.Faults.
Open Scope N_scope.

(* ------------------------------------------------------------------------------------------ *)
(* lists of node ids                                                                            *)
(* ------------------------------------------------------------------------------------------ *)
Definition disj (a b : list nid) : Prop := forall x, In x a -> In x b -> False.

Lemma NoDup_app_inv : forall (a b : list nid), NoDup (a ++ b) -> NoDup a /\ NoDup b /\ disj a b.
Proof.
  induction a as [|x a IH]; intros b H; cbn [app] in H.
  - split; [constructor|]. split; [exact H|]. intros y [].
  - apply NoDup_cons_iff in H. destruct H as [Hx H]. destruct (IH _ H) as (Ha & Hb & Hd).
    split.
    { constructor; [|exact Ha]. intro X. apply Hx. apply in_or_app. left; exact X. }
    split; [exact Hb|].
    intros y [E|Hy] Hyb.
    { subst y. apply Hx. apply in_or_app. right; exact Hyb. }
    exact (Hd y Hy Hyb).
Qed.

Ltac in_tac := cbn [In] in *; rewrite ?in_app_iff in *; cbn [In] in *; rewrite ?in_app_iff in *; tauto.
(* ~ In s small  from  ~ In s big *)
Ltac ni :=
  match goal with
  | H : ~ In ?s _ |- ~ In ?s _ => let X := fresh "X" in intro X; apply H; in_tac
  end.

(* decomposition of NoDup hypotheses *)
Ltac nd :=
  repeat match goal with
  | H : NoDup (_ ++ _) |- _ =>
      let H1 := fresh "ND" in let H2 := fresh "ND" in let H3 := fresh "DJ" in
      apply NoDup_app_inv in H; destruct H as (H1 & H2 & H3)
  | H : NoDup (_ :: _) |- _ =>
      let H1 := fresh "NI" in let H2 := fresh "ND" in
      apply NoDup_cons_iff in H; destruct H as (H1 & H2)
  end.
(* ~ In s l  from a disjointness fact and a known position of s *)
Ltac notin :=
  let X := fresh "X" in
  intro X;
  match goal with
  | D : disj _ _ |- _ =>
      match type of X with In ?s _ => solve [apply (D s); in_tac] end
  end.

Lemma map_om_id : forall {A} (nA : A -> list nid) (f : A -> A) (s : nid) (l : list A),
  (forall x, ~ In s (nA x) -> f x = x) -> ~ In s (flat_map nA l) -> map f l = l.
Proof.
  intros A nA f s l Hf. induction l as [|x r IH]; intro H; cbn [map flat_map] in *; [reflexivity|].
  f_equal; [apply Hf; ni | apply IH; ni].
Qed.

(* ------------------------------------------------------------------------------------------ *)
(* zap leaves phrases without the node id unchanged                                             *)
(* ------------------------------------------------------------------------------------------ *)
Section ZapId.
Variable s : nid.
Notation zo := (zap_occ s).

Lemma zo_id : forall o, ~ In s (nids_occ o) -> zo o = o.
Proof.
  intros o H. unfold nids_occ in H. cbn [In] in H. unfold zap_occ.
  destruct (N.eqb_spec (o_nid o) s) as [E|E]; [tauto|reflexivity].
Qed.
Lemma zo_hit : forall o, o_nid o = s -> zo o = Occ s id_undeclared.
Proof. intros o H. unfold zap_occ. rewrite H, N.eqb_refl. reflexivity. Qed.
Lemma zo_nid : forall o, o_nid (zo o) = o_nid o.
Proof. intros o. unfold zap_occ. destruct (N.eqb_spec (o_nid o) s) as [E|E]; [symmetry; exact E|reflexivity]. Qed.

Lemma om_tmark_id : forall t, ~ In s (nids_tmark t) -> om_tmark zo t = t.
Proof. destruct t; cbn [nids_tmark om_tmark]; intro H; f_equal; try reflexivity; apply zo_id; ni. Qed.
Lemma om_fname_id : forall t, ~ In s (nids_fname t) -> om_fname zo t = t.
Proof. destruct t; cbn [nids_fname om_fname]; intro H; f_equal; try reflexivity; apply zo_id; ni. Qed.
Lemma om_choice_id : forall t, ~ In s (nids_choice t) -> om_choice zo t = t.
Proof. destruct t; cbn [nids_choice om_choice]; intro H; f_equal; try reflexivity; apply zo_id; ni. Qed.

Ltac idstep :=
  first [ reflexivity
        | apply zo_id; ni | apply om_tmark_id; ni | apply om_fname_id; ni | apply om_choice_id; ni
        | match goal with IH : _ -> ?g |- ?g => apply IH; ni end ].

Lemma om_expr_name_args_id :
  (forall e, ~ In s (nids_expr e) -> om_expr zo e = e) /\
  (forall n, ~ In s (nids_name n) -> om_name zo n = n) /\
  (forall a, ~ In s (nids_args a) -> om_args zo a = a).
Proof.
  apply expr_name_args_ind; intros;
    cbn [nids_expr nids_name nids_args om_expr om_name om_args] in *; f_equal; idstep.
Qed.
Definition om_expr_id := proj1 om_expr_name_args_id.
Definition om_name_id := proj1 (proj2 om_expr_name_args_id).
Definition om_args_id := proj2 (proj2 om_expr_name_args_id).

Lemma om_oexpr_id : forall e, ~ In s (nids_oexpr e) -> om_oexpr zo e = e.
Proof. destruct e; cbn [nids_oexpr om_oexpr]; intro H; f_equal; try reflexivity. apply om_expr_id; ni. Qed.
Lemma om_cchoice_id : forall t, ~ In s (nids_cchoice t) -> om_cchoice zo t = t.
Proof. destruct t; cbn [nids_cchoice om_cchoice]; intro H; f_equal; try reflexivity; apply zo_id; ni. Qed.
Lemma om_cchoices_id : forall l, ~ In s (flat_map nids_cchoice l) -> map (om_cchoice zo) l = l.
Proof. intros l. apply map_om_id. exact om_cchoice_id. Qed.

Lemma om_stmt_stmts_calts_id :
  (forall x, ~ In s (nids_stmt x) -> om_stmt zo x = x) /\
  (forall x, ~ In s (nids_stmts x) -> om_stmts zo x = x) /\
  (forall x, ~ In s (nids_calts x) -> om_calts zo x = x).
Proof.
  apply stmt_stmts_calts_ind; intros;
    cbn [nids_stmt nids_stmts nids_calts om_stmt om_stmts om_calts] in *; f_equal;
    first [ reflexivity
          | apply zo_id; ni | apply om_fname_id; ni | apply om_expr_id; ni | apply om_name_id; ni
          | apply om_args_id; ni | apply om_oexpr_id; ni | apply om_cchoices_id; ni
          | match goal with IH : _ -> ?g |- ?g => apply IH; ni end ].
Qed.
Definition om_stmt_id := proj1 om_stmt_stmts_calts_id.
Definition om_stmts_id := proj1 (proj2 om_stmt_stmts_calts_id).
Definition om_calts_id := proj2 (proj2 om_stmt_stmts_calts_id).

Lemma om_param_id : forall p, ~ In s (nids_param p) -> om_param zo p = p.
Proof.
  intros [po pc pm pt]; unfold nids_param, om_param; cbn [p_occ p_ty p_cls p_mode]; intro H; f_equal;
    [apply zo_id; ni | apply om_tmark_id; ni].
Qed.
Lemma om_params_id : forall l, ~ In s (flat_map nids_param l) -> map (om_param zo) l = l.
Proof. intros l. apply map_om_id. exact om_param_id. Qed.
Lemma om_iface_id : forall p, ~ In s (nids_iface p) -> om_iface zo p = p.
Proof.
  intros [io im it id]; unfold nids_iface, om_iface; cbn [i_occ i_ty i_mode i_def]; intro H; f_equal;
    [apply zo_id; ni | apply om_tmark_id; ni | apply om_oexpr_id; ni].
Qed.
Lemma om_ifaces_id : forall l, ~ In s (flat_map nids_iface l) -> map (om_iface zo) l = l.
Proof. intros l. apply map_om_id. exact om_iface_id. Qed.
Lemma om_occs_id : forall l, ~ In s (flat_map nids_occ l) -> map zo l = l.
Proof. intros l. apply map_om_id. exact zo_id. Qed.
Lemma om_fields_id : forall (l : list (occ * tmark)),
  ~ In s (flat_map (fun f => nids_occ (fst f) ++ nids_tmark (snd f)) l) ->
  map (fun x => (zo (fst x), om_tmark zo (snd x))) l = l.
Proof.
  intros l. apply (map_om_id (fun f : occ * tmark => nids_occ (fst f) ++ nids_tmark (snd f))).
  intros [o t] H; cbn [fst snd] in *. f_equal; [apply zo_id; ni | apply om_tmark_id; ni].
Qed.
Lemma om_tydef_id : forall d, ~ In s (nids_tydef d) -> om_tydef zo d = d.
Proof.
  destruct d; cbn [nids_tydef om_tydef]; intro H; f_equal; try reflexivity;
    [apply om_occs_id; exact H | apply om_fields_id; exact H | apply om_tmark_id; exact H].
Qed.
Lemma om_ldecl_id : forall d, ~ In s (nids_ldecl d) -> om_ldecl zo d = d.
Proof.
  destruct d; cbn [nids_ldecl om_ldecl]; intro H; f_equal;
    first [apply zo_id; ni | apply om_tmark_id; ni | apply om_oexpr_id; ni | apply om_expr_id; ni].
Qed.
Lemma om_ldecls_id : forall l, ~ In s (flat_map nids_ldecl l) -> map (om_ldecl zo) l = l.
Proof. intros l. apply map_om_id. exact om_ldecl_id. Qed.
Lemma om_decl_id : forall d, ~ In s (nids_decl d) -> om_decl zo d = d.
Proof.
  destruct d; cbn [nids_decl om_decl]; intro H; f_equal;
    first [ reflexivity | apply zo_id; ni | apply om_tmark_id; ni | apply om_oexpr_id; ni | apply om_tydef_id; ni
          | apply om_params_id; ni | apply om_ldecls_id; ni | apply om_stmts_id; ni | apply om_ifaces_id; ni ].
Qed.
Lemma om_decls_id : forall l, ~ In s (flat_map nids_decl l) -> map (om_decl zo) l = l.
Proof. intros l. apply map_om_id. exact om_decl_id. Qed.
Lemma om_actual_id : forall a, ~ In s (nids_actual a) -> om_actual zo a = a.
Proof. destruct a; cbn [nids_actual om_actual]; intro H; f_equal; try reflexivity. apply om_expr_id; exact H. Qed.
Lemma om_assoc_id : forall a, ~ In s (nids_assoc a) -> om_assoc zo a = a.
Proof.
  intros [[o|] a]; unfold nids_assoc, om_assoc; cbn [fst snd]; intro H; f_equal;
    first [ reflexivity | apply om_actual_id; ni | f_equal; apply zo_id; ni ].
Qed.
Lemma om_amap_id : forall m, ~ In s (nids_amap m) -> map (om_assoc zo) m = m.
Proof. intros l. apply map_om_id. exact om_assoc_id. Qed.
Lemma om_names_id : forall l, ~ In s (flat_map nids_name l) -> map (om_name zo) l = l.
Proof. intros l. apply map_om_id. exact om_name_id. Qed.
Lemma om_oocc_id : forall a, ~ In s (nids_oocc a) ->
  match a with Some a => Some (zo a) | None => None end = a.
Proof. destruct a; cbn [nids_oocc]; intro H; f_equal; try reflexivity. apply zo_id; exact H. Qed.

Lemma om_conc_concs_id :
  (forall x, ~ In s (nids_conc x) -> om_conc zo x = x) /\
  (forall x, ~ In s (nids_concs x) -> om_concs zo x = x).
Proof.
  apply conc_concs_ind; intros; cbn [nids_conc nids_concs om_conc om_concs] in *; f_equal;
    first [ reflexivity
          | apply zo_id; ni | apply om_names_id; ni | apply om_ldecls_id; ni | apply om_stmts_id; ni
          | apply om_name_id; ni | apply om_expr_id; ni | apply om_decls_id; ni | apply om_amap_id; ni
          | apply om_oocc_id; ni
          | match goal with IH : _ -> ?g |- ?g => apply IH; ni end ].
Qed.
Definition om_conc_id := proj1 om_conc_concs_id.
Definition om_concs_id := proj2 om_conc_concs_id.

Lemma om_ctx_item_id : forall x, ~ In s (nids_ctx_item x) -> om_ctx_item zo x = x.
Proof. destruct x; cbn [nids_ctx_item om_ctx_item]; intro H; f_equal; apply zo_id; ni. Qed.
Lemma om_ctx_id : forall l, ~ In s (flat_map nids_ctx_item l) -> map (om_ctx_item zo) l = l.
Proof. intros l. apply map_om_id. exact om_ctx_item_id. Qed.
Lemma om_ubody_id : forall u, ~ In s (nids_ubody u) -> om_ubody zo u = u.
Proof.
  destruct u; cbn [nids_ubody om_ubody]; intro H; f_equal;
    first [ apply zo_id; ni | apply om_decls_id; ni | apply om_ifaces_id; ni | apply om_concs_id; ni
          | apply om_ctx_id; ni | apply om_amap_id; ni ].
Qed.
Lemma om_dunit_id : forall u, ~ In s (nids_dunit u) -> om_dunit zo u = u.
Proof.
  destruct u as [cx b]; unfold nids_dunit, om_dunit; cbn [u_ctx u_body]; intro H; f_equal;
    [apply om_ctx_id; ni | apply om_ubody_id; ni].
Qed.
Lemma om_dunits_id : forall l, ~ In s (flat_map nids_dunit l) -> map (om_dunit zo) l = l.
Proof. intros l. apply map_om_id. exact om_dunit_id. Qed.
End ZapId.

(* ------------------------------------------------------------------------------------------ *)
(* classified occurrences carry node ids of the phrase                                          *)
(* ------------------------------------------------------------------------------------------ *)
Lemma oc_inv : forall s k i k' o, In (s, k, i) (oc k' o) -> o_nid o = s /\ k = k' /\ i = o_id o.
Proof. unfold oc; cbn [In]; intros s k i k' o [H|[]]; inversion H; auto. Qed.
Lemma oc_occ_in : forall s k i k' o, In (s, k, i) (oc k' o) -> In s (nids_occ o).
Proof. intros s k i k' o H. apply oc_inv in H. destruct H as (H & _). unfold nids_occ. left. exact H. Qed.
Lemma oc_flat_in : forall {A} (ocA : A -> list (nid * okind * ident)) (nA : A -> list nid),
  (forall s k i x, In (s, k, i) (ocA x) -> In s (nA x)) ->
  forall s k i l, In (s, k, i) (flat_map ocA l) -> In s (flat_map nA l).
Proof.
  intros A ocA nA H s k i l Hin. apply in_flat_map in Hin. destruct Hin as (x & Hx & Hi).
  apply in_flat_map. exists x. split; [exact Hx|]. eapply H; exact Hi.
Qed.

Create HintDb ocn discriminated.
#[export] Hint Resolve oc_occ_in : ocn.
Ltac ocn_tac :=
  intros; cbn [In] in *; rewrite ?in_app_iff in *;
  repeat match goal with H : _ \/ _ |- _ => destruct H end;
  try match goal with H : In _ [] |- _ => destruct H end;
  try match goal with H : False |- _ => destruct H end;
  eauto 9 with ocn.

Lemma oc_sel_in : forall s k i l p o, In (s, k, i) (oc_sel l p o) -> In s (nids_occ l ++ nids_occ p ++ nids_occ o).
Proof. unfold oc_sel. ocn_tac. Qed.
Lemma oc_tmark_in : forall s k i t, In (s, k, i) (oc_tmark t) -> In s (nids_tmark t).
Proof. destruct t; cbn [oc_tmark nids_tmark]; [intros [] | intros [] | intros [] | ocn_tac | apply oc_sel_in]. Qed.
Lemma oc_fname_in : forall s k i t, In (s, k, i) (oc_fname t) -> In s (nids_fname t).
Proof. destruct t; cbn [oc_fname nids_fname]; [ocn_tac | apply oc_sel_in]. Qed.
#[export] Hint Resolve oc_tmark_in oc_fname_in oc_sel_in : ocn.

Lemma oc_expr_name_args_in : forall s k i,
  (forall e, In (s, k, i) (oc_expr e) -> In s (nids_expr e)) /\
  (forall n, In (s, k, i) (oc_name n) -> In s (nids_name n)) /\
  (forall a, forall kc, In (s, k, i) (oc_args kc a) -> In s (nids_args a)).
Proof.
  intros s k i. apply expr_name_args_ind; intros;
    cbn [oc_expr oc_name oc_args nids_expr nids_name nids_args] in *;
    try match goal with H : In _ [] |- _ => destruct H end.
  all: try solve [ocn_tac].
  - eapply oc_sel_in; eassumption.
  - destruct c; cbn [nids_choice]; ocn_tac.
Qed.
Lemma oc_expr_in : forall s k i e, In (s, k, i) (oc_expr e) -> In s (nids_expr e).
Proof. intros s k i. exact (proj1 (oc_expr_name_args_in s k i)). Qed.
Lemma oc_name_in : forall s k i e, In (s, k, i) (oc_name e) -> In s (nids_name e).
Proof. intros s k i. exact (proj1 (proj2 (oc_expr_name_args_in s k i))). Qed.
Lemma oc_args_in : forall s k i kc e, In (s, k, i) (oc_args kc e) -> In s (nids_args e).
Proof. intros s k i kc e. exact (proj2 (proj2 (oc_expr_name_args_in s k i)) e kc). Qed.
#[export] Hint Resolve oc_expr_in oc_name_in oc_args_in : ocn.

Lemma oc_oexpr_in : forall s k i e, In (s, k, i) (oc_oexpr e) -> In s (nids_oexpr e).
Proof. destruct e; cbn [oc_oexpr nids_oexpr]; [apply oc_expr_in | intros []]. Qed.
Lemma oc_cchoice_in : forall s k i e, In (s, k, i) (oc_cchoice e) -> In s (nids_cchoice e).
Proof. destruct e; cbn [oc_cchoice nids_cchoice]; [apply oc_occ_in | intros []]. Qed.
Lemma oc_cchoices_in : forall s k i l, In (s, k, i) (flat_map oc_cchoice l) -> In s (flat_map nids_cchoice l).
Proof. apply oc_flat_in. exact oc_cchoice_in. Qed.
#[export] Hint Resolve oc_oexpr_in oc_cchoice_in oc_cchoices_in : ocn.

Lemma oc_stmt_stmts_calts_in : forall s k i,
  (forall x, In (s, k, i) (oc_stmt x) -> In s (nids_stmt x)) /\
  (forall x, In (s, k, i) (oc_stmts x) -> In s (nids_stmts x)) /\
  (forall x, In (s, k, i) (oc_calts x) -> In s (nids_calts x)).
Proof.
  intros s k i. apply stmt_stmts_calts_ind; intros;
    cbn [oc_stmt oc_stmts oc_calts nids_stmt nids_stmts nids_calts] in *;
    try match goal with H : In _ [] |- _ => destruct H end;
    try (right; solve [ocn_tac]); ocn_tac.
Qed.
Lemma oc_stmt_in : forall s k i e, In (s, k, i) (oc_stmt e) -> In s (nids_stmt e).
Proof. intros s k i. exact (proj1 (oc_stmt_stmts_calts_in s k i)). Qed.
Lemma oc_stmts_in : forall s k i e, In (s, k, i) (oc_stmts e) -> In s (nids_stmts e).
Proof. intros s k i. exact (proj1 (proj2 (oc_stmt_stmts_calts_in s k i))). Qed.
Lemma oc_calts_in : forall s k i e, In (s, k, i) (oc_calts e) -> In s (nids_calts e).
Proof. intros s k i. exact (proj2 (proj2 (oc_stmt_stmts_calts_in s k i))). Qed.
#[export] Hint Resolve oc_stmt_in oc_stmts_in oc_calts_in : ocn.

Lemma oc_param_in : forall s k i e, In (s, k, i) (oc_param e) -> In s (nids_param e).
Proof. unfold oc_param, nids_param. ocn_tac. Qed.
Lemma oc_params_in : forall s k i l, In (s, k, i) (flat_map oc_param l) -> In s (flat_map nids_param l).
Proof. apply oc_flat_in. exact oc_param_in. Qed.
Lemma oc_iface_in : forall s k i e, In (s, k, i) (oc_iface e) -> In s (nids_iface e).
Proof. unfold oc_iface, nids_iface. ocn_tac. Qed.
Lemma oc_ifaces_in : forall s k i l, In (s, k, i) (flat_map oc_iface l) -> In s (flat_map nids_iface l).
Proof. apply oc_flat_in. exact oc_iface_in. Qed.
Lemma oc_lits_in : forall s k i kk l, In (s, k, i) (flat_map (oc kk) l) -> In s (flat_map nids_occ l).
Proof. intros s k i kk. apply oc_flat_in. intros. eapply oc_occ_in; eassumption. Qed.
Lemma oc_fields_in : forall s k i (l : list (occ * tmark)),
  In (s, k, i) (flat_map (fun x => oc OOther (fst x) ++ oc_tmark (snd x)) l) ->
  In s (flat_map (fun f => nids_occ (fst f) ++ nids_tmark (snd f)) l).
Proof. apply (oc_flat_in (fun x : occ * tmark => oc OOther (fst x) ++ oc_tmark (snd x))). ocn_tac. Qed.
#[export] Hint Resolve oc_param_in oc_params_in oc_iface_in oc_ifaces_in oc_lits_in oc_fields_in : ocn.
Lemma oc_tydef_in : forall s k i e, In (s, k, i) (oc_tydef e) -> In s (nids_tydef e).
Proof. destruct e; cbn [oc_tydef nids_tydef]; [ocn_tac | intros [] | ocn_tac | ocn_tac]. Qed.
Lemma oc_ldecl_in : forall s k i e, In (s, k, i) (oc_ldecl e) -> In s (nids_ldecl e).
Proof. destruct e; cbn [oc_ldecl nids_ldecl]; ocn_tac. Qed.
Lemma oc_ldecls_in : forall s k i l, In (s, k, i) (flat_map oc_ldecl l) -> In s (flat_map nids_ldecl l).
Proof. apply oc_flat_in. exact oc_ldecl_in. Qed.
#[export] Hint Resolve oc_tydef_in oc_ldecl_in oc_ldecls_in : ocn.
Lemma oc_decl_in : forall s k i e, In (s, k, i) (oc_decl e) -> In s (nids_decl e).
Proof. destruct e; cbn [oc_decl nids_decl]; ocn_tac. Qed.
Lemma oc_decls_in : forall s k i l, In (s, k, i) (flat_map oc_decl l) -> In s (flat_map nids_decl l).
Proof. apply oc_flat_in. exact oc_decl_in. Qed.
Lemma oc_actual_in : forall s k i e, In (s, k, i) (oc_actual e) -> In s (nids_actual e).
Proof. destruct e; cbn [oc_actual nids_actual]; [apply oc_expr_in | intros []]. Qed.
#[export] Hint Resolve oc_decl_in oc_decls_in oc_actual_in : ocn.
Lemma oc_assoc_in : forall s k i e, In (s, k, i) (oc_assoc e) -> In s (nids_assoc e).
Proof. intros s k i [[o|] a]; unfold oc_assoc, nids_assoc; cbn [fst snd]; ocn_tac. Qed.
Lemma oc_amap_in : forall s k i l, In (s, k, i) (flat_map oc_assoc l) -> In s (nids_amap l).
Proof. unfold nids_amap. apply oc_flat_in. exact oc_assoc_in. Qed.
Lemma oc_names_in : forall s k i l, In (s, k, i) (flat_map oc_name l) -> In s (flat_map nids_name l).
Proof. apply oc_flat_in. exact oc_name_in. Qed.
#[export] Hint Resolve oc_assoc_in oc_amap_in oc_names_in : ocn.

Lemma oc_conc_concs_in : forall s k i,
  (forall x, In (s, k, i) (oc_conc x) -> In s (nids_conc x)) /\
  (forall x, In (s, k, i) (oc_concs x) -> In s (nids_concs x)).
Proof.
  intros s k i. apply conc_concs_ind; intros; cbn [oc_conc oc_concs nids_conc nids_concs] in *;
    try match goal with H : In _ [] |- _ => destruct H end.
  - ocn_tac.
  - ocn_tac.
  - ocn_tac.
  - destruct arch; cbn [nids_oocc]; ocn_tac.
  - ocn_tac.
  - ocn_tac.
Qed.
Lemma oc_conc_in : forall s k i e, In (s, k, i) (oc_conc e) -> In s (nids_conc e).
Proof. intros s k i. exact (proj1 (oc_conc_concs_in s k i)). Qed.
Lemma oc_concs_in : forall s k i e, In (s, k, i) (oc_concs e) -> In s (nids_concs e).
Proof. intros s k i. exact (proj2 (oc_conc_concs_in s k i)). Qed.
#[export] Hint Resolve oc_conc_in oc_concs_in : ocn.
Lemma oc_ctx_item_in : forall s k i e, In (s, k, i) (oc_ctx_item e) -> In s (nids_ctx_item e).
Proof. destruct e; cbn [oc_ctx_item nids_ctx_item]; try apply oc_sel_in; ocn_tac. Qed.
Lemma oc_ctx_in : forall s k i l, In (s, k, i) (flat_map oc_ctx_item l) -> In s (flat_map nids_ctx_item l).
Proof. apply oc_flat_in. exact oc_ctx_item_in. Qed.
#[export] Hint Resolve oc_ctx_item_in oc_ctx_in : ocn.
Lemma oc_ubody_in : forall s k i e, In (s, k, i) (oc_ubody e) -> In s (nids_ubody e).
Proof. destruct e; cbn [oc_ubody nids_ubody]; ocn_tac. Qed.
#[export] Hint Resolve oc_ubody_in : ocn.
Lemma oc_dunit_in : forall s k i e, In (s, k, i) (oc_dunit e) -> In s (nids_dunit e).
Proof. unfold oc_dunit, nids_dunit. ocn_tac. Qed.
Lemma oc_dunits_in : forall s k i l, In (s, k, i) (flat_map oc_dunit l) -> In s (flat_map nids_dunit l).
Proof. apply oc_flat_in. exact oc_dunit_in. Qed.
#[export] Hint Resolve oc_dunit_in oc_dunits_in : ocn.

(* ------------------------------------------------------------------------------------------ *)
(* dup leaves units without the node id unchanged                                               *)
(* ------------------------------------------------------------------------------------------ *)
Lemma decl_occ_in : forall d, In (o_nid (decl_occ d)) (nids_decl d).
Proof. destruct d; cbn [decl_occ nids_decl]; apply in_or_app; left; unfold nids_occ; left; reflexivity. Qed.

Lemma dup_decls_id : forall s m ds, ~ In s (flat_map nids_decl ds) -> dup_decls s m ds = ds.
Proof.
  intros s m. induction ds as [|d r IH]; intro H; cbn [dup_decls flat_map] in *; [reflexivity|].
  destruct (N.eqb_spec (o_nid (decl_occ d)) s) as [E|E].
  - exfalso. apply H. apply in_or_app. left. rewrite <- E. apply decl_occ_in.
  - f_equal. apply IH. ni.
Qed.
Lemma dup_conc_concs_id : forall s m,
  (forall x, ~ In s (nids_conc x) -> dup_conc s m x = x) /\
  (forall x, ~ In s (nids_concs x) -> dup_concs s m x = x).
Proof.
  intros s m. apply conc_concs_ind; intros; cbn [nids_conc nids_concs dup_conc dup_concs] in *; try reflexivity.
  - f_equal; [apply dup_decls_id; ni | apply H; ni].
  - f_equal; [apply H; ni | apply H0; ni].
Qed.
Lemma dup_ubody_id : forall s m u, ~ In s (nids_ubody u) -> dup_ubody s m u = u.
Proof.
  intros s m. destruct u; cbn [nids_ubody dup_ubody]; intro H; try reflexivity; f_equal;
    first [apply dup_decls_id; ni | apply (proj2 (dup_conc_concs_id s m)); ni].
Qed.

(* ------------------------------------------------------------------------------------------ *)
(* phrase replacement leaves units without the phrase id unchanged                              *)
(* ------------------------------------------------------------------------------------------ *)
Lemma fname_occ_in : forall f, In (o_nid (fname_occ f)) (nids_fname f).
Proof. destruct f; cbn [fname_occ nids_fname]; unfold nids_occ; in_tac. Qed.
Lemma stmt_nid_in : forall x, In (stmt_nid x) (nids_stmt x).
Proof.
  destruct x; cbn [stmt_nid nids_stmt]; try (left; reflexivity).
  apply in_or_app. left. apply fname_occ_in.
Qed.
Lemma conc_nid_in : forall x, In (conc_nid x) (nids_conc x).
Proof. destruct x; cbn [conc_nid nids_conc]; apply in_or_app; left; unfold nids_occ; left; reflexivity. Qed.

Section SubId.
Variable s : nid.
Variable fs : stmt -> stmt.
Variable fc : conc -> conc.
Variable fe : expr -> expr.

Lemma sub_stmt_stmts_calts_id :
  (forall x, ~ In s (nids_stmt x) -> sub_stmt s fs x = x) /\
  (forall x, ~ In s (nids_stmts x) -> sub_stmts s fs x = x) /\
  (forall x, ~ In s (nids_calts x) -> sub_calts s fs x = x).
Proof.
  apply stmt_stmts_calts_ind; intros;
    try (match goal with H : ~ In s (nids_stmt ?x) |- sub_stmt s fs ?x = _ =>
           assert (Hn : (stmt_nid x =? s) = false)
             by (apply N.eqb_neq; intro E; apply H; rewrite <- E; apply stmt_nid_in);
           cbn [sub_stmt sub_stmts sub_calts]; rewrite Hn; clear Hn
         end);
    cbn [nids_stmt nids_stmts nids_calts sub_stmts sub_calts] in *; f_equal;
    first [ reflexivity | match goal with IH : _ -> ?g |- ?g => apply IH; ni end ].
Qed.
Definition sub_stmts_id := proj1 (proj2 sub_stmt_stmts_calts_id).

Lemma occ_neq : forall o, ~ In s (nids_occ o) -> (o_nid o =? s) = false.
Proof. intros o H. apply N.eqb_neq. intro E. apply H. unfold nids_occ. left. exact E. Qed.
Lemma sub_oinit_id : forall o e, ~ In s (nids_occ o) -> sub_oinit s fe o e = e.
Proof. intros o [e|] H; cbn [sub_oinit]; [rewrite (occ_neq _ H)|]; reflexivity. Qed.
Lemma sub_ldecl_id : forall d, ~ In s (nids_ldecl d) -> sub_ldecl s fe d = d.
Proof.
  destruct d; cbn [nids_ldecl sub_ldecl]; intro H.
  - rewrite sub_oinit_id by ni. reflexivity.
  - rewrite occ_neq by ni. reflexivity.
Qed.
Lemma sub_ldecls_id : forall l, ~ In s (flat_map nids_ldecl l) -> map (sub_ldecl s fe) l = l.
Proof. intros l. apply map_om_id. exact sub_ldecl_id. Qed.
Lemma sub_iface_id : forall i, ~ In s (nids_iface i) -> sub_iface s fe i = i.
Proof.
  intros [io im it id]; unfold nids_iface, sub_iface; cbn [i_occ i_mode i_ty i_def]; intro H.
  rewrite sub_oinit_id by ni. reflexivity.
Qed.
Lemma sub_ifaces_id : forall l, ~ In s (flat_map nids_iface l) -> map (sub_iface s fe) l = l.
Proof. intros l. apply map_om_id. exact sub_iface_id. Qed.
Lemma sub_decl_id : forall d, ~ In s (nids_decl d) -> sub_decl s fs fe d = d.
Proof.
  destruct d; cbn [nids_decl sub_decl]; intro H; try reflexivity.
  - rewrite sub_oinit_id by ni. reflexivity.
  - rewrite sub_oinit_id by ni. reflexivity.
  - rewrite sub_ldecls_id by ni. rewrite sub_stmts_id by ni. reflexivity.
  - rewrite sub_ldecls_id by ni. rewrite sub_stmts_id by ni. reflexivity.
  - rewrite !sub_ifaces_id by ni. reflexivity.
Qed.
Lemma sub_decls_id : forall l, ~ In s (flat_map nids_decl l) -> map (sub_decl s fs fe) l = l.
Proof. intros l. apply map_om_id. exact sub_decl_id. Qed.
Lemma sub_conc_concs_id :
  (forall x, ~ In s (nids_conc x) -> sub_conc s fs fc fe x = x) /\
  (forall x, ~ In s (nids_concs x) -> sub_concs s fs fc fe x = x).
Proof.
  apply conc_concs_ind; intros;
    try (match goal with H : ~ In s (nids_conc ?x) |- sub_conc s fs fc fe ?x = _ =>
           assert (Hn : (conc_nid x =? s) = false)
             by (apply N.eqb_neq; intro E; apply H; rewrite <- E; apply conc_nid_in);
           cbn [sub_conc sub_concs]; rewrite Hn; clear Hn
         end);
    cbn [nids_conc nids_concs sub_concs] in *; try reflexivity.
  all: f_equal;
    first [ reflexivity | apply sub_ldecls_id; ni | apply sub_stmts_id; ni | apply sub_decls_id; ni
          | match goal with IH : _ -> ?g |- _ => apply IH; ni end ].
Qed.
Lemma sub_ubody_id : forall u, ~ In s (nids_ubody u) -> sub_ubody s fs fc fe u = u.
Proof.
  destruct u; cbn [nids_ubody sub_ubody]; intro H; try reflexivity.
  - rewrite sub_decls_id by ni. reflexivity.
  - rewrite sub_decls_id by ni. reflexivity.
  - rewrite !sub_ifaces_id by ni. reflexivity.
  - rewrite sub_decls_id by ni. rewrite (proj2 sub_conc_concs_id) by ni. reflexivity.
  - rewrite sub_ifaces_id by ni. rewrite sub_decls_id by ni. reflexivity.
Qed.
End SubId.

(* ------------------------------------------------------------------------------------------ *)
(* every plant is a map over the design units                                                   *)
(* ------------------------------------------------------------------------------------------ *)
Definition map_units (F : dunit -> dunit) (p : program) : program :=
  map (fun l => Lib (l_name l) (map F (l_units l))) p.

Definition plant_unit (st : fsite) (p : program) (u : dunit) : dunit :=
  match st with
  | SZap s => om_dunit (zap_occ s) u
  | SDup s => DUnit (u_ctx u) (dup_ubody s (max_nid p + 1) (u_body u))
  | _ => sub_dunit (site_nid st)
           (fun x => match plant_phrase st (PStmt x) with PStmt y => y | _ => x end)
           (fun x => match plant_phrase st (PConc x) with PConc y => y | _ => x end)
           (fun e => match plant_phrase st (PInit SErr e) with PInit _ y => y | _ => e end) u
  end.
Lemma plant_as_map : forall st p, plant st p = map_units (plant_unit st p) p.
Proof. intros st p. destruct st; reflexivity. Qed.

Lemma dunit_eta : forall u, DUnit (u_ctx u) (u_body u) = u.
Proof. destruct u; reflexivity. Qed.
Lemma sub_dunit_id : forall s fs fc fe u, ~ In s (nids_dunit u) -> sub_dunit s fs fc fe u = u.
Proof.
  intros s fs fc fe u H. unfold sub_dunit, nids_dunit in *. rewrite sub_ubody_id by ni. apply dunit_eta.
Qed.
Lemma plant_unit_id : forall st p u, ~ In (site_nid st) (nids_dunit u) -> plant_unit st p u = u.
Proof.
  intros st p u H. destruct st; cbn [plant_unit site_nid] in *;
    try (apply sub_dunit_id; exact H).
  - apply om_dunit_id. exact H.
  - unfold nids_dunit in H. rewrite dup_ubody_id by ni. apply dunit_eta.
Qed.

Lemma flat_units_map : forall F p,
  flat_units (map_units F p) = map (fun x => (fst x, F (snd x))) (flat_units p).
Proof.
  intros F. induction p as [|l r IH]; [reflexivity|].
  unfold map_units, flat_units in *. cbn [map flat_map l_name l_units]. rewrite IH.
  rewrite map_app. f_equal. rewrite !map_map. reflexivity.
Qed.
Lemma libs_map_units : forall F p, map l_name (map_units F p) = map l_name p.
Proof. intros F p. unfold map_units. rewrite map_map. reflexivity. Qed.
Lemma plant_libs : forall st p, map l_name (plant st p) = map l_name p.
Proof. intros. rewrite plant_as_map. apply libs_map_units. Qed.

Lemma firstn_map_id : forall (F : dunit -> dunit) us k,
  (forall j u, (j < k)%nat -> nth_error us j = Some u -> F u = u) -> firstn k (map F us) = firstn k us.
Proof.
  intros F. induction us as [|u r IH]; intros k H; destruct k as [|k]; cbn [map firstn]; try reflexivity.
  f_equal.
  - apply (H 0%nat); [lia | reflexivity].
  - apply IH. intros j u' Hj Hn. apply (H (S j)); [lia | exact Hn].
Qed.
Lemma truncate_map_units : forall F p k,
  (forall j l u, (j < k)%nat -> nth_error (flat_units p) j = Some (l, u) -> F u = u) ->
  truncate k (map_units F p) = truncate k p.
Proof.
  intros F. induction p as [|l r IH]; intros k H; [reflexivity|].
  unfold map_units in *. cbn [map truncate l_name l_units]. rewrite map_length. f_equal.
  - f_equal. apply firstn_map_id. intros j u Hj Hn. apply (H j (l_name l) u Hj).
    unfold flat_units. cbn [flat_map]. rewrite nth_error_app1.
    + apply map_nth_error. exact Hn.
    + rewrite map_length. apply nth_error_Some. rewrite Hn. discriminate.
  - apply IH. intros j l' u Hj Hn. apply (H (length (l_units l) + j)%nat l' u); [lia|].
    unfold flat_units. cbn [flat_map]. rewrite nth_error_app2; rewrite map_length; [|lia].
    replace (length (l_units l) + j - length (l_units l))%nat with j by lia. exact Hn.
Qed.
