(* Mini/Syntax.v — raw abstract syntax of MiniVHDL (definitions only).

   Every identifier occurrence and every literal carries a node id (`nid`), unique in a program
   (`NoDup (nids_program p)`): the reference checker blames node ids, the printer (Mini/Print.v) tags the
   token it prints for a node with the node's id, and the fault catalogue (Mini/Faults.v) plants at node
   ids.  Identifiers are numbers; identifier 0 is the distinguished "never declared" identifier (printed
   `undeclared_0`): looking it up always fails and declaring it is rejected.

   Name classes are kept apart by the printer (library `lib<tag>_<k>`, design unit `u<k>`, label `lb<k>`,
   everything else `n<k>`), so only identifiers of the same class can clash. *)
From Coq Require Import List NArith Bool.
Import ListNotations.
Open Scope N_scope.

Definition ident := N.
Definition nid := N.

Record occ := Occ { o_nid : nid; o_id : ident }.

(* predefined identifiers of the class "everything else" *)
Definition id_undeclared : ident := 0.
Definition id_true : ident := 1.
Definition id_false : ident := 2.
Definition first_user_ident : ident := 8.

(* type marks *)
Inductive tmark :=
| TMBool | TMInt | TMBit
| TMName (o : occ)                       (* t            *)
| TMSel (l p : occ) (o : occ).           (* lib.pkg.t    *)

Inductive binop := OAnd | OOr | OAdd | OSub | OMul | OEq | ONe | OLt.

(* aggregate choices / association formals *)
Inductive choice := ChPos | ChName (o : occ) | ChOthers.

(* callee of a call: f or lib.pkg.f *)
Inductive fname :=
| FId (o : occ)
| FSel (l p : occ) (o : occ).

Inductive expr :=
| EInt (i : nid) (v : N)                  (* integer literal                              *)
| EBit (i : nid) (b : bool)               (* '0' / '1'                                    *)
| ENam (n : name)                         (* object, enumeration literal                  *)
| ECall (f : fname) (a : args)            (* function call with at least one actual       *)
| EBin (i : nid) (op : binop) (l r : expr)
| ENot (i : nid) (e : expr)
| EAgg (i : nid) (els : args)             (* record / array aggregate                     *)
| EQual (t : tmark) (e : expr)            (* t'(e)                                        *)
with name :=
| NId (o : occ)                           (* x          *)
| NSel (l p : occ) (o : occ)              (* lib.pkg.x  *)
| NFld (n : name) (f : occ)               (* n.f        *)
| NIdx (n : name) (e : expr)              (* n(e)       *)
with args :=
| ANil
| ACons (c : choice) (e : expr) (r : args)
.

Scheme expr_mind := Induction for expr Sort Prop
  with name_mind := Induction for name Sort Prop
  with args_mind := Induction for args Sort Prop.
Combined Scheme expr_name_args_ind from expr_mind, name_mind, args_mind.

Fixpoint args_list (a : args) : list (choice * expr) :=
  match a with ANil => [] | ACons c e r => (c, e) :: args_list r end.
Fixpoint args_of_list (l : list (choice * expr)) : args :=
  match l with [] => ANil | (c, e) :: r => ACons c e (args_of_list r) end.

(* case choices: locally static *)
Inductive cchoice := CCLit (o : occ) | CCInt (i : nid) (v : N).

Inductive stmt :=
| SSig (i : nid) (t : name) (e : expr)            (* t <= e;                 *)
| SVar (i : nid) (t : name) (e : expr)            (* t := e;                 *)
| SIf (i : nid) (c : expr) (th : stmts) (el : stmts)
| SCase (i : nid) (sel : name) (alts : calts) (others : stmts)
| SFor (i : nid) (v : occ) (lo hi : N) (body : stmts)
| SWhile (i : nid) (c : expr) (body : stmts)
| SCall (f : fname) (a : args)                    (* procedure call          *)
| SRet (i : nid) (e : option expr)
| SNull (i : nid)
with stmts :=
| SNil
| SCons (s : stmt) (r : stmts)
with calts :=
| CANil
| CACons (cs : list cchoice) (b : stmts) (r : calts).

Scheme stmt_mind := Induction for stmt Sort Prop
  with stmts_mind := Induction for stmts Sort Prop
  with calts_mind := Induction for calts Sort Prop.
Combined Scheme stmt_stmts_calts_ind from stmt_mind, stmts_mind, calts_mind.

Fixpoint stmts_list (s : stmts) : list stmt :=
  match s with SNil => [] | SCons x r => x :: stmts_list r end.
Fixpoint stmts_of_list (l : list stmt) : stmts :=
  match l with [] => SNil | x :: r => SCons x (stmts_of_list r) end.
Fixpoint calts_list (a : calts) : list (list cchoice * stmts) :=
  match a with CANil => [] | CACons c b r => (c, b) :: calts_list r end.
Fixpoint calts_of_list (l : list (list cchoice * stmts)) : calts :=
  match l with [] => CANil | (c, b) :: r => CACons c b (calts_of_list r) end.

(* object classes and modes *)
Inductive ocls := KConst | KSig | KVar.
Inductive omode := MIn | MOut | MInOut | MNone.   (* MNone: not an interface object *)

Record param := Param { p_occ : occ; p_cls : ocls; p_mode : omode; p_ty : tmark }.
(* generics: constants of mode in; ports: signals *)
Record iface := IFace { i_occ : occ; i_mode : omode; i_ty : tmark; i_def : option expr }.

Inductive tydef :=
| TDEnum (lits : list occ)
| TDInt (lo hi : N)
| TDRec (fields : list (occ * tmark))
| TDArr (len : N) (elem : tmark).            (* array (0 to len-1) of elem, len >= 1 *)

(* local declarations of processes and subprogram bodies *)
Inductive ldecl :=
| LVar (o : occ) (t : tmark) (init : option expr)
| LConst (o : occ) (t : tmark) (init : expr).

Inductive decl :=
| DType (o : occ) (d : tydef)
| DSubtype (o : occ) (t : tmark) (rng : option (N * N))
| DConst (o : occ) (t : tmark) (init : option expr)      (* None: deferred (package declaration only) *)
| DSignal (o : occ) (t : tmark) (init : option expr)
| DFunDecl (o : occ) (ps : list param) (ret : tmark)
| DProcDecl (o : occ) (ps : list param)
| DFunBody (o : occ) (ps : list param) (ret : tmark) (locals : list ldecl) (body : stmts)
| DProcBody (o : occ) (ps : list param) (locals : list ldecl) (body : stmts)
| DComp (o : occ) (gens : list iface) (ports : list iface).

(* association lists of instantiations *)
Inductive actual := AExpr (e : expr) | AOpen (i : nid).
Definition amap := list (option occ * actual).

Inductive conc :=
| CProc (lbl : occ) (sens : list name) (locals : list ldecl) (body : stmts)
| CAssign (lbl : occ) (t : name) (e : expr)
| CBlock (lbl : occ) (ds : list decl) (body : concs)
| CInstE (lbl : occ) (l e : occ) (arch : option occ) (gm pm : amap)     (* lbl : entity l.e(arch) ... *)
| CInstC (lbl : occ) (c : occ) (gm pm : amap)                           (* lbl : c ...                *)
with concs :=
| CNil
| CCons (c : conc) (r : concs).

Scheme conc_mind := Induction for conc Sort Prop
  with concs_mind := Induction for concs Sort Prop.
Combined Scheme conc_concs_ind from conc_mind, concs_mind.

Fixpoint concs_list (c : concs) : list conc :=
  match c with CNil => [] | CCons x r => x :: concs_list r end.
Fixpoint concs_of_list (l : list conc) : concs :=
  match l with [] => CNil | x :: r => CCons x (concs_of_list r) end.

Inductive ctx_item :=
| XLib (l : occ)                       (* library l;        *)
| XUseAll (l p : occ)                  (* use l.p.all;      *)
| XUseItem (l p : occ) (x : occ)       (* use l.p.x;        *)
| XCtxRef (l c : occ).                 (* context l.c;      *)

Inductive ubody :=
| UPkg (o : occ) (ds : list decl)
| UBody (o : occ) (ds : list decl)                       (* body of package or generic package o *)
| UEnt (o : occ) (gens : list iface) (ports : list iface)
| UArch (o : occ) (ent : occ) (ds : list decl) (body : concs)
| UCfg (o : occ) (ent : occ) (arch : occ)
| UCtx (o : occ) (items : list ctx_item)
| UGen (o : occ) (gens : list iface) (ds : list decl)    (* generic package *)
| UInst (o : occ) (l g : occ) (gm : amap).               (* package o is new l.g generic map (...) *)

Record dunit := DUnit { u_ctx : list ctx_item; u_body : ubody }.
Record library := Lib { l_name : ident; l_units : list dunit }.
Definition program := list library.

(* ------------------------------------------------------------------------------------------ *)
(* node ids                                                                                     *)
(* ------------------------------------------------------------------------------------------ *)
Definition nids_occ (o : occ) : list nid := [o_nid o].
Definition nids_tmark (t : tmark) : list nid :=
  match t with
  | TMName o => nids_occ o
  | TMSel l p o => nids_occ l ++ nids_occ p ++ nids_occ o
  | _ => []
  end.
Definition nids_choice (c : choice) : list nid :=
  match c with ChName o => nids_occ o | _ => [] end.

Definition nids_fname (f : fname) : list nid :=
  match f with
  | FId o => nids_occ o
  | FSel l p o => nids_occ l ++ nids_occ p ++ nids_occ o
  end.

Fixpoint nids_expr (e : expr) : list nid :=
  match e with
  | EInt i _ => [i]
  | EBit i _ => [i]
  | ENam n => nids_name n
  | ECall f a => nids_fname f ++ nids_args a
  | EBin i _ l r => i :: nids_expr l ++ nids_expr r
  | ENot i e => i :: nids_expr e
  | EAgg i els => i :: nids_args els
  | EQual t e => nids_tmark t ++ nids_expr e
  end
with nids_name (n : name) : list nid :=
  match n with
  | NId o => nids_occ o
  | NSel l p o => nids_occ l ++ nids_occ p ++ nids_occ o
  | NFld n f => nids_name n ++ nids_occ f
  | NIdx n e => nids_name n ++ nids_expr e
  end
with nids_args (a : args) : list nid :=
  match a with
  | ANil => []
  | ACons c e r => nids_choice c ++ nids_expr e ++ nids_args r
  end.

Definition nids_oexpr (e : option expr) : list nid :=
  match e with Some e => nids_expr e | None => [] end.
Definition nids_cchoice (c : cchoice) : list nid :=
  match c with CCLit o => nids_occ o | CCInt i _ => [i] end.

Fixpoint nids_stmt (s : stmt) : list nid :=
  match s with
  | SSig i t e => i :: nids_name t ++ nids_expr e
  | SVar i t e => i :: nids_name t ++ nids_expr e
  | SIf i c th el => i :: nids_expr c ++ nids_stmts th ++ nids_stmts el
  | SCase i sel alts oth => i :: nids_name sel ++ nids_calts alts ++ nids_stmts oth
  | SFor i v _ _ b => i :: nids_occ v ++ nids_stmts b
  | SWhile i c b => i :: nids_expr c ++ nids_stmts b
  | SCall f a => nids_fname f ++ nids_args a
  | SRet i e => i :: nids_oexpr e
  | SNull i => [i]
  end
with nids_stmts (s : stmts) : list nid :=
  match s with SNil => [] | SCons x r => nids_stmt x ++ nids_stmts r end
with nids_calts (a : calts) : list nid :=
  match a with
  | CANil => []
  | CACons cs b r => flat_map nids_cchoice cs ++ nids_stmts b ++ nids_calts r
  end.

Definition nids_param (p : param) : list nid := nids_occ (p_occ p) ++ nids_tmark (p_ty p).
Definition nids_iface (i : iface) : list nid :=
  nids_occ (i_occ i) ++ nids_tmark (i_ty i) ++ nids_oexpr (i_def i).
Definition nids_tydef (d : tydef) : list nid :=
  match d with
  | TDEnum lits => flat_map nids_occ lits
  | TDInt _ _ => []
  | TDRec fs => flat_map (fun f => nids_occ (fst f) ++ nids_tmark (snd f)) fs
  | TDArr _ t => nids_tmark t
  end.
Definition nids_ldecl (d : ldecl) : list nid :=
  match d with
  | LVar o t i => nids_occ o ++ nids_tmark t ++ nids_oexpr i
  | LConst o t i => nids_occ o ++ nids_tmark t ++ nids_expr i
  end.
Definition nids_decl (d : decl) : list nid :=
  match d with
  | DType o td => nids_occ o ++ nids_tydef td
  | DSubtype o t _ => nids_occ o ++ nids_tmark t
  | DConst o t i => nids_occ o ++ nids_tmark t ++ nids_oexpr i
  | DSignal o t i => nids_occ o ++ nids_tmark t ++ nids_oexpr i
  | DFunDecl o ps r => nids_occ o ++ flat_map nids_param ps ++ nids_tmark r
  | DProcDecl o ps => nids_occ o ++ flat_map nids_param ps
  | DFunBody o ps r ls b =>
      nids_occ o ++ flat_map nids_param ps ++ nids_tmark r ++ flat_map nids_ldecl ls ++ nids_stmts b
  | DProcBody o ps ls b => nids_occ o ++ flat_map nids_param ps ++ flat_map nids_ldecl ls ++ nids_stmts b
  | DComp o gs ps => nids_occ o ++ flat_map nids_iface gs ++ flat_map nids_iface ps
  end.
Definition nids_actual (a : actual) : list nid :=
  match a with AExpr e => nids_expr e | AOpen i => [i] end.
Definition nids_assoc (a : option occ * actual) : list nid :=
  match fst a with Some o => nids_occ o | None => [] end ++ nids_actual (snd a).
Definition nids_amap (m : amap) : list nid := flat_map nids_assoc m.
Definition nids_oocc (o : option occ) : list nid := match o with Some o => nids_occ o | None => [] end.

Fixpoint nids_conc (c : conc) : list nid :=
  match c with
  | CProc lbl sens ls b => nids_occ lbl ++ flat_map nids_name sens ++ flat_map nids_ldecl ls ++ nids_stmts b
  | CAssign lbl t e => nids_occ lbl ++ nids_name t ++ nids_expr e
  | CBlock lbl ds b => nids_occ lbl ++ flat_map nids_decl ds ++ nids_concs b
  | CInstE lbl l e a gm pm => nids_occ lbl ++ nids_occ l ++ nids_occ e ++ nids_oocc a ++ nids_amap gm ++ nids_amap pm
  | CInstC lbl c gm pm => nids_occ lbl ++ nids_occ c ++ nids_amap gm ++ nids_amap pm
  end
with nids_concs (c : concs) : list nid :=
  match c with CNil => [] | CCons x r => nids_conc x ++ nids_concs r end.

Definition nids_ctx_item (x : ctx_item) : list nid :=
  match x with
  | XLib l => nids_occ l
  | XUseAll l p => nids_occ l ++ nids_occ p
  | XUseItem l p x => nids_occ l ++ nids_occ p ++ nids_occ x
  | XCtxRef l c => nids_occ l ++ nids_occ c
  end.
Definition nids_ubody (u : ubody) : list nid :=
  match u with
  | UPkg o ds => nids_occ o ++ flat_map nids_decl ds
  | UBody o ds => nids_occ o ++ flat_map nids_decl ds
  | UEnt o gs ps => nids_occ o ++ flat_map nids_iface gs ++ flat_map nids_iface ps
  | UArch o e ds b => nids_occ o ++ nids_occ e ++ flat_map nids_decl ds ++ nids_concs b
  | UCfg o e a => nids_occ o ++ nids_occ e ++ nids_occ a
  | UCtx o items => nids_occ o ++ flat_map nids_ctx_item items
  | UGen o gs ds => nids_occ o ++ flat_map nids_iface gs ++ flat_map nids_decl ds
  | UInst o l g gm => nids_occ o ++ nids_occ l ++ nids_occ g ++ nids_amap gm
  end.
Definition nids_dunit (u : dunit) : list nid := flat_map nids_ctx_item (u_ctx u) ++ nids_ubody (u_body u).
Definition nids_library (l : library) : list nid := flat_map nids_dunit (l_units l).
Definition nids_program (p : program) : list nid := flat_map nids_library p.

(* name of the design unit a unit body declares, and the primary unit it belongs to *)
Definition ubody_occ (u : ubody) : occ :=
  match u with
  | UPkg o _ | UBody o _ | UEnt o _ _ | UArch o _ _ _ | UCfg o _ _ | UCtx o _ | UGen o _ _ | UInst o _ _ _ => o
  end.
