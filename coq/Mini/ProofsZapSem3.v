(* Mini/ProofsZapSem3.v — the zapped occurrence is blamed, continued: design units, unit lists, libraries.
   Proofs (used by Mini/ProofsZap.v). *)
From Coq Require Import List NArith Arith Bool Lia.
Import ListNotations.
From RH Require Import Mini.Syntax Mini.Sem Mini.Walk Mini.Faults Mini.ProofsZapSyn Mini.ProofsZapEq Mini.ProofsZapSem
  Mini.ProofsZapSem2.
Open Scope N_scope.

(* the zapped occurrence is the occurrence o of the goal *)
Ltac at_occ :=
  match goal with
  | Hx : hit ?s _ (oc _ ?o) |- _ =>
      let Hn := fresh "Hn" in let Hc := fresh "Hc" in
      apply hit_oc in Hx; destruct Hx as (Hn & Hc); cbn [cls_of_okind] in Hc; injection Hc as Hc;
      rewrite (zo_hit s o Hn); rewrite <- Hc
  end.

Section Zap3.
Variable md : mode.
Variable GE : genv.
Variable s : nid.
Variable c : cls.
Notation zo := (zap_occ s).
Notation hits := (hit s c).

Lemma check_unit_zap : forall LIBS lib uid u g,
  NoDup (nids_dunit u) -> hits (oc_dunit u) -> check_unit md GE LIBS lib uid u = Ok g ->
  check_unit md GE LIBS lib uid (om_dunit zo u) = Bad s c.
Proof.
  intros LIBS lib uid [cx b] g Hnd Hh H. unfold nids_dunit, oc_dunit, check_unit, om_dunit in *.
  cbn [u_ctx u_body] in *.
  destruct b as [o ds|o ds|o gs ps|o e ds body|o e a|o items|o gs ds|o l g0 gm];
    cbn [om_ubody nids_ubody oc_ubody] in *; nd.
  - (* UPkg *) minv H. hit_cases Hh.
    + unch. okrw. erewrite check_ctx_zap; [reflexivity | eassumption ..].
    + unch. okrw. erewrite check_decls_zap; [reflexivity | eassumption ..].
  - (* UBody *)
    destruct (if o_id o =? id_undeclared then None else find_unit GE lib (o_id o))
      as [[ex inner obl| | | | |gs ex inner obl| |]|] eqn:Ek; try discriminate H; minv H; hit_cases Hh;
      try (at_occ; reflexivity); unch; rewrite Ek; okrw;
      first [ erewrite check_ctx_zap; [reflexivity | eassumption ..]
            | erewrite check_decls_zap; [reflexivity | eassumption ..] ].
  - (* UEnt *) minv H. hit_cases Hh.
    + unch. okrw. erewrite check_ctx_zap; [reflexivity | eassumption ..].
    + unch. okrw. erewrite declare_ifaces_zap; [reflexivity | eassumption ..].
    + unch. okrw. erewrite declare_ifaces_zap; [reflexivity | eassumption ..].
  - (* UArch *)
    destruct (if o_id e =? id_undeclared then None else find_unit GE lib (o_id e))
      as [[| gs ps inner | | | | | |]|] eqn:Ek; try discriminate H. minv H. hit_cases Hh.
    + unch. rewrite Ek. okrw. erewrite check_ctx_zap; [reflexivity | eassumption ..].
    + at_occ. reflexivity.
    + unch. rewrite Ek. okrw. erewrite check_decls_zap; [reflexivity | eassumption ..].
    + unch. rewrite Ek. okrw. rewrite (proj2 (labels_zap s c)) by assumption. okrw.
      erewrite check_concs_zap; [reflexivity | eassumption ..].
  - (* UCfg *) minv H.
    destruct (if o_id e =? id_undeclared then None else find_unit GE lib (o_id e))
      as [[| gs ps inner | | | | | |]|] eqn:Ek; try discriminate K0. minv K0. hit_cases Hh.
    + unch. okrw. erewrite check_ctx_zap; [reflexivity | eassumption ..].
    + unch. okrw. at_occ. reflexivity.
    + unch. okrw. rewrite Ek. at_occ. reflexivity.
  - (* UCtx *) minv H. destruct cx as [|x cx]; [|discriminate E0]. cbn [map flat_map app] in *. hit_cases Hh.
    unch. okrw. erewrite check_ctx_basics_zap; [reflexivity | eassumption ..].
  - (* UGen *) minv H. hit_cases Hh.
    + unch. okrw. erewrite check_ctx_zap; [reflexivity | eassumption ..].
    + unch. okrw. erewrite declare_ifaces_zap; [reflexivity | eassumption ..].
    + unch. okrw. erewrite check_decls_zap; [reflexivity | eassumption ..].
  - (* UInst *) minv H.
    destruct (if o_id g0 =? id_undeclared then None else find_unit GE (o_id l) (o_id g0))
      as [[| | | | |gs ex inner obl| |]|] eqn:Ek; try discriminate K. minv K. hit_cases Hh.
    + unch. okrw. erewrite check_ctx_zap; [reflexivity | eassumption ..].
    + unch. okrw. at_occ. reflexivity.
    + unch. okrw. at_occ. reflexivity.
    + unch. okrw. rewrite Ek. okrw.
      erewrite check_amap_zap; [reflexivity | apply check_generic_actual_zap | eassumption ..].
Qed.
End Zap3.

Lemma check_units_zap : forall md s c LIBS lib us GE uid x,
  NoDup (flat_map nids_dunit us) -> hit s c (flat_map oc_dunit us) ->
  check_units md GE LIBS lib uid us = Ok x ->
  check_units md GE LIBS lib uid (map (om_dunit (zap_occ s)) us) = Bad s c.
Proof.
  intros md s c LIBS lib. induction us as [|u r IH]; intros GE uid x Hnd Hh H; cbn [flat_map map check_units] in *.
  - exfalso; exact (hit_nil _ _ Hh).
  - nd. minv H. hit_cases Hh.
    + erewrite check_unit_zap; [reflexivity | eassumption ..].
    + unch. okrw. eapply IH; eassumption.
Qed.

Lemma check_libs_zap : forall md s c LIBS p GE uid GE',
  NoDup (nids_program p) -> hit s c (occs_program p) ->
  check_libs md GE LIBS uid p = Ok GE' ->
  check_libs md GE LIBS uid (zap s p) = Bad s c.
Proof.
  intros md s c LIBS. unfold nids_program, occs_program, zap, om_program.
  induction p as [|l r IH]; intros GE uid GE' Hnd Hh H; cbn [flat_map map check_libs] in *.
  - exfalso; exact (hit_nil _ _ Hh).
  - cbn [l_name l_units]. unfold nids_library in Hnd at 1. nd. minv H.
    apply hit_app in Hh. destruct Hh as [Hh|Hh].
    + erewrite check_units_zap; [reflexivity | eassumption ..].
    + assert (Hi : In s (flat_map nids_library r)).
      { destruct Hh as (k & i & Hi & _). apply in_flat_map in Hi. destruct Hi as (l' & Hl' & Hi).
        apply in_flat_map. exists l'. split; [exact Hl'|]. unfold nids_library. eapply oc_dunits_in; exact Hi. }
      rewrite om_dunits_id by notin. okrw. eapply IH; eassumption.
Qed.
