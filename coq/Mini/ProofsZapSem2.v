(* Mini/ProofsZapSem2.v — the zapped occurrence is blamed, continued: association lists, concurrent statements,
   context clauses, design units, libraries.  Proofs (used by Mini/ProofsZap.v). *)
From Coq Require Import List NArith Arith Bool Lia.
Import ListNotations.
From RH Require Import Mini.Syntax Mini.Sem Mini.Walk Mini.Faults Mini.ProofsZapSyn Mini.ProofsZapEq Mini.ProofsZapSem.
Open Scope N_scope.

(* ------------------------------------------------------------------------------------------ *)
(* association lists: general facts                                                             *)
(* ------------------------------------------------------------------------------------------ *)
Lemma split_pos_map : forall {A B} (g : A -> B) (al : list (choice * A)),
  split_pos (map (fun ca => (fst ca, g (snd ca))) al) =
  (map g (fst (split_pos al)), map (fun ca => (fst ca, g (snd ca))) (snd (split_pos al))).
Proof.
  intros A B g. induction al as [|[ch a] r IH]; [reflexivity|].
  destruct ch; cbn [map split_pos fst snd]; try reflexivity.
  rewrite IH. destruct (split_pos r) as [p n]. reflexivity.
Qed.
Lemma named_for_map : forall {A B} (g : A -> B) x (n : list (choice * A)),
  named_for x (map (fun ca => (fst ca, g (snd ca))) n) = map g (named_for x n).
Proof.
  intros A B g x. unfold named_for. induction n as [|[ch a] r IH]; [reflexivity|].
  cbn [map flat_map fst snd]. rewrite IH. rewrite map_app. f_equal.
  destruct ch as [|o|]; try reflexivity. destruct (o_id o =? x); reflexivity.
Qed.
Lemma forallb_map_ext : forall {A} (P : A -> bool) (h : A -> A) l,
  (forall x, P (h x) = P x) -> forallb P (map h l) = forallb P l.
Proof. intros A P h l H. induction l as [|x r IH]; [reflexivity|]. cbn [map forallb]. rewrite H, IH. reflexivity. Qed.

Lemma nth_error_firstn_lt : forall {A} (l : list A) n j, (j < n)%nat -> nth_error (firstn n l) j = nth_error l j.
Proof.
  intros A. induction l as [|x r IH]; intros n j H; destruct n as [|n]; try lia; destruct j as [|j]; try reflexivity.
  cbn [firstn nth_error]. apply IH. lia.
Qed.
Lemma split_pos_firstn : forall m : amap,
  fst (split_pos (assoc_formal_names m)) = map snd (firstn (positional_count m) m).
Proof.
  unfold positional_count. induction m as [|[[o|] a] r IH]; try reflexivity.
  unfold assoc_formal_names in *. cbn [map fst snd split_pos].
  destruct (split_pos (map (fun a0 : option occ * actual =>
              (match fst a0 with Some o => ChName o | None => ChPos end, snd a0)) r)) as [p n] eqn:E.
  cbn [fst length firstn map snd] in *. f_equal. exact IH.
Qed.
Lemma fuf_none_named : forall names (m : amap) o a,
  first_unknown_formal names m = None -> In (Some o, a) m -> existsb (N.eqb (o_id o)) names = true.
Proof.
  intros names. induction m as [|[[o'|] a'] r IH]; intros o a H Hin; cbn [first_unknown_formal] in H.
  - destruct Hin.
  - destruct (negb (o_id o' =? id_undeclared) && existsb (N.eqb (o_id o')) names) eqn:C; [|discriminate H].
    destruct Hin as [Hin|Hin].
    + inversion Hin; subst. apply andb_prop in C. apply C.
    + eapply IH; eassumption.
  - destruct Hin as [Hin|Hin]; [discriminate Hin|]. eapply IH; eassumption.
Qed.
Lemma actual_for_in : forall (m : amap) k x a, In a (actual_for m k x) -> exists y, In y m /\ snd y = a.
Proof.
  intros m k x a H. unfold actual_for in H.
  destruct (split_pos (assoc_formal_names m)) as [p n] eqn:E.
  pose proof (split_pos_spec _ _ _ E) as Es.
  assert (Hin : In a (map snd (assoc_formal_names m))).
  { rewrite Es, map_app, map_map. cbn [snd]. rewrite map_id. apply in_or_app.
    destruct (nth_error p k) as [a'|] eqn:En.
    - left. destruct H as [H|[]]. subst a'. eapply nth_error_In; exact En.
    - right. unfold named_for in H. apply in_flat_map in H. destruct H as (ca & Hca & Ha).
      apply in_map_iff. exists ca. split; [|exact Hca].
      destruct (fst ca) as [|o|]; [destruct Ha| |destruct Ha].
      destruct (o_id o =? x); [|destruct Ha]. destruct Ha as [Ha|[]]. exact Ha. }
  unfold assoc_formal_names in Hin. rewrite map_map in Hin. cbn [snd] in Hin.
  apply in_map_iff in Hin. destruct Hin as (y & Hy & Hym). exists y. auto.
Qed.

(* every association of an accepted list is the actual of some formal *)
Lemma amap_consumed : forall (fs : list isig) (m : amap) x0,
  first_unknown_formal (map is_name fs) m = None ->
  forallb (fun a => match fst a with Some _ => true | None => false end) (skipn (positional_count m) m) = true ->
  (positional_count m <= length fs)%nat ->
  forallb (fun a => match fst a with
                    | Some o => negb (existsb (N.eqb (o_id o)) (firstn (positional_count m) (map is_name fs)))
                    | None => true end) m = true ->
  In x0 m ->
  exists j f, nth_error fs j = Some f /\ In (snd x0) (actual_for m j (is_name f)).
Proof.
  intros fs m [fo a0] Hf H1 H2 H3 Hin. cbn [snd].
  pose proof (split_pos_firstn m) as Hp. unfold actual_for.
  destruct (split_pos (assoc_formal_names m)) as [p n] eqn:E. cbn [fst] in Hp.
  assert (Hpc : positional_count m = length p) by (unfold positional_count; rewrite E; reflexivity).
  destruct fo as [o|].
  - (* named *)
    pose proof (fuf_none_named _ _ _ _ Hf Hin) as Hex.
    apply existsb_exists in Hex. destruct Hex as (y & Hy & Ey). apply N.eqb_eq in Ey. subst y.
    apply In_nth_error in Hy. destruct Hy as (j & Hj).
    rewrite nth_error_map in Hj. destruct (nth_error fs j) as [f|] eqn:Ef; [|discriminate Hj].
    cbn [option_map] in Hj. injection Hj as Hj.
    exists j, f. split; [exact Ef|].
    rewrite forallb_forall in H3. specialize (H3 _ Hin). cbn [fst] in H3. apply negb_true_iff in H3.
    assert (Hjp : nth_error p j = None).
    { apply nth_error_None. destruct (Nat.le_gt_cases (length p) j) as [L|L]; [exact L|]. exfalso.
      assert (X : existsb (N.eqb (o_id o)) (firstn (positional_count m) (map is_name fs)) = true).
      { apply existsb_exists. exists (o_id o). split; [|apply N.eqb_refl].
        apply (nth_error_In _ j). rewrite Hpc. rewrite nth_error_firstn_lt by exact L.
        rewrite nth_error_map, Ef. cbn [option_map]. rewrite Hj. reflexivity. }
      rewrite X in H3. discriminate H3. }
    rewrite Hjp. rewrite Hj.
    assert (Hn : In (ChName o, a0) n).
    { pose proof (split_pos_spec _ _ _ E) as Es.
      assert (HA : In (ChName o, a0) (assoc_formal_names m)).
      { unfold assoc_formal_names. apply in_map_iff. exists (Some o, a0). split; [reflexivity|exact Hin]. }
      rewrite Es in HA. apply in_app_or in HA. destruct HA as [HA|HA]; [|exact HA].
      apply in_map_iff in HA. destruct HA as (z & Hz & _). discriminate Hz. }
    unfold named_for. apply in_flat_map. exists (ChName o, a0). split; [exact Hn|].
    cbn [fst snd]. rewrite N.eqb_refl. left; reflexivity.
  - (* positional *)
    rewrite <- (firstn_skipn (positional_count m) m) in Hin. apply in_app_or in Hin. destruct Hin as [Hin|Hin].
    + assert (Ha : In a0 p).
      { rewrite Hp. apply in_map_iff. exists (None, a0). split; [reflexivity|exact Hin]. }
      apply In_nth_error in Ha. destruct Ha as (j & Hj).
      assert (Hjl : (j < length fs)%nat).
      { apply Nat.lt_le_trans with (length p); [|rewrite <- Hpc; exact H2].
        apply nth_error_Some. rewrite Hj. discriminate. }
      destruct (nth_error fs j) as [f|] eqn:Ef; [|apply nth_error_None in Ef; lia].
      exists j, f. split; [exact Ef|]. rewrite Hj. left; reflexivity.
    + rewrite forallb_forall in H1. specialize (H1 _ Hin). discriminate H1.
Qed.

(* ------------------------------------------------------------------------------------------ *)
(* association lists: the zapped occurrence                                                     *)
(* ------------------------------------------------------------------------------------------ *)
Section Zap2.
Variable md : mode.
Variable GE : genv.
Variable s : nid.
Variable c : cls.
Notation zo := (zap_occ s).
Notation hits := (hit s c).

Definition hact (x : option occ * actual) : option occ * actual := (fst x, om_actual zo (snd x)).

Lemma fuf_hact : forall names m, first_unknown_formal names (map hact m) = first_unknown_formal names m.
Proof.
  intros names. induction m as [|[[o|] a] r IH]; [reflexivity| |]; cbn [map hact fst snd first_unknown_formal];
    rewrite IH; reflexivity.
Qed.
Lemma afn_hact : forall m,
  assoc_formal_names (map hact m) = map (fun ca => (fst ca, om_actual zo (snd ca))) (assoc_formal_names m).
Proof. intros m. unfold assoc_formal_names. rewrite !map_map. apply map_ext. intros [[o|] a]; reflexivity. Qed.
Lemma pc_hact : forall m, positional_count (map hact m) = positional_count m.
Proof. intros m. unfold positional_count. rewrite afn_hact, split_pos_map. cbn [fst]. apply map_length. Qed.
Lemma actual_for_hact : forall m k x, actual_for (map hact m) k x = map (om_actual zo) (actual_for m k x).
Proof.
  intros m k x. unfold actual_for. rewrite afn_hact, split_pos_map.
  destruct (split_pos (assoc_formal_names m)) as [p n]. cbn [fst snd].
  rewrite nth_error_map. destruct (nth_error p k); [reflexivity|]. cbn [option_map]. apply named_for_map.
Qed.

(* Q: an actual without the node id, or the one that carries the zapped occurrence *)
Definition Qact (a : actual) : Prop :=
  ~ In s (nids_actual a) \/ (hits (oc_actual a) /\ NoDup (nids_actual a)).

Lemma assoc_actual_nids : forall x, incl (nids_actual (snd x)) (nids_assoc x).
Proof. intros [fo a] y Hy. unfold nids_assoc. cbn [fst snd] in *. apply in_or_app. right. exact Hy. Qed.
Lemma assoc_actual_nodup : forall x, NoDup (nids_assoc x) -> NoDup (nids_actual (snd x)).
Proof. intros [fo a] H. unfold nids_assoc in H. cbn [fst snd] in *. apply NoDup_app_inv in H. apply H. Qed.

Lemma amap_Q : forall m x0,
  NoDup (nids_amap m) -> In x0 m -> hits (oc_actual (snd x0)) -> forall x, In x m -> Qact (snd x).
Proof.
  unfold nids_amap. induction m as [|y r IH]; intros x0 Hnd Hx0 Hh x Hx; [destruct Hx|].
  cbn [flat_map] in Hnd. apply NoDup_app_inv in Hnd. destruct Hnd as (ND1 & ND2 & DJ).
  assert (Hs0 : In s (nids_actual (snd x0))).
  { destruct Hh as (k & i & Hi & _). eapply oc_actual_in; exact Hi. }
  destruct Hx0 as [Hx0|Hx0].
  - subst x0. destruct Hx as [Hx|Hx].
    + subst x. right. split; [exact Hh | apply assoc_actual_nodup; exact ND1].
    + left. intro X. apply (DJ s); [apply assoc_actual_nids; exact Hs0|].
      apply in_flat_map. exists x. split; [exact Hx | apply assoc_actual_nids; exact X].
  - destruct Hx as [Hx|Hx].
    + subst x. left. intro X. apply (DJ s); [apply assoc_actual_nids; exact X|].
      apply in_flat_map. exists x0. split; [exact Hx0 | apply assoc_actual_nids; exact Hs0].
    + eapply (IH x0); eassumption.
Qed.

Lemma check_formals_zap : forall chk u m,
  (forall x, In x m -> Qact (snd x)) ->
  (forall f a v, NoDup (nids_actual a) -> hits (oc_actual a) -> chk f a = Ok v -> chk f (om_actual zo a) = Bad s c) ->
  forall fs k v, check_formals chk u m k fs = Ok v ->
  (exists j f a, nth_error fs j = Some f /\ In a (actual_for m (k + j) (is_name f)) /\ hits (oc_actual a)) ->
  check_formals chk u (map hact m) k fs = Bad s c.
Proof.
  intros chk u m HQ Hchk. induction fs as [|f r IH]; intros k v H (j & f' & a' & Hj & Ha & Hh).
  - destruct j; discriminate Hj.
  - cbn [check_formals] in *. rewrite actual_for_hact. apply bind_ok in H. destruct H as (w & E & K).
    assert (Hrest : (exists j, j <> 0%nat /\ nth_error (f :: r) j = Some f' /\ In a' (actual_for m (k + j) (is_name f'))) ->
                    check_formals chk u (map hact m) (S k) r = Bad s c).
    { intros (j0 & Hj0 & Hn0 & Ha0). destruct j0 as [|j0]; [contradiction|]. eapply IH; [exact K|].
      exists j0, f', a'. cbn [nth_error] in Hn0. replace (S k + j0)%nat with (k + S j0)%nat by lia. auto. }
    destruct (actual_for m k (is_name f)) as [|a [|a2 l]] eqn:Ea; cbn [map].
    + rewrite E. cbn [bind]. apply Hrest. exists j. split; [|auto].
      intro Ej. subst j. cbn [nth_error] in Hj. injection Hj as Hj. subst f'. rewrite Nat.add_0_r, Ea in Ha. destruct Ha.
    + assert (Hq : Qact a).
      { destruct (actual_for_in m k (is_name f) a) as (y & Hy & Ey); [rewrite Ea; left; reflexivity|].
        subst a. apply HQ. exact Hy. }
      destruct Hq as [Hq|(Hqh & Hqn)].
      * rewrite om_actual_id by exact Hq. rewrite E. cbn [bind]. apply Hrest. exists j. split; [|auto].
        intro Ej. subst j. cbn [nth_error] in Hj. injection Hj as Hj. subst f'. rewrite Nat.add_0_r, Ea in Ha.
        destruct Ha as [Ha|[]]. subst a'. apply Hq. destruct Hh as (k0 & i0 & Hi & _). eapply oc_actual_in; exact Hi.
      * rewrite (Hchk f a w Hqn Hqh E). reflexivity.
    + discriminate E.
Qed.

(* where the occurrence is: a formal, or an actual (then the formals are unchanged) *)
Lemma fuf_zap : forall names m,
  NoDup (nids_amap m) -> hits (flat_map oc_assoc m) -> first_unknown_formal names m = None ->
  (first_unknown_formal names (map (om_assoc zo) m) = Some s /\ c = UnknownFormal) \/
  (map (om_assoc zo) m = map hact m /\ exists x0, In x0 m /\ hits (oc_actual (snd x0))).
Proof.
  intros names. unfold nids_amap. induction m as [|[fo a] r IH]; intros Hnd Hh Hf; cbn [flat_map map] in *.
  - exfalso; exact (hit_nil _ _ Hh).
  - apply NoDup_app_inv in Hnd. destruct Hnd as (ND1 & ND2 & DJ).
    apply hit_app in Hh. destruct Hh as [Hh|Hh].
    + (* in the head *)
      unfold oc_assoc, nids_assoc in *. cbn [fst snd] in *.
      apply hit_app in Hh. destruct Hh as [Hh|Hh].
      * destruct fo as [o|]; [|exfalso; exact (hit_nil _ _ Hh)].
        left. hit_occ Hh. unfold om_assoc. cbn [fst snd first_unknown_formal]. rewrite (zo_hit s o Hn).
        cbn [o_id o_nid]. unfold id_undeclared. rewrite N.eqb_refl. cbn [negb andb]. split; [reflexivity|symmetry; exact Hc].
      * right. hit_fact Hh. split.
        -- f_equal.
           ++ unfold om_assoc, hact. cbn [fst snd]. f_equal. apply NoDup_app_inv in ND1. destruct ND1 as (_ & _ & DJ1).
              destruct fo as [o|]; [|reflexivity]. f_equal. apply zo_id. intro X. exact (DJ1 s X Hi).
           ++ transitivity r; [apply om_amap_id | symmetry; apply (map_om_id nids_assoc hact s)].
              ** intro X. apply (DJ s); [apply in_or_app; right; exact Hi | exact X].
              ** intros [fo' a'] Hx. unfold hact, nids_assoc in *. cbn [fst snd] in *. f_equal. apply om_actual_id. ni.
              ** intro X. apply (DJ s); [apply in_or_app; right; exact Hi | exact X].
        -- exists (fo, a). split; [left; reflexivity|exact Hh].
    + (* in the tail: the head is unchanged *)
      assert (Hi : In s (flat_map nids_assoc r)).
      { destruct Hh as (k & i & Hi & _). eapply (oc_flat_in oc_assoc nids_assoc oc_assoc_in); exact Hi. }
      assert (Hhd : om_assoc zo (fo, a) = (fo, a)) by (apply om_assoc_id; intro X; exact (DJ s X Hi)).
      assert (Hhd2 : hact (fo, a) = (fo, a)).
      { unfold hact. cbn [fst snd]. f_equal. apply om_actual_id. intro X. apply (DJ s); [|exact Hi].
        unfold nids_assoc. cbn [fst snd]. apply in_or_app. right; exact X. }
      rewrite Hhd, Hhd2.
      assert (Hf' : first_unknown_formal names r = None).
      { cbn [first_unknown_formal] in Hf. destruct fo as [o|]; [|exact Hf].
        destruct (negb (o_id o =? id_undeclared) && existsb (N.eqb (o_id o)) names); [exact Hf|discriminate Hf]. }
      destruct (IH ND2 Hh Hf') as [(E1 & Ec)|(E1 & x0 & Hx0 & Hhx)].
      * left. split; [|exact Ec]. cbn [first_unknown_formal] in *. destruct fo as [o|]; [|exact E1].
        destruct (negb (o_id o =? id_undeclared) && existsb (N.eqb (o_id o)) names); [exact E1|discriminate Hf].
      * right. split; [rewrite E1; reflexivity|]. exists x0. split; [right; exact Hx0|exact Hhx].
Qed.

Lemma check_amap_zap : forall chk u fs m v,
  (forall f a v, NoDup (nids_actual a) -> hits (oc_actual a) -> chk f a = Ok v -> chk f (om_actual zo a) = Bad s c) ->
  NoDup (nids_amap m) -> hits (flat_map oc_assoc m) -> check_amap chk u fs m = Ok v ->
  check_amap chk u fs (map (om_assoc zo) m) = Bad s c.
Proof.
  intros chk u fs m v Hchk Hnd Hh H. unfold check_amap in *.
  destruct (first_unknown_formal (map is_name fs) m) as [n|] eqn:Ef; [discriminate H|].
  apply bind_ok in H. destruct H as (w & E & K). apply guard_ok in E.
  destruct (fuf_zap _ _ Hnd Hh Ef) as [(E1 & Ec)|(E1 & x0 & Hx0 & Hhx)].
  - rewrite E1, Ec. reflexivity.
  - rewrite E1. rewrite fuf_hact, Ef. rewrite pc_hact. rewrite skipn_map.
    rewrite (forallb_map_ext _ hact) by (intros [fo a]; reflexivity).
    rewrite (forallb_map_ext _ hact) by (intros [fo a]; reflexivity).
    rewrite E. cbn [guard bind].
    apply andb_prop in E. destruct E as (E & E3). apply andb_prop in E. destruct E as (E1' & E2).
    apply Nat.leb_le in E2.
    destruct (amap_consumed fs m x0 Ef E1' E2 E3 Hx0) as (j & f & Hj & Ha).
    eapply check_formals_zap; [eapply amap_Q; eassumption | exact Hchk | exact K |].
    exists j, f, (snd x0). auto.
Qed.

Lemma check_generic_actual_zap : forall G f a v,
  NoDup (nids_actual a) -> hits (oc_actual a) -> check_generic_actual md GE G f a = Ok v ->
  check_generic_actual md GE G f (om_actual zo a) = Bad s c.
Proof.
  intros G f [e|i] v Hnd Hh H; cbn [nids_actual oc_actual om_actual check_generic_actual] in *.
  - eapply root_zap; eassumption.
  - exfalso; exact (hit_nil _ _ Hh).
Qed.
Lemma check_port_actual_zap : forall G f a v,
  NoDup (nids_actual a) -> hits (oc_actual a) -> check_port_actual md GE G f a = Ok v ->
  check_port_actual md GE G f (om_actual zo a) = Bad s c.
Proof.
  intros G f [e|i] v Hnd Hh H; cbn [nids_actual oc_actual om_actual] in *.
  - destruct e; try discriminate H. autorewrite with omeq. cbn [check_port_actual nids_expr oc_expr] in *.
    minv H. erewrite obj_name_zap; [reflexivity | eassumption ..].
  - exfalso; exact (hit_nil _ _ Hh).
Qed.
(* ------------------------------------------------------------------------------------------ *)
(* concurrent statements                                                                        *)
(* ------------------------------------------------------------------------------------------ *)
Lemma check_sens_zap : forall G l v,
  NoDup (flat_map nids_name l) -> hits (flat_map oc_name l) -> check_list (check_sens md GE G) l = Ok v ->
  check_list (check_sens md GE G) (map (om_name zo) l) = Bad s c.
Proof.
  intros G. apply (check_list_zap s c nids_name oc_name).
  - apply om_name_id.
  - intros k i x. apply oc_name_in.
  - intros n v Hnd Hh H. unfold check_sens in *. minv H. erewrite obj_name_zap; [reflexivity | eassumption ..].
Qed.

Lemma find_unit_zap : forall l, find_unit GE l id_undeclared = None.
Proof. reflexivity. Qed.

Definition P_conc (x : conc) : Prop := forall G v,
  NoDup (nids_conc x) -> hits (oc_conc x) -> check_conc md GE G x = Ok v ->
  check_conc md GE G (om_conc zo x) = Bad s c.
Definition P_concs (x : concs) : Prop := forall G v,
  NoDup (nids_concs x) -> hits (oc_concs x) -> check_concs md GE G x = Ok v ->
  check_concs md GE G (om_concs zo x) = Bad s c.

Lemma conc_zap : (forall x, P_conc x) /\ (forall x, P_concs x).
Proof.
  apply conc_concs_ind.
  - (* CProc *) intros l sens ls b G v Hnd Hh H. cbn [nids_conc oc_conc] in *. autorewrite with omeq chkeq in *.
    nd. minv H. hit_cases Hh.
    + erewrite check_sens_zap; [reflexivity | eassumption ..].
    + unch. okrw. erewrite check_ldecls_zap; [reflexivity | eassumption ..].
    + unch. okrw. eapply check_stmts_zap; eassumption.
  - (* CAssign *) intros l t e G v Hnd Hh H. cbn [nids_conc oc_conc] in *. autorewrite with omeq chkeq in *.
    nd. minv H. hit_cases Hh.
    + erewrite check_target_zap; [reflexivity | eassumption ..].
    + unch. okrw. eapply root_zap; eassumption.
  - (* CBlock *) intros l ds b IHb G v Hnd Hh H. cbn [nids_conc oc_conc] in *. autorewrite with omeq chkeq in *.
    nd. minv H. hit_cases Hh.
    + erewrite check_decls_zap; [reflexivity | eassumption ..].
    + unch. okrw. eapply IHb; eassumption.
  - (* CInstE *) intros l lb e a gm pm G v Hnd Hh H. cbn [nids_conc oc_conc] in *.
    autorewrite with omeq chkeq in *. nd. minv H.
    destruct (find_unit GE (o_id lb) (o_id e)) as [[| gs ps inner | | | | | |]|] eqn:Ef; try discriminate K.
    minv K. hit_cases Hh.
    + hit_occ Hh0. rewrite (zo_hit s lb Hn). rewrite <- Hc. reflexivity.
    + unch. okrw. hit_occ Hh0. rewrite (zo_hit s e Hn). cbn [o_id o_nid]. rewrite find_unit_zap. rewrite <- Hc. reflexivity.
    + destruct a as [oa|]; [|exfalso; exact (hit_nil _ _ Hh0)]. hit_fact Hh0. cbn [nids_oocc] in *.
      unch. okrw. rewrite Ef.
      hit_occ Hh0. rewrite (zo_hit s oa Hn). rewrite <- Hc. reflexivity.
    + unch. okrw. rewrite Ef. rewrite om_oocc_id by notin. okrw.
      erewrite check_amap_zap; [reflexivity | apply check_generic_actual_zap | eassumption ..].
    + unch. okrw. rewrite Ef. rewrite om_oocc_id by notin. okrw.
      erewrite check_amap_zap; [reflexivity | apply check_port_actual_zap | eassumption ..].
  - (* CInstC *) intros l cc gm pm G v Hnd Hh H. cbn [nids_conc oc_conc] in *.
    autorewrite with omeq chkeq in *. nd. minv H. hit_cases Hh.
    + hit_occ Hh0. rewrite (zo_hit s cc Hn). rewrite <- Hc. reflexivity.
    + unch. okrw. destruct a as [|b [|]]; try discriminate K. destruct (b_kind b); try discriminate K. minv K.
      erewrite check_amap_zap; [reflexivity | apply check_generic_actual_zap | eassumption ..].
    + unch. okrw. destruct a as [|b [|]]; try discriminate K. destruct (b_kind b); try discriminate K. minv K.
      okrw. erewrite check_amap_zap; [reflexivity | apply check_port_actual_zap | eassumption ..].
  - (* CNil *) intros G v Hnd Hh H. exfalso; exact (hit_nil _ _ Hh).
  - (* CCons *) intros x IHx r IHr G v Hnd Hh H. cbn [nids_concs oc_concs] in *. autorewrite with omeq chkeq in *.
    nd. minv H. hit_cases Hh.
    + erewrite IHx; [reflexivity | eassumption ..].
    + unch. okrw. eapply IHr; eassumption.
Qed.
Definition check_concs_zap := proj2 conc_zap.

(* labels are not zapped *)
Lemma labels_zap :
  (forall x, NoDup (nids_conc x) -> hits (oc_conc x) -> labels_conc (om_conc zo x) = labels_conc x) /\
  (forall x, NoDup (nids_concs x) -> hits (oc_concs x) -> labels_concs (om_concs zo x) = labels_concs x).
Proof.
  apply conc_concs_ind.
  - intros l sens ls b Hnd Hh. cbn [nids_conc oc_conc] in *. autorewrite with omeq. cbn [labels_conc]. nd.
    hit_cases Hh; unch; reflexivity.
  - intros l t e Hnd Hh. cbn [nids_conc oc_conc] in *. autorewrite with omeq. cbn [labels_conc]. nd.
    hit_cases Hh; unch; reflexivity.
  - intros l ds b IHb Hnd Hh. cbn [nids_conc oc_conc] in *. autorewrite with omeq. cbn [labels_conc]. nd.
    hit_cases Hh; unch; [reflexivity|]. f_equal. apply IHb; assumption.
  - intros l lb e a gm pm Hnd Hh. cbn [nids_conc oc_conc] in *. autorewrite with omeq. cbn [labels_conc]. nd.
    assert (Hl : ~ In s (nids_occ l) -> [o_id (zo l)] = [o_id l]) by (intro X; rewrite zo_id by exact X; reflexivity).
    hit_cases Hh; apply Hl; try notin.
    destruct a as [oa|]; [|exfalso; exact (hit_nil _ _ Hh0)]. hit_fact Hh0. cbn [nids_oocc] in *. notin.
  - intros l cc gm pm Hnd Hh. cbn [nids_conc oc_conc] in *. autorewrite with omeq. cbn [labels_conc]. nd.
    hit_cases Hh; unch; reflexivity.
  - intros Hnd Hh. exfalso; exact (hit_nil _ _ Hh).
  - intros x IHx r IHr Hnd Hh. cbn [nids_concs oc_concs] in *. autorewrite with omeq. cbn [labels_concs]. nd.
    hit_cases Hh.
    + unch. f_equal. apply IHx; assumption.
    + unch. f_equal. apply IHr; assumption.
Qed.

(* ------------------------------------------------------------------------------------------ *)
(* context clauses                                                                              *)
(* ------------------------------------------------------------------------------------------ *)
Lemma check_ctx_basic_zap : forall LIBS G x G',
  NoDup (nids_ctx_item x) -> hits (oc_ctx_item x) -> check_ctx_basic GE LIBS G x = Ok G' ->
  check_ctx_basic GE LIBS G (om_ctx_item zo x) = Bad s c.
Proof.
  intros LIBS G [l|l p|l p x|l cc] G' Hnd Hh H; cbn [nids_ctx_item oc_ctx_item om_ctx_item check_ctx_basic] in *.
  - hit_occ Hh. rewrite (zo_hit s l Hn). rewrite <- Hc. reflexivity.
  - minv H. erewrite sel_pkg_zap; [reflexivity | eassumption ..].
  - minv H. pose proof (sel_item_zap GE s c _ _ _ _ _ Hnd Hh E0) as Hz.
    unfold oc_sel in Hh. rewrite app_assoc in Hnd, Hh. apply NoDup_app_inv in Hnd. destruct Hnd as (ND1 & ND2 & DJ).
    apply hit_app in Hh. destruct Hh as [Hh|Hh].
    + erewrite sel_pkg_zap; [reflexivity | eassumption ..].
    + hit_fact Hh. assert (Hl : ~ In s (nids_occ l)) by (intro X; apply (DJ s); [apply in_or_app; left; exact X|exact Hi]).
      assert (Hp : ~ In s (nids_occ p)) by (intro X; apply (DJ s); [apply in_or_app; right; exact X|exact Hi]).
      rewrite (zo_id s l Hl), (zo_id s p Hp) in *. okrw. rewrite Hz. reflexivity.
  - discriminate H.
Qed.
Lemma check_ctx_basics_zap : forall LIBS l G G',
  NoDup (flat_map nids_ctx_item l) -> hits (flat_map oc_ctx_item l) -> check_ctx_basics GE LIBS G l = Ok G' ->
  check_ctx_basics GE LIBS G (map (om_ctx_item zo) l) = Bad s c.
Proof.
  intros LIBS. induction l as [|x r IH]; intros G G' Hnd Hh H; cbn [flat_map map check_ctx_basics] in *.
  - exfalso; exact (hit_nil _ _ Hh).
  - nd. minv H. hit_cases Hh.
    + erewrite check_ctx_basic_zap; [reflexivity | eassumption ..].
    + unch. okrw. eapply IH; eassumption.
Qed.
Lemma check_ctx_item_zap : forall LIBS G x G',
  NoDup (nids_ctx_item x) -> hits (oc_ctx_item x) -> check_ctx_item GE LIBS G x = Ok G' ->
  check_ctx_item GE LIBS G (om_ctx_item zo x) = Bad s c.
Proof.
  intros LIBS G x G' Hnd Hh H. destruct x as [l|l p|l p x|l cc]; try (eapply check_ctx_basic_zap; eassumption).
  cbn [nids_ctx_item oc_ctx_item om_ctx_item check_ctx_item] in *. nd. minv H. hit_cases Hh.
  - hit_occ Hh0. rewrite (zo_hit s l Hn). rewrite <- Hc. reflexivity.
  - unch. okrw. hit_occ Hh. rewrite (zo_hit s cc Hn). cbn [o_id o_nid]. rewrite find_unit_zap. rewrite <- Hc. reflexivity.
Qed.
Lemma check_ctx_zap : forall LIBS l G G',
  NoDup (flat_map nids_ctx_item l) -> hits (flat_map oc_ctx_item l) -> check_ctx GE LIBS G l = Ok G' ->
  check_ctx GE LIBS G (map (om_ctx_item zo) l) = Bad s c.
Proof.
  intros LIBS. induction l as [|x r IH]; intros G G' Hnd Hh H; cbn [flat_map map check_ctx] in *.
  - exfalso; exact (hit_nil _ _ Hh).
  - nd. minv H. hit_cases Hh.
    + erewrite check_ctx_item_zap; [reflexivity | eassumption ..].
    + unch. okrw. eapply IH; eassumption.
Qed.

End Zap2.
