(* Mini/Walk.v — the phrases of a program with the environment the reference checks them in, and the
   replacement of one phrase (definitions only).

   A phrase is a sequential statement, a concurrent statement, or the initial value of a declaration
   (constant / signal / variable / interface default).  Phrases do not change the environment of what follows
   them, so a phrase can be replaced by another one and the verdict of the whole program is the verdict of the
   new phrase in the recorded environment (MiniProofs, phrase replacement theorems).  The fault catalogue (Mini/Faults.v)
   and the expression-level rewrites (Mini/Rewrites.v) are phrase replacements; `walk_program` is also what
   `sites` uses to know the expected type / environment at a plant site.

   Phrase ids: a statement is identified by its node id (`stmt_nid`; a procedure call by the node id of its
   callee), a concurrent statement by the node id of its label, an initial value by the node id of the declared
   name. *)
From Coq Require Import List NArith Arith Bool Orders Sorting.Mergesort.
Import ListNotations.
From RH Require Import Mini.Syntax Mini.Sem.
Open Scope N_scope.

Inductive phrase :=
| PStmt (s : stmt)
| PConc (c : conc)
| PInit (ty : sty) (e : expr).        (* e where a value of type ty is expected *)

Record pinfo := PInfo { pi_id : nid; pi_GE : genv; pi_G : env; pi_ph : phrase }.

Definition stmt_nid (s : stmt) : nid :=
  match s with
  | SSig i _ _ | SVar i _ _ | SIf i _ _ _ | SCase i _ _ _ | SFor i _ _ _ _ | SWhile i _ _ | SRet i _ | SNull i => i
  | SCall f _ => o_nid (fname_occ f)
  end.
Definition conc_nid (c : conc) : nid :=
  match c with
  | CProc l _ _ _ | CAssign l _ _ | CBlock l _ _ | CInstE l _ _ _ _ _ | CInstC l _ _ _ => o_nid l
  end.

Definition check_phrase (md : mode) (GE : genv) (G : env) (ph : phrase) : res unit :=
  match ph with
  | PStmt s => check_stmt md GE G s
  | PConc c => check_conc md GE G c
  | PInit ty e => root md GE G ty e
  end.

(* ------------------------------------------------------------------------------------------ *)
(* walk: all phrases, outermost first, in elaboration order                                     *)
(* ------------------------------------------------------------------------------------------ *)
Section Walk.
Variable md : mode.
Variable GE : genv.

Definition ok_env (r : res env) (k : env -> list pinfo) : list pinfo :=
  match r with Ok G => k G | Bad _ _ => [] end.

Fixpoint walk_stmt (G : env) (s : stmt) {struct s} : list pinfo :=
  PInfo (stmt_nid s) GE G (PStmt s) ::
  match s with
  | SIf _ _ th el => walk_stmts G th ++ walk_stmts G el
  | SCase _ _ alts oth => walk_calts G alts ++ walk_stmts G oth
  | SFor _ v _ _ b => ok_env (declare (push G) v (BObj KConst MNone SInt)) (fun G' => walk_stmts G' b)
  | SWhile _ _ b => walk_stmts G b
  | _ => []
  end
with walk_stmts (G : env) (s : stmts) {struct s} : list pinfo :=
  match s with SNil => [] | SCons x r => walk_stmt G x ++ walk_stmts G r end
with walk_calts (G : env) (a : calts) {struct a} : list pinfo :=
  match a with CANil => [] | CACons _ b r => walk_stmts G b ++ walk_calts G r end.

Definition init_info (G : env) (o : occ) (t : tmark) (e : option expr) : list pinfo :=
  match e with
  | Some e => [PInfo (o_nid o) GE G (PInit (tmark_ty GE G t) e)]
  | None => []
  end.
Definition walk_ldecl (G : env) (d : ldecl) : list pinfo :=
  match d with
  | LVar o t i => init_info G o t i
  | LConst o t i => init_info G o t (Some i)
  end.
Fixpoint walk_ldecls (G : env) (ds : list ldecl) (k : env -> list pinfo) : list pinfo :=
  match ds with
  | [] => k G
  | d :: r => walk_ldecl G d ++ ok_env (check_ldecl md GE G d) (fun G' => walk_ldecls G' r k)
  end.
Fixpoint walk_ifaces (c : ocls) (G : env) (l : list iface) (k : env -> list pinfo) : list pinfo :=
  match l with
  | [] => k G
  | i :: r => init_info G (i_occ i) (i_ty i) (i_def i) ++
              ok_env (declare_ifaces md GE c G [i]) (fun G' => walk_ifaces c G' r k)
  end.
Definition walk_sub_body (G : env) (ps : list param) (ret : option sty) (ls : list ldecl) (b : stmts) : list pinfo :=
  ok_env (declare_params GE (set_ret (push (pure_view G)) (Some ret)) ps)
         (fun G1 => walk_ldecls G1 ls (fun G2 => walk_stmts G2 b)).
(* G': the environment after the declaration (bodies see the subprogram itself) *)
Definition walk_decl (G G' : env) (d : decl) : list pinfo :=
  match d with
  | DConst o t i => init_info G o t i
  | DSignal o t i => init_info G o t i
  | DFunBody _ ps rt ls b => walk_sub_body G' ps (Some (tmark_ty GE G rt)) ls b
  | DProcBody _ ps ls b => walk_sub_body G' ps None ls b
  | DComp _ gs ps => walk_ifaces KConst (push G) gs (fun Gg => walk_ifaces KSig Gg ps (fun _ => []))
  | _ => []
  end.
Fixpoint walk_decls (rg : region) (obl : list obligation) (G : env) (ds : list decl) (k : env -> list pinfo) : list pinfo :=
  match ds with
  | [] => k G
  | d :: r => ok_env (check_decl md GE rg obl G d) (fun G' => walk_decl G G' d ++ walk_decls rg obl G' r k)
  end.

Fixpoint walk_conc (G : env) (c : conc) {struct c} : list pinfo :=
  PInfo (conc_nid c) GE G (PConc c) ::
  match c with
  | CProc _ _ ls b => walk_ldecls (push G) ls (fun G' => walk_stmts G' b)
  | CBlock _ ds b => walk_decls RArch [] (push G) ds (fun G' => walk_concs G' b)
  | _ => []
  end
with walk_concs (G : env) (c : concs) {struct c} : list pinfo :=
  match c with CNil => [] | CCons x r => walk_conc G x ++ walk_concs G r end.
End Walk.

Definition walk_unit (md : mode) (GE : genv) (LIBS : list ident) (lib : ident) (uid : N) (u : dunit) : list pinfo :=
  match u_body u with
  | UPkg o ds =>
      ok_env (check_ctx GE LIBS (env0 uid) (u_ctx u))
             (fun G0 => walk_decls md GE RPkg [] (set_home G0 (Some (lib, o_id o))) ds (fun _ => []))
  | UGen o gs ds =>
      ok_env (check_ctx GE LIBS (env0 uid) (u_ctx u))
             (fun G0 => walk_ifaces md GE KConst (set_home G0 (Some (lib, o_id o))) gs
                          (fun Gg => walk_decls md GE RGen [] Gg ds (fun _ => [])))
  | UBody o ds =>
      match find_unit GE lib (o_id o) with
      | Some (GPkg _ inner obl) | Some (GGen _ _ inner obl) =>
          ok_env (check_ctx GE LIBS (set_done (set_home (set_uid inner uid) None) []) (u_ctx u))
                 (fun G0 => walk_decls md GE RBody obl G0 ds (fun _ => []))
      | _ => []
      end
  | UEnt o gs ps =>
      ok_env (check_ctx GE LIBS (env0 uid) (u_ctx u))
             (fun G0 => walk_ifaces md GE KConst G0 gs (fun Gg => walk_ifaces md GE KSig Gg ps (fun _ => [])))
  | UArch o e ds body =>
      match find_unit GE lib (o_id e) with
      | Some (GEnt _ _ inner) =>
          ok_env (check_ctx GE LIBS (set_uid inner uid) (u_ctx u))
                 (fun G0 => walk_decls md GE RArch [] G0 ds (fun G1 => walk_concs md GE G1 body))
      | _ => []
      end
  | _ => []
  end.
Fixpoint walk_units (md : mode) (GE : genv) (LIBS : list ident) (lib : ident) (uid : N) (us : list dunit)
    (k : genv -> N -> list pinfo) : list pinfo :=
  match us with
  | [] => k GE uid
  | u :: r =>
      walk_unit md GE LIBS lib uid u ++
      match check_unit md GE LIBS lib uid u with
      | Ok g => walk_units md (GE ++ [g]) LIBS lib (uid + 1) r k
      | Bad _ _ => []
      end
  end.
Fixpoint walk_libs (md : mode) (GE : genv) (LIBS : list ident) (uid : N) (ls : list library) : list pinfo :=
  match ls with
  | [] => []
  | l :: r => walk_units md GE LIBS (l_name l) uid (l_units l) (fun GE' uid' => walk_libs md GE' LIBS uid' r)
  end.
Definition walk_program (p : program) : list pinfo := walk_libs Exactly [] (map l_name p) 0 p.

(* ------------------------------------------------------------------------------------------ *)
(* replacement of the phrase with id s                                                          *)
(* ------------------------------------------------------------------------------------------ *)
Section Sub.
Variable s : nid.
Variable fs : stmt -> stmt.          (* new statement (id s)              *)
Variable fc : conc -> conc.          (* new concurrent statement (id s)   *)
Variable fe : expr -> expr.          (* new initial value (id s)          *)

Fixpoint sub_stmt (x : stmt) {struct x} : stmt :=
  if stmt_nid x =? s then fs x else
  match x with
  | SIf i c th el => SIf i c (sub_stmts th) (sub_stmts el)
  | SCase i sel alts oth => SCase i sel (sub_calts alts) (sub_stmts oth)
  | SFor i v lo hi b => SFor i v lo hi (sub_stmts b)
  | SWhile i c b => SWhile i c (sub_stmts b)
  | _ => x
  end
with sub_stmts (x : stmts) {struct x} : stmts :=
  match x with SNil => SNil | SCons a r => SCons (sub_stmt a) (sub_stmts r) end
with sub_calts (x : calts) {struct x} : calts :=
  match x with CANil => CANil | CACons cs b r => CACons cs (sub_stmts b) (sub_calts r) end.

Definition sub_oinit (o : occ) (e : option expr) : option expr :=
  match e with Some e => Some (if o_nid o =? s then fe e else e) | None => None end.
Definition sub_ldecl (d : ldecl) : ldecl :=
  match d with
  | LVar o t i => LVar o t (sub_oinit o i)
  | LConst o t i => LConst o t (if o_nid o =? s then fe i else i)
  end.
Definition sub_iface (i : iface) : iface := IFace (i_occ i) (i_mode i) (i_ty i) (sub_oinit (i_occ i) (i_def i)).
Definition sub_decl (d : decl) : decl :=
  match d with
  | DConst o t i => DConst o t (sub_oinit o i)
  | DSignal o t i => DSignal o t (sub_oinit o i)
  | DFunBody o ps rt ls b => DFunBody o ps rt (map sub_ldecl ls) (sub_stmts b)
  | DProcBody o ps ls b => DProcBody o ps (map sub_ldecl ls) (sub_stmts b)
  | DComp o gs ps => DComp o (map sub_iface gs) (map sub_iface ps)
  | _ => d
  end.
Fixpoint sub_conc (c : conc) {struct c} : conc :=
  if conc_nid c =? s then fc c else
  match c with
  | CProc l sens ls b => CProc l sens (map sub_ldecl ls) (sub_stmts b)
  | CBlock l ds b => CBlock l (map sub_decl ds) (sub_concs b)
  | _ => c
  end
with sub_concs (c : concs) {struct c} : concs :=
  match c with CNil => CNil | CCons x r => CCons (sub_conc x) (sub_concs r) end.
Definition sub_ubody (u : ubody) : ubody :=
  match u with
  | UPkg o ds => UPkg o (map sub_decl ds)
  | UBody o ds => UBody o (map sub_decl ds)
  | UEnt o gs ps => UEnt o (map sub_iface gs) (map sub_iface ps)
  | UArch o e ds b => UArch o e (map sub_decl ds) (sub_concs b)
  | UGen o gs ds => UGen o (map sub_iface gs) (map sub_decl ds)
  | _ => u
  end.
Definition sub_dunit (u : dunit) : dunit := DUnit (u_ctx u) (sub_ubody (u_body u)).
Definition sub_program (p : program) : program :=
  map (fun l => Lib (l_name l) (map sub_dunit (l_units l))) p.
End Sub.

Definition sub_phrase (s : nid) (f : phrase -> phrase) (p : program) : program :=
  sub_program s
    (fun x => match f (PStmt x) with PStmt y => y | _ => x end)
    (fun x => match f (PConc x) with PConc y => y | _ => x end)
    (fun e => match f (PInit SErr e) with PInit _ y => y | _ => e end) p.

Definition find_phrase (p : program) (s : nid) : option pinfo :=
  find (fun i => pi_id i =? s) (walk_program p).
Definition max_nid (p : program) : nid := fold_right N.max 0 (nids_program p).

(* all node ids of the program are different (decided by sorting) *)
Module NOrder <: TotalLeBool.
  Definition t := N.
  Definition leb := N.leb.
  Theorem leb_total : forall a1 a2, leb a1 a2 = true \/ leb a2 a1 = true.
  Proof. intros a1 a2. unfold leb. destruct (N.leb_spec a1 a2) as [H|H]; [left; reflexivity|right]. apply N.leb_le. apply N.lt_le_incl. exact H. Qed.
End NOrder.
Module NSort := Sort NOrder.
Fixpoint adjacent_distinct (l : list N) : bool :=
  match l with
  | a :: ((b :: _) as r) => negb (a =? b) && adjacent_distinct r
  | _ => true
  end.
Definition nodup_list (l : list N) : bool := adjacent_distinct (NSort.sort l).
Definition nodup_nids (p : program) : bool := nodup_list (nids_program p).
