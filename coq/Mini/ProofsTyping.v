(* Mini/ProofsTyping.v — soundness of the declarative typing judgment (Mini/Typing.v) for the reference
   semantics (Mini/Sem.v): every derivation is accepted by the reference.  Proofs.

   `sty_eqb` is reflexive on every semantic type (also on SErr, the type of a type mark that did not resolve). *)
From Coq Require Import List NArith Arith Bool Lia.
Import ListNotations.
From RH Require Import Mini.Syntax Mini.Sem Mini.Typing.
Open Scope N_scope.

(* ------------------------------------------------------------------------------------------ *)
(* generalities                                                                                 *)
(* ------------------------------------------------------------------------------------------ *)
Lemma existsb_ext_all {A} (f g : A -> bool) (l : list A) :
  (forall x, f x = g x) -> existsb f l = existsb g l.
Proof.
  intros Hfg. induction l as [|x r IH]; [reflexivity|].
  cbn [existsb]. rewrite Hfg, IH. reflexivity.
Qed.

Lemma flat_map_ext_in' {A B} (f g : A -> list B) (l : list A) :
  (forall x, In x l -> f x = g x) -> flat_map f l = flat_map g l.
Proof.
  induction l as [|x r IH]; intros Hfg; [reflexivity|].
  cbn [flat_map]. rewrite (Hfg x (or_introl eq_refl)). rewrite IH; [reflexivity|].
  intros y Hy. apply Hfg. right. exact Hy.
Qed.

Lemma mul_ge1 (a b : nat) : (a >= 1 -> b >= 1 -> a * b >= 1)%nat.
Proof. intros Ha Hb. nia. Qed.

Lemma in_repeat_pos {A} (x : A) (n : nat) : (n >= 1)%nat -> In x (repeat x n).
Proof. intros Hn. destruct n as [|k]; [lia|]. left. reflexivity. Qed.

(* ------------------------------------------------------------------------------------------ *)
(* sty_eqb: a partial equivalence (SErr is not related to itself)                               *)
(* ------------------------------------------------------------------------------------------ *)
Lemma sty_eqb_sym (a b : sty) : sty_eqb a b = sty_eqb b a.
Proof.
  destruct a as [| | | | | |u n ls|u n|u n fs|u n len el],
           b as [| | | | | |u' n' ls'|u' n'|u' n' fs'|u' n' len' el'];
    cbn [sty_eqb]; try reflexivity;
    rewrite (N.eqb_sym u u'), (N.eqb_sym n n'); reflexivity.
Qed.

Lemma sty_eqb_cong (a b : sty) : sty_eqb a b = true -> forall x, sty_eqb a x = sty_eqb b x.
Proof.
  intros Hab x.
  destruct a as [| | | | | |u n ls|u n|u n fs|u n len el],
           b as [| | | | | |u' n' ls'|u' n'|u' n' fs'|u' n' len' el'];
    cbn [sty_eqb] in Hab; try discriminate Hab; try reflexivity;
    apply andb_true_iff in Hab; destruct Hab as [Hu Hn];
    apply N.eqb_eq in Hu; apply N.eqb_eq in Hn; subst u' n'; reflexivity.
Qed.

Lemma sty_eqb_cong_r (a b : sty) : sty_eqb a b = true -> forall x, sty_eqb x a = sty_eqb x b.
Proof.
  intros Hab x. rewrite (sty_eqb_sym x a), (sty_eqb_sym x b). apply sty_eqb_cong. exact Hab.
Qed.

Lemma sty_eqb_trans (a b c : sty) : sty_eqb a b = true -> sty_eqb b c = true -> sty_eqb a c = true.
Proof. intros Hab Hbc. rewrite (sty_eqb_cong a b Hab c). exact Hbc. Qed.

Lemma sty_eqb_refl_l (a b : sty) : sty_eqb a b = true -> sty_eqb a a = true.
Proof. intros Hab. rewrite (sty_eqb_cong_r a b Hab a). exact Hab. Qed.

Lemma sty_eqb_refl_r (a b : sty) : sty_eqb a b = true -> sty_eqb b b = true.
Proof. intros Hab. rewrite sty_eqb_sym in Hab. exact (sty_eqb_refl_l b a Hab). Qed.

Lemma sty_eqb_refl (a : sty) : a <> SErr -> sty_eqb a a = true.
Proof.
  intros Ha.
  destruct a as [| | | | | |u n ls|u n|u n fs|u n len el]; cbn [sty_eqb];
    try reflexivity; try (exfalso; apply Ha; reflexivity);
    rewrite !N.eqb_refl; reflexivity.
Qed.

Lemma sty_eqb_SUInt_r (a : sty) : sty_eqb a SUInt = true -> a = SUInt.
Proof. destruct a; cbn [sty_eqb]; intros H; try discriminate H; reflexivity. Qed.

Lemma sty_eqb_SUInt_l (a : sty) : sty_eqb SUInt a = true -> a = SUInt.
Proof. rewrite sty_eqb_sym. apply sty_eqb_SUInt_r. Qed.

Lemma is_int_cong (a b : sty) : sty_eqb a b = true -> is_int a = is_int b.
Proof. destruct a, b; cbn [sty_eqb]; intros H; try discriminate H; reflexivity. Qed.

Lemma op_class_ok_cong (op : binop) (a b : sty) :
  ord_array op a = false -> sty_eqb a b = true -> op_class_ok op a = op_class_ok op b.
Proof. destruct a, b; cbn [sty_eqb]; intros Ho H; try discriminate H; destruct op; try reflexivity; discriminate Ho. Qed.

Lemma sty_name_cong (a b : sty) : sty_eqb a b = true -> sty_name a = sty_name b.
Proof.
  destruct a as [| | | | | |u n ls|u n|u n fs|u n len el],
           b as [| | | | | |u' n' ls'|u' n'|u' n' fs'|u' n' len' el'];
    cbn [sty_eqb]; intros Hab; try discriminate Hab; try reflexivity;
    apply andb_true_iff in Hab; destruct Hab as [_ Hn]; apply N.eqb_eq in Hn;
    subst n'; reflexivity.
Qed.

Lemma ops_visible_cong (G : env) (a b : sty) : sty_eqb a b = true -> ops_visible G a = ops_visible G b.
Proof.
  intros Hab. unfold ops_visible. rewrite <- (sty_name_cong a b Hab).
  destruct (sty_name a) as [n|].
  - apply existsb_ext_all. intros bd.
    destruct (b_kind bd) as [c m t0|t0 own|t0|t0|ps r|ps|gs ps]; try reflexivity.
    destruct own; [|reflexivity]. apply sty_eqb_cong. exact Hab.
  - destruct a, b; cbn [sty_eqb] in Hab; try discriminate Hab; reflexivity.
Qed.

(* fits *)
Lemma fits_cong_l (t t' x : sty) : sty_eqb t t' = true -> fits t x = fits t' x.
Proof.
  intros Htt. unfold fits. rewrite (sty_eqb_cong_r t t' Htt x), (is_int_cong t t' Htt). reflexivity.
Qed.

Lemma fits_cong_r (t a a' : sty) : sty_eqb a a' = true -> fits t a = fits t a'.
Proof.
  intros Haa. unfold fits. rewrite (sty_eqb_cong a a' Haa t).
  destruct a, a'; cbn [sty_eqb] in Haa; try discriminate Haa; reflexivity.
Qed.

Lemma fits_refl (t a : sty) : fits t a = true -> sty_eqb a a = true.
Proof.
  unfold fits. intros H. apply orb_true_iff in H. destruct H as [H|H].
  - exact (sty_eqb_refl_l a t H).
  - destruct a; try discriminate H. reflexivity.
Qed.

Lemma fits_SUInt (a : sty) : fits SUInt a = true -> a = SUInt.
Proof.
  unfold fits. intros H. apply orb_true_iff in H. destruct H as [H|H].
  - exact (sty_eqb_SUInt_r a H).
  - destruct a; try discriminate H. reflexivity.
Qed.

Lemma count_fits_in (t x : sty) (l : list sty) : In x l -> fits t x = true -> (count_fits t l >= 1)%nat.
Proof.
  unfold count_fits. induction l as [|y r IH]; intros Hin Hf; [destruct Hin|].
  cbn [filter]. destruct Hin as [Hy|Hr].
  - subst y. rewrite Hf. cbn [length]. lia.
  - specialize (IH Hr Hf). destruct (fits t y); cbn [length]; lia.
Qed.

(* dedup keeps a representative of every class *)
Lemma dedup_in (t : sty) (l : list sty) :
  (exists x, In x l /\ sty_eqb t x = true) -> exists y, In y (dedup l) /\ sty_eqb t y = true.
Proof.
  induction l as [|h r IH]; intros (x & Hin & Hx); [destruct Hin|].
  cbn [dedup]. destruct (existsb (sty_eqb h) r) eqn:Edup.
  - apply IH. destruct Hin as [Hh|Hr].
    + subst x. apply existsb_exists in Edup. destruct Edup as (y & Hy & Hhy).
      exists y. split; [exact Hy|]. exact (sty_eqb_trans t h y Hx Hhy).
    + exists x. split; assumption.
  - destruct Hin as [Hh|Hr].
    + subst x. exists h. split; [left; reflexivity|exact Hx].
    + destruct (IH (ex_intro _ x (conj Hr Hx))) as (y & Hy & Hty).
      exists y. split; [right; exact Hy|exact Hty].
Qed.

(* ------------------------------------------------------------------------------------------ *)
(* association of actuals                                                                       *)
(* ------------------------------------------------------------------------------------------ *)
Lemma named_for_cons {A} (x : ident) (c : choice) (l : A) (al : list (choice * A)) :
  named_for x ((c, l) :: al) =
  (match c with ChName o => if o_id o =? x then [l] else [] | _ => [] end) ++ named_for x al.
Proof. reflexivity. Qed.

Lemma assoc_pos {A} (x : ident) (ns : list ident) (l : A) (al : list (choice * A)) (ais : list A) :
  assoc ns al = Some ais -> assoc (x :: ns) ((ChPos, l) :: al) = Some (l :: ais).
Proof.
  unfold assoc. cbn [split_pos]. destruct (split_pos al) as [p n].
  cbn [length skipn app]. change (S (length p) <=? S (length ns))%nat with (length p <=? length ns)%nat.
  destruct ((length p <=? length ns)%nat && named_ok (skipn (length p) ns) n); intros H; [|discriminate H].
  injection H as H. subst ais. reflexivity.
Qed.

(* the interpreted named part: formals in order, each actual has a fitting interpretation *)
Inductive Named : list ident -> list sty -> list (choice * list sty) -> Prop :=
| Named_nil : Named [] [] []
| Named_cons : forall o ns t ts l al,
    (count_fits t l >= 1)%nat -> Named ns ts al -> Named (o_id o :: ns) (t :: ts) ((ChName o, l) :: al).

Lemma Named_notin ns ts al : Named ns ts al ->
  forall x, existsb (N.eqb x) ns = false -> named_for x al = [].
Proof.
  induction 1 as [|o ns t ts l al Hc Hn IH]; intros x Hx; [reflexivity|].
  cbn [existsb] in Hx. apply orb_false_iff in Hx. destruct Hx as [Hxo Hxns].
  rewrite named_for_cons, (N.eqb_sym (o_id o) x), Hxo. cbn [app]. exact (IH x Hxns).
Qed.

Lemma notin_neq (y x : ident) (ns : list ident) :
  existsb (N.eqb y) ns = false -> In x ns -> (y =? x) = false.
Proof.
  intros Hy Hx. destruct (y =? x) eqn:E; [|reflexivity].
  apply N.eqb_eq in E. subst x.
  assert (Ht : existsb (N.eqb y) ns = true).
  { apply existsb_exists. exists y. split; [exact Hx|apply N.eqb_refl]. }
  rewrite Ht in Hy. discriminate Hy.
Qed.

Lemma nodup_idents_cons (y : ident) (ns : list ident) :
  nodup_idents (y :: ns) = true -> existsb (N.eqb y) ns = false /\ nodup_idents ns = true.
Proof.
  cbn [nodup_idents]. intros H. apply andb_true_iff in H. destruct H as [H1 H2].
  split; [|exact H2]. destruct (existsb (N.eqb y) ns); [discriminate H1|reflexivity].
Qed.

Lemma Named_head o ns ts l al : Named ns ts al -> existsb (N.eqb (o_id o)) ns = false ->
  named_for (o_id o) ((ChName o, l) :: al) = [l].
Proof.
  intros Hn Hnot. rewrite named_for_cons, N.eqb_refl, (Named_notin ns ts al Hn _ Hnot). reflexivity.
Qed.

Lemma Named_tail o ns l (al : list (choice * list sty)) x : existsb (N.eqb (o_id o)) ns = false -> In x ns ->
  named_for x ((ChName o, l) :: al) = named_for x al.
Proof.
  intros Hnot Hx. rewrite named_for_cons, (notin_neq (o_id o) x ns Hnot Hx). reflexivity.
Qed.

Lemma Named_len1 ns ts al : Named ns ts al -> nodup_idents ns = true ->
  forall x, In x ns -> length (named_for x al) = 1%nat.
Proof.
  induction 1 as [|o ns t ts l al Hc Hn IH]; intros Hnd x Hx; [destruct Hx|].
  apply nodup_idents_cons in Hnd. destruct Hnd as [Hnot Hnd].
  destruct Hx as [Hx|Hx].
  - subst x. rewrite (Named_head o ns ts l al Hn Hnot). reflexivity.
  - rewrite (Named_tail o ns l al x Hnot Hx). exact (IH Hnd x Hx).
Qed.

Lemma Named_flat ns ts al : Named ns ts al -> nodup_idents ns = true ->
  flat_map (fun x => named_for x al) ns = map snd al.
Proof.
  induction 1 as [|o ns t ts l al Hc Hn IH]; intros Hnd; [reflexivity|].
  apply nodup_idents_cons in Hnd. destruct Hnd as [Hnot Hnd].
  cbn [flat_map map snd]. rewrite (Named_head o ns ts l al Hn Hnot). cbn [app]. f_equal.
  rewrite <- (IH Hnd). apply flat_map_ext_in'. intros x Hx. exact (Named_tail o ns l al x Hnot Hx).
Qed.

Lemma Named_choices ns ts al : Named ns ts al ->
  forall a, In a al -> exists o, fst a = ChName o /\ In (o_id o) ns.
Proof.
  induction 1 as [|o ns t ts l al Hc Hn IH]; intros a Ha; [destruct Ha|].
  destruct Ha as [Ha|Ha].
  - subst a. exists o. split; [reflexivity|left; reflexivity].
  - destruct (IH a Ha) as (o' & Hf & Hin). exists o'. split; [exact Hf|right; exact Hin].
Qed.

Lemma Named_length ns ts al : Named ns ts al -> length al = length ns.
Proof. induction 1 as [|o ns t ts l al Hc Hn IH]; [reflexivity|]. cbn [length]. rewrite IH. reflexivity. Qed.

Lemma Named_split ns ts al : Named ns ts al -> split_pos al = ([], al).
Proof. destruct 1; reflexivity. Qed.

Lemma Named_ways ns ts al : Named ns ts al -> (ways ts (map snd al) >= 1)%nat.
Proof.
  induction 1 as [|o ns t ts l al Hc Hn IH]; [cbn [ways map]; lia|].
  cbn [ways map snd]. apply mul_ge1; assumption.
Qed.

Lemma Named_named_ok ns ts al : Named ns ts al -> nodup_idents ns = true -> named_ok ns al = true.
Proof.
  intros Hn Hnd. unfold named_ok. apply andb_true_iff. split; [apply andb_true_iff; split|].
  - apply forallb_forall. intros a Ha.
    destruct (Named_choices ns ts al Hn a Ha) as (o & Hf & Hin). rewrite Hf.
    apply existsb_exists. exists (o_id o). split; [exact Hin|apply N.eqb_refl].
  - apply forallb_forall. intros x Hx. rewrite (Named_len1 ns ts al Hn Hnd x Hx). reflexivity.
  - rewrite (Named_length ns ts al Hn). apply Nat.eqb_refl.
Qed.

Lemma Named_assoc ns ts al : Named ns ts al -> nodup_idents ns = true ->
  exists ais, assoc ns al = Some ais /\ (ways ts ais >= 1)%nat.
Proof.
  intros Hn Hnd. exists (map snd al). split; [|exact (Named_ways ns ts al Hn)].
  unfold assoc. rewrite (Named_split ns ts al Hn). cbn [length skipn app].
  rewrite (Named_named_ok ns ts al Hn Hnd). cbn [Nat.leb andb].
  rewrite (Named_flat ns ts al Hn Hnd). reflexivity.
Qed.

Lemma in_call_interps (ps : list psig) (r : sty) (fl : list (list psig * sty)) (al : list (choice * list sty)) :
  In (ps, r) fl -> (call_ways ps al >= 1)%nat ->
  In r (flat_map (fun c => repeat (snd c) (call_ways (fst c) al)) fl).
Proof.
  intros Hin Hw. apply in_flat_map. exists (ps, r). split; [exact Hin|].
  cbn [fst snd]. apply in_repeat_pos. exact Hw.
Qed.

(* ------------------------------------------------------------------------------------------ *)
(* soundness of the expression judgments                                                        *)
(* ------------------------------------------------------------------------------------------ *)
Section Sound.
Variable md : mode.
Variable GE : genv.

(* unfolding equations of the reference (all by computation) *)
Lemma interp_ECall G f a :
  interp md GE G (ECall f a) =
  (bs <- callee_bindings GE G f ;; al <- interp_args md GE G a ;;
   Ok (flat_map (fun c => repeat (snd c) (call_ways (fst c) al)) (funs_of bs))).
Proof. reflexivity. Qed.
Lemma interp_EBin_full G i op l r :
  interp md GE G (EBin i op l r) =
  (if is_aggregate r then
     if is_aggregate l then Ok [] else
     li <- interp md GE G l ;;
     match agg_type G op li with
     | Some t => root md GE G t r ;;; Ok [op_result op t]
     | None => Ok []
     end
   else if is_aggregate l then
     ri <- interp md GE G r ;;
     match agg_type G op ri with
     | Some t => root md GE G t l ;;; Ok [op_result op t]
     | None => Ok []
     end
   else li <- interp md GE G l ;; ri <- interp md GE G r ;; Ok (op_interps G op li ri)).
Proof. reflexivity. Qed.
Lemma interp_EAgg_nil G i els : interp md GE G (EAgg i els) = Ok [].
Proof. reflexivity. Qed.
Lemma interp_EBin G i op l r :
  is_aggregate l = false -> is_aggregate r = false ->
  interp md GE G (EBin i op l r) =
  (li <- interp md GE G l ;; ri <- interp md GE G r ;; Ok (op_interps G op li ri)).
Proof. intros Hl Hr. rewrite interp_EBin_full, Hl, Hr. reflexivity. Qed.
Lemma interp_in_not_agg G e l x : interp md GE G e = Ok l -> In x l -> is_aggregate e = false.
Proof.
  intros H Hin. destruct e; try reflexivity. rewrite interp_EAgg_nil in H. injection H as <-. destruct Hin.
Qed.
Lemma interp_ENot G i e :
  interp md GE G (ENot i e) =
  (li <- interp md GE G e ;; Ok (filter (fun t => match t with SBool | SBit => true | _ => false end) li)).
Proof. reflexivity. Qed.
Lemma interp_EQual G t e :
  interp md GE G (EQual t e) = (ty <- resolve_tmark GE G t ;; root md GE G ty e ;;; Ok [ty]).
Proof. reflexivity. Qed.
Lemma interp_args_cons G c e r :
  interp_args md GE G (ACons c e r) =
  (x <- interp md GE G e ;; y <- interp_args md GE G r ;; Ok ((c, x) :: y)).
Proof. reflexivity. Qed.

Lemma root_nonagg G t e : is_agg e = false ->
  root md GE G t e =
  (l <- interp md GE G e ;;
   match count_fits t l with
   | O => let (n, c) := blame md GE G t e in Bad n c
   | S O => Ok tt
   | _ => if crit md 2 then Ok tt else Bad (head_nid e) Ambiguous
   end).
Proof. destruct e; intros Hagg; try discriminate Hagg; reflexivity. Qed.

Definition not_paren (els : args) : bool := match els with ACons ChPos _ ANil => false | _ => true end.

Lemma root_rec G u n fs i els : not_paren els = true ->
  root md GE G (SRec u n fs) (EAgg i els) = root_fields md GE G i fs fs els.
Proof.
  destruct els as [|c e r]; [reflexivity|]. destruct c as [|o|]; try reflexivity.
  destruct r as [|c' e' r']; intros Hp; [discriminate Hp|reflexivity].
Qed.
Lemma root_arr G u n len el i els : not_paren els = true ->
  root md GE G (SArr u n len el) (EAgg i els) = root_elems md GE G i el (N.to_nat len) els.
Proof.
  destruct els as [|c e r]; [reflexivity|]. destruct c as [|o|]; try reflexivity.
  destruct r as [|c' e' r']; intros Hp; [discriminate Hp|reflexivity].
Qed.

Lemma root_fields_nil G i all fs :
  root_fields md GE G i all fs ANil = guard (match fs with [] => true | _ => false end) i Other.
Proof. reflexivity. Qed.
Lemma root_fields_pos G i all ft fs e r :
  root_fields md GE G i all (ft :: fs) (ACons ChPos e r) =
  (root md GE G (snd ft) e ;;; root_fields md GE G i all fs r).
Proof. reflexivity. Qed.
Lemma root_fields_named G i all fs f e r :
  root_fields md GE G i all fs (ACons (ChName f) e r) =
  match find_field all f with
  | Some x =>
      guard (existsb (fun y => fst y =? o_id f) fs) (o_nid f) Other ;;;
      guard (negb (args_has_pos r)) (o_nid f) Conservative ;;;
      root md GE G (snd x) e ;;;
      root_fields md GE G i all (filter (fun y => negb (fst y =? o_id f)) fs) r
  | None => Bad (o_nid f) UnknownField
  end.
Proof. reflexivity. Qed.
Lemma root_fields_others G i all ft fs e :
  root_fields md GE G i all (ft :: fs) (ACons ChOthers e ANil) =
  (guard (forallb (fun y => sty_eqb (snd y) (snd ft)) fs) (head_nid e) Other ;;; root md GE G (snd ft) e).
Proof. reflexivity. Qed.
Lemma root_elems_nil G i el n :
  root_elems md GE G i el n ANil = guard (match n with O => true | _ => false end) i Other.
Proof. reflexivity. Qed.
Lemma root_elems_pos G i el n e r :
  root_elems md GE G i el (S n) (ACons ChPos e r) = (root md GE G el e ;;; root_elems md GE G i el n r).
Proof. reflexivity. Qed.
Lemma root_elems_others G i el n e :
  root_elems md GE G i el n (ACons ChOthers e ANil) = root md GE G el e.
Proof. reflexivity. Qed.

(* the conclusions of the mutual induction *)
Definition Pe (G : env) (e : expr) (a : sty) : Prop :=
  exists l, interp md GE G e = Ok l /\ (sty_eqb a a = true -> existsb (sty_eqb a) l = true).
Definition Pa (G : env) (ns : list ident) (ts : list sty) (a : args) : Prop :=
  exists al, interp_args md GE G a = Ok al /\ exists ais, assoc ns al = Some ais /\ (ways ts ais >= 1)%nat.
Definition Pn (G : env) (ns : list ident) (ts : list sty) (a : args) : Prop :=
  exists al, interp_args md GE G a = Ok al /\ Named ns ts al.
Definition Pr (G : env) (t : sty) (e : expr) : Prop := root md GE G t e = Ok tt.
Definition Pf (G : env) (all fs : list (ident * sty)) (els : args) : Prop :=
  forall i, root_fields md GE G i all fs els = Ok tt.
Definition Pl (G : env) (el : sty) (n : nat) (els : args) : Prop :=
  forall i, root_elems md GE G i el n els = Ok tt.

(* what an induction hypothesis on an operand / actual gives where type t is expected *)
Lemma Pe_use G e a t : Pe G e a -> fits t a = true ->
  exists l, interp md GE G e = Ok l /\
    exists a', In a' l /\ sty_eqb a a' = true /\ fits t a' = true /\ (count_fits t l >= 1)%nat.
Proof.
  intros (l & Hl & Hex) Hf. exists l. split; [exact Hl|].
  specialize (Hex (fits_refl t a Hf)). apply existsb_exists in Hex. destruct Hex as (a' & Hin & Haa).
  assert (Hf' : fits t a' = true) by (rewrite <- (fits_cong_r t a a' Haa); exact Hf).
  exists a'. repeat split; try assumption. exact (count_fits_in t a' l Hin Hf').
Qed.

Lemma bin_case G i op l r al ar t :
  Pe G l al -> Pe G r ar -> fits t al = true -> fits t ar = true ->
  sty_eqb al t || sty_eqb ar t = true -> op_class_ok op t = true -> ord_array op t = false -> ops_visible G t = true ->
  Pe G (EBin i op l r) (op_result op t).
Proof.
  intros IHl IHr Hfl Hfr Hor Hcls Hord Hvis.
  destruct (Pe_use G l al t IHl Hfl) as (li & Hli & al' & Hinl & Heql & Hfl' & _).
  destruct (Pe_use G r ar t IHr Hfr) as (ri & Hri & ar' & Hinr & Heqr & Hfr' & _).
  exists (op_interps G op li ri). split.
  { rewrite (interp_EBin G i op l r (interp_in_not_agg G l li al' Hli Hinl) (interp_in_not_agg G r ri ar' Hri Hinr)), Hli.
    cbn [bind]. rewrite Hri. reflexivity. }
  intros _.
  (* a representative t' of the class of t among the candidate operand types *)
  assert (Hrep : exists t', In t' (dedup (li ++ ri)) /\ sty_eqb t t' = true).
  { apply dedup_in. apply orb_true_iff in Hor. destruct Hor as [Hat|Hat].
    - exists al'. split; [apply in_or_app; left; exact Hinl|].
      rewrite <- (sty_eqb_cong al t Hat al'). exact Heql.
    - exists ar'. split; [apply in_or_app; right; exact Hinr|].
      rewrite <- (sty_eqb_cong ar t Hat ar'). exact Heqr. }
  destruct Hrep as (t' & Hint' & Htt').
  assert (Hu : t' = SUInt -> existsb (sty_eqb SUInt) li && existsb (sty_eqb SUInt) ri = true).
  { intros Ht'. subst t'. apply sty_eqb_SUInt_r in Htt'. subst t.
    apply fits_SUInt in Hfl. apply fits_SUInt in Hfr. subst al ar.
    apply andb_true_iff. split; apply existsb_exists.
    - exists al'. split; assumption.
    - exists ar'. split; assumption. }
  apply existsb_exists. exists (op_result op t'). split.
  - unfold op_interps. apply in_flat_map. exists t'. split.
    + unfold op_types. apply filter_In. split; [exact Hint'|].
      rewrite <- (op_class_ok_cong op t t' Hord Htt'), Hcls, <- (ops_visible_cong G t t' Htt'), Hvis.
      cbn [andb]. destruct t'; try reflexivity. apply Hu. reflexivity.
    + apply in_repeat_pos. apply mul_ge1.
      * apply (count_fits_in t' al' li Hinl). rewrite <- (fits_cong_l t t' al' Htt'). exact Hfl'.
      * apply (count_fits_in t' ar' ri Hinr). rewrite <- (fits_cong_l t t' ar' Htt'). exact Hfr'.
  - destruct op; cbn [op_result]; try exact Htt'; reflexivity.
Qed.

Lemma typing_sound_all G :
  (forall e a, HasTy md GE G e a -> Pe G e a) /\
  (forall ns ts a, ArgsOk md GE G ns ts a -> Pa G ns ts a) /\
  (forall ns ts a, NamedOk md GE G ns ts a -> Pn G ns ts a) /\
  (forall t e, RootOk md GE G t e -> Pr G t e) /\
  (forall all fs els, FieldsOk md GE G all fs els -> Pf G all fs els) /\
  (forall el n els, ElemsOk md GE G el n els -> Pl G el n els).
Proof.
  apply (typing_mutind md GE G (Pe G) (Pa G) (Pn G) (Pr G) (Pf G) (Pl G)).
  - (* HT_Int *) intros i v. exists [SUInt]. split; reflexivity.
  - (* HT_Bit *) intros i b. exists [SBit; SChar]. split; reflexivity.
  - (* HT_Nam *) intros n l a Hl Hex. exists l. split; [exact Hl|]. intros _. exact Hex.
  - (* HT_Call *)
    intros f a bs ps r Hbs Hin _ (al & Hal & ais & Hassoc & Hways).
    exists (flat_map (fun c => repeat (snd c) (call_ways (fst c) al)) (funs_of bs)). split.
    { rewrite interp_ECall, Hbs. cbn [bind]. rewrite Hal. reflexivity. }
    intros Hrefl. apply existsb_exists. exists r. split; [|exact Hrefl].
    apply (in_call_interps ps r (funs_of bs) al Hin). unfold call_ways. rewrite Hassoc. exact Hways.
  - (* HT_Bin *)
    intros i op l r al ar t _ IHl _ IHr Hfl Hfr Hor Hcls Hord Hvis.
    exact (bin_case G i op l r al ar t IHl IHr Hfl Hfr Hor Hcls Hord Hvis).
  - (* HT_BinAggR *)
    intros i op l r li t Hl Hr Hli Hat _ IHr. unfold Pr in IHr.
    exists [op_result op t]. split.
    { rewrite interp_EBin_full, Hr, Hl, Hli. cbn [bind]. rewrite Hat, IHr. reflexivity. }
    intros Hrefl. cbn [existsb]. rewrite Hrefl. reflexivity.
  - (* HT_BinAggL *)
    intros i op l r ri t Hl Hr Hri Hat _ IHl. unfold Pr in IHl.
    exists [op_result op t]. split.
    { rewrite interp_EBin_full, Hr, Hl, Hri. cbn [bind]. rewrite Hat, IHl. reflexivity. }
    intros Hrefl. cbn [existsb]. rewrite Hrefl. reflexivity.
  - (* HT_OrdArr *)
    intros i l r lst Hi Hex. exists lst. split; [exact Hi|]. intros _. exact Hex.
  - (* HT_Not *)
    intros i e t _ (li & Hli & Hex) Ht.
    exists (filter (fun t => match t with SBool | SBit => true | _ => false end) li). split.
    { rewrite interp_ENot, Hli. reflexivity. }
    intros Hrefl. specialize (Hex Hrefl). apply existsb_exists in Hex. destruct Hex as (x & Hx & Htx).
    apply existsb_exists. exists x. split; [|exact Htx]. apply filter_In. split; [exact Hx|].
    destruct t; try discriminate Ht; destruct x; cbn [sty_eqb] in Htx; try discriminate Htx; reflexivity.
  - (* HT_Qual *)
    intros tm e t Hres _ IH. exists [t]. split.
    { rewrite interp_EQual, Hres. cbn [bind]. unfold Pr in IH. rewrite IH. reflexivity. }
    intros Hrefl. cbn [existsb]. rewrite Hrefl. reflexivity.
  - (* AO_Nil *) exists []. split; [reflexivity|]. exists []. split; [reflexivity|]. cbn [ways]. lia.
  - (* AO_Pos *)
    intros x ns t ts e a r _ IHe Hf _ (al & Hal & ais & Hassoc & Hways).
    destruct (Pe_use G e a t IHe Hf) as (l & Hl & _ & _ & _ & _ & Hc).
    exists ((ChPos, l) :: al). split.
    { rewrite interp_args_cons, Hl. cbn [bind]. rewrite Hal. reflexivity. }
    exists (l :: ais). split; [exact (assoc_pos x ns l al ais Hassoc)|].
    cbn [ways]. apply mul_ge1; assumption.
  - (* AO_Named *)
    intros ns ts r Hnd _ (al & Hal & Hn). exists al. split; [exact Hal|].
    exact (Named_assoc ns ts al Hn Hnd).
  - (* NO_Nil *) exists []. split; [reflexivity|constructor].
  - (* NO_Cons *)
    intros o ns t ts e a r _ IHe Hf _ (al & Hal & Hn).
    destruct (Pe_use G e a t IHe Hf) as (l & Hl & _ & _ & _ & _ & Hc).
    exists ((ChName o, l) :: al). split.
    { rewrite interp_args_cons, Hl. cbn [bind]. rewrite Hal. reflexivity. }
    constructor; assumption.
  - (* RO_Expr *)
    intros t e a Hagg _ IHe Hf Hun. unfold Pr.
    destruct (Pe_use G e a t IHe Hf) as (l & Hl & _ & _ & _ & _ & Hc).
    rewrite (root_nonagg G t e Hagg), Hl. cbn [bind].
    unfold unamb in Hun. rewrite Hl in Hun.
    destruct (count_fits t l) as [|[|k]]; [lia|reflexivity|].
    cbn [Nat.leb orb] in Hun. rewrite Hun. reflexivity.
  - (* RO_Rec *)
    intros u n fs i els Hp _ IH. unfold Pr. rewrite (root_rec G u n fs i els Hp). apply IH.
  - (* RO_Arr *)
    intros u n len el i els Hp _ IH. unfold Pr. rewrite (root_arr G u n len el i els Hp). apply IH.
  - (* FO_Nil *) intros all i. reflexivity.
  - (* FO_Pos *)
    intros all ft fs e r _ IHe _ IHr i. unfold Pr in IHe.
    rewrite root_fields_pos, IHe. cbn [bind]. apply IHr.
  - (* FO_Named *)
    intros all fs f x e r Hfind Hex Hnp _ IHe _ IHr i. unfold Pr in IHe.
    rewrite root_fields_named, Hfind, Hex, Hnp, IHe. cbn [guard bind negb]. apply IHr.
  - (* FO_Others *)
    intros all ft fs e Hsame _ IHe i. unfold Pr in IHe.
    rewrite root_fields_others, Hsame. cbn [guard bind]. exact IHe.
  - (* EO_Nil *) intros el i. reflexivity.
  - (* EO_Pos *)
    intros el n e r _ IHe _ IHr i. unfold Pr in IHe.
    rewrite root_elems_pos, IHe. cbn [bind]. apply IHr.
  - (* EO_Others *)
    intros el n e _ IHe i. rewrite root_elems_others. exact IHe.
Qed.

End Sound.

(* ------------------------------------------------------------------------------------------ *)
(* the theorems                                                                                 *)
(* ------------------------------------------------------------------------------------------ *)

Lemma sty_eqb_refl_all (a : sty) : sty_eqb a a = true.
Proof. destruct a; cbn [sty_eqb]; try reflexivity; rewrite !N.eqb_refl; reflexivity. Qed.

(* an expression with a derivation of type a has an interpretation of type a *)
Theorem hasty_sound : forall md GE G e a,
  HasTy md GE G e a -> exists l, interp md GE G e = Ok l /\ existsb (sty_eqb a) l = true.
Proof.
  intros md GE G e a Hty.
  destruct (proj1 (typing_sound_all md GE G) e a Hty) as (l & Hl & Hex).
  exists l. split; [exact Hl|]. apply Hex. exact (sty_eqb_refl_all a).
Qed.

(* an expression with a derivation of type a (other than the error type) has an interpretation of type a *)
Theorem hasty_sound_partial : forall md GE G e a,
  HasTy md GE G e a -> a <> SErr -> exists l, interp md GE G e = Ok l /\ existsb (sty_eqb a) l = true.
Proof.
  intros md GE G e a Hty Ha.
  destruct (proj1 (typing_sound_all md GE G) e a Hty) as (l & Hl & Hex).
  exists l. split; [exact Hl|]. apply Hex. exact (sty_eqb_refl a Ha).
Qed.

(* ... in particular one that fits wherever a fits *)
Theorem hasty_sound_fits : forall md GE G e a t,
  HasTy md GE G e a -> fits t a = true ->
  exists l, interp md GE G e = Ok l /\ existsb (sty_eqb a) l = true /\ (count_fits t l >= 1)%nat.
Proof.
  intros md GE G e a t Hty Hf.
  destruct (Pe_use md GE G e a t (proj1 (typing_sound_all md GE G) e a Hty) Hf)
    as (l & Hl & a' & Hin & Haa & _ & Hc).
  exists l. split; [exact Hl|]. split; [|exact Hc].
  apply existsb_exists. exists a'. split; assumption.
Qed.

(* every derivation has an interpretation list at all (also for a = SErr) *)
Theorem hasty_interp_ok : forall md GE G e a, HasTy md GE G e a -> exists l, interp md GE G e = Ok l.
Proof.
  intros md GE G e a Hty.
  destruct (proj1 (typing_sound_all md GE G) e a Hty) as (l & Hl & _). exists l. exact Hl.
Qed.

(* a derivable complete context is accepted *)
Theorem rootok_sound : forall md GE G t e, RootOk md GE G t e -> root md GE G t e = Ok tt.
Proof.
  intros md GE G t e Hr.
  exact (proj1 (proj2 (proj2 (proj2 (typing_sound_all md GE G)))) t e Hr).
Qed.

(* derivable statements are accepted *)
Lemma stmt_sound_all : forall md GE G,
  (forall s, StmtOk md GE G s -> check_stmt md GE G s = Ok tt) /\
  (forall ss, StmtsOk md GE G ss -> check_stmts md GE G ss = Ok tt) /\
  (forall t alts, AltsOk md GE G t alts -> check_calts md GE G t alts = Ok tt).
Proof.
  intros md GE.
  apply (stmt_typing_mutind md GE
           (fun G s => check_stmt md GE G s = Ok tt)
           (fun G ss => check_stmts md GE G ss = Ok tt)
           (fun G t alts => check_calts md GE G t alts = Ok tt)).
  - (* SO_Sig *)
    intros G i t e ty Htgt Hroot.
    change (check_stmt md GE G (SSig i t e))
      with (ty <- check_target md GE G KSig t ;; root md GE G ty e).
    rewrite Htgt. cbn [bind]. exact (rootok_sound md GE G ty e Hroot).
  - (* SO_Var *)
    intros G i t e ty Htgt Hroot.
    change (check_stmt md GE G (SVar i t e))
      with (ty <- check_target md GE G KVar t ;; root md GE G ty e).
    rewrite Htgt. cbn [bind]. exact (rootok_sound md GE G ty e Hroot).
  - (* SO_If *)
    intros G i c th el Hc _ IHth _ IHel.
    change (check_stmt md GE G (SIf i c th el))
      with (root md GE G SBool c ;;; check_stmts md GE G th ;;; check_stmts md GE G el).
    rewrite (rootok_sound md GE G SBool c Hc). cbn [bind]. rewrite IHth. cbn [bind]. exact IHel.
  - (* SO_Case *)
    intros G i sel alts oth o Hobj Hsel Hkeys _ IHalts _ IHoth.
    change (check_stmt md GE G (SCase i sel alts oth))
      with (o <- obj_name md GE G sel ;;
            guard (match snd o with SEnum _ _ _ | SInt | SIntT _ _ | SBool | SBit => true | _ => false end)
                  (root_nid_name sel) Other ;;;
            guard (nodup_keys (map cchoice_key (calts_choices alts))) i Conservative ;;;
            check_calts md GE G (snd o) alts ;;;
            check_stmts md GE G oth).
    rewrite Hobj. cbn [bind]. rewrite Hsel, Hkeys. cbn [guard bind]. rewrite IHalts. cbn [bind]. exact IHoth.
  - (* SO_For *)
    intros G i v lo hi b G' Hdecl _ IHb.
    change (check_stmt md GE G (SFor i v lo hi b))
      with (G' <- declare (push G) v (BObj KConst MNone SInt) ;; check_stmts md GE G' b).
    rewrite Hdecl. cbn [bind]. exact IHb.
  - (* SO_While *)
    intros G i c b Hc _ IHb.
    change (check_stmt md GE G (SWhile i c b))
      with (root md GE G SBool c ;;; check_stmts md GE G b).
    rewrite (rootok_sound md GE G SBool c Hc). cbn [bind]. exact IHb.
  - (* SO_Call *) intros G f a Hcall. exact Hcall.
  - (* SO_RetF *)
    intros G i e t Hret Hroot.
    change (check_stmt md GE G (SRet i (Some e)))
      with (match e_ret G, Some e with
            | Some (Some t), Some e => root md GE G t e
            | Some None, None => Ok tt
            | _, _ => Bad i Other
            end).
    rewrite Hret. exact (rootok_sound md GE G t e Hroot).
  - (* SO_RetP *)
    intros G i Hret.
    change (check_stmt md GE G (SRet i None))
      with (match e_ret G, @None expr with
            | Some (Some t), Some e => root md GE G t e
            | Some None, None => Ok tt
            | _, _ => Bad i Other
            end).
    rewrite Hret. reflexivity.
  - (* SO_Null *) intros G i. reflexivity.
  - (* SSO_Nil *) intros G. reflexivity.
  - (* SSO_Cons *)
    intros G s r _ IHs _ IHr.
    change (check_stmts md GE G (SCons s r)) with (check_stmt md GE G s ;;; check_stmts md GE G r).
    rewrite IHs. cbn [bind]. exact IHr.
  - (* AL_Nil *) intros G t. reflexivity.
  - (* AL_Cons *)
    intros G t cs b r Hcs _ IHb _ IHr.
    change (check_calts md GE G t (CACons cs b r))
      with (check_list (check_cchoice G t) cs ;;; check_stmts md GE G b ;;; check_calts md GE G t r).
    rewrite Hcs. cbn [bind]. rewrite IHb. cbn [bind]. exact IHr.
Qed.

Theorem stmtsok_sound : forall md GE G ss, StmtsOk md GE G ss -> check_stmts md GE G ss = Ok tt.
Proof. intros md GE G ss Hss. exact (proj1 (proj2 (stmt_sound_all md GE G)) ss Hss). Qed.

Theorem stmtok_sound : forall md GE G s, StmtOk md GE G s -> check_stmt md GE G s = Ok tt.
Proof. intros md GE G s Hs. exact (proj1 (stmt_sound_all md GE G) s Hs). Qed.

(* erasure of typed syntax *)
Theorem erase_root_WT : forall md GE G t (e : troot md GE G t), root md GE G t (erase_root md GE e) = Ok tt.
Proof. intros md GE G t [e h]. exact (rootok_sound md GE G t e h). Qed.
Theorem erase_stmts_WT : forall md GE G (s : tstmts md GE G), check_stmts md GE G (erase_stmts md GE s) = Ok tt.
Proof. intros md GE G [s h]. exact (stmtsok_sound md GE G s h). Qed.
