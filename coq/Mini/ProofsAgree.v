(* Mini/ProofsAgree.v — the checker only looks at the identifiers a phrase mentions (agreement lemmas), and the two
   rewrites that rest on it: exchanging two adjacent independent declarations (R1) and adding an unused declaration
   (R5) preserve validity (C05).  Proofs.  Functional extensionality (Coq.Logic.FunctionalExtensionality) may be used:
   environments are functions. *)
From Coq Require Import List NArith Arith Bool Lia FunctionalExtensionality.
Import ListNotations.
From RH Require Import Mini.Syntax Mini.Sem Mini.Walk Mini.Faults Mini.Rewrites.
Open Scope N_scope.

(* PINNED STATEMENTS (to be proved; do not change the statements) *)

Theorem swap_valid : forall p s,
  Valid p -> applicable (RSwap s) p = true -> Valid (apply_rewrite (RSwap s) p).
Proof.
Admitted.

Theorem adddecl_valid : forall p s x k,
  Valid p -> applicable (RAddDecl s x k) p = true -> Valid (apply_rewrite (RAddDecl s x k) p).
Proof.
Admitted.
