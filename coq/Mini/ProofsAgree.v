(* Mini/ProofsAgree.v — the checker only looks at the identifiers a phrase mentions (agreement lemmas), and the two
   rewrites that rest on it: exchanging two adjacent independent declarations (R1) and adding an unused declaration
   (R5) preserve validity (C05).  Proofs.  Functional extensionality (Coq.Logic.FunctionalExtensionality) may be used:
   environments are functions.

   Helper files: Mini/ProofsAgreeBase.v (agreement lemmas, lifting to programs), Mini/ProofsAgreeSwap.v (R1),
   Mini/ProofsAgreeAdd.v (R5). *)
From Coq Require Import List NArith Arith Bool Lia FunctionalExtensionality.
Import ListNotations.
From RH Require Import Mini.Syntax Mini.Sem Mini.Walk Mini.Faults Mini.Rewrites.
From RH Require Import Mini.ProofsAgreeBase Mini.ProofsAgreeSwap Mini.ProofsAgreeAdd.
Open Scope N_scope.

Lemma dunit_eta u : DUnit (u_ctx u) (u_body u) = u.
Proof. destruct u; reflexivity. Qed.

Lemma swap_ubody_id s b : ~ In s (dsites_ubody b) -> swap_ubody s b = b.
Proof.
  destruct b; cbn [dsites_ubody swap_ubody]; intros H; try reflexivity.
  - rewrite swap_decls_id; [reflexivity|exact H].
  - rewrite swap_decls_id; [reflexivity|exact H].
  - rewrite swap_decls_id, (proj2 (swap_concs_id s)); [reflexivity| |]; intro Hin; apply H; apply in_or_app; [right|left]; exact Hin.
  - rewrite swap_decls_id; [reflexivity|exact H].
Qed.
Lemma swap_ok_ubody_site s b : swap_ok_ubody s b = true -> In s (dsites_ubody b).
Proof.
  destruct b; cbn [dsites_ubody swap_ok_ubody]; try discriminate; intros H; try (eapply swap_ok_site; exact H).
  apply orb_true_iff in H. apply in_or_app. destruct H as [H|H]; [left; eapply swap_ok_site; exact H|right; apply (proj2 (swap_ok_concs_site s)); exact H].
Qed.

(* PINNED STATEMENTS *)

Theorem swap_valid : forall p s,
  Valid p -> applicable (RSwap s) p = true -> Valid (apply_rewrite (RSwap s) p).
Proof.
  intros p s HV HA. unfold applicable in HA. apply andb_true_iff in HA. destruct HA as [Hnd Hex].
  apply nodup_list_sound in Hnd. unfold Valid, check_program, check_program_md in *.
  cbn [apply_rewrite]. rewrite map_units_names.
  apply bind_ok_inv in HV. destruct HV as [x0 [H0 HV]]. rewrite H0. cbn [bind].
  apply bind_ok_inv in HV. destruct HV as [GE' [HGE HV]].
  set (f := fun u : dunit => DUnit (u_ctx u) (swap_ubody s (u_body u))).
  assert (HL : check_libs Exactly [] (map l_name p) 0 (map (map_lib f) p) = Ok GE').
  { apply (lift_libs Exactly (map l_name p) s f (fun u => swap_ok_ubody s (u_body u)) ginv (fun _ => True)).
    - intros u Hu. unfold f. rewrite swap_ubody_id; [apply dunit_eta|]. intro Hin. apply Hu. apply dsites_dunit_nids. exact Hin.
    - intros u Hu. apply dsites_dunit_nids. apply swap_ok_ubody_site. exact Hu.
    - intros GE lib uid u g GI _ Hh Nd Hc. apply swap_unit_ok; assumption.
    - intros GE lib uid u g GI _ Hc. eapply check_unit_ginv; eassumption.
    - intros g [].
    - apply Forall_forall. intros l _. apply Forall_forall. intros u _. exact I.
    - exact Hnd.
    - exact Hex.
    - exact HGE. }
  change (map_units f p) with (map (map_lib f) p). rewrite HL. cbn [bind]. exact HV.
Qed.

(* `adddecl_valid` needs three side conditions (see the HISTORY block at the end of this file), stated here as
   hypotheses and decided by `applicable`: the fresh identifier is not one of the two predefined literals, and — unless the
   inserted declaration does not mention `true` (k = 0, k = 2) — the identifier id_true is never declared in p. *)
Definition never_declared (z : ident) (p : program) : Prop := forall n, ~ In (n, OOther, z) (occs_program p).
Definition adddecl_side (p : program) (x : ident) (k : N) : Prop :=
  x <> id_true /\ x <> id_false /\ (k = 0 \/ k = 2 \/ never_declared id_true p).

Lemma add_sites_hit s p :
  memb s (add_sites p) = true ->
  existsb (fun l => existsb (fun u => memb s (asites_ubody (u_body u))) (l_units l)) p = true.
Proof.
  intros H. apply memb_In in H. unfold add_sites in H. apply in_flat_map in H. destruct H as [l [Hl H]].
  apply in_flat_map in H. destruct H as [u [Hu H]].
  apply existsb_exists. exists l. split; [exact Hl|]. apply existsb_exists. exists u. split; [exact Hu|].
  apply memb_In. destruct (u_body u); exact H.
Qed.

Theorem adddecl_valid_partial : forall p s x k,
  Valid p -> applicable (RAddDecl s x k) p = true -> adddecl_side p x k ->
  Valid (apply_rewrite (RAddDecl s x k) p).
Proof.
  intros p s x k HV HA [Hx1 [Hx2 Hk]]. unfold applicable in HA. apply andb_true_iff in HA. destruct HA as [Hnd HA].
  apply andb_true_iff in HA. destruct HA as [HA _].
  apply andb_true_iff in HA. destruct HA as [HA Hsite]. apply andb_true_iff in HA. destruct HA as [Hfresh Hx0].
  apply negb_true_iff in Hfresh. apply memb_false in Hfresh. apply negb_true_iff in Hx0. apply N.eqb_neq in Hx0.
  apply nodup_list_sound in Hnd. unfold Valid, check_program, check_program_md in *.
  cbn [apply_rewrite]. rewrite map_units_names.
  apply bind_ok_inv in HV. destruct HV as [x0 [H0 HV]]. rewrite H0. cbn [bind].
  apply bind_ok_inv in HV. destruct HV as [GE' [HGE HV]].
  set (m := max_nid p + 1).
  set (f := fun u : dunit => DUnit (u_ctx u) (add_ubody s m x k (u_body u))).
  assert (Hxv : vis0 x = []) by (apply vis0_other; assumption).
  assert (HU : Forall (fun l => Forall (fun u => freshl [x] (oc_dunit u) /\ (k = 0 \/ k = 2 \/ ndl id_true (oc_dunit u))) (l_units l)) p).
  { apply Forall_forall. intros l Hl. apply Forall_forall. intros u Hu. split.
    - apply Forall_forall. intros t Ht [E|[]]. apply Hfresh. unfold idents_program. apply in_or_app. left.
      unfold idents_of. rewrite E. apply in_map. unfold occs_program. apply in_flat_map. exists l. split; [exact Hl|].
      apply in_flat_map. exists u. split; [exact Hu|exact Ht].
    - destruct Hk as [Hk|[Hk|Hk]]; [left; exact Hk|right; left; exact Hk|]. right. right. intros n Hn. apply (Hk n).
      unfold occs_program. apply in_flat_map. exists l. split; [exact Hl|]. apply in_flat_map. exists u. split; [exact Hu|exact Hn]. }
  assert (HL : check_libs Exactly [] (map l_name p) 0 (map (map_lib f) p) = Ok GE').
  { apply (lift_libs Exactly (map l_name p) s f (fun u => memb s (asites_ubody (u_body u)))
             (fun _ GE => gprist x GE /\ (k = 0 \/ k = 2 \/ gprist id_true GE))
             (fun u => freshl [x] (oc_dunit u) /\ (k = 0 \/ k = 2 \/ ndl id_true (oc_dunit u)))).
    - intros u Hu. unfold f. rewrite add_ubody_id; [apply dunit_eta|]. intro Hin. apply Hu. apply dsites_dunit_nids. exact Hin.
    - intros u Hu. apply dsites_dunit_nids. apply asites_dsites. apply memb_In. exact Hu.
    - intros GE lib uid u g [GP GT] [Fr Nt] Hh Nd Hc. apply add_unit_ok; try assumption.
      + destruct GT as [GT|[GT|GT]]; [left; exact GT|right; left; exact GT|].
        destruct Nt as [Nt|[Nt|Nt]]; [left; exact Nt|right; left; exact Nt|]. right. right. split; assumption.
      + apply memb_In. exact Hh.
    - intros GE lib uid u g [GP GT] [Fr Nt] Hc. split.
      + eapply check_unit_gprist; [exact GP|apply freshl_ndl; exact Fr|exact Hc].
      + destruct GT as [GT|[GT|GT]]; [left; exact GT|right; left; exact GT|].
        destruct Nt as [Nt|[Nt|Nt]]; [left; exact Nt|right; left; exact Nt|]. right. right.
        eapply check_unit_gprist; eassumption.
    - split; [intros g []|]. right. right. intros g [].
    - exact HU.
    - exact Hnd.
    - apply add_sites_hit. exact Hsite.
    - exact HGE. }
  change (map_units f p) with (map (map_lib f) p). rewrite HL. cbn [bind]. exact HV.
Qed.

(* `applicable` now carries the side condition (decidably), so the pinned statement holds *)
Lemma never_declared_b_sound z p : never_declared_b z p = true -> never_declared z p.
Proof.
  unfold never_declared_b, never_declared. intros H n Hin. apply negb_true_iff in H.
  apply not_true_iff_false in H. apply H. apply existsb_exists. exists (n, OOther, z).
  split; [exact Hin|]. cbn [fst snd]. apply N.eqb_refl.
Qed.

Theorem adddecl_valid : forall p s x k,
  Valid p -> applicable (RAddDecl s x k) p = true -> Valid (apply_rewrite (RAddDecl s x k) p).
Proof.
  intros p s x k HV HA. apply adddecl_valid_partial; [exact HV|exact HA|].
  unfold applicable in HA. apply andb_true_iff in HA. destruct HA as [_ HA].
  apply andb_true_iff in HA. destruct HA as [_ HS].
  apply andb_true_iff in HS. destruct HS as [HS Hk]. apply andb_true_iff in HS. destruct HS as [H1 H2].
  apply negb_true_iff in H1. apply N.eqb_neq in H1. apply negb_true_iff in H2. apply N.eqb_neq in H2.
  split; [exact H1|]. split; [exact H2|].
  apply orb_true_iff in Hk. destruct Hk as [Hk|Hk].
  - apply orb_true_iff in Hk. destruct Hk as [Hk|Hk]; apply N.eqb_eq in Hk; [left|right; left]; exact Hk.
  - right. right. apply never_declared_b_sound. exact Hk.
Qed.

(* regression: the program that refuted the statement before `applicable` carried the side condition *)
Definition adddecl_cex : program :=
  [Lib 10 [DUnit [] (UEnt (Occ 100 11) [] []);
           DUnit [] (UArch (Occ 101 12) (Occ 102 11) [DSignal (Occ 103 13) TMBit None] CNil)]].
Example adddecl_cex_not_applicable :
  Valid adddecl_cex /\ applicable (RAddDecl 103 id_false 0) adddecl_cex = false /\
  check_program (apply_rewrite (RAddDecl 103 id_false 0) adddecl_cex) = Bad 104 Conservative.
Proof. vm_compute. repeat split; reflexivity. Qed.

(* ------------------------------------------------------------------------------------------------------------------
   HISTORY — the statement was FALSE for the first definition of `applicable` (checked with vm_compute):

   Theorem adddecl_valid : forall p s x k,
     Valid p -> applicable (RAddDecl s x k) p = true -> Valid (apply_rewrite (RAddDecl s x k) p).

   Counterexample 1 (x may be a predefined literal).
     p1 = [Lib 10 [DUnit [] (UEnt (Occ 100 11) [] []);
                   DUnit [] (UArch (Occ 101 12) (Occ 102 11) [DSignal (Occ 103 13) TMBit None] CNil)]]
     check_program p1 = Ok tt, applicable (RAddDecl 103 2 0) p1 = true (2 = id_false does not occur in p1 and is
     not 0), but check_program (apply_rewrite (RAddDecl 103 2 0) p1) = Bad 104 Conservative: the inserted constant
     would hide the predefined literal (no-hiding restriction of `declare`).  Likewise for x = 1 = id_true.
   Counterexample 2 (k >= 3, or k = 1 in a package body: the inserted declaration is
     `constant x : boolean := true`).  Two packages each declare `function 1 (a : integer) return integer`
     (identifier 1 = id_true; accepted: it overloads the literal) with bodies; an architecture imports both with
     `use l.p.all`: the two functions have the same profile and different homes, so `true` is incoherent there
     (`vis_occ` answers Conservative) — but the architecture never uses `true`, so p is Valid.  With x = 40, k = 3
     the rewrite is applicable and the result is rejected (Bad _ Conservative at the inserted `true`).
   Missing hypotheses: x <> id_true, x <> id_false, and (k = 0 \/ k = 2 \/ id_true is never declared in p) — this
   is `adddecl_side`, and `adddecl_valid_partial` above is the theorem with it.  (A natural repair of `applicable`:
   require first_user_ident <= x, and that no declared name of p is below first_user_ident.)
   ------------------------------------------------------------------------------------------------------------------ *)
